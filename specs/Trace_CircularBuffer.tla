------------------------- MODULE Trace_CircularBuffer -------------------------
(***************************************************************************)
(* P for the circular buffer channel of swimos_sync, as a trace            *)
(* specification over recorded call histories.  A call is recorded as an   *)
(* invocation and a response event, so the same specification judges       *)
(*   - sequential histories (every invocation directly followed by its     *)
(*     response: the replayed behaviours of CircularBuffer.tla),           *)
(*   - histories with one call of the sender inside a poll of the receiver *)
(*     (the `recvx` steps of the replay), and                              *)
(*   - histories of two free-running threads (events ordered by a global   *)
(*     atomic stamp; an invocation is stamped before the call starts, a    *)
(*     response after it returned).                                        *)
(*                                                                         *)
(* What the channel promises (doc comments of channel(), Sender, Receiver):*)
(*   - try_send never waits; it fails only when the receiver is gone;      *)
(*   - the receiver gets the values in the order sent, none twice; a value *)
(*     is given up only when the buffer is full, and then the OLDEST one,  *)
(*     so the latest value sent is never lost;                             *)
(*   - `pending` only when there is nothing to receive and the sender is   *)
(*     alive; end-of-stream only when the sender is gone AND the buffer is *)
(*     empty;                                                              *)
(*   - no lost wake-up: a receiver that was told to wait and whose waker   *)
(*     has not fired has nothing to receive and the sender is alive.       *)
(*                                                                         *)
(* Between its invocation and its response a call takes effect in atomic   *)
(* steps chosen by TLC (the linearisation is searched, not guessed):       *)
(*   try_send :  look at the receiver; then [buffer full: give up the      *)
(*               oldest value]; then put the value in.  "Full" counts a    *)
(*               value the receiver has taken but whose slot it has not    *)
(*               yet released (held), which is why an overlapping send may *)
(*               give up a value although the receiver has just made room. *)
(*   poll     :  take the oldest value, then release its slot; or see      *)
(*               "empty and sender alive" (pending) / "empty and sender    *)
(*               gone" (closed) in one look.                               *)
(* With no overlap this is exactly: send = keep the Cap newest.            *)
(*                                                                         *)
(* Known finding KCIRC-F1 (deviation, enabled only when the constant KF    *)
(* contains it): a poll that saw the buffer empty while the sender was     *)
(* alive answers `closed` later - when the sender is gone - although a     *)
(* value has arrived in between.                                           *)
(*                                                                         *)
(* Events (ndjson):                                                        *)
(*   {"k":"reset","cap":c,"conc":0|1}                                      *)
(*   {"k":"inv","t":"S","op":"send","v":v} {"k":"inv","t":"S","op":"dropS"}*)
(*   {"k":"inv","t":"R","op":"recv","w":w} {"k":"inv","t":"R","op":"dropR"}*)
(*   {"k":"res","t":"S","r":"ok|err|done","wl":[wakers woken]}             *)
(*   {"k":"res","t":"R","r":"ready|pending|closed|done","v":v,"wl":[..]}   *)
(*   {"k":"idle"}   (conc = 1) the receiver got `pending`, its waker has   *)
(*                  not fired and the sender has finished all its calls    *)
(* conc = 0: responses carry the wakers woken during the call (wl) and the *)
(* no-lost-wake-up rule is evaluated whenever no call is in progress.      *)
(* conc = 1: the receiver thread polls again only after its waker fired;   *)
(* the rule is evaluated at `idle`.                                        *)
(***************************************************************************)
EXTENDS Naturals, Sequences, FiniteSets, TLC, Json, IOUtils

CONSTANT KF      \* ids of the open known findings whose deviations are enabled

Rec == ndJsonDeserialize(IOEnv.TRACE)

VARIABLES i, cap, conc, q, held, sAlive, rAlive,
          sPh, sVal,     \* the sender's call in progress: idle | inv_send | loop | drop | inv_dropS | <result>
          rPh, rVal, rW, \* the receiver's call in progress: idle | inv_recv | took | empty | inv_dropR | <result>
          rWait,         \* conc = 0: waker of the latest pending poll that has not fired yet (0 = none)
          kf             \* deviations taken on this path
vars == <<i, cap, conc, q, held, sAlive, rAlive, sPh, sVal, rPh, rVal, rW, rWait, kf>>

Has(e, f) == f \in DOMAIN e
Max(a, b) == IF a > b THEN a ELSE b
InSeq(x, s) == \E j \in 1..Len(s) : s[j] = x
Woke(e) == IF Has(e, "wl") THEN e.wl ELSE <<>>

TraceInit == /\ i = 1 /\ cap = 1 /\ conc = 0 /\ q = <<>> /\ held = 0 /\ sAlive = TRUE /\ rAlive = TRUE
             /\ sPh = "idle" /\ sVal = 0 /\ rPh = "idle" /\ rVal = 0 /\ rW = 0 /\ rWait = 0 /\ kf = {}
             /\ TLCSet(1, 1) /\ TLCSet(2, {"?"})

-----------------------------------------------------------------------------
\* the atomic steps of the calls in progress

SStep ==
    \/ /\ sPh = "inv_send" /\ sPh' = IF rAlive THEN "loop" ELSE "err"
       /\ UNCHANGED <<q, held, sAlive, rAlive, rPh, rVal, kf>>
    \/ /\ sPh = "loop" /\ Len(q) + held < cap
       /\ q' = Append(q, sVal) /\ sPh' = "ok"
       /\ UNCHANGED <<held, sAlive, rAlive, rPh, rVal, kf>>
    \/ /\ sPh = "loop" /\ Len(q) + held >= cap /\ sPh' = "drop"
       /\ UNCHANGED <<q, held, sAlive, rAlive, rPh, rVal, kf>>
    \/ /\ sPh = "drop" /\ sPh' = "loop"
       /\ q' = IF q # <<>> THEN Tail(q) ELSE q
       /\ UNCHANGED <<held, sAlive, rAlive, rPh, rVal, kf>>
    \/ /\ sPh = "inv_dropS" /\ sAlive' = FALSE /\ sPh' = "done"
       /\ UNCHANGED <<q, held, rAlive, rPh, rVal, kf>>

RStep ==
    \/ /\ rPh = "inv_recv" /\ q # <<>>
       /\ rVal' = Head(q) /\ q' = Tail(q) /\ held' = 1 /\ rPh' = "took"
       /\ UNCHANGED <<sAlive, rAlive, sPh, kf>>
    \/ /\ rPh = "took" /\ held' = 0 /\ rPh' = "ready"
       /\ UNCHANGED <<q, sAlive, rAlive, sPh, rVal, kf>>
    \/ /\ rPh = "inv_recv" /\ q = <<>>
       /\ rPh' = IF sAlive THEN "pending" ELSE "closed"
       /\ UNCHANGED <<q, held, sAlive, rAlive, sPh, rVal, kf>>
    \/ /\ rPh = "inv_dropR" /\ rAlive' = FALSE /\ rPh' = "done"
       /\ UNCHANGED <<q, held, sAlive, sPh, rVal, kf>>
    \* KCIRC-F1: the emptiness the poll saw is stale by the time it sees the sender gone
    \/ /\ "KCIRC-F1" \in KF /\ rPh = "inv_recv" /\ q = <<>> /\ sAlive /\ rPh' = "empty"
       /\ UNCHANGED <<q, held, sAlive, rAlive, sPh, rVal, kf>>
    \/ /\ "KCIRC-F1" \in KF /\ rPh = "empty" /\ ~sAlive /\ q # <<>>
       /\ rPh' = "closed" /\ kf' = kf \cup {"KCIRC-F1"}
       /\ UNCHANGED <<q, held, sAlive, rAlive, sPh, rVal>>

Internal == /\ (SStep \/ RStep)
            /\ UNCHANGED <<i, cap, conc, sVal, rW, rWait>>

-----------------------------------------------------------------------------
\* the recorded events

Quiet(sp, rp) == sp = "idle" /\ rp = "idle"

Event(e) ==
    \/ /\ e.k = "reset"
       /\ cap' = e.cap /\ conc' = (IF Has(e, "conc") THEN e.conc ELSE 0)
       /\ q' = <<>> /\ held' = 0 /\ sAlive' = TRUE /\ rAlive' = TRUE
       /\ sPh' = "idle" /\ sVal' = 0 /\ rPh' = "idle" /\ rVal' = 0 /\ rW' = 0 /\ rWait' = 0 /\ kf' = kf
    \/ /\ e.k = "inv" /\ e.t = "S" /\ sPh = "idle" /\ sAlive
       /\ \/ e.op = "send" /\ sPh' = "inv_send" /\ sVal' = e.v
          \/ e.op = "dropS" /\ sPh' = "inv_dropS" /\ sVal' = sVal
       /\ UNCHANGED <<cap, conc, q, held, sAlive, rAlive, rPh, rVal, rW, rWait, kf>>
    \/ /\ e.k = "inv" /\ e.t = "R" /\ rPh = "idle" /\ rAlive
       /\ \/ e.op = "recv" /\ rPh' = "inv_recv" /\ rW' = (IF Has(e, "w") THEN e.w ELSE 1)
          \/ e.op = "dropR" /\ rPh' = "inv_dropR" /\ rW' = rW
       /\ UNCHANGED <<cap, conc, q, held, sAlive, rAlive, sPh, sVal, rVal, rWait, kf>>
    \/ /\ e.k = "res" /\ e.t = "S" /\ sPh = e.r /\ e.r \in {"ok", "err", "done"}
       /\ sPh' = "idle"
       /\ rWait' = IF rWait # 0 /\ InSeq(rWait, Woke(e)) THEN 0 ELSE rWait
       /\ UNCHANGED <<cap, conc, q, held, sAlive, rAlive, sVal, rPh, rVal, rW, kf>>
    \/ /\ e.k = "res" /\ e.t = "R" /\ rPh = e.r /\ e.r \in {"ready", "pending", "closed", "done"}
       /\ (e.r = "ready") => (Has(e, "v") /\ e.v = rVal)
       /\ rPh' = "idle"
       /\ rWait' = IF e.r = "pending" /\ conc = 0 /\ ~InSeq(rW, Woke(e)) THEN rW ELSE 0
       /\ UNCHANGED <<cap, conc, q, held, sAlive, rAlive, sPh, sVal, rVal, rW, kf>>
    \/ /\ e.k = "idle" /\ conc = 1 /\ Quiet(sPh, rPh) /\ rAlive
       \* the receiver is parked and nobody will wake it any more: legitimate only with nothing to receive
       /\ q = <<>> /\ sAlive
       /\ UNCHANGED <<cap, conc, q, held, sAlive, rAlive, sPh, sVal, rPh, rVal, rW, rWait, kf>>

\* no lost wake-up, whenever no call is in progress (sequential histories)
WakeRule == (conc' = 0 /\ Quiet(sPh', rPh') /\ rAlive' /\ rWait' # 0) => (q' = <<>> /\ sAlive')

Consume == /\ i <= Len(Rec)
           /\ Event(Rec[i])
           /\ WakeRule
           /\ i' = i + 1
           /\ TLCSet(1, Max(TLCGet(1), i + 1))
           /\ (i + 1 = Len(Rec) + 1) =>
                 (IF kf' = {} THEN TLCSet(2, {}) ELSE IF TLCGet(2) = {"?"} THEN TLCSet(2, kf') ELSE TRUE)

TraceNext == Consume \/ Internal

TraceSpec == TraceInit /\ [][TraceNext]_vars

SetToSeq(S) == IF S = {} THEN <<>> ELSE LET x == CHOOSE y \in S : TRUE IN <<x>> \o (IF S \ {x} = {} THEN <<>> ELSE <<CHOOSE y \in S \ {x} : TRUE>>)

TraceAccepted ==
    LET m == TLCGet(1)
        k == IF m = Len(Rec) + 1 /\ TLCGet(2) # {"?"} THEN SetToSeq(TLCGet(2)) ELSE <<>> IN
    /\ PrintT(<<"TRACE_RESULT", ToJson([accepted |-> (m = Len(Rec) + 1), matched |-> m - 1, total |-> Len(Rec), kf |-> k])>>)
    /\ m = Len(Rec) + 1
=============================================================================

------------------------------ MODULE DownlinkState ------------------------------
(***************************************************************************)
(* C08 - the state held by a value / map downlink equals the fold of the   *)
(* notifications it received since it linked; lifecycle callbacks fire in  *)
(* notification order with the true old / new values; on_synced fires      *)
(* exactly at Linked -> Synced and sees the state of that moment; the      *)
(* stand-alone client downlink and the agent-hosted downlink agree.        *)
(*                                                                         *)
(* The module has two layers.                                              *)
(*                                                                         *)
(*  P  (section PROPERTY) - pure operators, no variables: the reference    *)
(*     fold Apply / Fold, the set PSucc of replica states the statement    *)
(*     allows after an input, and PCbsOK, the callbacks it allows.         *)
(*     P leaves open what the statement leaves open: whether writes made   *)
(*     through the downlink's own handle are applied optimistically, how   *)
(*     the removals caused by take / drop are reported (one on_remove per  *)
(*     removed entry, in any order, with any map between "this and all     *)
(*     earlier reported entries removed" and the final map; or on_clear    *)
(*     when nothing is left), the order of on_event / on_set, whether      *)
(*     clearing an empty map is reported, event downlinks before sync.     *)
(*     Trace_DownlinkState.tla evaluates recorded executions with exactly  *)
(*     these operators.                                                    *)
(*                                                                         *)
(*  M  (section MECHANISM) - the two implementations, stepped in lock      *)
(*     step on the same input: one action per branch of                    *)
(*       client: swimos_downlink/src/task/{map,value,event}.rs             *)
(*               on_read (Linked / Synced / Event / Unlinked), on_event    *)
(*               (Update / Remove / Clear / Take / Drop), the write arm    *)
(*               of run_io (optimistic application of own writes)          *)
(*       hosted: swimos_agent/src/agent_model/downlink/hosted/{map,value,  *)
(*               event}/mod.rs next_event, MapDlState::{update, remove,    *)
(*               clear, take, drop}                                        *)
(*     Every action records in lastAct the callbacks (with arguments) and  *)
(*     the termination flag each implementation must produce; the harness  *)
(*     replays the inputs on the real downlinks and compares.              *)
(*                                                                         *)
(* TLC checks M |= P : FoldLawHosted / FoldLawClient (state = fold of the  *)
(* history, a history variable), MRefinesP (every M step is a P step with  *)
(* P-allowed callbacks), ImplsAgree (the two replicas and their callbacks  *)
(* coincide on well-behaved histories) and the callback laws.              *)
(*                                                                         *)
(* M describes the intended mechanism.  Where the unchanged client code     *)
(* departs from it (map.rs on_event: Clear applied only when dispatching;  *)
(* Take / Drop callbacks ignore the dispatch flag; Drop hands on_remove an *)
(* empty map) the departure is NOT in M: it is a named deviation step      *)
(* (F6a, F6b, F6c) of Trace_DownlinkState.tla, enabled only while the      *)
(* finding is listed as open in known_findings/C08.json.                   *)
(*                                                                         *)
(* Abstract data: keys 1..NK (ordered as the concrete keys are), values    *)
(* 1..NV, 0 = "no value".  A map is a function from a subset of 1..NK.     *)
(***************************************************************************)
EXTENDS Naturals, Sequences, FiniteSets, TLC

CONSTANTS Kinds,        \* subset of {"map", "value", "event"} : downlink kinds explored
          EwnsSet,      \* subset of BOOLEAN : settings of config.events_when_not_synced
          TouSet,       \* subset of BOOLEAN : settings of config.terminate_on_unlinked
          NK, NV,       \* keys 1..NK, values 1..NV
          Counts,       \* arguments of take / drop (subset of Nat; {} = no take / drop)
          LocalWrites,  \* interleave writes made through the downlink's own handle
          Illegal,      \* also send notifications outside the link grammar (absence of panics only)
          EnvFaults,    \* environment actions: every write handle dropped ; the downlink's output channel fails
          MaxLen        \* > 0 : enumerate all sequences up to this length ; 0 : unbounded (state graph)

VARIABLES cf,           \* [kind, ewns, tou] : chosen once
          st,           \* link status implied by the notifications: "U" "L" "S" "X" (terminated) "chaos"
          c,            \* data of the client replica   (map.rs State::{Linked,Synced}(map) / value.rs State)
          h,            \* data of the hosted replica   (HostedMapDownlink.state / ValueDlState)
          io,           \* [h : write handles still alive, o : output channel still open] - decides the IO mode:
                        \* client run_io Mode::{ReadWrite, Read}, hosted write_stream Active / Stopped
          lastAct,      \* the input just given and the outputs M expects (hidden from the VIEW)
          trace         \* history variable: all lastAct records so far

vars == <<cf, st, c, h, io, lastAct, trace>>

None == 0
Min(a, b) == IF a < b THEN a ELSE b

-----------------------------------------------------------------------------
(* Maps, callbacks, inputs                                                 *)
EmptyMap == << >>
Has(m, k) == k \in DOMAIN m
Get(m, k) == IF k \in DOMAIN m THEN m[k] ELSE None
Put(m, k, v) == [x \in DOMAIN m \cup {k} |-> IF x = k THEN v ELSE m[x]]
Restrict(m, S) == [x \in S |-> m[x]]
Del(m, k) == Restrict(m, DOMAIN m \ {k})
KeySeq(m) == SelectSeq([i \in 1..NK |-> i], LAMBDA k : k \in DOMAIN m)
\* the entries in key order, as the callbacks / the JSON interface show them
MapSeq(m) == LET ks == KeySeq(m) IN [i \in 1..Len(ks) |-> <<ks[i], m[ks[i]]>>]
FromPairs(s) == [k \in {s[i][1] : i \in 1..Len(s)} |->
                    LET i == CHOOSE j \in 1..Len(s) : s[j][1] = k IN s[i][2]]
PairSet(s) == {s[i] : i \in 1..Len(s)}

Empty(kind) == IF kind = "map" THEN EmptyMap ELSE None
Show(kind, d) == IF kind = "map" THEN MapSeq(d) ELSE d

\* a lifecycle callback with its arguments (uniform shape; unused arguments are 0 / <<>>)
Cb(name, key, old, new, map) == [cb |-> name, key |-> key, old |-> old, new |-> new, map |-> map]
CbLinked == Cb("linked", 0, 0, 0, <<>>)
CbUnlinked == Cb("unlinked", 0, 0, 0, <<>>)

MapEventKinds == {"update", "remove", "clear", "take", "drop"}
EventKinds == MapEventKinds \cup {"event"}
WriteKinds == {"w_update", "w_remove", "w_clear", "w_set"}
\* what the environment does to the downlink's write side: drop every handle ; close the output channel
EnvKinds == {"drop_handles", "out_fail"}
\* the link goes away underneath the downlink (no `unlinked` is delivered): an own write fails
\* (how = "write") or the input channel ends (how = "read"); whoever runs the downlink either
\* re-attaches it to fresh channels or gives it up
LinkLostKind == "link_lost"

\* the notification a write through the handle corresponds to
AsNotif(w) == CASE w.k = "w_update" -> [k |-> "update", key |-> w.key, val |-> w.val]
                [] w.k = "w_remove" -> [k |-> "remove", key |-> w.key]
                [] w.k = "w_clear"  -> [k |-> "clear"]
                [] OTHER            -> w

-----------------------------------------------------------------------------
(*                               PROPERTY (P)                              *)
(* Pure operators over a replica state s = [st, d].                        *)

\* number of keys of m that are <= k  (position of k in key order)
Rank(m, k) == Cardinality({x \in DOMAIN m : x <= k})

\* what one event notification does to the data: the reference semantics
Apply(kind, d, e) ==
    IF kind = "map" THEN
        CASE e.k = "update" -> Put(d, e.key, e.val)
          [] e.k = "remove" -> Del(d, e.key)
          [] e.k = "clear"  -> EmptyMap
          [] e.k = "take"   -> Restrict(d, {x \in DOMAIN d : Rank(d, x) <= e.n})   \* keep the first n
          [] e.k = "drop"   -> Restrict(d, {x \in DOMAIN d : Rank(d, x) > e.n})    \* remove the first n
          [] OTHER          -> d
    ELSE IF kind = "value" /\ e.k = "event" THEN e.val
    ELSE d

RECURSIVE Fold(_, _, _)
Fold(kind, d, es) == IF es = <<>> THEN d ELSE Fold(kind, Apply(kind, d, Head(es)), Tail(es))

PS(s, d) == [st |-> s, d |-> d]

\* The replica states P allows after input n in state s.  {} = n is outside the link grammar
\* (linked event* [synced event*] unlinked)* here, P says nothing about what follows.
\* opt: the downlink's policy for writes made through its own handle - applied to the replica
\* at once (optimistically) or only forwarded.  The statement allows either policy; a downlink
\* keeps to one.
PSucc(kind, tou, opt, s, n) ==
    IF s.st = "X" THEN {s}                                        \* terminated: nothing happens any more
    ELSE IF n.k \in EnvKinds THEN {s}                             \* the IO mode is invisible: all laws hold unchanged
    ELSE IF n.k = LinkLostKind THEN                               \* the current link is over: whatever was folded is discarded;
        {PS("U", Empty(kind)), PS("X", Empty(kind))}              \* re-attached (a new link may follow) or given up
    ELSE IF n.k \in WriteKinds THEN
        IF opt /\ kind = "map" /\ s.st \in {"L", "S"}
        THEN {PS(s.st, Apply(kind, s.d, AsNotif(n)))}
        ELSE {s}
    ELSE IF n.k = "linked" THEN
        IF s.st = "U" THEN {PS("L", Empty(kind))} ELSE {}
    ELSE IF n.k = "synced" THEN
        IF s.st = "L" /\ (kind = "value" => s.d # None) THEN {PS("S", s.d)} ELSE {}
    ELSE IF n.k = "unlinked" THEN
        IF s.st \in {"L", "S"} THEN {PS(IF tou THEN "X" ELSE "U", Empty(kind))} ELSE {}
    ELSE IF n.k \in EventKinds THEN
        IF s.st \in {"L", "S"} THEN {PS(s.st, Apply(kind, s.d, n))} ELSE {}
    ELSE {}

PLegal(kind, tou, s, n) == PSucc(kind, tou, TRUE, s, n) # {}

\* callbacks reporting the entries that a take / drop removed: m before, m2 after
BulkRemoveOK(m, m2, cbs) ==
    LET R == DOMAIN m \ DOMAIN m2
        Reported(i) == {cbs[j].key : j \in 1..i}
    IN \/ R = {} /\ cbs = <<>>
       \/ m2 = EmptyMap /\ cbs = <<Cb("clear", 0, 0, 0, MapSeq(m))>>
       \/ /\ Len(cbs) = Cardinality(R)
          /\ Reported(Len(cbs)) = R
          /\ \A i \in 1..Len(cbs) :
                /\ cbs[i].cb = "remove" /\ cbs[i].key \in R
                /\ cbs[i].old = m[cbs[i].key] /\ cbs[i].new = None
                /\ Len(cbs[i].map) = Cardinality(PairSet(cbs[i].map))
                /\ PairSet(MapSeq(m2)) \subseteq PairSet(cbs[i].map)
                /\ PairSet(cbs[i].map) \subseteq PairSet(MapSeq(Restrict(m, DOMAIN m \ Reported(i))))

\* The callbacks P allows when input n takes the replica from s to s2.
PCbsOK(kind, ewns, s, n, cbs, s2) ==
    LET disp == s.st = "S" \/ ewns IN     \* events are reported when synced or when events_when_not_synced
    IF s.st = "X" \/ n.k \in WriteKinds \cup EnvKinds THEN cbs = <<>>
    ELSE CASE n.k = "linked"   -> cbs = <<CbLinked>>
           [] n.k = "unlinked" -> cbs = <<CbUnlinked>>
           [] n.k = LinkLostKind -> cbs \in {<<>>, <<CbUnlinked>>}     \* the statement is silent on reporting a lost link
           [] n.k = "synced"   ->
                CASE kind = "map"   -> cbs = <<Cb("synced", 0, 0, 0, MapSeq(s.d))>>
                  [] kind = "value" -> cbs = <<Cb("synced", 0, 0, s.d, <<>>)>>
                  [] OTHER          -> cbs \in {<<>>, <<Cb("synced", 0, 0, 0, <<>>)>>}
           [] n.k = "update"   ->
                cbs = IF disp THEN <<Cb("update", n.key, Get(s.d, n.key), n.val, MapSeq(s2.d))>> ELSE <<>>
           [] n.k = "remove"   ->
                cbs = IF disp /\ Has(s.d, n.key) THEN <<Cb("remove", n.key, s.d[n.key], None, MapSeq(s2.d))>> ELSE <<>>
           [] n.k = "clear"    ->
                IF disp THEN \/ cbs = <<Cb("clear", 0, 0, 0, MapSeq(s.d))>>
                             \/ s.d = EmptyMap /\ cbs = <<>>
                        ELSE cbs = <<>>
           [] n.k \in {"take", "drop"} ->
                IF disp THEN BulkRemoveOK(s.d, s2.d, cbs) ELSE cbs = <<>>
           [] n.k = "event"    ->
                LET ev == Cb("event", 0, 0, n.val, <<>>) IN
                IF kind = "value"
                THEN IF disp THEN cbs \in {<<ev, Cb("set", 0, s.d, n.val, <<>>)>>, <<Cb("set", 0, s.d, n.val, <<>>), ev>>}
                             ELSE cbs = <<>>
                ELSE IF disp THEN cbs = <<ev>> ELSE cbs \in {<<>>, <<ev>>}   \* event downlink: no state; the statement is silent
           [] OTHER -> FALSE

\* one P step: replica in s, input n, observed callbacks and termination flag, replica in s2
PStep(kind, ewns, tou, opt, s, n, cbs, done, s2) ==
    /\ s2 \in PSucc(kind, tou, opt, s, n)
    /\ PCbsOK(kind, ewns, s, n, cbs, s2)
    /\ done = (s2.st = "X")

-----------------------------------------------------------------------------
(*                               MECHANISM (M)                             *)

Out(cbs, done) == [cbs |-> cbs, done |-> done]
Res(d, cbs) == [d |-> d, cbs |-> cbs]
Bounded == MaxLen = 0 \/ Len(trace) < MaxLen

Record(in, oc, oh) ==
    /\ lastAct' = in @@ [cf |-> cf, legal |-> TRUE, c |-> oc, h |-> oh]
    /\ trace' = Append(trace, lastAct')

\* `dispatch` of map.rs on_read / maybe_lifecycle of the hosted next_event
Disp == st = "S" \/ cf.ewns

\* -- map events: map.rs on_event / MapDlState::{update, remove, clear, take, drop} ----------
M_Update(m, k, v) ==
    LET m2 == Put(m, k, v) IN
    Res(m2, IF Disp THEN <<Cb("update", k, Get(m, k), v, MapSeq(m2))>> ELSE <<>>)

M_Remove(m, k) ==
    IF Has(m, k)
    THEN LET m2 == Del(m, k) IN Res(m2, IF Disp THEN <<Cb("remove", k, m[k], None, MapSeq(m2))>> ELSE <<>>)
    ELSE Res(m, <<>>)

M_Clear(m) == Res(EmptyMap, IF Disp THEN <<Cb("clear", 0, 0, 0, MapSeq(m))>> ELSE <<>>)

\* one on_remove per entry of `gone`, all seeing the final map (client: the retained entries are
\* re-inserted first, then the callbacks run)
RemovedFinal(gone, m2) == [i \in 1..Len(gone) |-> Cb("remove", gone[i][1], gone[i][2], None, MapSeq(m2))]
\* one on_remove per entry of `gone`, each seeing the map right after its own removal (hosted)
RemovedStepwise(gone, m) ==
    [i \in 1..Len(gone) |->
        Cb("remove", gone[i][1], gone[i][2], None, MapSeq(Restrict(m, DOMAIN m \ {gone[j][1] : j \in 1..i})))]

M_Take(impl, m, n) ==
    LET s    == MapSeq(m)
        keep == Min(n, Len(s))
        gone == SubSeq(s, keep + 1, Len(s))
        m2   == FromPairs(SubSeq(s, 1, keep))
    IN Res(m2, IF ~Disp THEN <<>>
               ELSE IF impl = "client" THEN RemovedFinal(gone, m2) ELSE RemovedStepwise(gone, m))

M_Drop(impl, m, n) ==
    LET s    == MapSeq(m)
        cut  == Min(n, Len(s))
        gone == SubSeq(s, 1, cut)
        m2   == FromPairs(SubSeq(s, cut + 1, Len(s)))
    IN Res(m2, IF ~Disp THEN <<>>
               ELSE IF impl = "client" THEN RemovedFinal(gone, m2)
               ELSE IF n >= Len(s) THEN <<Cb("clear", 0, 0, 0, s)>>      \* MapDlState::drop: n >= len is a clear
               ELSE RemovedStepwise(gone, m))

M_MapEvent(impl, m, e) ==
    CASE e.k = "update" -> M_Update(m, e.key, e.val)
      [] e.k = "remove" -> M_Remove(m, e.key)
      [] e.k = "clear"  -> M_Clear(m)
      [] e.k = "take"   -> M_Take(impl, m, e.n)
      [] e.k = "drop"   -> M_Drop(impl, m, e.n)

\* -- the inputs ----------------------------------------------------------------------------
Linked == [k |-> "linked"]
Synced == [k |-> "synced"]
Unlinked == [k |-> "unlinked"]
MapEvents == {[k |-> "update", key |-> k, val |-> v] : k \in 1..NK, v \in 1..NV}
             \cup {[k |-> "remove", key |-> k] : k \in 1..NK} \cup {[k |-> "clear"]}
             \cup {[k |-> "take", n |-> n] : n \in Counts} \cup {[k |-> "drop", n |-> n] : n \in Counts}
ValEvents == {[k |-> "event", val |-> v] : v \in 1..NV}
Events(kind) == IF kind = "map" THEN MapEvents ELSE ValEvents
Notifs(kind) == {Linked, Synced, Unlinked} \cup Events(kind)
Writes(kind) == CASE kind = "map"   -> {[k |-> "w_update", key |-> k, val |-> v] : k \in 1..NK, v \in 1..NV}
                                        \cup {[k |-> "w_remove", key |-> k] : k \in 1..NK} \cup {[k |-> "w_clear"]}
                  [] kind = "value" -> {[k |-> "w_set", val |-> v] : v \in 1..NV}
                  [] OTHER          -> {}

\* state-independent bounds for the quantifiers of Next (the actions select by cf.kind)
AllNotifs == Notifs("map") \cup Notifs("value")
AllWrites == Writes("map") \cup Writes("value")

Init == /\ cf \in [kind : Kinds, ewns : EwnsSet, tou : TouSet]
        /\ st = "U" /\ c = Empty(cf.kind) /\ h = Empty(cf.kind)
        /\ io = [h |-> TRUE, o |-> TRUE]
        /\ lastAct = [k |-> "init", cf |-> cf]
        /\ trace = <<>>

\* on_read Linked in State::Unlinked / next_event Linked with dl_state = Unlinked
OnLinked ==
    /\ st = "U" /\ Bounded
    /\ st' = "L" /\ c' = Empty(cf.kind) /\ h' = Empty(cf.kind)
    /\ Record(Linked, Out(<<CbLinked>>, FALSE), Out(<<CbLinked>>, FALSE))
    /\ UNCHANGED <<cf, io>>

\* on_read Synced in State::Linked : on_synced sees the state of that moment
SyncedCbs(impl, d) ==
    CASE cf.kind = "map"   -> <<Cb("synced", 0, 0, 0, MapSeq(d))>>
      [] cf.kind = "value" -> <<Cb("synced", 0, 0, d, <<>>)>>
      [] OTHER             -> IF impl = "client" THEN <<>> ELSE <<Cb("synced", 0, 0, 0, <<>>)>>
OnSynced ==
    /\ st = "L" /\ (cf.kind = "value" => h # None) /\ Bounded
    /\ st' = "S"
    /\ Record(Synced, Out(SyncedCbs("client", c), FALSE), Out(SyncedCbs("hosted", h), FALSE))
    /\ UNCHANGED <<cf, c, h, io>>

\* on_read Unlinked : the replica is discarded, the task ends if terminate_on_unlinked
OnUnlinked ==
    /\ st \in {"L", "S"} /\ Bounded
    /\ st' = IF cf.tou THEN "X" ELSE "U"
    /\ c' = Empty(cf.kind) /\ h' = Empty(cf.kind)
    /\ Record(Unlinked, Out(<<CbUnlinked>>, cf.tou), Out(<<CbUnlinked>>, cf.tou))
    /\ UNCHANGED <<cf, io>>

MapEvent(e) ==
    /\ st \in {"L", "S"} /\ Bounded
    /\ LET rc == M_MapEvent("client", c, e)
           rh == M_MapEvent("hosted", h, e)
       IN /\ c' = rc.d /\ h' = rh.d
          /\ Record(e, Out(rc.cbs, FALSE), Out(rh.cbs, FALSE))
    /\ UNCHANGED <<cf, st, io>>
OnUpdate(k, v) == cf.kind = "map" /\ MapEvent([k |-> "update", key |-> k, val |-> v])
OnRemove(k) == cf.kind = "map" /\ MapEvent([k |-> "remove", key |-> k])
OnClear == cf.kind = "map" /\ MapEvent([k |-> "clear"])
OnTake(n) == cf.kind = "map" /\ MapEvent([k |-> "take", n |-> n])
OnDrop(n) == cf.kind = "map" /\ MapEvent([k |-> "drop", n |-> n])

\* value.rs on_read Event : on_event then on_set(previous, new) ; the value is replaced in any case
OnValueEvent(v) ==
    /\ cf.kind = "value" /\ st \in {"L", "S"} /\ Bounded
    /\ c' = v /\ h' = v
    /\ LET cbs(old) == IF Disp THEN <<Cb("event", 0, 0, v, <<>>), Cb("set", 0, old, v, <<>>)>> ELSE <<>>
       IN Record([k |-> "event", val |-> v], Out(cbs(c), FALSE), Out(cbs(h), FALSE))
    /\ UNCHANGED <<cf, st, io>>

\* event.rs : on_event whenever linked ; hosted event downlink: when synced or events_when_not_synced
OnEventEvent(v) ==
    /\ cf.kind = "event" /\ st \in {"L", "S"} /\ Bounded
    /\ LET ev == <<Cb("event", 0, 0, v, <<>>)>>
       IN Record([k |-> "event", val |-> v], Out(ev, FALSE), Out(IF Disp THEN ev ELSE <<>>, FALSE))
    /\ UNCHANGED <<cf, st, c, h, io>>

\* run_io write arm (client map downlink): the write is applied to the replica at once when
\* linked; the hosted downlink and the value downlinks only forward it.
LocalWrite(w) ==
    /\ LocalWrites /\ io.h /\ st \in {"U", "L", "S"} /\ w \in Writes(cf.kind) /\ Bounded
    /\ c' = IF cf.kind = "map" /\ st \in {"L", "S"} THEN Apply("map", c, AsNotif(w)) ELSE c
    /\ Record(w, Out(<<>>, FALSE), Out(<<>>, FALSE))
    /\ UNCHANGED <<cf, st, h, io>>

\* The environment drops every handle through which the downlink can be written to: the client's
\* run_io sees the end of its action stream and falls into Mode::Read (a second copy of the
\* read loop), the hosted write stream stops (WriteStreamTerminated).  Nothing observable may
\* change: no callback, no termination, the replica and every later step exactly as before.
DropHandles ==
    /\ EnvFaults /\ io.h /\ st \in {"U", "L", "S"} /\ Bounded
    /\ io' = [io EXCEPT !.h = FALSE]
    /\ Record([k |-> "drop_handles"], Out(<<>>, FALSE), Out(<<>>, FALSE))
    /\ UNCHANGED <<cf, st, c, h>>

\* The reader of the downlink's output channel goes away: later writes fail (value.rs run_io:
\* a failed flush / feed also ends in Mode::Read ; map.rs logs and carries on).  Own writes
\* stay enabled - they are what makes the failure visible to the task - and keep their meaning.
OutFail ==
    /\ EnvFaults /\ io.o /\ st \in {"U", "L", "S"} /\ Bounded
    /\ io' = [io EXCEPT !.o = FALSE]
    /\ Record([k |-> "out_fail"], Out(<<>>, FALSE), Out(<<>>, FALSE))
    /\ UNCHANGED <<cf, st, c, h>>

\* The link is lost without an `unlinked`.  Hosted: AgentModel's task gets WriterFailed (an own write
\* after the output failed) or Stopped (input closed; if linked the downlink first hands itself an
\* Unlinked, so on_unlinked fires and next_event discards the replica) and calls `reconnect`: if
\* `can_restart()` (= ~terminate_on_unlinked and the stop trigger - held by the handle - still there)
\* it `connect()`s the downlink to fresh channels - on the WriterFailed path NO next_event runs, so
\* connect() alone must discard the replica - otherwise the downlink is dropped.  Client: the task
\* keeps reading after a failed write and simply ends when its input ends; a stand-alone task cannot
\* re-attach itself, so its runtime (the harness) runs a fresh task under the same condition.
Restartable == ~cf.tou /\ io.h
LinkLost(in, cbsC, cbsH) ==
    /\ EnvFaults /\ st \in {"U", "L", "S"} /\ Bounded
    /\ st' = IF Restartable THEN "U" ELSE "X"
    /\ c' = Empty(cf.kind) /\ h' = Empty(cf.kind)
    /\ io' = IF Restartable THEN [io EXCEPT !.o = TRUE] ELSE io          \* fresh channels
    /\ Record(in, Out(cbsC, ~Restartable), Out(cbsH, ~Restartable))
    /\ UNCHANGED cf
LinkLostWrite(w) ==
    /\ io.h /\ ~io.o /\ w \in Writes(cf.kind) /\ w.k \in {"w_update", "w_set"}
    /\ LinkLost([k |-> LinkLostKind, how |-> "write"] @@ [f \in DOMAIN w \ {"k"} |-> w[f]], <<>>, <<>>)
LinkLostRead ==
    /\ EnvFaults
    /\ LinkLost([k |-> LinkLostKind, how |-> "read"], <<>>, IF st \in {"L", "S"} THEN <<CbUnlinked>> ELSE <<>>)

\* after termination nothing is delivered any more
AfterStop(n) ==
    /\ st = "X" /\ n \in {Linked, CHOOSE e \in Events(cf.kind) : e.k \in {"update", "event"}} /\ Bounded
    /\ Record(n, Out(<<>>, TRUE), Out(<<>>, TRUE))
    /\ UNCHANGED <<cf, st, c, h, io>>

\* inputs outside the link grammar: P is silent from here on; explored for absence of panics
IllegalStep(n) ==
    /\ Illegal /\ st \in {"U", "L", "S"} /\ n \in Notifs(cf.kind) /\ Bounded
    /\ ~PLegal(cf.kind, cf.tou, PS(st, h), n)
    /\ st' = "chaos" /\ c' = Empty(cf.kind) /\ h' = Empty(cf.kind)     \* the replicas are not tracked any more
    /\ lastAct' = n @@ [cf |-> cf, legal |-> FALSE]
    /\ trace' = Append(trace, lastAct')
    /\ UNCHANGED <<cf, io>>
Chaos(n) ==
    /\ st = "chaos" /\ n \in Notifs(cf.kind) /\ Bounded
    /\ lastAct' = n @@ [cf |-> cf, legal |-> FALSE]
    /\ trace' = Append(trace, lastAct')
    /\ UNCHANGED <<cf, st, c, h, io>>

Next == \/ OnLinked \/ OnSynced \/ OnUnlinked
        \/ \E k \in 1..NK, v \in 1..NV : OnUpdate(k, v)
        \/ \E k \in 1..NK : OnRemove(k)
        \/ OnClear
        \/ \E n \in Counts : OnTake(n) \/ OnDrop(n)
        \/ \E v \in 1..NV : OnValueEvent(v) \/ OnEventEvent(v)
        \/ \E w \in AllWrites : LocalWrite(w)
        \/ DropHandles \/ OutFail
        \/ \E w \in AllWrites : LinkLostWrite(w)
        \/ LinkLostRead
        \/ \E n \in AllNotifs : AfterStop(n) \/ IllegalStep(n) \/ Chaos(n)

Spec == Init /\ [][Next]_vars

-----------------------------------------------------------------------------
(*                                M |= P                                    *)

MapOK(m) == DOMAIN m \subseteq 1..NK /\ \A k \in DOMAIN m : m[k] \in 1..NV
TypeOK == /\ st \in {"U", "L", "S", "X", "chaos"}
          /\ io \in [h : BOOLEAN, o : BOOLEAN]
          /\ IF cf.kind = "map" THEN MapOK(c) /\ MapOK(h) ELSE c \in 0..NV /\ h \in 0..NV

\* the inputs since the link was (last) established
RECURSIVE LastLinked(_, _)
LastLinked(tr, i) == IF i = 0 THEN 0 ELSE IF tr[i].k = "linked" THEN i ELSE LastLinked(tr, i - 1)
SinceLinked == LET i == LastLinked(trace, Len(trace)) IN SubSeq(trace, i + 1, Len(trace))
IsEvent(a) == a.k \in EventKinds
IsEventOrWrite(a) == a.k \in EventKinds \cup WriteKinds
NoWritesSinceLinked == \A i \in 1..Len(SinceLinked) : SinceLinked[i].k \notin WriteKinds
AsNotifs(s) == [i \in 1..Len(s) |-> AsNotif(s[i])]

\* THE property: the state held equals the fold of what was received since it linked -
\* synced or not, events reported or not.
FoldLawHosted ==
    st \in {"L", "S"} => h = Fold(cf.kind, Empty(cf.kind), SelectSeq(SinceLinked, IsEvent))
\* the client map downlink folds its own writes in as well (interpretation, see DESIGN.md C08)
FoldLawClient ==
    st \in {"L", "S"} => c = Fold(cf.kind, Empty(cf.kind), AsNotifs(SelectSeq(SinceLinked, IsEventOrWrite)))
UnlinkedHoldsNothing ==
    st \in {"U", "X"} => c = Empty(cf.kind) /\ h = Empty(cf.kind)

\* client == hosted on well-behaved histories (no own writes ; take / drop may be reported differently)
ImplsAgree ==
    (st # "chaos" /\ NoWritesSinceLinked) =>
        /\ c = h
        /\ (lastAct.k \notin {"init", "take", "drop", LinkLostKind} /\ cf.kind # "event") => lastAct.c = lastAct.h

HasCb(o, name) == \E i \in 1..Len(o.cbs) : o.cbs[i].cb = name
\* on_synced fires exactly when the link becomes synced ...
SyncedExactlyAtSync ==
    (lastAct.k # "init" /\ lastAct.legal /\ cf.kind # "event") =>
        /\ HasCb(lastAct.c, "synced") <=> lastAct.k = "synced"
        /\ HasCb(lastAct.h, "synced") <=> lastAct.k = "synced"
\* ... and sees the state of that moment
SyncedSeesState ==
    /\ (lastAct.k = "synced" /\ lastAct.legal /\ cf.kind = "map") =>
            /\ lastAct.c.cbs = <<Cb("synced", 0, 0, 0, MapSeq(c))>>
            /\ lastAct.h.cbs = <<Cb("synced", 0, 0, 0, MapSeq(h))>>
    /\ (lastAct.k = "synced" /\ lastAct.legal /\ cf.kind = "value") =>
            /\ c # None /\ lastAct.c.cbs = <<Cb("synced", 0, 0, c, <<>>)>>
            /\ h # None /\ lastAct.h.cbs = <<Cb("synced", 0, 0, h, <<>>)>>
\* no event callbacks while not synced unless events_when_not_synced
QuietWhenNotSynced ==
    (lastAct.k \in EventKinds /\ lastAct.legal /\ st = "L" /\ ~cf.ewns /\ cf.kind # "event") =>
        lastAct.c.cbs = <<>> /\ lastAct.h.cbs = <<>>
\* terminate_on_unlinked
TerminatesOnUnlinked ==
    (lastAct.k # "init" /\ lastAct.legal) => (lastAct.c.done = (st = "X") /\ lastAct.h.done = (st = "X"))

\* every step of either implementation is a step P allows, with callbacks P allows
Input(a) == [f \in DOMAIN a \ {"cf", "legal", "c", "h"} |-> a[f]]
MRefinesPStep ==
    lastAct'.legal =>
        \* the client applies its own writes optimistically, the hosted downlink does not
        /\ PStep(cf.kind, cf.ewns, cf.tou, TRUE, PS(st, c), Input(lastAct'), lastAct'.c.cbs, lastAct'.c.done, PS(st', c'))
        /\ PStep(cf.kind, cf.ewns, cf.tou, FALSE, PS(st, h), Input(lastAct'), lastAct'.h.cbs, lastAct'.h.done, PS(st', h'))
MRefinesP == [][MRefinesPStep]_vars

\* the IO mode is invisible: an environment step changes neither replica nor status, fires nothing
EnvStepsInvisibleStep ==
    lastAct'.k \in EnvKinds =>
        /\ st' = st /\ c' = c /\ h' = h
        /\ lastAct'.c = Out(<<>>, FALSE) /\ lastAct'.h = Out(<<>>, FALSE)
EnvStepsInvisible == [][EnvStepsInvisibleStep]_vars

\* P's notion of legality is the link grammar M implements
LegalIffGrammar ==
    \A n \in Notifs(cf.kind) :
        (st \in {"U", "L", "S"}) =>
            (PLegal(cf.kind, cf.tou, PS(st, h), n) <=>
                CASE n.k = "linked"   -> st = "U"
                  [] n.k = "synced"   -> st = "L" /\ (cf.kind = "value" => h # None)
                  [] OTHER            -> st \in {"L", "S"})

View == <<cf, st, Show(cf.kind, c), Show(cf.kind, h), io>>
=============================================================================

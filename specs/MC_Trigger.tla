------------------------------ MODULE MC_Trigger ------------------------------
EXTENDS Trigger, Json
\* Prints every transition of the state graph once (TLC evaluates the action
\* constraint on each successor it generates); lastAct is hidden by the VIEW so
\* it does not multiply states.
EdgeDump == PrintT(<<"EDGE", ToJson([s |-> View, a |-> lastAct', t |-> View'])>>)
InitDump == (lastAct.k = "init") => PrintT(<<"INIT", ToJson(View)>>)
=============================================================================

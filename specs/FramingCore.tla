---------------------------- MODULE FramingCore ----------------------------
(***************************************************************************)
(* Pure operators shared by Framing.tla (the specification that TLC model  *)
(* checks) and Trace_Framing.tla (the same specification used to validate  *)
(* executions recorded from the real decoders): the layout of a frame as a *)
(* sequence of atoms and what one call of Decoder::decode does with the    *)
(* bytes that are buffered.  See Framing.tla for the data model.           *)
(***************************************************************************)
EXTENDS Naturals, Sequences

Min(a, b) == IF a < b THEN a ELSE b

RECURSIVE AtomsLen(_, _)
AtomsLen(as, k) == IF k = 0 THEN 0 ELSE as[k].n + AtomsLen(as, k - 1)

(* One call of decode: run over the atoms of the current frame as far as   *)
(* the buffered bytes allow.  as = atoms, (a, o) = position, av = bytes    *)
(* buffered, c = bytes consumed so far by this call, bad / at = corruption *)
(* of this frame ("ok" | "tag" | "len", index of the atom holding it).     *)
(* Result: r = "some" (frame complete, message emitted) | "none" (more     *)
(* bytes needed) | "err" (undefined tag seen) | "lost" (corrupted length   *)
(* seen); (ai, ao) = new position; c = bytes consumed by the call.         *)
(* ux = TRUE: the call stopped inside a streamed atom with avs < rest      *)
(* bytes buffered; the incremental inner decoder may additionally have     *)
(* taken any x in 0..avs of them (then ao and c grow by x).                *)
RECURSIVE Run(_, _, _, _, _, _, _)
Run(as, a, o, av, c, bad, at) ==
    IF a > Len(as) THEN [r |-> "some", ai |-> 1, ao |-> 0, c |-> c, ux |-> FALSE, avs |-> av]
    ELSE LET t == as[a] IN
         IF bad # "ok" /\ a = at /\ av + o >= t.need THEN
             \* the corrupted field is visible once `need` bytes of its atom are there
             [r |-> IF bad = "tag" THEN "err" ELSE "lost", ai |-> a, ao |-> o, c |-> c, ux |-> FALSE, avs |-> av]
         ELSE IF t.s THEN
             \* a body streamed into an incremental inner decoder (consume_bounded)
             IF av >= t.n - o
                 THEN Run(as, a + 1, 0, av - (t.n - o), c + (t.n - o), bad, at)
                 ELSE [r |-> "none", ai |-> a, ao |-> o, c |-> c, ux |-> TRUE, avs |-> av]
         \* a fixed part: "if src.remaining() < required { return Ok(None) }" - not advanced over
         ELSE IF av >= t.need
                 THEN Run(as, a + 1, 0, av - t.n, c + t.n, bad, at)
                 ELSE [r |-> "none", ai |-> a, ao |-> 0, c |-> c, ux |-> FALSE, avs |-> av]
=============================================================================

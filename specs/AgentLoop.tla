------------------------------- MODULE AgentLoop -------------------------------
(***************************************************************************)
(* Mechanism specification (M) of the output side of the agent task loop   *)
(* (server/swimos_agent/src/agent_model/mod.rs, run_agent): items become   *)
(* dirty when a handler modifies them; after every event the loop walks    *)
(* dirty_items, takes the item's writer out of item_writers, asks the item *)
(* to write one response into the writer's buffer and lends the writer to  *)
(* a pending write; the writer comes home when the write completes.        *)
(*                                                                         *)
(* A modification can turn out to produce nothing (write_event = NoData):  *)
(* e.g. a map lane asked to remove a key it does not hold.  The constant   *)
(* KeepWriterOnNoData distinguishes the repaired loop (TRUE: the writer is *)
(* put back) from the defect F11 (FALSE: the writer was dropped, silencing *)
(* the lane for ever) and is used as a negative control.                   *)
(***************************************************************************)
EXTENDS Naturals, FiniteSets, TLC

CONSTANTS Items, MaxData, KeepWriterOnNoData

VARIABLES pending,   \* [Items -> Nat]   responses the item has queued (event queue + sync queues)
          dirty,     \* SUBSET Items     dirty_items
          writer,    \* [Items -> "home" | "lent" | "lost"]   item_writers / pending_writes
          written    \* [Items -> Nat]   responses handed to the runtime
vars == <<pending, dirty, writer, written>>

Init == /\ pending = [i \in Items |-> 0] /\ dirty = {} /\ writer = [i \in Items |-> "home"]
        /\ written = [i \in Items |-> 0]

\* a handler modified item i and the modification produced n >= 0 responses
Modify(i, n) ==
    /\ pending[i] + written[i] + n <= MaxData
    /\ pending' = [pending EXCEPT ![i] = @ + n]
    /\ dirty' = dirty \cup {i}
    /\ UNCHANGED <<writer, written>>

\* dirty_items.retain(...) for one item
Attempt(i) ==
    /\ i \in dirty
    /\ IF writer[i] # "home" THEN UNCHANGED vars          \* writer lent: the item stays dirty
       ELSE IF pending[i] = 0
         THEN \* WriteResult::NoData
              /\ writer' = [writer EXCEPT ![i] = IF KeepWriterOnNoData THEN "home" ELSE "lost"]
              /\ dirty' = dirty \ {i}
              /\ UNCHANGED <<pending, written>>
         ELSE \* Done / DataStillAvailable: one response encoded, the writer is lent to the write
              /\ pending' = [pending EXCEPT ![i] = @ - 1]
              /\ written' = [written EXCEPT ![i] = @ + 1]
              /\ writer' = [writer EXCEPT ![i] = "lent"]
              /\ dirty' = IF pending[i] = 1 THEN dirty \ {i} ELSE dirty
\* the pending write completes and the writer is returned to item_writers
WriteDone(i) ==
    /\ writer[i] = "lent"
    /\ writer' = [writer EXCEPT ![i] = "home"]
    /\ UNCHANGED <<pending, dirty, written>>

Next == \E i \in Items : (\E n \in 0..2 : Modify(i, n)) \/ Attempt(i) \/ WriteDone(i)

Spec == Init /\ [][Next]_vars /\ \A i \in Items : WF_vars(Attempt(i)) /\ WF_vars(WriteDone(i))

\* P: no lane is ever silenced ...
NoWriterLost == \A i \in Items : writer[i] # "lost"
\* ... an item with responses to send is (or stays) scheduled ...
PendingIsDirty == \A i \in Items : pending[i] > 0 => i \in dirty
\* ... and every response is eventually handed to the runtime (C01 - C04 rely on this)
EverythingWritten == \A i \in Items : (pending[i] > 0) ~> (pending[i] = 0)
=============================================================================

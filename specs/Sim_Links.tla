------------------------------ MODULE Sim_Links ------------------------------
(* Links + a recorded path, for TLC's simulation mode: behaviours of length  *)
(* PathLen over a scope whose state graph is too large to dump, printed as   *)
(* REPLAY lines (calls with the outputs and snapshots M expects).  P (PStep) *)
(* is checked by TLC on every simulated step as well.                        *)
EXTENDS Links, Json
CONSTANT PathLen
VARIABLE path
SimInit == Init /\ path = <<>>
SimNext == Next /\ path' = Append(path, lastAct')
\* a behaviour ends at PathLen steps or where the write task has stopped
PathDump == (Len(path) = PathLen \/ (stopped /\ Len(path) > 0)) => PrintT(<<"REPLAY", ToJson(path)>>)
SimBound == Len(path) < PathLen
SimPStep == [][LaneCountsTrue' /\ AggregateTrue']_<<vars, path>>
=============================================================================

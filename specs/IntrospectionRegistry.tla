----------------------- MODULE IntrospectionRegistry -----------------------
(***************************************************************************)
(* C20, reporting layer, the registry of agents: task/mod.rs `Agents`      *)
(* (name_map: agent id -> node URI, forest: UriForest<AgentMeta> keyed by  *)
(* node URI), fed by AddAgent / AgentClosed, read by IntrospectAgent (the  *)
(* node meta agent's resolve) and - directly, through the shared forest -  *)
(* by the mesh meta agent's `nodes` (every URI) and `nodes#/` (the parts   *)
(* below the root: a leaf, or a junction with its number of children)      *)
(* lanes.                                                                  *)
(*                                                                         *)
(* The contract is exact (P = M): the registry is the mapping URI -> agent *)
(* of the agents registered and not closed, updated in message order; a    *)
(* resolve finds the agent registered AT that URI (none for a prefix, a    *)
(* sibling or a closed agent) and sees whether that agent still reports.   *)
(* How the forest stores the URIs (a tree per first segment, junction      *)
(* nodes, pruning) is not modelled - it must not show.  The URIs come from *)
(* a pool with shared prefixes so that it would:                           *)
(*      1 = /a    2 = /a/b    3 = /a/b/c    4 = /b    5 = /a/d             *)
(*                                                                         *)
(* `nested` records the circumstances of finding F3f: two agents present   *)
(* at the same time at URIs one of which is a proper prefix of the other.  *)
(***************************************************************************)
EXTENDS Integers, FiniteSets, Sequences, TLC

CONSTANTS NA          \* agent instances 1..NA
Agents == 1..NA
Uris == 1..5
Root(u) == IF u = 4 THEN "/b" ELSE "/a"
Depth(u) == CASE u \in {1, 4} -> 1 [] u \in {2, 5} -> 2 [] OTHER -> 3
Second(u) == IF u = 5 THEN "d" ELSE "b"
Prefix(u, v) == (u = 1 /\ v \in {2, 3, 5}) \/ (u = 2 /\ v = 3)      \* u is a proper prefix of v

VARIABLES
    at,       \* [Agents -> 0..5]  the URI an agent instance was registered at (0: not yet used)
    held,     \* agents whose NodeReporting (aggregate reporter) still exists
    closed,   \* agents the server has reported as closed
    msgQ,     \* Seq of <<"add" | "close", agent>>
    forest,   \* [Uris -> 0..NA]  the registry as processed so far (0: no entry)
    names,    \* agents in name_map
    nested,   \* F3f's circumstances have occurred in this history
    lastAct
vars == <<at, held, closed, msgQ, forest, names, nested, lastAct>>
View == <<at, held, closed, msgQ, forest, names, nested>>

Occupied(u) == \E a \in Agents : at[a] = u /\ a \notin closed      \* the server runs one agent per node URI
\* agents whose entry may still be in the registry
Around == {a \in Agents : at[a] # 0 /\ (a \notin closed \/ \E i \in 1..Len(msgQ) : msgQ[i] = <<"close", a>>)}

RECURSIVE Drain(_, _, _)
Drain(q, f, n) ==
    IF q = <<>> THEN [f |-> f, n |-> n]
    ELSE LET m == Head(q) a == m[2] IN
         IF m[1] = "add" THEN Drain(Tail(q), [f EXCEPT ![at[a]] = a], n \cup {a})        \* forest.insert, name_map.insert
         ELSE IF a \in n THEN Drain(Tail(q), [f EXCEPT ![at[a]] = 0], n \ {a})           \* name_map.remove, forest.remove
         ELSE Drain(Tail(q), f, n)

Out(nst) == [res |-> "-", nodes |-> <<-1>>, parts |-> <<>>, nest |-> IF nst THEN 1 ELSE 0]
SetSeq(S) == SelectSeq([i \in 1..5 |-> i], LAMBDA x : x \in S)

Register(a, u) ==
    /\ at[a] = 0 /\ ~Occupied(u)
    /\ at' = [at EXCEPT ![a] = u] /\ held' = held \cup {a} /\ msgQ' = Append(msgQ, <<"add", a>>)
    /\ LET nst == nested \/ \E b \in Around : Prefix(at[b], u) \/ Prefix(u, at[b]) IN
          /\ nested' = nst
          /\ lastAct' = [k |-> "greg", a |-> a, u |-> u] @@ Out(nst)
    /\ UNCHANGED <<closed, forest, names>>

Drop(a) ==         \* the agent's runtime has gone: its reporters are dropped
    /\ a \in held
    /\ held' = held \ {a}
    /\ lastAct' = [k |-> "gdrop", a |-> a] @@ Out(nested)
    /\ UNCHANGED <<at, closed, msgQ, forest, names, nested>>

Close(a) ==        \* the server tells the introspection task (after the agent's task has completed)
    /\ at[a] # 0 /\ a \notin held /\ a \notin closed
    /\ closed' = closed \cup {a} /\ msgQ' = Append(msgQ, <<"close", a>>)
    /\ lastAct' = [k |-> "gclose", a |-> a] @@ Out(nested)
    /\ UNCHANGED <<at, held, forest, names, nested>>

IPoll ==
    /\ msgQ # <<>>
    /\ LET d == Drain(msgQ, forest, names) IN forest' = d.f /\ names' = d.n
    /\ msgQ' = <<>>
    /\ lastAct' = [k |-> "ipoll"] @@ Out(nested)
    /\ UNCHANGED <<at, held, closed, nested>>

Resolve(u) ==      \* IntrospectionResolver::resolve_agent: the request is queued behind what is pending
    /\ u \in Uris
    /\ LET d == Drain(msgQ, forest, names)
           a == d.f[u]
       IN /\ forest' = d.f /\ names' = d.n /\ msgQ' = <<>>
          /\ lastAct' = [k |-> "gresolve", u |-> u] @@
                        [Out(nested) EXCEPT !.res = IF a = 0 THEN "none" ELSE IF a \in held THEN "live" ELSE "dead"]
          /\ UNCHANGED <<at, held, closed, nested>>

Known == {u \in Uris : forest[u] # 0}
Nodes ==           \* the mesh meta agent's `nodes` lane: forest.uri_iter()
    /\ lastAct' = [k |-> "gnodes"] @@ [Out(nested) EXCEPT !.nodes = SetSeq(Known)]
    /\ UNCHANGED <<at, held, closed, msgQ, forest, names, nested>>

PartOf(r) == LET below == {u \in Known : Root(u) = r /\ Depth(u) >= 2} IN
             IF below # {} THEN <<r, "J", Cardinality({Second(u) : u \in below})>> ELSE <<r, "L", 0>>
Parts ==           \* its `nodes#/` lane: forest.part_iter()
    /\ lastAct' = [k |-> "gparts"] @@
                  [Out(nested) EXCEPT !.parts = SelectSeq(<<PartOf("/a"), PartOf("/b")>>,
                                                     LAMBDA p : \E u \in Known : Root(u) = p[1])]
    /\ UNCHANGED <<at, held, closed, msgQ, forest, names, nested>>

Next == \/ \E a \in Agents, u \in Uris : Register(a, u)
        \/ \E a \in Agents : Drop(a) \/ Close(a)
        \/ \E u \in Uris : Resolve(u)
        \/ IPoll \/ Nodes \/ Parts

Init == /\ at = [a \in Agents |-> 0] /\ held = {} /\ closed = {} /\ msgQ = <<>>
        /\ forest = [u \in Uris |-> 0] /\ names = {} /\ nested = FALSE /\ lastAct = [k |-> "init"]
Spec == Init /\ [][Next]_vars

\* the registry, once it has caught up, is exactly the set of agents registered and not closed - each at its own URI
RegistryTrue ==
    msgQ = <<>> => \A u \in Uris : forest[u] = (IF \E a \in Agents : at[a] = u /\ a \notin closed
                                                 THEN CHOOSE a \in Agents : at[a] = u /\ a \notin closed ELSE 0)
TypeOK == /\ \A a \in names : at[a] # 0 /\ forest[at[a]] = a
          /\ \A u \in Uris : forest[u] # 0 => forest[u] \in names
=============================================================================

---------------------------- MODULE MC_ValueOrder ----------------------------
(***************************************************************************)
(* Evaluation of the laws of ValueOrder.tla (P) over the relation table    *)
(* OBSERVED on the real swimos_model::Value, for every element, pair and   *)
(* triple of the pool, together with the verdict of the mechanism model M  *)
(* on the same tuple, and the cell-by-cell comparison of M with the code.  *)
(*                                                                         *)
(* One initial state per first operand a.  One action per law; one state per evaluated law instance (for the       *)
(* triple laws: per instance whose premise holds - the others hold         *)
(* vacuously and are only counted by Python).  A state with ok = FALSE is  *)
(* a tuple on which the REAL CODE breaks the law: Report prints it.        *)
(*                                                                         *)
(* TABLE = json file  { pool: [abstract value], eq: [[0|1|9]],             *)
(*                      cmp: [[-1|0|1|9]], hash: [class number],           *)
(*                      tri: [1|0] takes part in the triple laws }         *)
(***************************************************************************)
EXTENDS ValueOrder, Json, IOUtils

T == ndJsonDeserialize(IOEnv.TABLE)[1]
NV == Len(T.pool)
Ix == 1..NV
\* the elements the triple laws range over (T.tri: 1 / 0; all of them in the thorough tier)
TriIx == {a \in Ix : T.tri[a] = 1}
CONSTANT Triples      \* FALSE: only the element and pair laws (used by --replay of a pair)

\* observed
EqC(a, b) == T.eq[a][b]
EqT(a, b) == T.eq[a][b] = 1
CmpT(a, b) == T.cmp[a][b]
HeqT(a, b) == T.hash[a] = T.hash[b]

\* mechanism model, tabulated once
CmpMT == [a \in Ix |-> [b \in Ix |-> CmpM(T.pool[a], T.pool[b])]]
EqMT == [a \in Ix |-> [b \in Ix |-> EqM(T.pool[a], T.pool[b])]]
HeqMT == [a \in Ix |-> [b \in Ix |-> HashEqM(T.pool[a], T.pool[b])]]
CmpMi(a, b) == CmpMT[a][b]
EqMi(a, b) == EqMT[a][b]
EqMc(a, b) == IF EqMT[a][b] THEN 1 ELSE 0
HeqMi(a, b) == HeqMT[a][b]

VARIABLES law, tup, ok, mok
vars == <<law, tup, ok, mok>>

\* one initial state per first operand, so that TLC workers share the evaluation
Init == law = "init" /\ tup \in {<<a>> : a \in Ix} /\ ok = TRUE /\ mok = TRUE
A1 == tup[1]

Fresh == law = "init"
Eval(l, t, o, m) == law' = l /\ tup' = t /\ ok' = o /\ mok' = m

EvalEqReflexive == Fresh /\ LET a == A1 IN Eval("EqReflexive", <<a>>, EqReflexive(EqT, a), EqReflexive(EqMi, a))
EvalNoPanic == Fresh /\ \E b \in Ix : LET a == A1 IN Eval("NoPanic", <<a, b>>, NoPanic(CmpT, EqC, a, b), NoPanic(CmpMi, EqMc, a, b))
EvalEqSymmetric == Fresh /\ \E b \in Ix : LET a == A1 IN Eval("EqSymmetric", <<a, b>>, EqSymmetric(EqT, a, b), EqSymmetric(EqMi, a, b))
EvalEqImpliesHashEq == Fresh /\ \E b \in Ix : LET a == A1 IN Eval("EqImpliesHashEq", <<a, b>>, EqImpliesHashEq(EqT, HeqT, a, b), EqImpliesHashEq(EqMi, HeqMi, a, b))
EvalCmpAntisymmetric == Fresh /\ \E b \in Ix : LET a == A1 IN Eval("CmpAntisymmetric", <<a, b>>, CmpAntisymmetric(CmpT, a, b), CmpAntisymmetric(CmpMi, a, b))
EvalCmpEqualIffEq == Fresh /\ \E b \in Ix : LET a == A1 IN Eval("CmpEqualIffEq", <<a, b>>, CmpEqualIffEq(EqT, CmpT, a, b), CmpEqualIffEq(EqMi, CmpMi, a, b))
\* the triple laws, split so that TLC's per-action coverage counts the non-degenerate instances
Distinct3(a, b, c) == a # b /\ b # c /\ a # c
EvalEqTransitive == Fresh /\ Triples /\ A1 \in TriIx /\ \E b, c \in TriIx : LET a == A1 IN
    /\ Distinct3(a, b, c) /\ EqTransitivePremise(EqT, a, b, c)
    /\ Eval("EqTransitive", <<a, b, c>>, EqTransitive(EqT, a, b, c), EqTransitive(EqMi, a, b, c))
EvalEqTransitiveRepeated == Fresh /\ Triples /\ A1 \in TriIx /\ \E b, c \in TriIx : LET a == A1 IN
    /\ ~Distinct3(a, b, c) /\ EqTransitivePremise(EqT, a, b, c)
    /\ Eval("EqTransitive", <<a, b, c>>, EqTransitive(EqT, a, b, c), EqTransitive(EqMi, a, b, c))
EvalCmpTransitive == Fresh /\ Triples /\ A1 \in TriIx /\ \E b, c \in TriIx : LET a == A1 IN
    /\ Distinct3(a, b, c) /\ CmpTransitivePremise(CmpT, a, b, c)
    /\ Eval("CmpTransitive", <<a, b, c>>, CmpTransitive(CmpT, a, b, c), CmpTransitive(CmpMi, a, b, c))
EvalCmpTransitiveRepeated == Fresh /\ Triples /\ A1 \in TriIx /\ \E b, c \in TriIx : LET a == A1 IN
    /\ ~Distinct3(a, b, c) /\ CmpTransitivePremise(CmpT, a, b, c)
    /\ Eval("CmpTransitive", <<a, b, c>>, CmpTransitive(CmpT, a, b, c), CmpTransitive(CmpMi, a, b, c))
\* binding of M to the code, cell by cell (a difference is MODEL-DRIFT, never an alarm)
EvalConform == Fresh /\ \E b \in Ix : LET a == A1 IN
    Eval("Conform", <<a, b>>, TRUE, CmpT(a, b) = CmpMi(a, b) /\ EqC(a, b) = EqMc(a, b) /\ (HeqT(a, b) <=> HeqMi(a, b)))

Next == \/ EvalEqReflexive \/ EvalNoPanic \/ EvalEqSymmetric \/ EvalEqImpliesHashEq
        \/ EvalCmpAntisymmetric \/ EvalCmpEqualIffEq \/ EvalEqTransitive \/ EvalEqTransitiveRepeated
        \/ EvalCmpTransitive \/ EvalCmpTransitiveRepeated \/ EvalConform

\* INVARIANT: always TRUE; prints the law instances the real code breaks, and the cells where M differs
Report == /\ ok \/ PrintT(<<"FAIL", ToJson([law |-> law, tup |-> tup, m |-> mok])>>)
          /\ (law = "Conform" /\ ~mok) => PrintT(<<"DRIFT", ToJson([tup |-> tup,
                 cmp |-> CmpMi(tup[1], tup[2]), eq |-> EqMc(tup[1], tup[2]), heq |-> HeqMi(tup[1], tup[2])])>>)
          /\ (law # "Conform" /\ ok /\ ~mok) => PrintT(<<"MONLY", ToJson([law |-> law, tup |-> tup])>>)
=============================================================================

-------------------------- MODULE Trace_LinkProtocol --------------------------
(***************************************************************************)
(* P for C04: per (remote, lane) the notifications an agent sends follow   *)
(* the WARP link state machine and carry no fabricated frames.  Trace      *)
(* specification over the log of configurations E and R.                   *)
(*   reset | restart                                                       *)
(*   produce lane body      the lane produced this event body              *)
(*   req r lane op known    remote r sent link|sync|unlink|cmd             *)
(*   frame r lane kind [body] known                                        *)
(*   gone r                 remote r stopped reading                       *)
(*   trunc r                remote r's stream ended inside a frame          *)
(*   closed r               r's disconnection promise was completed        *)
(*   quiescent drained                                                     *)
(*   end clean              end of a run; clean = the agent stopped cleanly*)
(* "known" = the lane exists on the agent; "answer" = the lane kind        *)
(* answers sync requests (value, map, supply lanes).                       *)
(***************************************************************************)
EXTENDS Naturals, Integers, Sequences, FiniteSets, TLC, Json, IOUtils

CONSTANTS Lanes,      \* lanes that exist
          SyncLanes,  \* lanes that answer a sync with synced
          Remotes

Rec == ndJsonDeserialize(IOEnv.TRACE)

VARIABLES i, open, reqs, linkedN, syncReq, syncedN, nf, produced, alive, everUnlink, closed,
          owed,  \* a sync request was sent and no synced has been received since
          dead   \* the agent instance was killed / did not stop cleanly: only then may a remote find a truncated frame
vars == <<i, open, reqs, linkedN, syncReq, syncedN, nf, produced, alive, everUnlink, closed, owed, dead>>

Has(e, f) == f \in DOMAIN e
Max(a, b) == IF a > b THEN a ELSE b
RL(x) == [r \in Remotes |-> [l \in Lanes |-> x]]

Fresh == /\ open = RL(FALSE) /\ reqs = RL(0) /\ linkedN = RL(0) /\ syncReq = RL(0) /\ syncedN = RL(0)
         /\ nf = [r \in Remotes |-> 0] /\ alive = [r \in Remotes |-> TRUE]
         /\ everUnlink = RL(FALSE) /\ closed = [r \in Remotes |-> FALSE] /\ owed = RL(FALSE) /\ dead = FALSE
FreshP == /\ open' = RL(FALSE) /\ reqs' = RL(0) /\ linkedN' = RL(0) /\ syncReq' = RL(0) /\ syncedN' = RL(0)
          /\ nf' = [r \in Remotes |-> 0] /\ alive' = [r \in Remotes |-> TRUE]
          /\ everUnlink' = RL(FALSE) /\ closed' = [r \in Remotes |-> FALSE] /\ owed' = RL(FALSE) /\ dead' = FALSE

TraceInit == i = 1 /\ Fresh /\ produced = [l \in Lanes |-> {}] /\ TLCSet(1, 1)

Step(e) ==
    \/ /\ e.e = "reset" /\ FreshP /\ produced' = [l \in Lanes |-> {}]
    \/ /\ e.e = "restart" /\ FreshP /\ UNCHANGED produced
    \/ /\ e.e = "produce"
       /\ produced' = [produced EXCEPT ![e.lane] = @ \cup {e.body}]
       /\ UNCHANGED <<open, reqs, linkedN, syncReq, syncedN, nf, alive, everUnlink, closed, owed, dead>>
    \/ /\ e.e = "req" /\ e.lane \in Lanes
       /\ LET r == e.r  l == e.lane IN
          \* (an unlink sent while a sync of r is unanswered may be processed in the middle of the lane's answer to
          \* that sync - several events for a map lane: the rest of the answer then links r again, so the one sync
          \* request accounts for one more linked)
          /\ reqs' = IF e.op \in {"link", "sync"} \/ (e.op = "unlink" /\ owed[r][l])
                       THEN [reqs EXCEPT ![r][l] = @ + 1] ELSE reqs
          /\ syncReq' = IF e.op = "sync" THEN [syncReq EXCEPT ![r][l] = @ + 1] ELSE syncReq
          /\ everUnlink' = IF e.op = "unlink" THEN [everUnlink EXCEPT ![r][l] = TRUE] ELSE everUnlink
          /\ owed' = IF e.op = "sync" THEN [owed EXCEPT ![r][l] = TRUE] ELSE owed
       /\ UNCHANGED <<open, linkedN, syncedN, nf, produced, alive, closed, dead>>
    \/ /\ e.e = "req" /\ e.lane \notin Lanes
       \* a link or sync for a lane that does not exist is owed exactly one lane-not-found
       /\ nf' = IF e.op \in {"link", "sync"} THEN [nf EXCEPT ![e.r] = @ + 1] ELSE nf
       /\ UNCHANGED <<open, reqs, linkedN, syncReq, syncedN, produced, alive, everUnlink, closed, owed, dead>>
    \/ /\ e.e = "frame" /\ e.lane \in Lanes /\ e.kind = "linked"
       /\ linkedN[e.r][e.lane] < reqs[e.r][e.lane]          \* every linked answers a request
       /\ linkedN' = [linkedN EXCEPT ![e.r][e.lane] = @ + 1]
       /\ open' = [open EXCEPT ![e.r][e.lane] = TRUE]
       /\ UNCHANGED <<reqs, syncReq, syncedN, nf, produced, alive, everUnlink, closed, owed, dead>>
    \/ /\ e.e = "frame" /\ e.lane \in Lanes /\ e.kind = "event"
       /\ open[e.r][e.lane]                                  \* never outside a link
       /\ Has(e, "body") /\ e.body \in produced[e.lane]      \* byte for byte a body this lane produced
       /\ UNCHANGED <<open, reqs, linkedN, syncReq, syncedN, nf, produced, alive, everUnlink, closed, owed, dead>>
    \/ /\ e.e = "frame" /\ e.lane \in Lanes /\ e.kind = "synced"
       /\ open[e.r][e.lane]
       /\ syncedN[e.r][e.lane] < syncReq[e.r][e.lane]        \* only after that remote asked to sync
       /\ syncedN' = [syncedN EXCEPT ![e.r][e.lane] = @ + 1]
       /\ owed' = [owed EXCEPT ![e.r][e.lane] = FALSE]
       /\ UNCHANGED <<open, reqs, linkedN, syncReq, nf, produced, alive, everUnlink, closed, dead>>
    \/ /\ e.e = "frame" /\ e.lane \in Lanes /\ e.kind = "unlinked"
       /\ open[e.r][e.lane]                                  \* exactly one unlinked closes a link
       /\ open' = [open EXCEPT ![e.r][e.lane] = FALSE]
       /\ UNCHANGED <<reqs, linkedN, syncReq, syncedN, nf, produced, alive, everUnlink, closed, owed, dead>>
    \/ /\ e.e = "frame" /\ e.lane \notin Lanes
       /\ e.kind = "unlinked" /\ nf[e.r] > 0
       /\ Has(e, "body") /\ e.body = "@laneNotFound"
       /\ nf' = [nf EXCEPT ![e.r] = @ - 1]
       /\ UNCHANGED <<open, reqs, linkedN, syncReq, syncedN, produced, alive, everUnlink, closed, owed, dead>>
    \/ /\ e.e = "trunc"
       \* the remote's stream ended inside a frame: only an agent that was killed may leave a truncated frame behind
       /\ dead
       /\ alive' = [alive EXCEPT ![e.r] = FALSE]
       /\ UNCHANGED <<open, reqs, linkedN, syncReq, syncedN, nf, produced, everUnlink, closed, owed, dead>>
    \/ /\ e.e = "gone"
       /\ alive' = [alive EXCEPT ![e.r] = FALSE]
       /\ UNCHANGED <<open, reqs, linkedN, syncReq, syncedN, nf, produced, everUnlink, closed, owed, dead>>
    \/ /\ e.e = "closed"
       /\ closed' = [closed EXCEPT ![e.r] = TRUE]
       /\ UNCHANGED <<open, reqs, linkedN, syncReq, syncedN, nf, produced, alive, everUnlink, owed, dead>>
    \/ /\ e.e = "quiescent"
       /\ \A k \in 1..Len(e.drained) :
             LET r == e.drained[k] IN
             alive[r] =>
               /\ nf[r] = 0                                  \* every bad link/sync was answered
               /\ \A l \in Lanes : ~everUnlink[r][l] =>
                    /\ (reqs[r][l] > 0 => open[r][l])        \* a link/sync request opens the link
                    /\ (l \in SyncLanes => ~owed[r][l])    \* the last sync is answered (several may share one synced)
       /\ UNCHANGED <<open, reqs, linkedN, syncReq, syncedN, nf, produced, alive, everUnlink, closed, owed, dead>>
    \/ /\ e.e = "end"
       \* when the agent stops every open link of a remote that is still reading is closed with
       \* unlinked and the remote's disconnection promise is completed
       /\ e.clean => \A r \in Remotes : alive[r] =>
                        /\ \A l \in Lanes : ~open[r][l]
                        /\ (\E l \in Lanes : reqs[r][l] > 0) => closed[r]
       /\ dead' = ~e.clean
       /\ UNCHANGED <<open, reqs, linkedN, syncReq, syncedN, nf, produced, alive, everUnlink, closed, owed>>

TraceNext == /\ i <= Len(Rec)
             /\ Step(Rec[i])
             /\ i' = i + 1
             /\ TLCSet(1, Max(TLCGet(1), i + 1))

TraceSpec == TraceInit /\ [][TraceNext]_vars

TraceAccepted ==
    LET m == TLCGet(1) IN
    /\ PrintT(<<"TRACE_RESULT", ToJson([accepted |-> (m = Len(Rec) + 1), matched |-> m - 1, total |-> Len(Rec), kf |-> <<>>])>>)
    /\ m = Len(Rec) + 1
=============================================================================

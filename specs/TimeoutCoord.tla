----------------------------- MODULE TimeoutCoord -----------------------------
(***************************************************************************)
(* Mechanism specification (M) of runtime/swimos_runtime/src/timeout_coord *)
(* (mod.rs): the lock-free inactivity-stop coordinator.                    *)
(*                                                                         *)
(*   Inner  { flags: AtomicU8, waker: AtomicWaker, unanimity: u8 }         *)
(*   Voter  { flag = 1 << i, inverse = all ^ flag, voted: Cell<bool> }     *)
(*                                                                         *)
(* Every access to `flags` or to the AtomicWaker is a separate step; the   *)
(* thread-local work between two accesses (tests on `before`, `current`,   *)
(* `voted`) is folded into the step of the access before it.  The steps    *)
(* are exactly the interleaving points of the cfg(swimos_verif) scheduler  *)
(* hook (one point in front of every atomic access), so a behaviour of     *)
(* this module is a schedule the harness can impose on real OS threads.    *)
(*                                                                         *)
(*  Voter::vote      fetch_or ; [before == inverse]  AtomicWaker::wake     *)
(*  Voter::rescind   !voted -> Pending (no access)                         *)
(*                   inverse < TWO_VOTERS_LIM: one compare_exchange(flag,0)*)
(*                   else loop { load ; ==all -> Unanimous ;               *)
(*                               compare_exchange(cur, cur & !flag) }      *)
(*  Drop for Voter   !voted -> vote()                                      *)
(*  Receiver::poll   load ; AtomicWaker::register ; load                   *)
(*                                                                         *)
(* The AtomicWaker is modelled by its contract: register stores the waker  *)
(* atomically, wake takes and fires it atomically.  `flags` is a number    *)
(* and the masks are computed arithmetically as in the code (the two-party *)
(* path is selected by `inverse < 3`, not by N).                           *)
(***************************************************************************)
EXTENDS Naturals, FiniteSets, TLC

CONSTANTS N,            \* parties: 2 = downlink_timeout_coordinator, 3 = agent_timeout_coordinator
          Sequential,   \* TRUE: operations do not overlap (B1-sequential); FALSE: all interleavings
          TrackAct      \* TRUE: lastAct records the step (state-graph dump); FALSE: constant (liveness runs)

Party == 0 .. (N - 1)
R     == N              \* thread id of the receiver in lastAct

Pow2(k) == IF k = 0 THEN 1 ELSE IF k = 1 THEN 2 ELSE IF k = 2 THEN 4 ELSE IF k = 3 THEN 8 ELSE 16
AllMask == Pow2(N) - 1                               \* NumParties::all()
Flag(i) == Pow2(i)                                   \* 1 << i
Inverse(i) == AllMask - Flag(i)                      \* all ^ flag
HasBit(x, i) == (x \div Flag(i)) % 2 = 1
BitOr(x, i) == IF HasBit(x, i) THEN x ELSE x + Flag(i)       \* x | flag
BitClear(x, i) == IF HasBit(x, i) THEN x - Flag(i) ELSE x    \* x & !flag
TWO_VOTERS_LIM == 3
INIT == 0

VARIABLES flags,    \* Inner.flags
          voted,    \* Voter.voted, per party
          alive,    \* the Voter has not been dropped
          pc,       \* per party: the access it is about to make
                    \*   "idle" | "fetch_or" | "wake" | "cas2" | "load" | "cas" | "novote" | "dropnop" | "ret"
          op,       \* per party: operation in progress "none" | "vote" | "rescind" | "drop"
          cur,      \* per party: `current` of the rescind loop
          res,      \* per party: the VoteResult the call will return ("U" | "P")
          rpc,      \* receiver: "idle" | "load1" | "register" | "load2" | "ret"
          rres,     \* receiver: result of the poll in progress
          rlast,    \* receiver: result of its last completed check "none" | "pending" | "ready"
          rdone,    \* receiver future completed
          wslot,    \* AtomicWaker holds the receiver's waker
          woken,    \* the receiver's waker fired since its last poll began
          lastAct   \* the step just taken + what the implementation must show (hidden from the VIEW)

vars == <<flags, voted, alive, pc, op, cur, res, rpc, rres, rlast, rdone, wslot, woken, lastAct>>
View == <<flags, voted, alive, pc, op, cur, res, rpc, rres, rlast, rdone, wslot, woken>>

\* position of a thread as the harness sees it: the kind of the next atomic access, or "ret"
Vis(p) == CASE p = "cas2" -> "compare_exchange" [] p = "cas" -> "compare_exchange"
            [] p = "load1" -> "load" [] p = "load2" -> "load"
            [] p = "novote" -> "ret" [] p = "dropnop" -> "ret"
            [] OTHER -> p
Act(a) == lastAct' = IF TrackAct THEN a ELSE [k |-> "x"]

Init == /\ flags = INIT
        /\ voted = [i \in Party |-> FALSE] /\ alive = [i \in Party |-> TRUE]
        /\ pc = [i \in Party |-> "idle"] /\ op = [i \in Party |-> "none"]
        /\ cur = [i \in Party |-> 0] /\ res = [i \in Party |-> "P"]
        /\ rpc = "idle" /\ rres = "pending" /\ rlast = "none" /\ rdone = FALSE
        /\ wslot = FALSE /\ woken = FALSE
        /\ lastAct = [k |-> "init"]

OthersIdle(i) == (\A j \in Party \ {i} : pc[j] = "idle") /\ (i # R => rpc = "idle")
MayStart(i) == Sequential => OthersIdle(i)

\* ---------------------------------------------------------------- Voter
\* The call is made: the thread-local tests up to the first atomic access.
VCall(i, o) ==
    /\ alive[i] /\ pc[i] = "idle" /\ MayStart(i)
    /\ LET first == CASE o = "vote" -> "fetch_or"
                      [] o = "rescind" -> IF voted[i]
                                            THEN (IF Inverse(i) < TWO_VOTERS_LIM THEN "cas2" ELSE "load")
                                            ELSE "novote"
                      [] o = "drop" -> IF voted[i] THEN "dropnop" ELSE "fetch_or"
       IN /\ pc' = [pc EXCEPT ![i] = first]
          /\ op' = [op EXCEPT ![i] = o]
          /\ Act([k |-> "call", t |-> i, op |-> o, at |-> Vis(first)])
    /\ UNCHANGED <<flags, voted, alive, cur, res, rpc, rres, rlast, rdone, wslot, woken>>

\* let before = flags.fetch_or(flag); voted.set(true); if before == inverse { .. Unanimous } else { Pending }
VFetchOr(i) ==
    /\ pc[i] = "fetch_or"
    /\ LET before == flags
           nxt == IF before = Inverse(i) THEN "wake" ELSE "ret" IN
       /\ flags' = BitOr(flags, i)
       /\ voted' = [voted EXCEPT ![i] = TRUE]
       /\ res' = [res EXCEPT ![i] = IF before = Inverse(i) THEN "U" ELSE "P"]
       /\ pc' = [pc EXCEPT ![i] = nxt]
       /\ Act([k |-> "step", t |-> i, at |-> nxt])
    /\ UNCHANGED <<alive, op, cur, rpc, rres, rlast, rdone, wslot, woken>>

\* waker.wake()
VWake(i) ==
    /\ pc[i] = "wake"
    /\ wslot' = FALSE
    /\ woken' = (woken \/ wslot)
    /\ pc' = [pc EXCEPT ![i] = "ret"]
    /\ Act([k |-> "step", t |-> i, at |-> "ret", woke |-> wslot])
    /\ UNCHANGED <<flags, voted, alive, op, cur, res, rpc, rres, rlast, rdone>>

\* two-party path: flags.compare_exchange(flag, INIT)
VCas2(i) ==
    /\ pc[i] = "cas2"
    /\ IF flags = Flag(i)
         THEN /\ flags' = INIT
              /\ voted' = [voted EXCEPT ![i] = FALSE]
              /\ res' = [res EXCEPT ![i] = "P"]
         ELSE /\ res' = [res EXCEPT ![i] = "U"]
              /\ UNCHANGED <<flags, voted>>
    /\ pc' = [pc EXCEPT ![i] = "ret"]
    /\ Act([k |-> "step", t |-> i, at |-> "ret"])
    /\ UNCHANGED <<alive, op, cur, rpc, rres, rlast, rdone, wslot, woken>>

\* loop { let current = flags.load(); if current == inverse | flag { break Unanimous } ..
VLoad(i) ==
    /\ pc[i] = "load"
    /\ IF flags = AllMask      \* inverse | flag
         THEN /\ res' = [res EXCEPT ![i] = "U"]
              /\ pc' = [pc EXCEPT ![i] = "ret"]
              /\ UNCHANGED cur
              /\ Act([k |-> "step", t |-> i, at |-> "ret"])
         ELSE /\ cur' = [cur EXCEPT ![i] = flags]
              /\ pc' = [pc EXCEPT ![i] = "cas"]
              /\ UNCHANGED res
              /\ Act([k |-> "step", t |-> i, at |-> "compare_exchange"])
    /\ UNCHANGED <<flags, voted, alive, op, rpc, rres, rlast, rdone, wslot, woken>>

\* .. else if flags.compare_exchange(current, current & !flag).is_ok() { voted.set(false); break Pending } }
VCas(i) ==
    /\ pc[i] = "cas"
    /\ IF flags = cur[i]
         THEN /\ flags' = BitClear(cur[i], i)
              /\ voted' = [voted EXCEPT ![i] = FALSE]
              /\ res' = [res EXCEPT ![i] = "P"]
              /\ pc' = [pc EXCEPT ![i] = "ret"]
              /\ Act([k |-> "step", t |-> i, at |-> "ret"])
         ELSE /\ pc' = [pc EXCEPT ![i] = "load"]
              /\ UNCHANGED <<flags, voted, res>>
              /\ Act([k |-> "step", t |-> i, at |-> "load"])
    /\ cur' = [cur EXCEPT ![i] = 0]
    /\ UNCHANGED <<alive, op, rpc, rres, rlast, rdone, wslot, woken>>

\* calls that touch nothing shared: rescind by a party that has not voted; drop of a party that has
VLocal(i) ==
    /\ pc[i] \in {"novote", "dropnop"}
    /\ res' = [res EXCEPT ![i] = "P"]
    /\ pc' = [pc EXCEPT ![i] = "ret"]
    /\ Act([k |-> "local", t |-> i])
    /\ UNCHANGED <<flags, voted, alive, op, cur, rpc, rres, rlast, rdone, wslot, woken>>

Result(i) == IF op[i] = "drop" THEN "dropped" ELSE res[i]

VRet(i) ==
    /\ pc[i] = "ret"
    /\ pc' = [pc EXCEPT ![i] = "idle"]
    /\ op' = [op EXCEPT ![i] = "none"]
    /\ alive' = [alive EXCEPT ![i] = (op[i] # "drop")]
    /\ res' = [res EXCEPT ![i] = "P"]
    /\ Act([k |-> "ret", t |-> i, op |-> op[i], r |-> Result(i)])
    /\ UNCHANGED <<flags, voted, cur, rpc, rres, rlast, rdone, wslot, woken>>

\* ---------------------------------------------------------------- Receiver
RCall == /\ rpc = "idle" /\ ~rdone /\ MayStart(R)
         /\ rpc' = "load1" /\ woken' = FALSE
         /\ Act([k |-> "call", t |-> R, op |-> "poll", at |-> "load"])
         /\ UNCHANGED <<flags, voted, alive, pc, op, cur, res, rres, rlast, rdone, wslot>>

\* if flags.load(Relaxed) == unanimity { Ready }
RLoad1 == /\ rpc = "load1"
          /\ IF flags = AllMask
               THEN /\ rres' = "ready" /\ rlast' = "ready" /\ rpc' = "ret"
                    /\ Act([k |-> "step", t |-> R, at |-> "ret"])
               ELSE /\ rpc' = "register" /\ UNCHANGED <<rres, rlast>>
                    /\ Act([k |-> "step", t |-> R, at |-> "register"])
          /\ UNCHANGED <<flags, voted, alive, pc, op, cur, res, rdone, wslot, woken>>

\* waker.register(cx.waker())
RRegister == /\ rpc = "register"
             /\ wslot' = TRUE /\ rpc' = "load2"
             /\ Act([k |-> "step", t |-> R, at |-> "load"])
             /\ UNCHANGED <<flags, voted, alive, pc, op, cur, res, rres, rlast, rdone, woken>>

\* if flags.load(Acquire) == unanimity { Ready } else { Pending }
RLoad2 == /\ rpc = "load2"
          /\ LET r == IF flags = AllMask THEN "ready" ELSE "pending" IN
             /\ rres' = r /\ rlast' = r
          /\ rpc' = "ret"
          /\ Act([k |-> "step", t |-> R, at |-> "ret"])
          /\ UNCHANGED <<flags, voted, alive, pc, op, cur, res, rdone, wslot, woken>>

RRet == /\ rpc = "ret"
        /\ rpc' = "idle" /\ rdone' = (rres = "ready") /\ rres' = "pending"
        /\ Act([k |-> "ret", t |-> R, op |-> "poll", r |-> rres])
        /\ UNCHANGED <<flags, voted, alive, pc, op, cur, res, rlast, wslot, woken>>

VStep(i) == VFetchOr(i) \/ VWake(i) \/ VCas2(i) \/ VLoad(i) \/ VCas(i) \/ VLocal(i)
RStep == RLoad1 \/ RRegister \/ RLoad2

Next == \/ \E i \in Party : \/ \E o \in {"vote", "rescind", "drop"} : VCall(i, o)
                            \/ VStep(i) \/ VRet(i)
        \/ RCall \/ RStep \/ RRet

Spec == Init /\ [][Next]_vars

\* ---------------------------------------------------------------- refinement: M implements P
Bits(x) == {i \in Party : HasBit(x, i)}
PreLin == {"fetch_or", "cas2", "load", "cas", "novote", "dropnop"}
PendMap == [i \in Party |->
              IF pc[i] = "idle" THEN [st |-> "idle"]
              ELSE IF pc[i] \in PreLin THEN [st |-> "called", op |-> op[i]]
              ELSE [st |-> "done", op |-> op[i], r |-> Result(i)]]
RPendMap == IF rpc = "idle" THEN [st |-> "idle"]
            ELSE IF rpc = "ret" THEN [st |-> "done", op |-> "poll", r |-> rres]
            ELSE [st |-> "called", op |-> "poll"]

Abs == INSTANCE TimeoutCoordAbs WITH
           votes <- Bits(flags), stopped <- (flags = AllMask), alive <- {i \in Party : alive[i]},
           pend <- PendMap, rpend <- RPendMap, lastPoll <- rlast, wakeSince <- woken

Linearizable == Abs!PSpec            \* every step of M is a step of P (or stutters) under the mapping
\* the clauses of the statement, over M's state through the mapping
S1_StopOnlyIfAllVote == Abs!S1_StopOnlyIfAllVote
S2_ToldPending == Abs!S2_ToldPending
S3_ToldUnanimous == Abs!S3_ToldUnanimous
S5_DroppedCounts == Abs!S5_DroppedCounts
S4_Latch == [][(flags = AllMask) => (flags' = AllMask)]_vars
S2_StaysOut == Abs!S2_StaysOut

\* ---------------------------------------------------------------- M-only sanity
TypeOK == /\ flags \in 0 .. AllMask
          /\ \A i \in Party : cur[i] \in 0 .. AllMask
          /\ \A i \in Party : pc[i] \in {"idle", "fetch_or", "wake", "cas2", "load", "cas", "novote", "dropnop", "ret"}
          /\ rpc \in {"idle", "load1", "register", "load2", "ret"}
\* Voter.voted mirrors the party's bit whenever the party is not inside an operation: this is what
\* the repair of F4 re-established (a successful rescind clears `voted`).
VotedMirrorsBit == \A i \in Party : (pc[i] = "idle" /\ alive[i]) => (voted[i] <=> HasBit(flags, i))
\* the two-party path is taken exactly when there are two parties
TwoPartyPathIffN2 == \A i \in Party : (pc[i] = "cas2" => N = 2) /\ (pc[i] \in {"load", "cas"} => N > 2)
\* no lost wake-up, mechanism form: stopped and the waiter parked => its waker fired or is about to
NoLostWakeupM == (flags = AllMask /\ rlast = "pending" /\ rpc = "idle" /\ ~woken)
                    => (\E i \in Party : pc[i] = "wake")

\* ---------------------------------------------------------------- liveness
\* Threads inside an operation keep running; the executor polls the receiver future initially and
\* whenever its waker fired (and possibly at other times, unfairly).
Fairness == /\ \A i \in Party : WF_vars(VStep(i) \/ VRet(i))
            /\ WF_vars(RStep \/ RRet)
            /\ WF_vars((woken \/ rlast = "none") /\ RCall)
FairSpec == Spec /\ Fairness
UnanimityReachesReceiver == (flags = AllMask) ~> rdone
AllGoneReachesReceiver == (\A i \in Party : ~alive[i]) ~> rdone
=============================================================================

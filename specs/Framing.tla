------------------------------- MODULE Framing -------------------------------
(***************************************************************************)
(* C10 - binary frames decode to what was encoded under any fragmentation. *)
(*                                                                         *)
(* The specification (P = M) of a resumable frame decoder driven the way   *)
(* tokio_util::codec::FramedRead drives a Decoder:                         *)
(*                                                                         *)
(*   Read(n)    the reader appends the next n bytes of the stream to the   *)
(*              buffer (the fragmentation of the stream is the sequence of *)
(*              n's: TLC explores every one of them)                       *)
(*   Decode*    one call of Decoder::decode on the buffer; after a read it *)
(*              is repeated until it answers None                          *)
(*   Eof        Decoder::decode_eof once the stream has ended              *)
(*                                                                         *)
(* Data model.  A stream is the concatenation of frames.  A frame is a     *)
(* sequence of ATOMS, the commit points of the hand written decoder state  *)
(* machines (api/swimos_agent_protocol/src/*/mod.rs, swimos_messages/      *)
(* protocol, swimos_encoding/codec.rs, swimos_recon/encoding.rs):          *)
(*                                                                         *)
(*   [n |-> length, s |-> FALSE, need |-> k]                               *)
(*        a fixed part (tag, tag + id, header with its length fields, or a *)
(*        whole length-prefixed body read by an all-or-nothing decoder     *)
(*        such as WithLengthBytesCodec / RawMapOperationDecoder).  It is   *)
(*        consumed in one go, and only when `need` >= n bytes are          *)
(*        buffered ("remaining < header => return None, do not advance").  *)
(*   [n |-> length, s |-> TRUE, need |-> 0]                                *)
(*        a body handed to an incremental inner decoder through            *)
(*        consume_bounded (Recon bodies, keys, values): while it is        *)
(*        incomplete the inner decoder may take any prefix of what is      *)
(*        there; it is finished by the call that sees its last byte.       *)
(*                                                                         *)
(* The decoder state {Header, Body(remaining)} of the implementation is    *)
(* (fi, ai, ao): frame index, atom index, bytes of the atom already taken. *)
(* A frame whose last atom has been consumed is emitted by the same call   *)
(* and the state returns to the first atom of the next frame.              *)
(*                                                                         *)
(* Corruption.  A layout may be marked bad = "tag" (the tag of the frame   *)
(* has a value outside the closed set of the codec: the call that can see  *)
(* it must answer Err, and no message may be produced for that frame) or   *)
(* bad = "len" (a length field - or any other byte of the frame - was        *)
(* overwritten: from the call that can see it on, any answer is allowed -   *)
(* the statement only demands that it is an answer, not a panic or a hang). *)
(* `at` is the atom holding the field, whose `need` is then the number of   *)
(* bytes of that atom after which the field is visible to the decoder.      *)
(***************************************************************************)
EXTENDS Naturals, Sequences, FiniteSets, TLC, FramingCore

CONSTANTS Layouts,      \* sequence of [id, codec, rep, atoms, bad, at] : the frames the codec pairs can produce
          MaxFrames,    \* longest message sequence
          GivenSeqs,    \* {} or the explicit set of message sequences to explore
          PieceBounds,  \* set of upper bounds for the size of one read (a behaviour picks one)
          RecordHist    \* TRUE: keep the history of pieces (behaviour generation); FALSE: model checking

VARIABLES frames,       \* the encoded message sequence: indices into Layouts          (constant in a behaviour)
          ends,         \* ends[k] = offset of the end of frame k                      (constant in a behaviour)
          maxp,         \* largest piece the reader delivers in this behaviour          (constant in a behaviour)
          delivered,    \* bytes handed to the buffer so far
          consumed,     \* bytes the decoder has advanced over
          fi, ai, ao,   \* decoder state: frame, atom, offset inside a streamed atom
          emitted,      \* messages produced so far
          mode,         \* driver: "read" (decode answered None) | "decode" | "done" | "failed" (decode answered Err)
          synced,       \* FALSE once the decoder has read a corrupted length field
          hist,         \* history: the pieces delivered (hidden by the VIEW)
          lastAct       \* the call just made with its answer (hidden by the VIEW)

vars == <<frames, ends, maxp, delivered, consumed, fi, ai, ao, emitted, mode, synced, hist, lastAct>>
View == <<frames, maxp, delivered, consumed, fi, ai, ao, emitted, mode, synced>>

FrameLen(L) == AtomsLen(L.atoms, Len(L.atoms))

\* End(fs, k): offset of the end of the k-th frame of the stream (k may exceed the number of frames)
RECURSIVE End(_, _)
End(fs, k) == IF k = 0 THEN 0
              ELSE IF k > Len(fs) THEN End(fs, Len(fs))
              ELSE FrameLen(Layouts[fs[k]]) + End(fs, k - 1)
Total(fs) == End(fs, Len(fs))

Bad(f) == Layouts[frames[f]].bad
NumBad(fs) == Cardinality({k \in 1..Len(fs) : Layouts[fs[k]].bad # "ok"})

Codecs == {Layouts[i].codec : i \in 1..Len(Layouts)}
Of(c) == {i \in 1..Len(Layouts) : Layouts[i].codec = c}

Reps(c) == {i \in Of(c) : Layouts[i].rep}

\* message sequences of one codec pair: every single frame; every sequence of 2..MaxFrames frames of
\* the representative subset; at most one corrupted frame
Sequences == IF GivenSeqs # {} THEN GivenSeqs
             ELSE {<<i>> : i \in 1..Len(Layouts)}
                  \cup UNION { { s \in [1..n -> Reps(c)] : NumBad(s) <= 1 } : n \in 2..MaxFrames, c \in Codecs }

EndAt(k) == IF k = 0 THEN 0 ELSE IF k > Len(ends) THEN ends[Len(ends)] ELSE ends[k]
TotalLen == ends[Len(ends)]

Init == /\ frames \in Sequences
        /\ ends = [k \in 1..Len(frames) |-> End(frames, k)]
        /\ maxp \in PieceBounds
        /\ delivered = 0 /\ consumed = 0
        /\ fi = 1 /\ ai = 1 /\ ao = 0
        /\ emitted = 0
        /\ mode = "read" /\ synced = TRUE
        /\ hist = <<>>
        /\ lastAct = [k |-> "init"]

-----------------------------------------------------------------------------
(* One call of decode is FramingCore!Run over the atoms of the current      *)
(* frame with the bytes that are buffered.                                  *)
Avail == delivered - consumed
Cur == Layouts[frames[fi]]
Step == Run(Cur.atoms, ai, ao, Avail, 0, Cur.bad, Cur.at)

Keep == UNCHANGED <<frames, ends, maxp, delivered, hist>>

\* ---- the reader (FramedRead reads only after decode has answered None)
Read(n) ==
    /\ mode = "read"
    /\ n >= 1 /\ n <= maxp /\ delivered + n <= TotalLen
    /\ delivered' = delivered + n
    /\ mode' = "decode"
    /\ hist' = IF RecordHist THEN Append(hist, n) ELSE hist
    /\ lastAct' = [k |-> "read", n |-> n]
    /\ UNCHANGED <<frames, ends, maxp, consumed, fi, ai, ao, emitted, synced>>

\* ---- Decoder::decode, by outcome
\* the frame is not complete: Ok(None); fixed parts are not advanced over, a streamed body may be
DecodeWait ==
    /\ mode = "decode" /\ synced /\ fi <= Len(frames)
    /\ LET r == Step IN
       /\ r.r = "none"
       \* an incremental inner decoder may take any part of an incomplete streamed body
       /\ \E x \in 0..(IF r.ux THEN r.avs ELSE 0) :
             /\ consumed' = consumed + r.c + x
             /\ ai' = r.ai /\ ao' = r.ao + x
             /\ lastAct' = [k |-> "dec", r |-> "none", c |-> r.c + x, m |-> 0]
    /\ mode' = "read"
    /\ UNCHANGED <<fi, emitted, synced>> /\ Keep

\* the last byte of the frame is buffered: Ok(Some(message)), exactly the frame is consumed,
\* the state returns to the header of the next frame
DecodeEmit ==
    /\ mode = "decode" /\ synced /\ fi <= Len(frames)
    /\ LET r == Step IN
       /\ r.r = "some"
       /\ consumed' = consumed + r.c
       /\ lastAct' = [k |-> "dec", r |-> "some", c |-> r.c, m |-> fi]
    /\ fi' = fi + 1 /\ ai' = 1 /\ ao' = 0
    /\ emitted' = emitted + 1
    /\ mode' = "decode"
    /\ UNCHANGED synced /\ Keep

\* a tag outside the closed set of the codec: Err, no message
DecodeReject ==
    /\ mode = "decode" /\ synced /\ fi <= Len(frames)
    /\ LET r == Step IN
       /\ r.r = "err"
       /\ consumed' = consumed + r.c
       /\ lastAct' = [k |-> "dec", r |-> "err", c |-> r.c, m |-> 0]
    /\ mode' = "failed"
    /\ UNCHANGED <<fi, ai, ao, emitted, synced>> /\ Keep

\* any answer of a decoder that has read a corrupted length and is no longer synchronised with
\* the frames: the statement only demands an answer (and that a message costs at least a byte)
Anything ==
    \E r \in {"none", "some", "err"}, c \in {0, Min(1, Avail), Avail} :
          /\ (r = "some" => c > 0)
          /\ consumed' = consumed + c
          /\ lastAct' = [k |-> "dec", r |-> r, c |-> c, m |-> 0]
          /\ mode' = CASE r = "err" -> "failed" [] r = "none" -> "read" [] OTHER -> "decode"

\* the call that can see the corrupted length
DecodeDesync ==
    /\ mode = "decode" /\ synced /\ fi <= Len(frames)
    /\ Step.r = "lost"
    /\ Anything
    /\ synced' = FALSE
    /\ UNCHANGED <<fi, ai, ao, emitted>> /\ Keep

DecodeLost ==
    /\ mode = "decode" /\ ~synced
    /\ Anything
    /\ UNCHANGED <<fi, ai, ao, emitted, synced>> /\ Keep

\* every frame has been emitted and the buffer is empty: Ok(None)
DecodeIdle ==
    /\ mode = "decode" /\ synced /\ fi > Len(frames)
    /\ lastAct' = [k |-> "dec", r |-> "none", c |-> 0, m |-> 0]
    /\ mode' = "read"
    /\ UNCHANGED <<consumed, fi, ai, ao, emitted, synced>> /\ Keep

\* ---- Decoder::decode_eof after the last piece: nothing is left, Ok(None)
Eof ==
    /\ mode = "read" /\ synced /\ delivered = TotalLen
    /\ lastAct' = [k |-> "eof", r |-> "none", c |-> 0, m |-> 0]
    /\ mode' = "done"
    /\ UNCHANGED <<consumed, fi, ai, ao, emitted, synced>> /\ Keep

EofLost ==
    /\ mode = "read" /\ ~synced /\ delivered = TotalLen
    /\ \E r \in {"none", "err"} : lastAct' = [k |-> "eof", r |-> r, c |-> 0, m |-> 0]
    /\ mode' = "done"
    /\ UNCHANGED <<consumed, fi, ai, ao, emitted, synced>> /\ Keep

ReadSome == \E n \in 1..Min(maxp, TotalLen - delivered) : Read(n)

Next == \/ ReadSome
        \/ DecodeWait \/ DecodeEmit \/ DecodeReject \/ DecodeDesync \/ DecodeLost \/ DecodeIdle
        \/ Eof \/ EofLost

Spec == Init /\ [][Next]_vars /\ WF_vars(Next)

-----------------------------------------------------------------------------
(* P - the property, stated over the observable part of the state          *)

TypeOK == /\ delivered \in 0..TotalLen
          /\ consumed \in 0..delivered
          /\ emitted \in 0..Len(frames)
          /\ mode \in {"read", "decode", "done", "failed"} /\ synced \in BOOLEAN

\* "a decoder never consumes bytes belonging to the next frame"
NoOverrun == synced => consumed <= EndAt(emitted + 1)

\* "decodes to exactly what was encoded": message k is produced by the call that consumes the last
\* byte of frame k, in order, nothing in between
ExactAtEmit == (lastAct.k = "dec" /\ lastAct.r = "some" /\ synced) =>
                    /\ lastAct.m = emitted
                    /\ consumed = EndAt(emitted)
                    /\ lastAct.c > 0

\* "for any way the byte stream is split between reads": when the decoder asks for more bytes, no
\* complete frame is left undecoded in the buffer
Prompt == (mode = "read" /\ synced) => \A k \in 1..Len(frames) : (ends[k] <= delivered) => emitted >= k

\* at the end of a well formed stream everything was produced and nothing is left
EofClean == (mode = "done" /\ NumBad(frames) = 0) => (emitted = Len(frames) /\ consumed = TotalLen)

\* "corrupt tags ... produce an error rather than ... a silently wrong message"
NoWrongMessage == \A k \in 1..Len(frames) : (Bad(k) = "tag") => emitted < k
NoSpuriousError == (mode = "failed") => NumBad(frames) > 0

\* only frames are ever turned into messages, one call at a time, consumption is monotone
StepOK == [][/\ consumed' >= consumed
             /\ emitted' \in {emitted, emitted + 1}
             /\ (emitted' = emitted + 1 => lastAct'.r = "some")]_vars

\* every fragmentation of every stream is decoded to the end (no hang)
Terminates == <>(mode \in {"done", "failed"})
=============================================================================

------------------------------ MODULE MC_Route ------------------------------
(* Route + the case dumps the check module replays on the real swimos_route. *)
(* Every record carries the inputs AND what the specification expects:        *)
(*   P-level: m (match), bp (bindings by raw name), ovl (must be reported     *)
(*            ambiguous), all (matching routes of a table)                    *)
(*   M-level: bm (bindings as unapply_parts keys them), r (text of apply),    *)
(*            rt (round trip), ambM, accM / tabAmbM (PlaneBuilder::build)     *)
EXTENDS Route, Json

UriRec(p, u) == [u  |-> u,
                 m  |-> Match(p, u),
                 bp |-> IF Match(p, u) THEN BindP(p, u) ELSE "none",
                 bm |-> IF Match(p, u) THEN BindM(p, u) ELSE "none"]

Vals(p, m) == [i \in 1..Len(NameSeq(p)) |->
                  IF NameSeq(p)[i] \in DOMAIN m THEN m[NameSeq(p)[i]] ELSE "-"]

ApplyRec(p, m) == IF Complete(p, m)
                  THEN [vals |-> Vals(p, m), ok |-> TRUE, r |-> ApplyM(p, m), rt |-> RoundTripM(p, m), f8e |-> F8e(m)]
                  ELSE [vals |-> Vals(p, m), ok |-> FALSE, missing |-> MissingM(p, m)]

PatDump ==
    (Len(routes) = 1 /\ built = "no") =>
        LET p == routes[1] IN
        PrintT(<<"PAT", ToJson([p      |-> p,
                                shapes |-> Shapes(p),
                                names  |-> NameSeq(p),
                                apply  |-> {ApplyRec(p, m) : m \in CompleteMaps(p) \cup IncompleteMaps(p)},
                                uris   |-> {UriRec(p, u) : u \in WellFormedUris(p)}])>>)

\* a text that repeats a parameter name: the specification expects ParseError.  The URIs are what the check
\* module submits to the laws should the real parser accept the text.
BadDump ==
    (built = "parse-error") =>
        LET p == routes[1] IN
        PrintT(<<"BAD", ToJson([p     |-> p,
                                names |-> NameSeq(p),
                                uris  |-> {u \in {CanonDistinct(p), Canon(p, "v")} : UriLegal(u)}])>>)

TabUri(rs, u) == [u |-> u, all |-> Matching(rs, u), first |-> FirstMatch(rs, u)]

TabDump ==
    (built # "no" /\ Len(routes) >= 2) =>
        PrintT(<<"TAB", ToJson([ps      |-> routes,
                                accM    |-> built = "accepted",
                                tabAmbM |-> BuildAmbM(routes),
                                pairs   |-> {[i |-> ij[1], j |-> ij[2],
                                              ovl  |-> OverlapS(routes[ij[1]], routes[ij[2]]),
                                              ambM |-> AmbM(routes[ij[1]], routes[ij[2]]),
                                              f8a  |-> F8a(routes[ij[1]], routes[ij[2]])] : ij \in Pairs(routes)},
                                us      |-> {TabUri(routes, u) : u \in {x \in TableUris(routes) : UriLegal(x)}}])>>)

----------------------------------------------------------------------------
(* Seeded simulation for depth (tlc -simulate): long patterns and large     *)
(* tables are drawn at random instead of enumerated; half of the routes     *)
(* added are position-wise variants of a route already in the table (same   *)
(* text in another spelling, a parameter, another literal), which is where  *)
(* overlaps live.  The same laws are checked and the same records dumped.   *)

RandPattern == [sc   |-> RandomElement(Schemes),
                abs  |-> RandomElement(AbsFlags),
                segs |-> [i \in 1..RandomElement(1..MaxSegs) |-> RandomElement(SegSet)]]
AltSegs(g) == {g} \cup [t : {"par"}, s : ParSyms]
              \cup (IF Lit(g) THEN {[t |-> "lit", s |-> x] : x \in {y \in LitSyms : SymDec[y] = SymDec[g.s]}}
                              ELSE [t : {"lit"}, s : LitSyms])
              \cup {RandomElement(SegSet)}
VariantOf(p) == [p EXCEPT !.segs = [i \in 1..N(p) |-> RandomElement(AltSegs(p.segs[i]))]]

SimAdd == /\ built = "no" /\ Len(routes) < MaxRoutes
          /\ \E p \in {IF routes # <<>> /\ RandomElement({TRUE, FALSE})
                          THEN VariantOf(routes[RandomElement(1..Len(routes))])
                          ELSE RandPattern} :
                /\ WFM(p)
                /\ routes' = Append(routes, p)
                /\ lastAct' = [k |-> "add", p |-> p]
                /\ UNCHANGED built
SimBuild == /\ Len(routes) = MaxRoutes \/ (Len(routes) >= 2 /\ RandomElement(1..4) = 1)
            /\ Build
SimNext == SimAdd \/ SimBuild \/ FindRoute
=============================================================================

------------------------------ MODULE MultiReader ------------------------------
(***************************************************************************)
(* Mechanism specification (M) of swimos_multi_reader::MultiReader, the    *)
(* combinator with which OutgoingTask multiplexes all agents / downlinks   *)
(* attached to one socket (C11: "messages from the many agents and         *)
(* downlinks sharing one socket all leave it, each source's messages in    *)
(* its own order").                                                        *)
(*                                                                         *)
(* One action per public operation: add(stream) and poll_next (the whole   *)
(* `while let Some(index) = self.get_next_stream()` loop is one atomic     *)
(* step: MultiReader is owned by one task).  The environment actions are   *)
(* what a source can do: make an item available (Push) and end (Close);    *)
(* both invoke the waker the reader handed to the stream, if one is        *)
(* registered: waker_fn(|| { ready.fetch_or(1 << index); waker.wake() }).  *)
(*                                                                         *)
(* Mirrored fields:  streams (Slab: entries + LIFO vacant list), stream_   *)
(* buckets (one atomic flag word per BUCKET_SIZE keys), local_flags,       *)
(* queue_flags, current_bucket.                                            *)
(*                                                                         *)
(* Pad = number of sources that are attached first and never produce       *)
(* anything (they occupy the low slab keys), so that the real bucket size  *)
(* 64 can be replayed with a handful of active sources around the bucket   *)
(* boundary (Pad = 62, 4 active: keys 62..65; Pad = 66: 70 sources).       *)
(***************************************************************************)
EXTENDS Naturals, Sequences, FiniteSets, TLC

CONSTANTS BucketSize,   \* BUCKET_SIZE (usize::BITS = 64 in the code; 2 for exhaustive checking)
          Pad,          \* idle sources attached before anything else
          NStreams,     \* scripted sources 1..NStreams
          MaxItems      \* items a source may produce

Streams == 1..NStreams
IDLE    == NStreams + 1             \* slot content: an idle (padding) source
MaxKeys == Pad + NStreams
MaxB    == ((MaxKeys - 1) \div BucketSize) + 1

VARIABLES slots,    \* Slab.entries: slots[k+1] = 0 (vacant) | s \in Streams | IDLE
          free,     \* Slab vacant list, a stack: Head(free) = Slab.next (when non-empty)
          nb,       \* stream_buckets.len()
          shared,   \* stream_buckets: [0..MaxB-1 -> SUBSET 0..BucketSize-1]   (the atomics)
          local,    \* local_flags
          queue,    \* queue_flags
          cur,      \* current_bucket
          st,       \* per source: "new" (not yet added) | "att" | "gone" (returned None, removed from the slab)
          keyOf,    \* slab key of an attached source
          sent, got,\* items made available / items yielded by the reader
          closed,   \* the source has ended (yields None once drained)
          reg,      \* the source holds a waker from its last Pending poll
          idle,     \* the last poll_next returned Pending and the task's waker has not been woken since
          bypass,   \* history: items of other sources yielded while this one had an item available
          lastAct   \* the operation just performed, with the result the implementation must give

rdvars == <<slots, free, nb, shared, local, queue, cur, st, keyOf, got, reg>>
vars == <<slots, free, nb, shared, local, queue, cur, st, keyOf, sent, got, closed, reg, idle, bypass, lastAct>>
View == <<slots, free, nb, shared, local, queue, cur, st, keyOf, sent, got, closed, reg, idle>>

Bucket(k) == k \div BucketSize
Index(k)  == k % BucketSize
Min(S) == CHOOSE x \in S : \A y \in S : x <= y
Occupied(sl) == Cardinality({k \in 1..Len(sl) : sl[k] # 0})

Init ==
    /\ slots = IF Pad = 0 THEN <<>> ELSE [k \in 1..Pad |-> IDLE]
    /\ free = <<>>
    /\ nb = IF Pad = 0 THEN 1 ELSE ((Pad - 1) \div BucketSize) + 1
    \* add() of key k: bucket 0 is current, so its flags are local; the others go to the shared word
    /\ local = {i \in 0..BucketSize-1 : i < Pad}
    /\ shared = [b \in 0..MaxB-1 |-> IF b = 0 THEN {} ELSE {i \in 0..BucketSize-1 : b * BucketSize + i < Pad}]
    /\ queue = {} /\ cur = 0
    /\ st = [s \in Streams |-> "new"]
    /\ keyOf = [s \in Streams |-> 0]
    /\ sent = [s \in Streams |-> 0] /\ got = [s \in Streams |-> 0]
    /\ closed = [s \in Streams |-> FALSE] /\ reg = [s \in Streams |-> FALSE]
    /\ idle = FALSE
    /\ bypass = [s \in Streams |-> 0]
    /\ lastAct = [k |-> "init"]

-----------------------------------------------------------------------------
\* MultiReader::add
Add(s) ==
    /\ st[s] = "new"
    /\ LET key == IF free # <<>> THEN Head(free) ELSE Len(slots)      \* Slab::insert
           b == Bucket(key)
           i == Index(key)
       IN /\ slots' = IF key = Len(slots) THEN Append(slots, s) ELSE [slots EXCEPT ![key + 1] = s]
          /\ free' = IF free # <<>> THEN Tail(free) ELSE free
          /\ keyOf' = [keyOf EXCEPT ![s] = key]
          /\ IF b = cur
               THEN /\ local' = local \cup {i}
                    /\ UNCHANGED <<shared, nb>>
               ELSE /\ shared' = [shared EXCEPT ![b] = @ \cup {i}]      \* StreamBuckets::set (inserts the bucket if missing)
                    /\ nb' = IF b >= nb THEN b + 1 ELSE nb
                    /\ UNCHANGED local
    /\ st' = [st EXCEPT ![s] = "att"]
    /\ idle' = FALSE           \* add does not wake anybody: the owner polls again after adding
    /\ lastAct' = [k |-> "add", s |-> s, wake |-> FALSE]
    /\ UNCHANGED <<queue, cur, sent, got, closed, reg, bypass>>

\* the waker handed to source s fires: ready.fetch_or(1 << index); waker.wake()
Fire(s) == st[s] = "att" /\ reg[s]
Wake(s, act) ==
    IF Fire(s)
      THEN /\ shared' = [shared EXCEPT ![Bucket(keyOf[s])] = @ \cup {Index(keyOf[s])}]
           /\ reg' = [reg EXCEPT ![s] = FALSE]
           /\ idle' = FALSE
           /\ lastAct' = act @@ [wake |-> TRUE]
      ELSE /\ UNCHANGED <<shared, reg, idle>>
           /\ lastAct' = act @@ [wake |-> FALSE]

Push(s) ==
    /\ st[s] \in {"new", "att"} /\ ~closed[s] /\ sent[s] < MaxItems
    /\ sent' = [sent EXCEPT ![s] = @ + 1]
    /\ Wake(s, [k |-> "push", s |-> s])
    /\ UNCHANGED <<slots, free, nb, local, queue, cur, st, keyOf, got, closed, bypass>>

Close(s) ==
    /\ st[s] \in {"new", "att"} /\ ~closed[s]
    /\ closed' = [closed EXCEPT ![s] = TRUE]
    /\ Wake(s, [k |-> "close", s |-> s])
    /\ UNCHANGED <<slots, free, nb, local, queue, cur, st, keyOf, sent, got, bypass>>

-----------------------------------------------------------------------------
\* poll_next.  The reader's fields as a record, so the loops can be written as recursive functions.
Rd == [slots |-> slots, free |-> free, shared |-> shared, local |-> local, queue |-> queue, cur |-> cur,
       st |-> st, got |-> got, reg |-> reg]

RECURSIVE Rotate(_, _, _)
\* the `loop` of get_next_stream: advance to the next bucket whose flag word is non-zero
Rotate(sh, c, start) ==
    LET c1  == IF c + 1 >= nb THEN 0 ELSE c + 1
        loc == sh[c1]
        sh1 == [sh EXCEPT ![c1] = {}]                    \* fetch_and(0)
    IN IF loc # {} THEN [cur |-> c1, local |-> loc, shared |-> sh1, found |-> TRUE]
       ELSE IF c1 = start THEN [cur |-> c1, local |-> {}, shared |-> sh1, found |-> FALSE]
       ELSE Rotate(sh1, c1, start)

GetNext(R) ==
    IF R.local # {}
      THEN LET i == Min(R.local) IN [R |-> [R EXCEPT !.local = @ \ {i}], idx |-> i, some |-> TRUE]
      ELSE LET sh0 == IF R.queue # {} THEN [R.shared EXCEPT ![R.cur] = @ \cup R.queue] ELSE R.shared
               rot == Rotate(sh0, R.cur, R.cur)
               R1  == [R EXCEPT !.shared = rot.shared, !.queue = {}, !.cur = rot.cur, !.local = rot.local]
           IN IF rot.found
                THEN LET i == Min(rot.local) IN [R |-> [R1 EXCEPT !.local = @ \ {i}], idx |-> i, some |-> TRUE]
                ELSE [R |-> R1, idx |-> 0, some |-> FALSE]

RECURSIVE PollLoop(_)
PollLoop(R) ==
    LET g == GetNext(R) IN
    IF ~g.some
      THEN [R |-> g.R, res |-> IF Occupied(g.R.slots) = 0 THEN [r |-> "done"] ELSE [r |-> "pending"]]
      ELSE LET R1  == g.R
               key == g.idx + R1.cur * BucketSize
           IN IF key >= Len(R1.slots) \/ R1.slots[key + 1] = 0 THEN PollLoop(R1)      \* stale flag: streams.get_mut = None
              ELSE IF R1.slots[key + 1] = IDLE THEN PollLoop(R1)                        \* Pending, its waker never fires
              ELSE LET s == R1.slots[key + 1] IN
                   IF R1.got[s] < sent[s]
                     THEN [R |-> [R1 EXCEPT !.got[s] = @ + 1, !.queue = @ \cup {g.idx}],  \* back of the queue
                           res |-> [r |-> "item", src |-> s, n |-> R1.got[s] + 1]]
                   ELSE IF closed[s]
                     THEN PollLoop([R1 EXCEPT !.slots[key + 1] = 0, !.free = <<key>> \o @, !.st[s] = "gone"])  \* Slab::remove
                   ELSE PollLoop([R1 EXCEPT !.reg[s] = TRUE])                             \* Pending: the source keeps the waker

Ready(s) == st[s] = "att" /\ got[s] < sent[s]

Poll ==
    /\ UNCHANGED <<nb, keyOf, sent, closed>>
    /\ LET p == PollLoop(Rd) IN
       /\ slots' = p.R.slots /\ free' = p.R.free /\ shared' = p.R.shared /\ local' = p.R.local
       /\ queue' = p.R.queue /\ cur' = p.R.cur /\ st' = p.R.st /\ got' = p.R.got /\ reg' = p.R.reg
       /\ idle' = (p.res.r = "pending")
       /\ bypass' = IF p.res.r = "item"
                      THEN [s \in Streams |-> IF s = p.res.src THEN 0 ELSE IF Ready(s) THEN bypass[s] + 1 ELSE 0]
                      ELSE bypass
       /\ lastAct' = [k |-> "poll", wake |-> FALSE] @@ p.res

Next == \/ \E s \in Streams : Add(s) \/ Push(s) \/ Close(s)
        \/ Poll

Spec == Init /\ [][Next]_vars

-----------------------------------------------------------------------------
(* P (C11, multiplexing part) over the mechanism's state.                  *)

TypeOK == /\ cur \in 0..nb-1 /\ nb \in 1..MaxB
          /\ local \subseteq 0..BucketSize-1 /\ queue \subseteq 0..BucketSize-1
          /\ \A s \in Streams : got[s] <= sent[s] /\ sent[s] <= MaxItems

\* each source's items leave in its own order, none fabricated or duplicated
PerSourceOrder == (lastAct.k = "poll" /\ lastAct.r = "item") =>
                     /\ st[lastAct.src] = "att" /\ lastAct.n = got[lastAct.src] /\ lastAct.n <= sent[lastAct.src]

\* nothing is lost: the reader is never parked (Pending returned, task not woken) while an attached
\* source has an item to deliver or has ended unnoticed
NoLostWakeup == idle => \A s \in Streams : st[s] = "att" => (got[s] = sent[s] /\ ~closed[s])

\* None only when every source has ended and been drained
DoneSound == (lastAct.k = "poll" /\ lastAct.r = "done") =>
                 /\ Pad = 0 /\ \A s \in Streams : st[s] # "att"

\* no source is starved: while it has an item available at most two rounds of the others pass
NoStarvation == \A s \in Streams : bypass[s] <= 2 * (NStreams - 1)

\* mechanism invariant (why NoLostWakeup holds): an attached source is either waiting with a
\* registered waker or has its ready flag set somewhere
Flagged(s) == LET b == Bucket(keyOf[s]) i == Index(keyOf[s]) IN
              \/ i \in shared[b]
              \/ b = cur /\ (i \in local \/ i \in queue)
ScheduledOrWaiting == \A s \in Streams : st[s] = "att" => (reg[s] \/ Flagged(s))
QueueInCurrent == \A i \in queue : i \notin local
SlabSound == /\ \A s \in Streams : st[s] = "att" => slots[keyOf[s] + 1] = s
             /\ \A j \in 1..Len(free) : slots[free[j] + 1] = 0

=============================================================================

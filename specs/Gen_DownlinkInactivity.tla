------------------------ MODULE Gen_DownlinkInactivity ------------------------
(***************************************************************************)
(* C07, inactivity dimension: generator of environment scripts around the  *)
(* runtime's empty_timeout (read_task: task_state / voted / rescind;       *)
(* write_task: timeout on the registration channel while no consumer is    *)
(* registered, vote / rescind; both halves must have voted at the same     *)
(* time for the runtime to stop).  TLC enumerates EVERY order of           *)
(*   adv    the paused clock moves on by one empty_timeout (or half of it) *)
(*   rread  the remote reads the next request frame and answers it (with   *)
(*          socket capacity 0 the write half is busy in send_link, so its  *)
(*          own inactivity timer only starts here)                         *)
(*   rset   an event from the lane (also with no consumer attached)        *)
(*   attach / cdrop   a consumer arrives / leaves                          *)
(*   cbad   the consumer writes something that is no command: the write    *)
(*          half terminates its command stream and is idle again although  *)
(*          the consumer is still being served by the read half            *)
(*   cupd   an ordinary command                                            *)
(* within the budgets below.  There is no mechanism model here: the        *)
(* recorded executions of the real runtime are judged by P alone           *)
(* (DownlinkSession S9: the runtime stops by itself only for inactivity    *)
(* and never cuts the session of a consumer that is being served).         *)
(***************************************************************************)
EXTENDS Naturals, Sequences, TLC, Json

CONSTANTS MaxLen,     \* script length
          MaxAdv, MaxRead, MaxSet, MaxUpd,
          Halves      \* TRUE: the clock may also move by half a timeout

VARIABLES script, cons, nadv, nread, nset, nupd, nbad
vars == <<script, cons, nadv, nread, nset, nupd, nbad>>

Init == script = <<>> /\ cons = "new" /\ nadv = 0 /\ nread = 0 /\ nset = 0 /\ nupd = 0 /\ nbad = 0

Step(a) == Len(script) < MaxLen /\ script' = Append(script, a)

Adv(ms)  == nadv < MaxAdv /\ nadv' = nadv + 1 /\ Step([k |-> "advance", ms |-> ms])
            /\ UNCHANGED <<cons, nread, nset, nupd, nbad>>
RRead    == nread < MaxRead /\ nread' = nread + 1 /\ Step([k |-> "rread"])
            /\ UNCHANGED <<cons, nadv, nset, nupd, nbad>>
RSet     == nset < MaxSet /\ nset' = nset + 1
            /\ Step([k |-> "rset", op |-> [o |-> "upd", k |-> "k2", v |-> "r" \o ToString(nset + 1)]])
            /\ UNCHANGED <<cons, nadv, nread, nupd, nbad>>
Attach(s) == cons = "new" /\ cons' = "att" /\ Step([k |-> "attach", c |-> 1, sync |-> s, keep |-> FALSE])
            /\ UNCHANGED <<nadv, nread, nset, nupd, nbad>>
CDrop    == cons = "att" /\ cons' = "gone" /\ Step([k |-> "cdrop", c |-> 1])
            /\ UNCHANGED <<nadv, nread, nset, nupd, nbad>>
CBad     == cons = "att" /\ nbad = 0 /\ nbad' = 1 /\ Step([k |-> "csend", c |-> 1, op |-> [o |-> "badcmd"]])
            /\ UNCHANGED <<cons, nadv, nread, nset, nupd>>
CUpd     == cons = "att" /\ nbad = 0 /\ nupd < MaxUpd /\ nupd' = nupd + 1
            /\ Step([k |-> "csend", c |-> 1, op |-> [o |-> "upd", k |-> "k1", v |-> "w1n" \o ToString(nupd + 1)]])
            /\ UNCHANGED <<cons, nadv, nread, nset, nbad>>

Next == \/ Adv(1000) \/ (Halves /\ Adv(500)) \/ RRead \/ RSet \/ \E s \in BOOLEAN : Attach(s)
        \/ CDrop \/ CBad \/ CUpd

\* every script that cannot be extended within the budgets, and every script of full length
Maximal == Len(script) = MaxLen \/ ~ENABLED Next
Dump == Maximal => PrintT(<<"SCRIPT", ToJson(script)>>)
=============================================================================

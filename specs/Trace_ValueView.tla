---------------------------- MODULE Trace_ValueView ----------------------------
(***************************************************************************)
(* P for C01 (value lanes: ordered, gap-tolerant, never-stale view) and    *)
(* the value-lane part of C03 (sync gives a consistent snapshot), as a     *)
(* trace specification over the log of configuration E (real agent + real  *)
(* runtime).  Events (projected from the harness log by checks/e2e.py):    *)
(*   reset                          a new scenario                         *)
(*   init   vals:[lane |-> v]       agent (re)started holding these values  *)
(*   set    lane v                  the lane took value v (on_set callback) *)
(*   req    r lane op               remote r sent link|sync|unlink          *)
(*   frame  r lane kind [v]         remote r received linked|event|synced|  *)
(*                                  unlinked; v = body as integer, or       *)
(*                                  bad = TRUE when it is not an integer    *)
(*   stopping                       the agent is being stopped               *)
(*   gone   r                       remote r stopped reading                *)
(*   quiescent drained:[r...]       nothing in flight; these were drained   *)
(* H[l] is the sequence of values lane l held.  Each event received by a    *)
(* linked remote is matched to the earliest position of H not before the    *)
(* previous match (greedy matching is complete for subsequences), so the    *)
(* trace is rejected exactly when the received values are not an in-order   *)
(* subsequence of the held values / contain a value the lane never held.    *)
(***************************************************************************)
EXTENDS Naturals, Integers, Sequences, FiniteSets, TLC, Json, IOUtils

CONSTANTS VLanes, Remotes

Rec == ndJsonDeserialize(IOEnv.TRACE)

VARIABLES i, H, open, lastPos, lastV, hasV, changed, synced, alive,
          win, adm,         \* C03: an unanswered sync request; values admissible at synced
          \* What the log does not show: how far the runtime has got with r's requests.  link / unlink requests go to
          \* the write task in order; a sync request goes to the lane and links r (implicitly) whenever the lane's
          \* answer reaches the write task - before or after later link / unlink requests of r.  TLC infers it.
          cq,       \* [r][l] link / unlink requests not yet processed: Seq([op, pos]); pos = Len(H[l]) when sent
          sq,       \* [r][l] sync requests whose synced has not been read: Seq([pos])
          rlk,      \* [r][l] the runtime holds r linked
          fq,       \* [r][l] linked / unlinked frames the runtime has produced and r has not read: Seq([k, pos])
          stopping  \* the agent is being stopped (every link is closed without having been asked)
hid == <<cq, sq, rlk, fq>>
vars == <<i, H, open, lastPos, lastV, hasV, changed, synced, alive, win, adm, cq, sq, rlk, fq, stopping>>

Has(e, f) == f \in DOMAIN e
Max(a, b) == IF a > b THEN a ELSE b
RL(x) == [r \in Remotes |-> [l \in VLanes |-> x]]
Cur(l) == H[l][Len(H[l])]

InitState(vals) ==
    /\ H = [l \in VLanes |-> <<vals[l]>>]
    /\ open = RL(FALSE) /\ lastPos = RL(1) /\ lastV = RL(0) /\ hasV = RL(FALSE)
    /\ changed = RL(FALSE) /\ synced = RL(FALSE) /\ alive = [r \in Remotes |-> TRUE]
    /\ win = RL(0) /\ adm = RL({})
    /\ cq = RL(<<>>) /\ sq = RL(<<>>) /\ rlk = RL(FALSE) /\ fq = RL(<<>>) /\ stopping = FALSE

TraceInit == i = 1 /\ InitState([l \in VLanes |-> 0]) /\ TLCSet(1, 1)

ResetTo(vals) ==
    /\ H' = [l \in VLanes |-> <<vals[l]>>]
    /\ open' = RL(FALSE) /\ lastPos' = RL(1) /\ lastV' = RL(0) /\ hasV' = RL(FALSE)
    /\ changed' = RL(FALSE) /\ synced' = RL(FALSE) /\ alive' = [r \in Remotes |-> TRUE]
    /\ win' = RL(0) /\ adm' = RL({})
    /\ cq' = RL(<<>>) /\ sq' = RL(<<>>) /\ rlk' = RL(FALSE) /\ fq' = RL(<<>>) /\ stopping' = FALSE

\* earliest position p >= from with H[l][p] = v (0 if none)
Match(l, from, v) ==
    LET S == {p \in from..Len(H[l]) : H[l][p] = v} IN
    IF S = {} THEN 0 ELSE CHOOSE p \in S : \A q \in S : p <= q

(***************************************************************************)
(* Steps of the runtime that the log does not show.                        *)
(***************************************************************************)
\* the write task takes r's next link / unlink request: link always answers linked; unlink answers unlinked
\* only if r is linked
HCoord(r, l) ==
    /\ cq[r][l] # <<>>
    /\ LET h == Head(cq[r][l]) IN
       /\ cq' = [cq EXCEPT ![r][l] = Tail(@)]
       /\ IF h.op = "link"
            THEN /\ rlk' = [rlk EXCEPT ![r][l] = TRUE]
                 /\ fq' = [fq EXCEPT ![r][l] = Append(@, [k |-> "linked", pos |-> h.pos])]
            ELSE /\ rlk' = [rlk EXCEPT ![r][l] = FALSE]
                 /\ fq' = IF rlk[r][l] THEN [fq EXCEPT ![r][l] = Append(@, [k |-> "unlinked", pos |-> 0])] ELSE fq
    /\ UNCHANGED sq
\* the answer of the lane to a sync request of r reaches the write task while r is not linked: r is linked
\* (the oldest outstanding sync gives the weakest bound on where the lane was)
HSync(r, l) ==
    /\ sq[r][l] # <<>> /\ ~rlk[r][l]
    /\ rlk' = [rlk EXCEPT ![r][l] = TRUE]
    /\ fq' = [fq EXCEPT ![r][l] = Append(@, [k |-> "linked", pos |-> Head(sq[r][l]).pos])]
    /\ UNCHANGED <<cq, sq>>

Step(e) ==
    \/ /\ e.e = "reset" /\ ResetTo([l \in VLanes |-> 0])
    \/ /\ e.e = "init" /\ ResetTo(e.vals)
    \/ /\ e.e = "set" /\ e.lane \in VLanes
       /\ H' = [H EXCEPT ![e.lane] = Append(@, e.v)]
       /\ changed' = [r \in Remotes |-> [l \in VLanes |->
                        IF l = e.lane /\ open[r][l] THEN TRUE ELSE changed[r][l]]]
       /\ adm' = [r \in Remotes |-> [l \in VLanes |->
                        IF l = e.lane /\ win[r][l] > 0 THEN adm[r][l] \cup {e.v} ELSE adm[r][l]]]
       /\ UNCHANGED <<open, lastPos, lastV, hasV, synced, alive, win, hid, stopping>>
    \/ /\ e.e = "req" /\ e.lane \in VLanes /\ e.op = "link"
       /\ cq' = [cq EXCEPT ![e.r][e.lane] = Append(@, [op |-> "link", pos |-> Len(H[e.lane])])]
       /\ UNCHANGED <<H, open, lastPos, lastV, hasV, changed, synced, alive, win, adm, sq, rlk, fq, stopping>>
    \/ /\ e.e = "req" /\ e.lane \in VLanes /\ e.op = "sync"
       /\ LET r == e.r  l == e.lane IN
          /\ sq' = [sq EXCEPT ![r][l] = Append(@, [pos |-> Len(H[l])])]
          /\ win' = [win EXCEPT ![r][l] = @ + 1]
          /\ adm' = [adm EXCEPT ![r][l] = IF win[r][l] = 0 THEN {Cur(l)} ELSE @]
       /\ UNCHANGED <<H, open, lastPos, lastV, hasV, changed, synced, alive, cq, rlk, fq, stopping>>
    \/ /\ e.e = "req" /\ e.lane \in VLanes /\ e.op = "unlink"
       /\ cq' = [cq EXCEPT ![e.r][e.lane] = Append(@, [op |-> "unlink", pos |-> 0])]
       /\ UNCHANGED <<H, open, lastPos, lastV, hasV, changed, synced, alive, win, adm, sq, rlk, fq, stopping>>
    \/ /\ e.e = "frame" /\ e.lane \in VLanes /\ e.kind = "linked"
       /\ LET r == e.r  l == e.lane IN
          /\ fq[r][l] # <<>> /\ Head(fq[r][l]).k = "linked"
          /\ fq' = [fq EXCEPT ![r][l] = Tail(@)]
          /\ open' = [open EXCEPT ![r][l] = TRUE]
          /\ IF open[r][l] THEN UNCHANGED <<lastPos, hasV, changed, synced>>
             ELSE \* a new episode: nothing older than what the lane held when the request that opened it was sent
                  /\ lastPos' = [lastPos EXCEPT ![r][l] = Max(@, Head(fq[r][l]).pos)]
                  /\ hasV' = [hasV EXCEPT ![r][l] = FALSE]
                  /\ changed' = [changed EXCEPT ![r][l] = FALSE]
                  /\ synced' = [synced EXCEPT ![r][l] = FALSE]
       /\ UNCHANGED <<H, lastV, alive, win, adm, cq, sq, rlk, stopping>>
    \/ /\ e.e = "frame" /\ e.lane \in VLanes /\ e.kind = "event"
       /\ LET r == e.r  l == e.lane IN
          IF ~open[r][l]
            THEN UNCHANGED <<lastPos, lastV, hasV>>     \* outside a link: C04's business, not C01's
            ELSE /\ ~Has(e, "bad")                      \* never invented: an integer the lane held ...
                 /\ LET p == Match(l, lastPos[r][l], e.v) IN
                    /\ p > 0                            \* ... at or after the previous one (never reordered)
                    /\ lastPos' = [lastPos EXCEPT ![r][l] = p]
                 /\ lastV' = [lastV EXCEPT ![r][l] = e.v]
                 /\ hasV' = [hasV EXCEPT ![r][l] = TRUE]
       /\ UNCHANGED <<H, open, changed, synced, alive, win, adm, hid, stopping>>
    \/ /\ e.e = "frame" /\ e.lane \in VLanes /\ e.kind = "synced"
       /\ LET r == e.r  l == e.lane IN
          /\ (open[r][l] /\ win[r][l] > 0) =>
                \* C03: the value the remote holds is one the lane held inside the sync window
                (hasV[r][l] /\ lastV[r][l] \in adm[r][l])
          /\ synced' = [synced EXCEPT ![r][l] = TRUE]
          /\ win' = [win EXCEPT ![r][l] = IF @ > 0 THEN @ - 1 ELSE 0]
          /\ adm' = adm
          /\ sq' = [sq EXCEPT ![r][l] = IF @ # <<>> THEN Tail(@) ELSE @]     \* the oldest outstanding sync is answered
       /\ UNCHANGED <<H, open, lastPos, lastV, hasV, changed, alive, cq, rlk, fq, stopping>>
    \/ /\ e.e = "frame" /\ e.lane \in VLanes /\ e.kind = "unlinked"
       \* the episode is over: its obligations end with it (positions stay monotone across episodes)
       /\ LET r == e.r  l == e.lane IN
          /\ IF fq[r][l] # <<>>
               THEN /\ Head(fq[r][l]).k = "unlinked"              \* the answer to an unlink request
                    /\ fq' = [fq EXCEPT ![r][l] = Tail(@)]
                    /\ UNCHANGED <<cq, sq, rlk>>
               ELSE /\ stopping                                   \* the agent stops: every link is closed
                    /\ cq' = [cq EXCEPT ![r][l] = <<>>] /\ sq' = [sq EXCEPT ![r][l] = <<>>]
                    /\ rlk' = [rlk EXCEPT ![r][l] = FALSE] /\ UNCHANGED fq
          /\ open' = [open EXCEPT ![r][l] = FALSE]
          \* (a sync requested after the unlink request is answered after this frame: its window stays open)
          /\ win' = win
          /\ hasV' = [hasV EXCEPT ![r][l] = FALSE]
          /\ changed' = [changed EXCEPT ![r][l] = FALSE]
          /\ synced' = [synced EXCEPT ![r][l] = FALSE]
       /\ UNCHANGED <<H, lastPos, lastV, alive, adm, stopping>>
    \/ /\ e.e = "stopping"
       /\ stopping' = TRUE
       /\ UNCHANGED <<H, open, lastPos, lastV, hasV, changed, synced, alive, win, adm, hid>>
    \/ /\ e.e = "gone"
       /\ alive' = [alive EXCEPT ![e.r] = FALSE]
       /\ UNCHANGED <<H, open, lastPos, lastV, hasV, changed, synced, win, adm, hid, stopping>>
    \/ /\ e.e = "quiescent"
       \* never stale: a drained, linked remote that saw the lane change after its link, or synced,
       \* holds the lane's current value
       /\ \A k \in 1..Len(e.drained) : \A l \in VLanes :
             LET r == e.drained[k] IN
             (alive[r] /\ open[r][l] /\ (changed[r][l] \/ synced[r][l]))
                => (hasV[r][l] /\ lastV[r][l] = Cur(l))
       \* nothing is in flight: every request of a drained remote has been dealt with
       /\ LET D == {e.drained[x] : x \in 1..Len(e.drained)} IN
          /\ cq' = [r \in Remotes |-> IF r \in D THEN [l \in VLanes |-> <<>>] ELSE cq[r]]
          /\ sq' = [r \in Remotes |-> IF r \in D THEN [l \in VLanes |-> <<>>] ELSE sq[r]]
          /\ fq' = [r \in Remotes |-> IF r \in D THEN [l \in VLanes |-> <<>>] ELSE fq[r]]
          /\ rlk' = [r \in Remotes |-> IF r \in D THEN open[r] ELSE rlk[r]]
       /\ UNCHANGED <<H, open, lastPos, lastV, hasV, changed, synced, alive, win, adm, stopping>>

TraceNext ==
    /\ i <= Len(Rec)
    /\ LET e == Rec[i] IN
       \/ \* a linked / unlinked frame that the runtime has yet to produce: it takes r's next request(s)
          /\ e.e = "frame" /\ e.lane \in VLanes /\ e.kind \in {"linked", "unlinked"} /\ fq[e.r][e.lane] = <<>>
          /\ (HCoord(e.r, e.lane) \/ HSync(e.r, e.lane))
          /\ UNCHANGED <<i, H, open, lastPos, lastV, hasV, changed, synced, alive, win, adm, stopping>>
       \/ /\ Step(e)
          /\ i' = i + 1
          /\ TLCSet(1, Max(TLCGet(1), i + 1))

TraceSpec == TraceInit /\ [][TraceNext]_vars

TraceAccepted ==
    LET m == TLCGet(1) IN
    /\ PrintT(<<"TRACE_RESULT", ToJson([accepted |-> (m = Len(Rec) + 1), matched |-> m - 1, total |-> Len(Rec), kf |-> <<>>])>>)
    /\ m = Len(Rec) + 1
=============================================================================

---------------------------- MODULE Trace_ValueView ----------------------------
(***************************************************************************)
(* P for C01 (value lanes: ordered, gap-tolerant, never-stale view) and    *)
(* the value-lane part of C03 (sync gives a consistent snapshot), as a     *)
(* trace specification over the log of configuration E (real agent + real  *)
(* runtime).  Events (projected from the harness log by checks/e2e.py):    *)
(*   reset                          a new scenario                         *)
(*   init   vals:[lane |-> v]       agent (re)started holding these values  *)
(*   set    lane v                  the lane took value v (on_set callback) *)
(*   req    r lane op               remote r sent link|sync|unlink          *)
(*   frame  r lane kind [v]         remote r received linked|event|synced|  *)
(*                                  unlinked; v = body as integer, or       *)
(*                                  bad = TRUE when it is not an integer    *)
(*   gone   r                       remote r stopped reading                *)
(*   quiescent drained:[r...]       nothing in flight; these were drained   *)
(* H[l] is the sequence of values lane l held.  Each event received by a    *)
(* linked remote is matched to the earliest position of H not before the    *)
(* previous match (greedy matching is complete for subsequences), so the    *)
(* trace is rejected exactly when the received values are not an in-order   *)
(* subsequence of the held values / contain a value the lane never held.    *)
(***************************************************************************)
EXTENDS Naturals, Integers, Sequences, FiniteSets, TLC, Json, IOUtils

CONSTANTS VLanes, Remotes

Rec == ndJsonDeserialize(IOEnv.TRACE)

VARIABLES i, H, open, pend, lastPos, lastV, hasV, changed, synced, alive,
          win, adm,         \* C03: an unanswered sync request; values admissible at synced
          unl,              \* an unlink request was sent since the link was opened
          nmin              \* a link / sync request was sent after that unlink request while the old link was still
                            \* open in the log (its unlinked frame not read yet): position of H then (0 = none)
vars == <<i, H, open, pend, lastPos, lastV, hasV, changed, synced, alive, win, adm, unl, nmin>>

Has(e, f) == f \in DOMAIN e
Max(a, b) == IF a > b THEN a ELSE b
RL(x) == [r \in Remotes |-> [l \in VLanes |-> x]]
Cur(l) == H[l][Len(H[l])]

InitState(vals) ==
    /\ H = [l \in VLanes |-> <<vals[l]>>]
    /\ open = RL(FALSE) /\ pend = RL(FALSE) /\ lastPos = RL(1) /\ lastV = RL(0) /\ hasV = RL(FALSE)
    /\ changed = RL(FALSE) /\ synced = RL(FALSE) /\ alive = [r \in Remotes |-> TRUE]
    /\ win = RL(0) /\ adm = RL({}) /\ unl = RL(FALSE) /\ nmin = RL(0)

TraceInit == i = 1 /\ InitState([l \in VLanes |-> 0]) /\ TLCSet(1, 1)

ResetTo(vals) ==
    /\ H' = [l \in VLanes |-> <<vals[l]>>]
    /\ open' = RL(FALSE) /\ pend' = RL(FALSE) /\ lastPos' = RL(1) /\ lastV' = RL(0) /\ hasV' = RL(FALSE)
    /\ changed' = RL(FALSE) /\ synced' = RL(FALSE) /\ alive' = [r \in Remotes |-> TRUE]
    /\ win' = RL(0) /\ adm' = RL({}) /\ unl' = RL(FALSE) /\ nmin' = RL(0)

\* earliest position p >= from with H[l][p] = v (0 if none)
Match(l, from, v) ==
    LET S == {p \in from..Len(H[l]) : H[l][p] = v} IN
    IF S = {} THEN 0 ELSE CHOOSE p \in S : \A q \in S : p <= q

Step(e) ==
    \/ /\ e.e = "reset" /\ ResetTo([l \in VLanes |-> 0])
    \/ /\ e.e = "init" /\ ResetTo(e.vals)
    \/ /\ e.e = "set" /\ e.lane \in VLanes
       /\ H' = [H EXCEPT ![e.lane] = Append(@, e.v)]
       /\ changed' = [r \in Remotes |-> [l \in VLanes |->
                        IF l = e.lane /\ open[r][l] THEN TRUE ELSE changed[r][l]]]
       /\ adm' = [r \in Remotes |-> [l \in VLanes |->
                        IF l = e.lane /\ win[r][l] > 0 THEN adm[r][l] \cup {e.v} ELSE adm[r][l]]]
       /\ UNCHANGED <<open, pend, lastPos, lastV, hasV, synced, alive, win, unl, nmin>>
    \/ /\ e.e = "req" /\ e.lane \in VLanes /\ e.op \in {"link", "sync"}
       /\ LET r == e.r  l == e.lane  fresh == ~open[r][l] /\ ~pend[r][l] IN
          /\ pend' = [pend EXCEPT ![r][l] = TRUE]
          /\ lastPos' = IF fresh THEN [lastPos EXCEPT ![r][l] = Len(H[l])] ELSE lastPos
          /\ hasV' = IF fresh THEN [hasV EXCEPT ![r][l] = FALSE] ELSE hasV
          /\ changed' = IF fresh THEN [changed EXCEPT ![r][l] = FALSE] ELSE changed
          /\ synced' = IF fresh THEN [synced EXCEPT ![r][l] = FALSE] ELSE synced
          /\ IF e.op = "sync"
               THEN /\ win' = [win EXCEPT ![r][l] = @ + 1]
                    /\ adm' = [adm EXCEPT ![r][l] = IF win[r][l] = 0 THEN {Cur(l)} ELSE @]
               ELSE UNCHANGED <<win, adm>>
          \* a request sent after an unlink request, while the old link is still open in the log, starts the
          \* NEXT episode: remember where the lane was
          /\ nmin' = IF open[r][l] /\ unl[r][l] /\ nmin[r][l] = 0 THEN [nmin EXCEPT ![r][l] = Len(H[l])] ELSE nmin
       /\ UNCHANGED <<H, open, lastV, alive, unl>>
    \/ /\ e.e = "req" /\ e.lane \in VLanes /\ e.op = "unlink"
       /\ unl' = [unl EXCEPT ![e.r][e.lane] = TRUE]
       /\ UNCHANGED <<H, open, pend, lastPos, lastV, hasV, changed, synced, alive, win, adm, nmin>>
    \/ /\ e.e = "frame" /\ e.lane \in VLanes /\ e.kind = "linked"
       /\ open' = [open EXCEPT ![e.r][e.lane] = TRUE]
       /\ changed' = IF open[e.r][e.lane] THEN changed ELSE [changed EXCEPT ![e.r][e.lane] = FALSE]
       /\ UNCHANGED <<H, pend, lastPos, lastV, hasV, synced, alive, win, adm, unl, nmin>>
    \/ /\ e.e = "frame" /\ e.lane \in VLanes /\ e.kind = "event"
       /\ LET r == e.r  l == e.lane IN
          IF ~open[r][l]
            THEN UNCHANGED <<lastPos, lastV, hasV, unl, nmin>>     \* outside a link: C04's business, not C01's
            ELSE /\ ~Has(e, "bad")                      \* never invented: an integer the lane held ...
                 /\ LET p == Match(l, lastPos[r][l], e.v) IN
                    /\ p > 0                            \* ... at or after the previous one (never reordered)
                    /\ lastPos' = [lastPos EXCEPT ![r][l] = p]
                 /\ lastV' = [lastV EXCEPT ![r][l] = e.v]
                 /\ hasV' = [hasV EXCEPT ![r][l] = TRUE]
       /\ UNCHANGED <<H, open, pend, changed, synced, alive, win, adm, unl, nmin>>
    \/ /\ e.e = "frame" /\ e.lane \in VLanes /\ e.kind = "synced"
       /\ LET r == e.r  l == e.lane IN
          /\ (open[r][l] /\ win[r][l] > 0) =>
                \* C03: the value the remote holds is one the lane held inside the sync window
                (hasV[r][l] /\ lastV[r][l] \in adm[r][l])
          /\ synced' = [synced EXCEPT ![r][l] = TRUE]
          /\ win' = [win EXCEPT ![r][l] = IF @ > 0 THEN @ - 1 ELSE 0]
          /\ adm' = adm
       /\ UNCHANGED <<H, open, pend, lastPos, lastV, hasV, changed, alive, unl, nmin>>
    \/ /\ e.e = "frame" /\ e.lane \in VLanes /\ e.kind = "unlinked"
       \* the episode is over: its obligations end with it (positions stay monotone across episodes)
       /\ open' = [open EXCEPT ![e.r][e.lane] = FALSE]
       /\ pend' = [pend EXCEPT ![e.r][e.lane] = (nmin[e.r][e.lane] > 0)]
       /\ lastPos' = IF nmin[e.r][e.lane] > 0 THEN [lastPos EXCEPT ![e.r][e.lane] = IF @ > nmin[e.r][e.lane] THEN @ ELSE nmin[e.r][e.lane]]
                      ELSE lastPos
       /\ unl' = [unl EXCEPT ![e.r][e.lane] = FALSE]
       /\ nmin' = [nmin EXCEPT ![e.r][e.lane] = 0]
       \* (a sync requested after the unlink request is answered after this frame: its window stays open)
       /\ win' = win
       /\ hasV' = [hasV EXCEPT ![e.r][e.lane] = FALSE]
       /\ changed' = [changed EXCEPT ![e.r][e.lane] = FALSE]
       /\ synced' = [synced EXCEPT ![e.r][e.lane] = FALSE]
       /\ UNCHANGED <<H, lastV, alive, adm>>
    \/ /\ e.e = "gone"
       /\ alive' = [alive EXCEPT ![e.r] = FALSE]
       /\ UNCHANGED <<H, open, pend, lastPos, lastV, hasV, changed, synced, win, adm, unl, nmin>>
    \/ /\ e.e = "quiescent"
       \* never stale: a drained, linked remote that saw the lane change after its link, or synced,
       \* holds the lane's current value
       /\ \A k \in 1..Len(e.drained) : \A l \in VLanes :
             LET r == e.drained[k] IN
             (alive[r] /\ open[r][l] /\ (changed[r][l] \/ synced[r][l]))
                => (hasV[r][l] /\ lastV[r][l] = Cur(l))
       /\ UNCHANGED <<H, open, pend, lastPos, lastV, hasV, changed, synced, alive, win, adm, unl, nmin>>

TraceNext == /\ i <= Len(Rec)
             /\ Step(Rec[i])
             /\ i' = i + 1
             /\ TLCSet(1, Max(TLCGet(1), i + 1))

TraceSpec == TraceInit /\ [][TraceNext]_vars

TraceAccepted ==
    LET m == TLCGet(1) IN
    /\ PrintT(<<"TRACE_RESULT", ToJson([accepted |-> (m = Len(Rec) + 1), matched |-> m - 1, total |-> Len(Rec), kf |-> <<>>])>>)
    /\ m = Len(Rec) + 1
=============================================================================

----------------------------- MODULE Trace_JoinLane -----------------------------
(***************************************************************************)
(* P for the join lanes (server/swimos_agent/src/lanes/join/value and      *)
(* lanes/join/map): a lane whose map is fed by one downlink per key (join  *)
(* value lane `jv`) / per remote map (join map lane `jm`).                 *)
(*                                                                         *)
(*  J1  the lane's map is the fold of what its downlinks delivered: jv: per *)
(*      key the latest value the key's downlink delivered (absent before   *)
(*      the first event); jm: every entry is owned by the link that updated *)
(*      it last; update / remove apply to the map, clear / take / drop to   *)
(*      the entries the link owns; messages of a link that is not linked    *)
(*      are ignored;                                                        *)
(*  J2  the join lifecycle callbacks are what the delivered notifications   *)
(*      imply, in order (on_linked, on_synced with the key's value / the    *)
(*      link's keys of that moment, on_unlinked / on_failed once when the   *)
(*      link closes / the channel fails), each run to completion before     *)
(*      anything else happens in the agent;                                 *)
(*  J3  when a link closes the lifecycle's answer decides: Abandon keeps    *)
(*      the entries, Delete removes them, Retry asks for the downlink again;*)
(*  J4  remove_downlink removes the link's entries and ends its influence:  *)
(*      nothing it delivers afterwards is applied and it is not retried;    *)
(*  J5  the agent asks the runtime for a downlink exactly when one is added *)
(*      for a key / link that has none, or retried (1 + Retries attempts    *)
(*      while the refusals are recoverable).                                *)
(*                                                                         *)
(* The lane's map is observed in the lane's own on_update / on_remove       *)
(* events (field map), in the jrem entries (before / after) and by jget.    *)
(* When the agent takes a delivered notification is not logged: the hidden  *)
(* action Consume resolves it; TLC searches.                                *)
(*                                                                         *)
(* Deviation actions (enabled only while the finding is open):              *)
(*  EJOIN-F1 remove_downlink does not mark the lane as changed: the lane's  *)
(*           on_remove event does not run (and may run late, for that key,  *)
(*           with a later handler that changes nothing)                     *)
(*  EJOIN-F2 a link removed with remove_downlink whose lifecycle answers    *)
(*           Retry to the resulting on_unlinked is established again        *)
(*  EJOIN-F3 jm: an entry updated a second time by the link that owns it     *)
(*           drops out of the link's key set (on_synced / clear / take /    *)
(*           drop / Delete / remove_downlink no longer see it)              *)
(*                                                                         *)
(* Events (projection of the log of configuration E, checks/e_join.py):      *)
(*   reset ids | jadd lane key id resp | jrem lane key before after          *)
(*   dlreq id | dlans id how | dlin id do [v m k n]                          *)
(*   jcb lane cb key id [v] [keys] [resp] | jop lane m k [v] prev map        *)
(*   jget lane map | other | quiescent | stopping                            *)
(***************************************************************************)
EXTENDS Naturals, Integers, Sequences, FiniteSets, TLC, Json, IOUtils

CONSTANTS Keys,            \* map keys (1..n); jv: the keys of the lane = the keys of its links
          Links,           \* link keys of jm
          Retries,
          EnabledFindings

Rec == ndJsonDeserialize(IOEnv.TRACE)

VARIABLES i,
          D,        \* [id -> downlink record]
          M,        \* [lane -> map]  (sequence indexed by key, -1 absent)
          RV,       \* jv: [key -> <<>> (no link) | <<stop>>]   stop = id of the downlink the entry can stop (0: none)
          RM,       \* jm: [link -> <<>> (no link) | <<[st, keys, stop]>>]
          own,      \* jm: [key -> owning link | 0]
          resp,     \* [lane -> [key / link -> answer of the lifecycle when the link closes]]
          stale,    \* [lane -> BOOLEAN]  a removal by remove_downlink whose on_remove event has not run (EJOIN-F1)
          cur, exp, stopping, kf
vars == <<i, D, M, RV, RM, own, resp, stale, cur, exp, stopping, kf>>

Has(e, f) == f \in DOMAIN e
Max(a, b) == IF a > b THEN a ELSE b
NK == Cardinality(Keys)
EmptyMap == [k \in 1..NK |-> -1]
F(x) == x \in EnabledFindings

FreshD == [lane |-> "none", key |-> 0, phase |-> "none", want |-> FALSE, asked |-> FALSE, left |-> 0,
           inq |-> <<>>, ls |-> "U", stopped |-> FALSE, removed |-> FALSE]

NoLinks == [l \in Links |-> <<>>]
Fresh(ids) ==
    /\ D' = [id \in ids |-> FreshD]
    /\ M' = [l \in {"jv", "jm"} |-> EmptyMap]
    /\ RV' = [k \in 1..NK |-> <<>>] /\ RM' = NoLinks /\ own' = [k \in 1..NK |-> 0]
    /\ resp' = [l \in {"jv", "jm"} |-> [k \in 1..NK |-> "abandon"]]
    /\ stale' = [l \in {"jv", "jm"} |-> FALSE]
    /\ cur' = 0 /\ exp' = <<>> /\ stopping' = FALSE

TraceInit == /\ i = 1 /\ D = <<>> /\ M = [l \in {"jv", "jm"} |-> EmptyMap]
             /\ RV = [k \in 1..NK |-> <<>>] /\ RM = NoLinks /\ own = [k \in 1..NK |-> 0]
             /\ resp = [l \in {"jv", "jm"} |-> [k \in 1..NK |-> "abandon"]]
             /\ stale = [l \in {"jv", "jm"} |-> FALSE]
             /\ cur = 0 /\ exp = <<>> /\ stopping = FALSE /\ kf = {}
             /\ TLCSet(1, 1) /\ TLCSet(2, {}) /\ TLCSet(3, 0) /\ TLCSet(4, {})

Ids == DOMAIN D
Deviate(id) == kf' = kf \cup {id} /\ TLCSet(4, TLCGet(4) \cup {id})

SortedSeq(S) == LET RECURSIVE f(_) f(T) == IF T = {} THEN <<>> ELSE LET x == CHOOSE x \in T : \A y \in T : x <= y IN <<x>> \o f(T \ {x}) IN f(S)
Without(m, ks) == [k \in 1..NK |-> IF k \in ks THEN -1 ELSE m[k]]

\* ---------------------------------------------------------------- jm: the link table (lanes/join/map/mod.rs, struct Links)
LinkOf(l) == RM[l][1]
IsLinked(l) == RM[l] # <<>> /\ LinkOf(l).st = "L"
KeysOf(l) == IF RM[l] = <<>> THEN {} ELSE LinkOf(l).keys
\* what the key sets should be: the entries owned by the link
Owned(l) == {k \in 1..NK : own[k] = l}

\* the result of a map message m of link l: [flag (the lane is marked as changed), rm, own, map]
JmApply(l, n) ==
    IF ~IsLinked(l) THEN [flag |-> FALSE, rm |-> RM, own |-> own, map |-> M["jm"], dev |-> FALSE]
    ELSE CASE n.m = "upd" ->
                LET old == own[n.k]
                    \* EJOIN-F3: the key is taken out of the key set of its previous owner even when that is the updating link
                    again == old = l
                    rm1 == [RM EXCEPT ![l][1].keys = @ \cup {n.k}]
                    rm2 == IF old # 0 /\ rm1[old] # <<>> /\ (old # l \/ F("EJOIN-F3")) THEN [rm1 EXCEPT ![old][1].keys = @ \ {n.k}] ELSE rm1 IN
                [flag |-> TRUE, rm |-> rm2, own |-> [own EXCEPT ![n.k] = l], map |-> [M["jm"] EXCEPT ![n.k] = n.v], dev |-> again /\ F("EJOIN-F3")]
           [] n.m = "rem" ->
                [flag |-> TRUE, rm |-> [RM EXCEPT ![l][1].keys = @ \ {n.k}], own |-> [own EXCEPT ![n.k] = 0],
                 map |-> [M["jm"] EXCEPT ![n.k] = -1], dev |-> FALSE]
           [] OTHER ->
                LET ks == KeysOf(l)
                    gone == CASE n.m = "clr" -> ks
                              [] n.m = "take" -> {k \in ks : Cardinality({j \in ks : j < k}) >= n.n}
                              [] OTHER -> {k \in ks : Cardinality({j \in ks : j < k}) < n.n} IN
                [flag |-> TRUE, rm |-> [RM EXCEPT ![l][1].keys = @ \ gone], own |-> [k \in 1..NK |-> IF k \in gone THEN 0 ELSE own[k]],
                 map |-> Without(M["jm"], gone), dev |-> FALSE]

\* ---------------------------------------------------------------- what a notification implies
Jcb(lane, cb, key, id) == [e |-> "jcb", lane |-> lane, cb |-> cb, key |-> key, id |-> id]
Jop(lane, map) == [e |-> "jop", lane |-> lane, map |-> map]

\* a link closes (an unlinked notification, the end of the channel while linked, a failed channel, a stop while linked)
CloseKind(n) == IF n.do = "fail" THEN "failed" ELSE "unlinked"
Closes(d, n) == n.do \in {"unlinked", "fail"} \/ (n.do \in {"close", "stop"} /\ d.ls \in {"L", "S"})
Silent(d, n) == n.do \in {"close", "stop"} /\ d.ls = "U"

\* the agent takes the next notification delivered to downlink id
Consume(id) ==
    /\ cur = 0 /\ D[id].phase = "run" /\ D[id].inq # <<>>
    /\ LET d == D[id]  n == Head(d.inq)  key == d.key  lane == d.lane
           d1 == [d EXCEPT !.inq = Tail(d.inq)] IN
       IF Silent(d, n)
         THEN \* the downlink ends without a callback; whatever the lane registered for it stays
              /\ D' = [D EXCEPT ![id] = [d1 EXCEPT !.phase = "dead", !.inq = <<>>]]
              /\ UNCHANGED <<M, RV, RM, own, resp, stale, cur, exp, stopping, kf>>
       ELSE IF Closes(d, n)
         THEN LET answer == resp[lane][key]
                  \* J4: a link that is not registered any more (it was removed with remove_downlink) is not retried
                  \* (EJOIN-F2: it is)
                  registered == IF lane = "jv" THEN RV[key] # <<>> ELSE RM[key] # <<>>
                  retry == answer = "retry" /\ (registered \/ F("EJOIN-F2"))
                  ks == IF lane = "jv" THEN {key} ELSE (IF IsLinked(key) THEN KeysOf(key) ELSE {})
                  m2 == IF answer = "delete" THEN Without(M[lane], ks) ELSE M[lane]
                  report == IF lane = "jv" THEN [e |-> "jcb", lane |-> lane, cb |-> CloseKind(n), key |-> key, id |-> id, resp |-> answer]
                            ELSE [e |-> "jcb", lane |-> lane, cb |-> CloseKind(n), key |-> key, id |-> id, resp |-> answer, keys |-> SortedSeq(ks)] IN
              /\ D' = [D EXCEPT ![id] = IF retry THEN [d1 EXCEPT !.phase = "asking", !.want = TRUE, !.left = Retries, !.inq = <<>>, !.ls = "U", !.removed = FALSE, !.stopped = FALSE]
                                                 ELSE [d1 EXCEPT !.phase = "dead", !.inq = <<>>, !.ls = "U"]]
              /\ M' = [M EXCEPT ![lane] = m2]
              /\ IF lane = "jv"
                   THEN /\ RV' = [RV EXCEPT ![key] = IF retry THEN <<id>> ELSE <<>>] /\ UNCHANGED <<RM, own>>
                   ELSE /\ RM' = [RM EXCEPT ![key] = IF retry THEN <<[st |-> "P", keys |-> {}, stop |-> id]>> ELSE <<>>]
                        \* (the entries the link owned have no owner any more; entries of a link that was not linked keep theirs)
                        /\ own' = [k \in 1..NK |-> IF k \in ks \/ (RM[key] # <<>> /\ k \in KeysOf(key)) THEN 0 ELSE own[k]]
                        /\ UNCHANGED RV
              /\ exp' = <<report>> \o (IF m2 # M[lane] THEN <<Jop(lane, m2)>> ELSE <<>>)
              /\ cur' = id
              /\ stale' = IF m2 # M[lane] THEN [stale EXCEPT ![lane] = FALSE] ELSE stale
              /\ IF ~registered /\ answer = "retry" /\ F("EJOIN-F2") THEN Deviate("EJOIN-F2") ELSE UNCHANGED kf
              /\ UNCHANGED <<resp, stopping>>
       ELSE IF n.do = "linked"
         THEN /\ D' = [D EXCEPT ![id] = [d1 EXCEPT !.ls = IF d.ls = "U" THEN "L" ELSE d.ls]]
              /\ IF lane = "jv"
                   THEN /\ RV' = [RV EXCEPT ![key] = IF @ = <<>> THEN <<0>> ELSE @] /\ UNCHANGED RM
                   ELSE /\ RM' = [RM EXCEPT ![key] = IF @ = <<>> THEN <<[st |-> "L", keys |-> {}, stop |-> 0]>> ELSE <<[@[1] EXCEPT !.st = "L"]>>]
                        /\ UNCHANGED RV
              /\ exp' = <<Jcb(lane, "linked", key, id)>> /\ cur' = id
              /\ UNCHANGED <<M, own, resp, stale, stopping, kf>>
       ELSE IF n.do = "synced"
         THEN /\ D' = [D EXCEPT ![id] = [d1 EXCEPT !.ls = "S"]]
              /\ exp' = IF lane = "jv" THEN <<[e |-> "jcb", lane |-> lane, cb |-> "synced", key |-> key, id |-> id, v |-> M["jv"][key]]>>
                                       ELSE <<[e |-> "jcb", lane |-> lane, cb |-> "synced", key |-> key, id |-> id, keys |-> SortedSeq(KeysOf(key))]>>
              /\ cur' = id
              /\ IF lane = "jm" /\ F("EJOIN-F3") /\ KeysOf(key) # Owned(key) /\ RM[key] # <<>> THEN Deviate("EJOIN-F3") ELSE UNCHANGED kf
              /\ UNCHANGED <<M, RV, RM, own, resp, stale, stopping>>
       ELSE \* an event
            IF lane = "jv"
              THEN LET m2 == [M["jv"] EXCEPT ![key] = n.v] IN
                   /\ D' = [D EXCEPT ![id] = d1]
                   /\ M' = [M EXCEPT !["jv"] = m2]
                   /\ exp' = <<[e |-> "jop", lane |-> "jv", m |-> "upd", k |-> key, v |-> n.v, prev |-> M["jv"][key], map |-> m2]>> /\ cur' = id
                   /\ stale' = [stale EXCEPT !["jv"] = FALSE]
                   /\ UNCHANGED <<RV, RM, own, resp, stopping, kf>>
              ELSE LET r == JmApply(key, n)
                       \* the lane's event runs if the message was applied and changed an entry (an update always does)
                       ev == r.flag /\ (n.m = "upd" \/ r.map # M["jm"]) IN
                   /\ D' = [D EXCEPT ![id] = d1]
                   /\ M' = [M EXCEPT !["jm"] = r.map] /\ RM' = r.rm /\ own' = r.own
                   /\ exp' = IF ev THEN <<Jop("jm", r.map)>> ELSE <<>>
                   /\ cur' = IF ev THEN id ELSE 0
                   /\ stale' = IF ev THEN [stale EXCEPT !["jm"] = FALSE] ELSE stale
                   /\ IF r.dev \/ (F("EJOIN-F3") /\ n.m \in {"clr", "take", "drop"} /\ IsLinked(key) /\ KeysOf(key) # Owned(key))
                        THEN Deviate("EJOIN-F3") ELSE UNCHANGED kf
                   /\ UNCHANGED <<RV, resp, stopping>>

Matches(e, p) == \A f \in DOMAIN p : f \in DOMAIN e /\ e[f] = p[f]

Step(e) ==
    IF cur # 0
      THEN \* a callback is in progress: the next entry is the next one it makes
           \* (a change that removes several entries may run the lane's event once - as the code does, for the last entry -
           \* or once per entry: events of the lane before the one that shows the final map are passed over)
           /\ \/ /\ Matches(e, Head(exp))
                 /\ exp' = Tail(exp) /\ cur' = IF Len(exp) = 1 THEN 0 ELSE cur
              \/ /\ e.e = "jop" /\ Head(exp).e = "jop" /\ e.lane = Head(exp).lane /\ "m" \notin DOMAIN Head(exp)
                 /\ e.m = "rem" /\ e.map # Head(exp).map
                 /\ UNCHANGED <<exp, cur>>
           /\ UNCHANGED <<D, M, RV, RM, own, resp, stale, stopping, kf>>
      ELSE
    \/ /\ e.e = "reset" /\ Fresh({e.ids[x] : x \in 1..Len(e.ids)}) /\ UNCHANGED kf
    \/ /\ e.e = "jadd" /\ e.id \in Ids /\ D[e.id].phase = "none"
       /\ resp' = [resp EXCEPT ![e.lane][e.key] = e.resp]
       /\ LET vacant == IF e.lane = "jv" THEN RV[e.key] = <<>> ELSE RM[e.key] = <<>> IN
          IF vacant
            THEN /\ D' = [D EXCEPT ![e.id] = [FreshD EXCEPT !.lane = e.lane, !.key = e.key, !.phase = "asking", !.want = TRUE, !.left = Retries]]
                 /\ IF e.lane = "jv" THEN RV' = [RV EXCEPT ![e.key] = <<e.id>>] /\ UNCHANGED RM
                                     ELSE RM' = [RM EXCEPT ![e.key] = <<[st |-> "P", keys |-> {}, stop |-> e.id]>>] /\ UNCHANGED RV
            ELSE UNCHANGED <<D, RV, RM>>       \* the key / link has a link already: nothing happens
       /\ UNCHANGED <<M, own, stale, cur, exp, stopping, kf>>
    \/ /\ e.e = "jrem"
       \* J4: the entries of the link leave the map, its downlink is stopped
       /\ LET lane == e.lane
              had == IF lane = "jv" THEN RV[e.key] # <<>> ELSE RM[e.key] # <<>>
              stop == IF ~had THEN 0 ELSE IF lane = "jv" THEN RV[e.key][1] ELSE LinkOf(e.key).stop
              ks == IF ~had THEN {} ELSE IF lane = "jv" THEN (IF stop # 0 THEN {e.key} ELSE {}) ELSE KeysOf(e.key)
              m2 == Without(M[lane], ks)
              \* (the lane's own on_remove event, logged just before this entry, shows that the lane was marked as changed)
              reported == i > 1 /\ Rec[i - 1].e = "jop" /\ Rec[i - 1].lane = lane IN
          /\ e.before = M[lane] /\ e.after = m2
          /\ M' = [M EXCEPT ![lane] = m2]
          /\ IF lane = "jv" THEN RV' = [RV EXCEPT ![e.key] = <<>>] /\ UNCHANGED <<RM, own>>
                            ELSE RM' = [RM EXCEPT ![e.key] = <<>>] /\ UNCHANGED <<RV, own>>
          /\ D' = IF stop # 0 /\ stop \in Ids
                    THEN [D EXCEPT ![stop] = [@ EXCEPT !.stopped = TRUE, !.removed = TRUE, !.inq = IF D[stop].phase = "run" THEN <<[do |-> "stop"]>> ELSE <<>>]]
                    ELSE D
          /\ IF m2 # M[lane] /\ ~reported
               THEN /\ F("EJOIN-F1") /\ Deviate("EJOIN-F1") /\ stale' = [stale EXCEPT ![lane] = TRUE]
               ELSE UNCHANGED <<stale, kf>>
       /\ UNCHANGED <<resp, cur, exp, stopping>>
    \/ /\ e.e = "jop"
       \* outside a callback: the lane's on_remove event for the entries a remove_downlink removes (logged just before
       \* the jrem entry), or - EJOIN-F1 - the late event of such a removal
       /\ \/ /\ i < Len(Rec) /\ Rec[i + 1].e = "jrem" /\ Rec[i + 1].lane = e.lane
             /\ UNCHANGED <<stale, kf>>
          \/ /\ stale[e.lane] /\ F("EJOIN-F1") /\ e.map = M[e.lane]
             /\ stale' = [stale EXCEPT ![e.lane] = FALSE] /\ Deviate("EJOIN-F1")
       /\ UNCHANGED <<D, M, RV, RM, own, resp, cur, exp, stopping>>
    \/ /\ e.e = "jget" /\ e.map = M[e.lane]
       /\ UNCHANGED <<D, M, RV, RM, own, resp, stale, cur, exp, stopping, kf>>
    \/ /\ e.e = "dlreq" /\ e.id \in Ids
       /\ D[e.id].want                                       \* J5: only a request that is due
       /\ D' = [D EXCEPT ![e.id] = [@ EXCEPT !.want = FALSE, !.asked = TRUE]]
       /\ UNCHANGED <<M, RV, RM, own, resp, stale, cur, exp, stopping, kf>>
    \/ /\ e.e = "dlans" /\ e.id \in Ids /\ D[e.id].asked
       /\ LET d == [D[e.id] EXCEPT !.asked = FALSE] IN
          D' = [D EXCEPT ![e.id] =
                  CASE e.how = "ok" -> [d EXCEPT !.phase = "run", !.ls = "U", !.inq = IF d.stopped THEN <<[do |-> "stop"]>> ELSE <<>>]
                    [] e.how = "refuse" -> IF d.left > 0 THEN [d EXCEPT !.left = @ - 1, !.want = TRUE] ELSE [d EXCEPT !.phase = "dead"]
                    [] OTHER -> [d EXCEPT !.phase = "dead"]]
       /\ UNCHANGED <<M, RV, RM, own, resp, stale, cur, exp, stopping, kf>>
    \/ /\ e.e = "dlin" /\ e.id \in Ids
       /\ D' = [D EXCEPT ![e.id] = IF @.phase # "run" \/ @.stopped \/ e.do = "outfail" THEN @
                                    ELSE [@ EXCEPT !.inq = Append(@, IF e.do = "closein" THEN [e EXCEPT !.do = "close"] ELSE e)]]
       /\ UNCHANGED <<M, RV, RM, own, resp, stale, cur, exp, stopping, kf>>
    \/ /\ e.e = "other" /\ UNCHANGED <<D, M, RV, RM, own, resp, stale, cur, exp, stopping, kf>>
    \/ /\ e.e = "stopping" /\ stopping' = TRUE /\ UNCHANGED <<D, M, RV, RM, own, resp, stale, cur, exp, kf>>
    \/ /\ e.e = "quiescent"
       /\ stopping \/ \A id \in Ids : /\ ~D[id].want                              \* J5
                                      /\ D[id].phase = "run" => D[id].inq = <<>>  \* J1, J2: everything delivered has been taken
       /\ UNCHANGED <<D, M, RV, RM, own, resp, stale, cur, exp, stopping, kf>>

RecordKf(s) ==
    IF TLCGet(3) = 0 THEN TLCSet(2, s) /\ TLCSet(3, 1)
    ELSE IF Cardinality(s) < Cardinality(TLCGet(2)) THEN TLCSet(2, s) ELSE TRUE

TraceNext ==
    /\ i <= Len(Rec)
    /\ \/ /\ \E id \in Ids : Consume(id)
          /\ UNCHANGED i
       \/ /\ Step(Rec[i])
          /\ i' = i + 1
          /\ TLCSet(1, Max(TLCGet(1), i + 1))
          /\ (i + 1 = Len(Rec) + 1) => RecordKf(kf')

TraceSpec == TraceInit /\ [][TraceNext]_vars

TraceAccepted ==
    LET m == TLCGet(1) IN
    /\ PrintT(<<"TRACE_RESULT", ToJson([accepted |-> (m = Len(Rec) + 1), matched |-> m - 1, total |-> Len(Rec),
                                        kf |-> IF m = Len(Rec) + 1 THEN TLCGet(2) ELSE TLCGet(4)])>>)
    /\ m = Len(Rec) + 1
=============================================================================

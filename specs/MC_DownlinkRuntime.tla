-------------------------- MODULE MC_DownlinkRuntime --------------------------
(* Model-checking / behaviour-generation instance of DownlinkRuntime.tla:     *)
(* named constant values for the cfg files (records and tuples cannot be      *)
(* written in a cfg) and the dump of finished scripts.                        *)
EXTENDS DownlinkRuntime, Json

OptAll == {[sync |-> s, keep |-> k] : s \in BOOLEAN, k \in BOOLEAN}
OptNoKeep == {[sync |-> s, keep |-> FALSE] : s \in BOOLEAN}
OptSyncOnly == {[sync |-> TRUE, keep |-> FALSE]}

Keys1 == <<"k1">>
Keys2 == <<"k1", "k2">>
LaneV == {<<"*", "i0">>}
LaneNone == {}
LaneM0 == {}
LaneM1 == {<<"k1", "i1">>}
LaneM2 == {<<"k1", "i1">>, <<"k2", "i2">>}
NoFindings == {}
AllFindings == {"F10a", "F10b", "F10c"}
FixedAB == {"F10a", "F10b"}
FixedA == {"F10a"}
FixedB == {"F10b"}
BothStrategies == {"abort", "ignore"}
AbortOnly == {"abort"}
IgnoreOnly == {"ignore"}

\* every finished script, with the outputs M expects after each environment action
DumpHist == done => PrintT(<<"REPLAY", ToJson([acts |-> hist, strategy |-> strat, kf |-> p.kf, ok |-> p.st, why |-> p.why])>>)
\* (as ACTION_CONSTRAINT, so that a script is printed once, when it finishes)
DumpOnFinish == (done' /\ ~done) => PrintT(<<"REPLAY", ToJson([acts |-> hist', strategy |-> strat, kf |-> p'.kf, ok |-> p'.st, why |-> p'.why])>>)
=============================================================================

------------------------------ MODULE MC_Remote ------------------------------
EXTENDS Remote, Json
CONSTANTS MaxSend, MaxPeer,   \* bounds on what sources / the peer write
          MaxCtl,             \* bound on the control frames the peer writes
          MCCtl,              \* the control frames the peer uses in this configuration
          MCKinds,            \* envelope kinds used by the environment in this configuration
          PathSel,            \* which DlPath table (below) this configuration uses
          OneWay              \* the clients that attach as send-only (AttachClient::OneWay)

\* bounds (CONSTRAINT) and environment restriction (ACTION_CONSTRAINT)
Bound == cnt.send <= MaxSend /\ cnt.peer <= MaxPeer /\ cnt.ctl <= MaxCtl
KindFilter == /\ (lastAct'.k \in {"peer_send", "peer_frag", "dl_send", "agent_send"}) => lastAct'.msg.kind \in MCKinds
              /\ (lastAct'.k = "peer_ctl") => lastAct'.c \in MCCtl
\* framing scenarios (ACTION_CONSTRAINT): downlink 1 attaches and stays, then the peer frames envelopes of every kind
\* as 1..MaxFrag fragments with control frames at any point; with Settled the graph's transitions are exactly
\* (kind, number of fragments, fragment boundary, control frame) - a transition cover samples each of them
FragFocus == /\ (lastAct'.k \in {"peer_send", "peer_frag", "peer_ctl"}) => dl[1].st = "att"
             /\ lastAct'.k \notin {"dl_detach", "agent_stop", "agent_send", "dl_send"}
\* the path each downlink attaches to / writes to (cfg files cannot spell tuples, hence the selector)
PathsA == << <<"n2", "l1">>, <<"n2", "l1">>, <<"n2", "l2">>, <<"n1", "l2">> >>     \* two downlinks share a lane, one on a sibling lane
PathsB == << <<"n1", "l1">>, <<"n2", "l1">>, <<"n1", "l2">>, <<"n2", "l2">> >>     \* same lane name on two nodes, two lanes of one node
PathsC == << <<"n1", "l1">>, <<"n1", "l1">>, <<"n1", "l2">>, <<"n2", "l2">> >>     \* as A, on a node that also has an agent
PathsD == << <<"n1", "l1">>, <<"n1", "l1">>, <<"n1", "l2">>, <<"n2", "l1">> >>     \* shared lane + sibling lane + another node
DlPath == IF PathSel = "A" THEN PathsA ELSE IF PathSel = "B" THEN PathsB ELSE IF PathSel = "C" THEN PathsC ELSE PathsD
\* downlinks attach in order of their ids (symmetry), to their configured path, and write to it
DlScript == /\ (lastAct'.k = "attach_req") =>
                 /\ <<lastAct'.node, lastAct'.lane>> = DlPath[lastAct'.d]
                 /\ \A d \in Dls : d < lastAct'.d => dl[d].st # "new"
            /\ (lastAct'.k = "attach_oneway") =>
                 /\ lastAct'.d \in OneWay
                 /\ \A d \in Dls : d < lastAct'.d => dl[d].st # "new"
            /\ (lastAct'.k = "attach_req") => lastAct'.d \notin OneWay
            /\ (lastAct'.k = "dl_send") => <<lastAct'.msg.node, lastAct'.msg.lane>> = DlPath[lastAct'.d]
\* reading from a channel commutes with everything else: do it first (partial-order reduction by hand)
\* so does ratchet's reading of the next web socket frame (it only moves data between two FIFOs)
CanRecv == \E s \in Srcs : inbox[s] # <<>> /\ ~SrcGone(s)
Urgent == /\ CanRecv => lastAct'.k = "recv"
          /\ (~CanRecv /\ CanWsRead) => lastAct'.k = "ws_read"

\* "settled" exploration (ACTION_CONSTRAINT): the task finishes whatever it can do before the environment
\* moves again.  Together with TblView (no counters: the socket is always drained, so the space is finite
\* without bounds) the reachable states are exactly the settled states of the routing tables - entry absent /
\* one lane / two lanes / stale writer in an entry / lane emptied / node emptied, per node - and a cover of
\* this graph's transitions is a cover of every table update the incoming half can perform.
TaskCanStep == \/ ~closed /\ \/ pendIn # <<>> \/ pendOut # <<>> \/ resolving # NoMsg \/ sys # <<>>
                             \/ wireIn # <<>> \/ wsIn # <<>>
                             \/ \E s \in regOut : out[s] # <<>>
               \/ \E s \in regOut : out[s] = <<>> /\ SrcGone(s)
               \/ \E d \in Dls : dl[d].st = "req" /\ d \in inDone /\ d \in outDone
Settled == TaskCanStep => lastAct'.k \in {"ws_read", "reg_in", "reg_out", "route", "find", "wire_out", "mux_end", "attach_done"}
TblView == <<subs, routes, inst, alive, dl, pendIn, pendOut, inDone, outDone, regOut, out, inbox, sys, wireIn, resolving, closed, wsIn, sending, asm>>
TblEdgeDump == PrintT(<<"EDGE", ToJson([s |-> TblView, a |-> lastAct', t |-> TblView'])>>)
TblInitDump == (lastAct.k = "init") => PrintT(<<"INIT", ToJson(TblView)>>)

\* state graph dump (lastAct hidden by the VIEW)
EdgeDump == PrintT(<<"EDGE", ToJson([s |-> View, a |-> lastAct', t |-> View'])>>)
InitDump == (lastAct.k = "init") => PrintT(<<"INIT", ToJson(View)>>)

\* PART 1: enumerate the abstract envelope space with the abstract wire form the writer must produce
PureNext == UNCHANGED vars
PureDump == (lastAct.k = "init") => \A e \in EnvSpace : PrintT(<<"ENV", ToJson([e |-> e, w |-> Write(e), back |-> Read(Write(e))])>>)
=============================================================================

------------------------------ MODULE Trace_Http ------------------------------
(***************************************************************************)
(* P for the HTTP lanes of an agent: the HTTP task of the agent runtime    *)
(* (routing by the lane name in the URI, not-found) and the HTTP lane of    *)
(* the configuration E agent (GET / HEAD answer with the value of lane      *)
(* "val", PUT / POST set it, DELETE only answers), as a trace specification *)
(* over the log of configuration E.  Events (projected by                   *)
(* checks/e_lanes2.py):                                                     *)
(*   reset                         a new scenario                            *)
(*   init v | set v                lane "val" holds v (agent (re)started / on_set) *)
(*   hreq id method route [pv] [pbad]                                        *)
(*        a request was handed to the agent runtime; route = "lane" (the     *)
(*        agent's HTTP lane) | "unknown" (a name that is no HTTP lane) |     *)
(*        "none" (no lane parameter); pv = integer body of a PUT / POST,     *)
(*        pbad = its body is not an integer                                  *)
(*   hhand id m [v]                the lane's handler ran for request id     *)
(*        (the id travels in the URI): m = get | put | post | delete;        *)
(*        v = the value read (get) / received (put, post)                    *)
(*   hresp id status blen [bv] [bbad] [clen]                                 *)
(*        the response promise of request id completed: status code, body    *)
(*        length, bv = body as integer / bbad, clen = Content-Length header  *)
(*   hdropped id                   the promise was dropped without an answer *)
(*   stopping                      the agent is being stopped / killed / has *)
(*                                 stopped                                   *)
(*   restart                       a new instance of the agent               *)
(*   quiescent                     nothing is in flight                      *)
(*   final                         the end of the run                        *)
(* What the code guarantees (and no more): every request is answered at most *)
(* once, by what its own handler invocation computed; a request for the      *)
(* HTTP lane runs the handler of its method exactly once before it is        *)
(* answered (none for an unsupported method or an undecodable body, which    *)
(* are answered 405 / 400); any other lane name is answered 404 by the       *)
(* runtime without a handler; while the agent runs no promise is dropped     *)
(* and at quiescence no request is outstanding; once the agent is being      *)
(* stopped requests may be dropped instead, but at the end none is left      *)
(* unresolved.                                                               *)
(***************************************************************************)
EXTENDS Naturals, Integers, Sequences, FiniteSets, TLC, Json, IOUtils

Rec == ndJsonDeserialize(IOEnv.TRACE)

VARIABLES i,
          V,        \* the value lane "val" holds
          st,       \* [id -> "sent" | "answered" | "dropped"]
          rq,       \* [id -> the request event]
          hand,     \* [id -> <<>> | <<the handler event>>]
          wrote,    \* ids of PUT / POST requests whose value lane "val" took after their handler ran
          stopping
vars == <<i, V, st, rq, hand, wrote, stopping>>

Has(e, f) == f \in DOMAIN e
Max(a, b) == IF a > b THEN a ELSE b
Ids == DOMAIN st
Outstanding == {x \in Ids : st[x] = "sent"}

TraceInit == /\ i = 1 /\ V = 0 /\ st = <<>> /\ rq = <<>> /\ hand = <<>> /\ wrote = {} /\ stopping = FALSE
             /\ TLCSet(1, 1)

Supported == {"GET", "HEAD", "PUT", "POST", "DELETE"}
HandlerOf(method) == CASE method \in {"GET", "HEAD"} -> "get"
                       [] method = "PUT" -> "put"
                       [] method = "POST" -> "post"
                       [] method = "DELETE" -> "delete"
                       [] OTHER -> "none"
\* a request that reaches a handler: addressed to the HTTP lane, a supported method, a body the codec decodes
Handled(q) == q.route = "lane" /\ q.method \in Supported /\ ~(q.method \in {"PUT", "POST"} /\ Has(q, "pbad"))

Step(e) ==
    \/ /\ e.e = "reset"
       /\ V' = 0 /\ st' = <<>> /\ rq' = <<>> /\ hand' = <<>> /\ wrote' = {} /\ stopping' = FALSE
    \/ /\ e.e = "init"
       /\ V' = e.v
       /\ UNCHANGED <<st, rq, hand, wrote, stopping>>
    \/ /\ e.e = "set"
       /\ V' = e.v
       \* a PUT / POST whose handler ran and received this value has written it
       /\ wrote' = wrote \cup {x \in Ids : hand[x] # <<>> /\ hand[x][1].m \in {"put", "post"} /\ hand[x][1].v = e.v}
       /\ UNCHANGED <<st, rq, hand, stopping>>
    \/ /\ e.e = "hreq"
       /\ e.id \notin Ids
       /\ st' = [x \in Ids \cup {e.id} |-> IF x = e.id THEN "sent" ELSE st[x]]
       /\ rq' = [x \in Ids \cup {e.id} |-> IF x = e.id THEN e ELSE rq[x]]
       /\ hand' = [x \in Ids \cup {e.id} |-> IF x = e.id THEN <<>> ELSE hand[x]]
       /\ UNCHANGED <<V, wrote, stopping>>
    \/ /\ e.e = "hhand"
       \* a handler runs only for an outstanding request that is to be handled, once, and it is the handler of the
       \* request's method with the request's payload; a GET reads what the lane holds
       /\ e.id \in Ids /\ st[e.id] = "sent" /\ hand[e.id] = <<>>
       /\ LET q == rq[e.id] IN
          /\ Handled(q)
          /\ e.m = HandlerOf(q.method)
          /\ (e.m \in {"put", "post"}) => (Has(e, "v") /\ e.v = q.pv)
          /\ (e.m = "get") => (Has(e, "v") /\ e.v = V)
       /\ hand' = [hand EXCEPT ![e.id] = <<e>>]
       /\ UNCHANGED <<V, st, rq, wrote, stopping>>
    \/ /\ e.e = "hresp"
       \* answered exactly once, never after the promise was dropped, and with the answer this request is due
       /\ e.id \in Ids /\ st[e.id] = "sent"
       /\ LET q == rq[e.id] IN
          /\ (Has(e, "clen") /\ q.method # "HEAD") => e.clen = e.blen
          /\ IF q.route # "lane"
               THEN /\ e.status = 404 /\ hand[e.id] = <<>>                       \* not found, by the runtime
               ELSE IF q.method \notin Supported
               THEN /\ e.status = 405 /\ hand[e.id] = <<>> /\ e.blen = 0          \* method not allowed
               ELSE IF ~Handled(q)
               THEN /\ e.status = 400 /\ hand[e.id] = <<>>                       \* the body is not what the codec decodes
               ELSE /\ hand[e.id] # <<>>                                          \* the handler ran first
                    /\ e.status = 200
                    /\ CASE q.method = "GET" -> Has(e, "bv") /\ e.bv = hand[e.id][1].v    \* what its own handler read
                         [] q.method = "HEAD" -> e.blen = 0 /\ (Has(e, "clen") => e.clen > 0)
                         [] q.method \in {"PUT", "POST"} -> e.blen = 0 /\ e.id \in wrote    \* the value was written
                         [] OTHER -> e.blen = 0
       /\ st' = [st EXCEPT ![e.id] = "answered"]
       /\ UNCHANGED <<V, rq, hand, wrote, stopping>>
    \/ /\ e.e = "hdropped"
       \* only when the agent is being stopped (or has stopped)
       /\ e.id \in Ids /\ st[e.id] = "sent" /\ stopping
       /\ st' = [st EXCEPT ![e.id] = "dropped"]
       /\ UNCHANGED <<V, rq, hand, wrote, stopping>>
    \/ /\ e.e = "stopping"
       /\ stopping' = TRUE
       /\ UNCHANGED <<V, st, rq, hand, wrote>>
    \/ /\ e.e = "restart"
       \* the old instance is gone: nothing of it is left unresolved
       /\ Outstanding = {}
       /\ stopping' = FALSE
       /\ UNCHANGED <<V, st, rq, hand, wrote>>
    \/ /\ e.e = "quiescent"
       /\ stopping \/ Outstanding = {}
       /\ UNCHANGED <<V, st, rq, hand, wrote, stopping>>
    \/ /\ e.e = "final"
       /\ Outstanding = {}
       /\ UNCHANGED <<V, st, rq, hand, wrote, stopping>>

TraceNext == /\ i <= Len(Rec)
             /\ Step(Rec[i])
             /\ i' = i + 1
             /\ TLCSet(1, Max(TLCGet(1), i + 1))

TraceSpec == TraceInit /\ [][TraceNext]_vars

TraceAccepted ==
    LET m == TLCGet(1) IN
    /\ PrintT(<<"TRACE_RESULT", ToJson([accepted |-> (m = Len(Rec) + 1), matched |-> m - 1, total |-> Len(Rec), kf |-> <<>>])>>)
    /\ m = Len(Rec) + 1
=============================================================================

-------------------------- MODULE Sim_Introspection --------------------------
(* Introspection + a recorded path, for TLC's simulation mode (see Sim_Links): *)
(* behaviours of length PathLen printed as REPLAY lines - every call with the  *)
(* pulses, listings and meta-agent states M expects.  The invariants of        *)
(* Introspection.tla are checked on every simulated state as well.             *)
EXTENDS Introspection, Json
CONSTANT PathLen
VARIABLE path
SimInit == Init /\ path = <<>>
SimNext == Next /\ path' = Append(path, lastAct')
PathDump == (Len(path) = PathLen) => PrintT(<<"REPLAY", ToJson(path)>>)
SimBound == Len(path) < PathLen
=============================================================================

---------------------------- MODULE CircularBuffer ----------------------------
(***************************************************************************)
(* Mechanism specification (M) of the single-producer single-consumer      *)
(* circular buffer channel of swimos_sync                                  *)
(* (swimos_utilities/swimos_sync/src/circular_buffer/mod.rs), the channel  *)
(* that carries the values an agent sets on a hosted value downlink        *)
(* (`watch_rx` in swimos_agent .../downlink/hosted/value/mod.rs).          *)
(*                                                                         *)
(* One action per public call:                                             *)
(*   TrySend       Sender::try_send       never waits: when the buffer is  *)
(*                                        full the OLDEST value is dropped *)
(*   Recv(api, w)  one poll of Receiver::recv() / Stream::poll_next with   *)
(*                 waker w                                                 *)
(*   DropSender / DropReceiver                                             *)
(* and one action for two OVERLAPPING calls (the only place where the      *)
(* receiver's decision is taken in two looks at the shared state):         *)
(*   RecvX(api, ns, d)  a poll that finds the buffer empty; before it      *)
(*                 looks at `sender_active` (while it registers its waker) *)
(*                 the sender completes ns try_send calls and, if d = 1,   *)
(*                 is dropped.                                             *)
(*                                                                         *)
(* Values are the sequence numbers 1, 2, 3 ... of the accepted sends.      *)
(* In a sequential execution permits = Cap - Len(q) always, so the permit  *)
(* counter is not a variable of its own.                                   *)
(*                                                                         *)
(* Fix = FALSE is the code as it is: once the receiver has registered its  *)
(* waker and sees the sender gone it answers end-of-stream WITHOUT looking *)
(* at the buffer again (finding KCIRC-F1).  Fix = TRUE is the repair       *)
(* (pop once more after `sender_active` was seen false).                   *)
(***************************************************************************)
EXTENDS Naturals, Sequences, TLC

CONSTANTS Cap,      \* capacity (1: OneItemQueue / watch_channel, 2..31: ArrayQueue, >= 32: SegQueue)
          MaxVal,   \* number of values the sender may send
          NW,       \* distinct wakers the receiver may present; NW + 1 is "a fresh waker" of a RecvX poll
          Fix       \* FALSE: the code as it is; TRUE: with the repair of KCIRC-F1

VARIABLES q,        \* the values in the buffer, oldest first
          sent,     \* number of accepted sends (= the latest value sent)
          sAlive, rAlive,
          reg,      \* the waker held by the AtomicWaker (0 = none)
          rWait,    \* P: the waker of the receiver's latest pending poll, 0 once it has been woken / the receiver got an answer
          lastRecv, \* P: the latest value received
          eos,      \* P: the receiver has been told end-of-stream
          lastAct   \* the call just made, with the results the implementation must give

vars == <<q, sent, sAlive, rAlive, reg, rWait, lastRecv, eos, lastAct>>
View == <<q, sent, sAlive, rAlive, reg, rWait, lastRecv, eos>>
Wakers == 1..NW
Fresh == NW + 1

Init == /\ q = <<>> /\ sent = 0 /\ sAlive = TRUE /\ rAlive = TRUE /\ reg = 0 /\ rWait = 0
        /\ lastRecv = 0 /\ eos = FALSE /\ lastAct = [k |-> "init"]

\* the effect of one accepted send on the buffer: [q, dropped, wakes]
\* wake() is called when all permits were available (empty buffer) - and, for capacity 1, after an overwrite
\* (the permit the sender has just released makes `available == capacity` true again).
Push(b, v) == IF Len(b) < Cap
                THEN [q |-> Append(b, v), dropped |-> <<>>, wakes |-> (Len(b) = 0)]
                ELSE [q |-> Append(Tail(b), v), dropped |-> <<Head(b)>>, wakes |-> (Cap = 1)]

TrySend ==
    /\ sAlive /\ sent < MaxVal
    /\ LET v == sent + 1 IN
       IF ~rAlive THEN
            /\ lastAct' = [k |-> "send", r |-> "err", v |-> v, woke |-> 0, dropped |-> <<>>]
            /\ UNCHANGED <<q, sent, sAlive, rAlive, reg, rWait, lastRecv, eos>>
       ELSE LET p == Push(q, v) IN
            /\ q' = p.q /\ sent' = v
            /\ reg' = IF p.wakes THEN 0 ELSE reg
            /\ rWait' = IF p.wakes /\ rWait = reg THEN 0 ELSE rWait
            /\ lastAct' = [k |-> "send", r |-> "ok", v |-> v, woke |-> IF p.wakes THEN reg ELSE 0, dropped |-> p.dropped]
            /\ UNCHANGED <<sAlive, rAlive, lastRecv, eos>>

Recv(api, w) ==
    /\ rAlive
    /\ LET act == [k |-> "recv", api |-> api, w |-> w] IN
       IF q # <<>> THEN
            \* a value is there: it is returned, the waker is not looked at
            /\ q' = Tail(q) /\ lastRecv' = Head(q) /\ rWait' = 0
            /\ lastAct' = act @@ [r |-> "ready", v |-> Head(q), woke |-> 0, dropped |-> <<>>]
            /\ UNCHANGED <<sent, sAlive, rAlive, reg, eos>>
       ELSE IF sAlive THEN
            \* the waker of THIS poll replaces the one held
            /\ reg' = w /\ rWait' = w
            /\ lastAct' = act @@ [r |-> "pending", woke |-> 0, dropped |-> <<>>]
            /\ UNCHANGED <<q, sent, sAlive, rAlive, lastRecv, eos>>
       ELSE
            /\ reg' = w /\ rWait' = 0 /\ eos' = TRUE
            /\ lastAct' = act @@ [r |-> "closed", woke |-> 0, dropped |-> <<>>]
            /\ UNCHANGED <<q, sent, sAlive, rAlive, lastRecv>>

\* ns sends applied to buffer b starting with value v: [q, dropped]
RECURSIVE PushN(_, _, _)
PushN(b, v, n) == IF n = 0 THEN [q |-> b, dropped |-> <<>>]
                  ELSE LET p == Push(b, v)
                           r == PushN(p.q, v + 1, n - 1) IN [q |-> r.q, dropped |-> p.dropped \o r.dropped]

\* A poll with a fresh waker that found the buffer empty (pop -> None, permits = capacity); while it registers the
\* waker the sender sends ns values and (d = 1) is dropped.  Every wake() of the sender meets the AtomicWaker in
\* its REGISTERING state: the waker being registered is woken once, by `register` itself, and not kept.
RecvX(api, ns, d) ==
    /\ rAlive /\ sAlive /\ q = <<>> /\ ns + d >= 1 /\ sent + ns <= MaxVal
    /\ LET act == [k |-> "recvx", api |-> api, ns |-> ns, d |-> d]
           p   == PushN(q, sent + 1, ns)
           sr  == [j \in 1..ns |-> [r |-> "ok", v |-> sent + j]] \o (IF d = 1 THEN <<[r |-> "dropped"]>> ELSE <<>>)
           common == [fired |-> TRUE, sr |-> sr, woke |-> Fresh, dropped |-> p.dropped]
       IN
       /\ sent' = sent + ns /\ sAlive' = (d = 0) /\ reg' = 0 /\ rWait' = 0
       /\ IF d = 1 /\ (~Fix \/ p.q = <<>>) THEN
               \* sender_active is false: end-of-stream - whatever the buffer holds by now (KCIRC-F1 when it is not empty)
               /\ q' = p.q /\ eos' = TRUE
               /\ lastAct' = act @@ common @@ [r |-> "closed"]
               /\ UNCHANGED <<rAlive, lastRecv>>
          ELSE
               \* the re-check of the permits sends the receiver round its loop: it finds the oldest value
               /\ q' = Tail(p.q) /\ lastRecv' = Head(p.q)
               /\ lastAct' = act @@ common @@ [r |-> "ready", v |-> Head(p.q)]
               /\ UNCHANGED <<rAlive, eos>>

\* Drop for Sender: sender_active := false, then wake whoever is registered - also a receiver that is gone.
\* The half that is dropped last frees the buffer with the values still in it.
DropSender ==
    /\ sAlive /\ sAlive' = FALSE
    /\ reg' = 0 /\ rWait' = IF rWait = reg THEN 0 ELSE rWait
    /\ q' = IF rAlive THEN q ELSE <<>>
    /\ lastAct' = [k |-> "dropS", r |-> "done", woke |-> reg, dropped |-> IF rAlive THEN <<>> ELSE q]
    /\ UNCHANGED <<sent, rAlive, lastRecv, eos>>

DropReceiver ==
    /\ rAlive /\ rAlive' = FALSE /\ rWait' = 0
    /\ q' = IF sAlive THEN q ELSE <<>>
    /\ lastAct' = [k |-> "dropR", r |-> "done", woke |-> 0, dropped |-> IF sAlive THEN <<>> ELSE q]
    /\ UNCHANGED <<sent, sAlive, reg, lastRecv, eos>>

Apis == {"recv", "next"}

Next == \/ TrySend \/ DropSender \/ DropReceiver
        \/ \E api \in Apis : \E w \in Wakers : Recv(api, w)
        \/ \E api \in Apis : \E ns \in 0..2 : \E d \in 0..1 : RecvX(api, ns, d)

Spec == Init /\ [][Next]_vars

-----------------------------------------------------------------------------
(* P: what the channel promises (doc comments of channel(), Sender,        *)
(* Receiver; the tests of the crate), over the mechanism's state.          *)

Last(s) == s[Len(s)]

TypeOK == /\ q \in Seq(1..MaxVal) /\ sent \in 0..MaxVal /\ reg \in 0..NW /\ rWait \in 0..NW
          /\ lastRecv \in 0..MaxVal /\ sAlive \in BOOLEAN /\ rAlive \in BOOLEAN /\ eos \in BOOLEAN

Bounded == Len(q) <= Cap

\* What the buffer holds is a run of consecutive values, all newer than anything received, ending with the latest
\* value sent: so values are received in the order sent, none twice, and only the oldest are ever given up.
InOrder == \A j \in 1..Len(q) : /\ q[j] <= sent /\ q[j] > lastRecv
                                /\ (j > 1 => q[j] = q[j - 1] + 1)

\* The LATEST value is never lost: it is in the buffer until the receiver takes it.
LatestKept == (rAlive /\ sent > 0) => (lastRecv = sent \/ (q # <<>> /\ Last(q) = sent))

\* Nothing is given up while there is room: whenever the receiver has missed values, the buffer is full of newer ones
\* or the values it holds are exactly the Cap newest (the receiver missed v only because Cap newer values arrived).
OnlyOldestDropped == \A v \in 1..sent : (v > lastRecv /\ ~(\E j \in 1..Len(q) : q[j] = v)) =>
                        (~rAlive \/ (Len(q) = Cap /\ q[1] > v))

\* No lost wake-up: a receiver that was told to wait, and whose waker has not fired since, has nothing to receive
\* and the sender is still there - and it is ITS LATEST waker the channel holds.
NoLostWakeup == (rAlive /\ rWait # 0) => (q = <<>> /\ sAlive)
SlotHoldsWaiter == (rAlive /\ rWait # 0) => reg = rWait

\* Results.
ResultSound ==
    /\ (lastAct.k \in {"recv", "recvx"} /\ lastAct.r = "ready") => (lastAct.v = lastRecv /\ lastAct.v <= sent)
    /\ (lastAct.k = "recv" /\ lastAct.r = "pending") => (q = <<>> /\ sAlive)
    /\ (lastAct.k \in {"recv", "recvx"} /\ lastAct.r = "closed") => ~sAlive
    /\ (lastAct.k = "send" /\ lastAct.r = "err") => ~rAlive
    /\ (lastAct.k = "send" /\ lastAct.r = "ok") => (rAlive /\ q # <<>> /\ Last(q) = lastAct.v)

\* "If the send end is dropped, the receive end will receive all data remaining in the buffer and will then
\* terminate": end-of-stream only from an empty buffer.  Violated by M with Fix = FALSE (KCIRC-F1), holds with the repair.
EosSound == (lastAct.k \in {"recv", "recvx"} /\ lastAct.r = "closed") => q = <<>>

\* Received values strictly increase (action property; lastRecv only moves forward, by a receive).
Monotone == [][lastRecv' >= lastRecv /\ (lastRecv' # lastRecv => lastAct'.k \in {"recv", "recvx"})]_vars

-----------------------------------------------------------------------------
(* Liveness: a receiver that behaves like a task - it polls, and after     *)
(* `pending` polls again only when its waker has fired - still gets the    *)
(* latest value and then end-of-stream once the sender is gone.  A lost    *)
(* wake-up would leave rWait # 0 for ever and break both properties.       *)

RecvTask == rWait = 0 /\ \E w \in Wakers : Recv("recv", w)
NextTask == TrySend \/ DropSender \/ DropReceiver \/ RecvTask
LiveSpec == Init /\ [][NextTask]_vars /\ WF_vars(RecvTask)

LatestDelivered == [](~sAlive => <>(~rAlive \/ lastRecv = sent))
Drains == [](~sAlive => <>(~rAlive \/ (eos /\ q = <<>>)))
\* while the sender lives: whatever is in the buffer is eventually taken (or the receiver goes away)
Progress == \A v \in 1..MaxVal : []((\E j \in 1..Len(q) : q[j] = v) => <>(~rAlive \/ lastRecv >= v))

=============================================================================

--------------------------- MODULE TimeoutCoordAbs ---------------------------
(***************************************************************************)
(* P for C17: the inactivity-stop coordinator as an atomic object, in the  *)
(* call / linearization-point / return form, so that a concurrent history  *)
(* of the real timeout_coord::{Voter, Receiver} is correct iff it is a     *)
(* behaviour of this module (linearizability).                             *)
(*                                                                         *)
(* Abstract state: the set of parties with an outstanding vote to stop,    *)
(* and a latch `stopped` (the stop has begun).  Clauses of the statement:  *)
(*  S1  the runtime stops only when all parties have an outstanding vote   *)
(*      at the same moment           (stopped is set only when votes=Party)*)
(*  S2  rescind answered "pending" => the stop has not begun and cannot    *)
(*      begin until this party votes again   (~stopped /\ i \notin votes') *)
(*  S3  an answer "unanimous" (vote or rescind) => the stop has begun, and *)
(*      the waiter sees it   (stopped; a poll after that is "ready"; a     *)
(*      parked waiter has been woken once the system is quiescent)         *)
(*  S4  unanimity is never undone              (stopped is a latch)        *)
(*  S5  a party that disappears counts as having voted   (Drop adds it)    *)
(* Freedom left open (the statement does not fix it): whether a vote that  *)
(* completes unanimity, or a vote cast after it, is answered "unanimous"   *)
(* or "pending"; when and how often the waiter's waker fires.              *)
(***************************************************************************)
EXTENDS Naturals, FiniteSets

CONSTANT N                       \* number of voting parties (2 = downlink runtime, 3 = agent runtime)
Party == 0 .. (N - 1)

VARIABLES votes,      \* parties with an outstanding vote to stop
          stopped,    \* latch: unanimity was reached
          alive,      \* parties whose Voter still exists
          pend,       \* per party: [st |-> "idle"] | [st |-> "called", op] | [st |-> "done", op, r]
          rpend,      \* the same for the waiter (op = "poll")
          lastPoll,   \* outcome of the waiter's last linearized poll: "none" | "pending" | "ready"
          wakeSince   \* the waiter's waker fired since its last poll was called

pvars == <<votes, stopped, alive, pend, rpend, lastPoll, wakeSince>>

Idle == [st |-> "idle"]
VoterOps == {"vote", "rescind", "drop"}

PInit == /\ votes = {} /\ stopped = FALSE /\ alive = Party
         /\ pend = [i \in Party |-> Idle] /\ rpend = Idle
         /\ lastPoll = "none" /\ wakeSince = FALSE

\* -------------------------------------------------------------- the atomic effects
\* The effect of operation o by party i answered r, at its linearization point.
Effect(i, o, r) ==
    \/ /\ o = "vote"
       /\ votes' = votes \cup {i}
       /\ stopped' = (stopped \/ votes' = Party)
       /\ r \in {"U", "P"}
       /\ (r = "U") => stopped'                                   \* S3 (S1 by construction)
    \/ /\ o = "rescind"
       /\ IF stopped THEN r = "U" /\ UNCHANGED <<votes, stopped>>          \* S3, S4
                     ELSE r = "P" /\ votes' = votes \ {i} /\ UNCHANGED stopped   \* S2
    \/ /\ o = "drop"
       /\ votes' = votes \cup {i}                                 \* S5
       /\ stopped' = (stopped \/ votes' = Party)
       /\ r = "dropped"

\* -------------------------------------------------------------- call / lin / return
Call(i, o) == /\ i \in alive /\ pend[i].st = "idle" /\ o \in VoterOps
              /\ pend' = [pend EXCEPT ![i] = [st |-> "called", op |-> o]]
              /\ UNCHANGED <<votes, stopped, alive, rpend, lastPoll, wakeSince>>

Lin(i, r) == /\ pend[i].st = "called"
             /\ Effect(i, pend[i].op, r)
             /\ pend' = [pend EXCEPT ![i] = [st |-> "done", op |-> pend[i].op, r |-> r]]
             /\ UNCHANGED <<alive, rpend, lastPoll, wakeSince>>

\* Nobody is inside an operation.
Quiescent(p, rp) == (\A j \in Party : p[j].st = "idle") /\ rp.st = "idle"
\* S3/S5, deadlock freedom: once nothing is running any more, a waiter that was told "pending" and
\* parked must have been woken if the stop has begun - nobody else will ever do it.
NoLostWakeup(st, lp, ws) == ~(st /\ lp = "pending" /\ ~ws)

Ret(i, r) == /\ pend[i].st = "done" /\ pend[i].r = r
             /\ pend' = [pend EXCEPT ![i] = Idle]
             /\ alive' = IF pend[i].op = "drop" THEN alive \ {i} ELSE alive
             /\ Quiescent(pend', rpend) => NoLostWakeup(stopped, lastPoll, wakeSince)
             /\ UNCHANGED <<votes, stopped, rpend, lastPoll, wakeSince>>

PollCall == /\ rpend.st = "idle" /\ lastPoll # "ready"      \* a completed future is not polled again
            /\ rpend' = [st |-> "called", op |-> "poll"]
            /\ wakeSince' = FALSE
            /\ UNCHANGED <<votes, stopped, alive, pend, lastPoll>>

PollLin(r) == /\ rpend.st = "called"
              /\ r = IF stopped THEN "ready" ELSE "pending"           \* S1, S3
              /\ rpend' = [st |-> "done", op |-> "poll", r |-> r]
              /\ lastPoll' = r
              /\ UNCHANGED <<votes, stopped, alive, pend, wakeSince>>

PollRet(r) == /\ rpend.st = "done" /\ rpend.r = r
              /\ rpend' = Idle
              /\ Quiescent(pend, rpend') => NoLostWakeup(stopped, lastPoll, wakeSince)
              /\ UNCHANGED <<votes, stopped, alive, pend, lastPoll, wakeSince>>

\* The waiter's waker fires (any time: spurious wake-ups are harmless).
Wake == /\ wakeSince' = TRUE
        /\ UNCHANGED <<votes, stopped, alive, pend, rpend, lastPoll>>

Results == {"U", "P", "dropped"}
PNext == \/ \E i \in Party : \/ \E o \in VoterOps : Call(i, o)
                             \/ \E r \in Results : Lin(i, r) \/ Ret(i, r)
         \/ PollCall \/ Wake
         \/ \E r \in {"ready", "pending"} : PollLin(r) \/ PollRet(r)

PSpec == PInit /\ [][PNext]_pvars

\* -------------------------------------------------------------- the clauses, as theorems of P
\* (checked by TLC on P itself: MC_TimeoutCoordAbs; and on M through the refinement mapping)
PTypeOK == /\ votes \subseteq Party /\ stopped \in BOOLEAN /\ alive \subseteq Party
           /\ lastPoll \in {"none", "pending", "ready"} /\ wakeSince \in BOOLEAN
S1_StopOnlyIfAllVote == stopped <=> (votes = Party)
S5_DroppedCounts     == \A i \in Party : (i \notin alive) => (i \in votes)
S3_ToldUnanimous     == /\ \A i \in Party : (pend[i].st = "done" /\ pend[i].r = "U") => stopped
                        /\ (lastPoll = "ready") => stopped
S2_ToldPending       == \A i \in Party :
                            (pend[i].st = "done" /\ pend[i].op = "rescind" /\ pend[i].r = "P")
                                => (~stopped /\ i \notin votes)
\* action properties
S4_Latch    == [][stopped => stopped']_pvars
\* a party answered "pending" by rescind stays out of the vote set until it starts a new operation itself,
\* hence the stop cannot begin before it votes again
S2_StaysOut == [][\A i \in Party : (pend[i].st = "done" /\ pend[i].op = "rescind" /\ pend[i].r = "P"
                                      /\ pend'[i] = pend[i]) => (i \notin votes' /\ ~stopped')]_pvars
S1_StopMoment == [][(~stopped /\ stopped') => votes' = Party]_pvars
=============================================================================

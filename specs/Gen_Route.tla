------------------------------ MODULE Gen_Route ------------------------------
(***************************************************************************)
(* C18 - the pattern parser.  Mechanism (M): RoutePattern::parse as the    *)
(* ParseState machine of route_pattern/mod.rs, one action per character    *)
(* (ParseState::transition + check) and one for the end of input           *)
(* (ParseState::end + the duplicate-name scan).  Property side: the        *)
(* grammar G a route pattern is documented to have,                        *)
(*      pattern ::= [scheme ':'] ['/'] segment ('/' segment)*              *)
(*      segment ::= literal | ':' name                                     *)
(* TLC enumerates every string over Chars up to MaxLen - well-formed and   *)
(* malformed alike -, checks that M accepts exactly G (same scheme, flag,  *)
(* segments) and dumps each string with M's result; the check module runs  *)
(* them (characters concretised from pools: ASCII letters, digits, '%',    *)
(* multi-byte characters...) on the real parser, and submits every string  *)
(* the real parser accepts to the round-trip law.                          *)
(*                                                                         *)
(* Characters: "/" ":" as themselves; "a" "b" stand for ASCII letters (the *)
(* only ones that can start a scheme); "1" for any other character.        *)
(* Offsets are counted in characters here, in bytes in the code.           *)
(***************************************************************************)
EXTENDS Integers, Sequences, FiniteSets, TLC, Json

CONSTANTS Chars, MaxLen, Findings

VARIABLES str,      \* the characters consumed so far                     (pat)
          st,       \* ParseState variant
          start,    \* its usize payload: where the current token began   (Literal(o), Parameter(o), SchemeOrLiteral(o))
          scheme,   \* Option<usize>: -1 = None                           (scheme)
          abs,      \* absolute
          segs,     \* Vec<Segment>: [b, e, par] with b, e offsets into str (0-based, e exclusive)
          done,     \* "no" | "ok" | "err"
          errAt     \* ParseError(offset)

gvars == <<str, st, start, scheme, abs, segs, done, errAt>>

Alpha(c) == c \in {"a", "b"}

GenInit == /\ str = <<>> /\ st = "Start" /\ start = 0 /\ scheme = -1 /\ abs = FALSE
           /\ segs = <<>> /\ done = "no" /\ errAt = 0

Fail(off) == /\ st' = "Failed" /\ done' = "err" /\ errAt' = off
             /\ UNCHANGED <<start, scheme, abs, segs>>

Goto(s, o, a, sg) == /\ st' = s /\ start' = o /\ abs' = a /\ segs' = sg
                     /\ UNCHANGED <<scheme, done, errAt>>

\* ParseState::transition(c, offset, ..) followed by check()
Feed(c) ==
    /\ done = "no" /\ Len(str) < MaxLen
    /\ str' = Append(str, c)
    /\ LET off == Len(str) IN
       CASE st = "Start" ->
              IF c = "/" THEN Goto("SegmentStart", start, TRUE, segs)
              ELSE IF c = ":" THEN Goto("Parameter", off, FALSE, segs)
              ELSE IF Alpha(c) THEN Goto("SchemeOrLiteral", off, abs, segs)
              ELSE Goto("Literal", off, FALSE, segs)
         [] st = "SegmentStart" ->
              IF c = ":" THEN Goto("Parameter", off, abs, segs)
              ELSE IF c = "/" THEN Fail(off)
              ELSE Goto("Literal", off, abs, segs)
         [] st = "SchemeOrLiteral" ->
              IF c = ":" THEN /\ scheme' = off /\ st' = "AfterScheme"
                              /\ UNCHANGED <<start, abs, segs, done, errAt>>
              ELSE IF c = "/" THEN
                   IF off - start > 0
                     THEN Goto("SegmentStart", start, FALSE, Append(segs, [b |-> start, e |-> off, par |-> FALSE]))
                     ELSE Fail(off)
              ELSE Goto("SchemeOrLiteral", start, abs, segs)
         [] st = "AfterScheme" ->
              IF c = "/" THEN Goto("SegmentStart", start, TRUE, segs)
              ELSE IF c = ":" THEN Goto("Parameter", off, FALSE, segs)
              ELSE Goto("Literal", off, FALSE, segs)
         [] st = "Literal" ->
              IF c = "/" THEN
                   IF off - start > 0
                     THEN Goto("SegmentStart", start, abs, Append(segs, [b |-> start, e |-> off, par |-> FALSE]))
                     ELSE Fail(off)
              ELSE Goto("Literal", start, abs, segs)
         [] st = "Parameter" ->
              IF c = "/" THEN
                   IF off - start - 1 > 0
                     THEN Goto("SegmentStart", start, abs, Append(segs, [b |-> start + 1, e |-> off, par |-> TRUE]))
                     ELSE Fail(off)
              ELSE IF c = ":" THEN Fail(off)
              ELSE Goto("Parameter", start, abs, segs)

Text(g) == SubSeq(str, g.b + 1, g.e)

\* the duplicate scan of RoutePattern::parse: the first parameter whose name was seen before
DupAt(sg) == {i \in 1..Len(sg) : sg[i].par /\ \E j \in 1..(i - 1) : sg[j].par /\ Text(sg[j]) = Text(sg[i])}
Finish(sg) == IF DupAt(sg) = {}
              THEN /\ done' = "ok" /\ segs' = sg /\ UNCHANGED errAt
              ELSE LET i == CHOOSE k \in DupAt(sg) : \A l \in DupAt(sg) : k <= l IN
                   /\ done' = "err" /\ errAt' = sg[i].b /\ segs' = sg

\* ParseState::end(offset)
End ==
    /\ done = "no"
    /\ LET off == Len(str) IN
       CASE st \in {"Start", "SegmentStart"} -> done' = "err" /\ errAt' = off /\ UNCHANGED segs
         [] st \in {"Literal", "SchemeOrLiteral"} ->
              IF off - start > 0 THEN Finish(Append(segs, [b |-> start, e |-> off, par |-> FALSE]))
              ELSE done' = "err" /\ errAt' = off /\ UNCHANGED segs
         [] st = "Parameter" ->
              IF off - start - 1 > 0 THEN Finish(Append(segs, [b |-> start + 1, e |-> off, par |-> TRUE]))
              ELSE done' = "err" /\ errAt' = off /\ UNCHANGED segs
         [] st = "AfterScheme" -> Finish(segs)
    /\ UNCHANGED <<str, st, start, scheme, abs>>

GenNext == (\E c \in Chars : Feed(c)) \/ End
GenSpec == GenInit /\ [][GenNext]_gvars

----------------------------------------------------------------------------
(* The grammar G.                                                          *)

Delims(s) == {i \in 1..Len(s) : s[i] \in {"/", ":"}}
FirstDelim(s) == IF Delims(s) = {} THEN 0 ELSE CHOOSE i \in Delims(s) : \A j \in Delims(s) : i <= j
\* a leading run of non-delimiters that starts with a letter and is closed by ':' is the scheme
GHasScheme(s) == Len(s) > 0 /\ Alpha(s[1]) /\ FirstDelim(s) > 0 /\ s[FirstDelim(s)] = ":"
GScheme(s) == IF GHasScheme(s) THEN SubSeq(s, 1, FirstDelim(s) - 1) ELSE <<>>
GRest(s)   == IF GHasScheme(s) THEN SubSeq(s, FirstDelim(s) + 1, Len(s)) ELSE s
GAbs(s)    == Len(GRest(s)) > 0 /\ GRest(s)[1] = "/"
GBody(s)   == IF GAbs(s) THEN Tail(GRest(s)) ELSE GRest(s)

RECURSIVE Split(_)
Split(s) == LET sl == {i \in 1..Len(s) : s[i] = "/"} IN
            IF sl = {} THEN <<s>>
            ELSE LET k == CHOOSE i \in sl : \A j \in sl : i <= j IN
                 <<SubSeq(s, 1, k - 1)>> \o Split(SubSeq(s, k + 1, Len(s)))

GIsPar(g) == Len(g) > 0 /\ g[1] = ":"
GSegOK(g) == /\ Len(g) > 0
             /\ GIsPar(g) => (Len(g) > 1 /\ \A i \in 2..Len(g) : g[i] # ":")
GSegs(s) == Split(GBody(s))
GAccept(s) == LET sg == GSegs(s) IN
              /\ \A i \in 1..Len(sg) : GSegOK(sg[i])
              /\ \A i, j \in 1..Len(sg) : (i # j /\ GIsPar(sg[i]) /\ GIsPar(sg[j])) => sg[i] # sg[j]

\* known deviation F8d: "scheme:" alone is taken although it has no segment
SchemeOnly(s) == GHasScheme(s) /\ GRest(s) = <<>>

----------------------------------------------------------------------------
GenTypeOK == /\ done \in {"no", "ok", "err"} /\ Len(str) <= MaxLen
             /\ st \in {"Start", "SchemeOrLiteral", "SegmentStart", "AfterScheme", "Literal", "Parameter", "Failed"}

\* every segment is a non-empty slice of the string (the code slices the pattern by these offsets)
SegmentsInBounds == \A i \in 1..Len(segs) : segs[i].b < segs[i].e /\ segs[i].e <= Len(str)
ErrorInBounds == done = "err" => errAt <= Len(str)

\* M accepts exactly the strings of G ...
ParserAcceptsGrammar ==
    done # "no" => ((done = "ok") <=> (GAccept(str) \/ (SchemeOnly(str) /\ "F8d" \in Findings)))
\* ... with the same reading
ParserReadsAsGrammar ==
    (done = "ok" /\ GAccept(str)) =>
        /\ (IF scheme < 0 THEN <<>> ELSE SubSeq(str, 1, scheme)) = GScheme(str)
        /\ (scheme >= 0) = GHasScheme(str)
        /\ abs = GAbs(str)
        /\ Len(segs) = Len(GSegs(str))
        /\ \A i \in 1..Len(segs) :
              LET g == GSegs(str)[i] IN
              /\ segs[i].par = GIsPar(g)
              /\ Text(segs[i]) = IF GIsPar(g) THEN Tail(g) ELSE g

\* the case dump: every finished string with what M makes of it
StrDump ==
    done # "no" =>
        PrintT(<<"STR", ToJson([s |-> str, ok |-> done = "ok", off |-> errAt, sc |-> scheme, abs |-> abs,
                                segs |-> segs, g |-> GAccept(str)])>>)
=============================================================================

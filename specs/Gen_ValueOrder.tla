--------------------------- MODULE Gen_ValueOrder ---------------------------
(* TLC enumerates the abstract pool of ValueOrder.tla: one initial state per value. *)
EXTENDS ValueOrder, Json
VARIABLE v
Init == v \in Pool
Next == UNCHANGED v
Dump == PrintT(<<"VAL", ToJson([val |-> v, core |-> (v \in CorePool)])>>)
=============================================================================

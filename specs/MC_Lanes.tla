------------------------------- MODULE MC_Lanes -------------------------------
EXTENDS Lanes, Json
\* Prints every transition of the state graph once (TLC evaluates the action constraint on each
\* successor it generates); lastAct and the ghost p are hidden by the VIEW.
EdgeDump == PrintT(<<"EDGE", ToJson([s |-> View, a |-> lastAct', t |-> View'])>>)
InitDump == (lastAct.k = "init") => PrintT(<<"INIT", ToJson(View)>>)
=============================================================================

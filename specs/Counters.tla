------------------------------ MODULE Counters ------------------------------
(***************************************************************************)
(* C20, second half: "event and command counters lose nothing".            *)
(*                                                                         *)
(* M: runtime/swimos_runtime/src/agent/reporting/mod.rs at the granularity *)
(* of single atomic operations on one AtomicU64 (event_count and           *)
(* command_count are two independent instances of the same protocol):      *)
(*                                                                         *)
(*   saturating_add (count_events / count_commands), called by the write   *)
(*   task and the read task:                                               *)
(*       fetch_update(|n| Some(n.saturating_add(m)))                       *)
(*         = cur := load; loop { CAS_weak(cur, sat(cur+m)) ? done          *)
(*                                                   : cur := value seen } *)
(*   snapshot_value, called by the introspection task(s):                  *)
(*       loop { count := load; if CAS_weak(count, 0) { break count } }     *)
(*                                                                         *)
(* compare_exchange_weak may fail spuriously (at most MaxSpur times per    *)
(* thread here, to keep the model finite).                                 *)
(*                                                                         *)
(* SnapMode = "cas" is the code; "store" is the classic wrong design       *)
(* (count := load; store 0), kept to show that the law below is able to    *)
(* fail: TLC finds the lost increment in a few states.                     *)
(*                                                                         *)
(* P: at every moment  (sum of all snapshots taken) + (value now)          *)
(*                     = (sum of the increments that have completed),      *)
(*    as long as the counter never saturated (Cap plays u64::MAX); with    *)
(*    saturation the left side may only be smaller.                        *)
(***************************************************************************)
EXTENDS Naturals, Sequences, FiniteSets, TLC

CONSTANTS Incs,      \* counting threads
          Snaps,     \* snapshot threads
          Amounts,   \* amounts a single count_* call may add (count_broadcast adds the number of links)
          MaxInc,    \* calls per counting thread
          MaxSnap,   \* snapshots per snapshot thread
          MaxSpur,   \* spurious CAS failures per thread
          Cap,       \* u64::MAX
          SnapMode   \* "cas" | "store"

VARIABLES v,         \* the atomic
          pc,        \* thread -> "idle" | "loaded" | "done"
          cur,       \* thread -> the value it believes the atomic holds
          amt,       \* counting thread -> amount of the call in progress
          calls,     \* thread -> calls completed
          spur,      \* thread -> spurious failures so far
          added,     \* sum of the increments whose CAS succeeded   (history)
          taken,     \* sum of the values returned by snapshots      (history)
          saturated  \* some increment was cut by the saturation     (history)

vars == <<v, pc, cur, amt, calls, spur, added, taken, saturated>>
Threads == Incs \cup Snaps
Min(a, b) == IF a < b THEN a ELSE b

Init == /\ v = 0
        /\ pc = [t \in Threads |-> "idle"] /\ cur = [t \in Threads |-> 0]
        /\ amt = [t \in Incs |-> 0] /\ calls = [t \in Threads |-> 0] /\ spur = [t \in Threads |-> 0]
        /\ added = 0 /\ taken = 0 /\ saturated = FALSE

\* ---- count_events(m): fetch_update
IncLoad(t, m) ==
    /\ pc[t] = "idle" /\ calls[t] < MaxInc
    /\ pc' = [pc EXCEPT ![t] = "loaded"] /\ cur' = [cur EXCEPT ![t] = v] /\ amt' = [amt EXCEPT ![t] = m]
    /\ UNCHANGED <<v, calls, spur, added, taken, saturated>>

IncCasOk(t) ==
    /\ pc[t] = "loaded" /\ t \in Incs /\ cur[t] = v
    /\ v' = Min(v + amt[t], Cap)
    /\ saturated' = (saturated \/ v + amt[t] > Cap)
    /\ added' = added + amt[t]
    /\ pc' = [pc EXCEPT ![t] = "idle"] /\ calls' = [calls EXCEPT ![t] = @ + 1]
    /\ UNCHANGED <<cur, amt, spur, taken>>

\* the CAS fails (another thread changed the value, or spuriously): retry with the value seen
IncCasFail(t) ==
    /\ pc[t] = "loaded" /\ t \in Incs
    /\ \/ cur[t] # v /\ UNCHANGED spur
       \/ cur[t] = v /\ spur[t] < MaxSpur /\ spur' = [spur EXCEPT ![t] = @ + 1]
    /\ cur' = [cur EXCEPT ![t] = v]
    /\ UNCHANGED <<v, pc, amt, calls, added, taken, saturated>>

\* ---- snapshot_value
SnapLoad(t) ==
    /\ pc[t] = "idle" /\ t \in Snaps /\ calls[t] < MaxSnap
    /\ pc' = [pc EXCEPT ![t] = "loaded"] /\ cur' = [cur EXCEPT ![t] = v]
    /\ UNCHANGED <<v, amt, calls, spur, added, taken, saturated>>

SnapCasOk(t) ==
    /\ pc[t] = "loaded" /\ t \in Snaps
    /\ SnapMode = "store" \/ cur[t] = v          \* "store": whatever the value is now, overwrite it
    /\ v' = 0
    /\ taken' = taken + cur[t]
    /\ pc' = [pc EXCEPT ![t] = "idle"] /\ calls' = [calls EXCEPT ![t] = @ + 1]
    /\ UNCHANGED <<cur, amt, spur, added, saturated>>

\* the CAS fails: back to the load
SnapCasFail(t) ==
    /\ pc[t] = "loaded" /\ t \in Snaps /\ SnapMode = "cas"
    /\ \/ cur[t] # v /\ UNCHANGED spur
       \/ cur[t] = v /\ spur[t] < MaxSpur /\ spur' = [spur EXCEPT ![t] = @ + 1]
    /\ pc' = [pc EXCEPT ![t] = "idle"]
    /\ UNCHANGED <<v, cur, amt, calls, added, taken, saturated>>

Next == \/ \E t \in Incs, m \in Amounts : IncLoad(t, m)
        \/ \E t \in Incs : IncCasOk(t) \/ IncCasFail(t)
        \/ \E t \in Snaps : SnapLoad(t) \/ SnapCasOk(t) \/ SnapCasFail(t)

Spec == Init /\ [][Next]_vars
FairSpec == Spec /\ WF_vars(Next)

-----------------------------------------------------------------------------
TypeOK == v \in 0..Cap /\ added \in Nat /\ taken \in Nat

\* P: nothing is lost, nothing is counted twice
NothingLost == IF saturated THEN taken + v <= added ELSE taken + v = added

\* when everybody has finished, one last snapshot (the residue) completes the sum
Quiescent == \A t \in Threads : pc[t] = "idle" /\ calls[t] = (IF t \in Incs THEN MaxInc ELSE MaxSnap)
FinalSum == (Quiescent /\ ~saturated) => taken + v = added

\* every call returns (lock-freedom is enough here because the other threads make finitely many steps)
Termination == <>Quiescent
=============================================================================

------------------------------ MODULE Handlers ------------------------------
(***************************************************************************)
(* C06 - event handlers of one agent run one at a time, depth-first, in    *)
(* the documented order.                                                   *)
(*                                                                         *)
(* A small-step semantics (explicit frame stack) of handler programs,      *)
(* transcribed from docs/event_handler.md ("How event handlers are         *)
(* executed"), docs/lifecycle.md (value lane: on_event then on_set with    *)
(* the previous value; map lane: on_update / on_remove / on_clear with the *)
(* previous entry / contents; on_start first, on_stop last) and            *)
(* run_handler in server/swimos_agent/src/agent_model/mod.rs.              *)
(* The property is an exact functional contract, so this one module is     *)
(* both P and M (DESIGN.md 2.1); the only place where it commits to what   *)
(* the implementation happens to do beyond the statement is named:         *)
(* FailPolicy (what the agent does *after* a handler failed).              *)
(*                                                                         *)
(*  code                                   | here                          *)
(*  ---------------------------------------+------------------------------ *)
(*  handler.step(..) of a leaf action      | Step* (one action per leaf)   *)
(*  StepResult{modified_item: Some(m)}     | modf                          *)
(*  Modification.flags TRIGGER_HANDLER     | modf.trig                     *)
(*  lifecycle.item_event + run_handler(..) | Trigger* (push a frame)       *)
(*  run_handler returns Ok                 | Return (pop a frame)          *)
(*  StepResult::Fail -> `?` up the stack   | StepFail / StepStop           *)
(*  value Inner.previous (read_with_prev)  | pv[l]   (None = -1)           *)
(*  MapStoreInner.previous                 | pm                            *)
(*  CommandLane.prev_command (with_prev)   | pc                            *)
(*  FuturesUnordered<Suspended>            | pending                       *)
(*  the select! loop of run_agent          | Stim* (one per TaskEvent)     *)
(*                                                                         *)
(* The agent has a command lane c, value lanes a and b and a map lane m.   *)
(* Lifecycle slots: start, stop, cmd (on_command of c), evA/setA, evB/setB *)
(* (on_event / on_set), upd/rem/clr (of m).  The body of a slot may only   *)
(* modify lanes of a higher level (c < a < b < m), so cascades are acyclic.*)
(* followed_by / and_then / Sequentially do not take steps of their own in *)
(* the implementation (stepping the combinator steps its current child),   *)
(* so a body is a flat sequence of leaves plus the combinator style the    *)
(* harness must use to build the real handler tree; that every style has   *)
(* the same meaning is part of what the conformance run decides.           *)
(*                                                                         *)
(* Bodies are chosen lazily (when a slot is first instantiated) and then   *)
(* fixed: TLC therefore enumerates exactly the programs that differ on the *)
(* reachable part.                                                         *)
(***************************************************************************)
EXTENDS Integers, Sequences, FiniteSets, TLC

CONSTANTS MaxStim,     \* stimuli between on_start and on_stop
          TopShapes,   \* shape ids for the bodies of start / stop
          Shapes,      \* shape ids for cmd, evA, setA, evB, setB
          MapShapes,   \* shape ids for upd, rem, clr (cannot modify anything)
          Stimuli,     \* set of stimulus records [k, l, x, y]
          InitMaps     \* initial contents of m (tuples indexed by key, 0 = absent)

None == -1                 \* Option::None for i32 payloads (all payloads are >= 0)
NK == 2
Keys == 1..NK
A0 == 10                   \* initial values, delivered by the runtime in the lane initialisation phase
B0 == 20

Slots == {"start", "stop", "cmd", "evA", "setA", "evB", "setB", "upd", "rem", "clr"}
LaneLevel(l) == CASE l = "c" -> 1 [] l = "a" -> 2 [] l = "b" -> 3 [] l = "m" -> 4
SlotLevel(s) == CASE s \in {"start", "stop"} -> 0 [] s = "cmd" -> 1 [] s \in {"evA", "setA"} -> 2
                  [] s \in {"evB", "setB"} -> 3 [] OTHER -> 4
\* lowest / highest lane a slot may modify
T1(s) == CASE SlotLevel(s) = 0 -> "c" [] SlotLevel(s) = 1 -> "a" [] SlotLevel(s) = 2 -> "b" [] OTHER -> "m"
T2(s) == "m"

VARIABLES val,      \* [a, b] -> current value                              (ValueLane content)
          map,      \* tuple over Keys, 0 = absent                          (MapLane content)
          pv,       \* [a, b] -> Inner.previous (None = -1)
          pm,       \* MapStoreInner.previous: [k: none|upd|rem|clr, key, old, om]
          pc,       \* CommandLane.prev_command (None = -1)
          stack,    \* Seq of frames; a frame = the leaves one run_handler invocation still has to step
          modf,     \* the modification carried by the last StepResult: [l, trig]; l = "" = none
          status,   \* init | idle | run | done | dead
          cur,      \* kind of the stimulus being handled
          pending,  \* suspended futures that have not completed: Seq of [s, p]
          prog,     \* Slots -> body | Unset
          acts,     \* the stimuli so far, each with the events logged while it was handled and the agent's fate
          nstim,
          chg, trg, \* ghost: per lane, state changes made / lifecycle handlers instantiated
          old,      \* ghost: per value lane, the value it had before the latest change
          m0,       \* the initial map
          g0        \* ghost: the stimulus being handled and the state it started from (for the reference semantics)

vars == <<val, map, pv, pm, pc, stack, modf, status, cur, pending, prog, acts, nstim, chg, trg, old, m0, g0>>

-----------------------------------------------------------------------------
(* Programs *)

L(op, l, x, y, p) == [op |-> op, l |-> l, x |-> x, y |-> y, p |-> p, s |-> "", e |-> <<>>]
Eff(n)      == L("eff", "", n, 0, <<>>)       \* context.effect: logs ("eff", slot, n)
Snap        == L("snap", "", 0, 0, <<>>)      \* get_value(a).and_then(get_value(b).and_then(get_map(m).and_then(log)))
Get(l)      == L("get", l, 0, 0, <<>>)        \* get_value(l).and_then(log)
Set(l, v)   == L("set", l, v, 0, <<>>)        \* set_value
Upd(k, v)   == L("upd", "m", k, v, <<>>)      \* update
Rem(k)      == L("rem", "m", k, 0, <<>>)      \* remove
Clr         == L("clr", "m", 0, 0, <<>>)      \* clear
Xf(k, f)    == L("xf", "m", k, f, <<>>)       \* transform_entry; f = 1: v -> v + 1, absent -> 1; f = 2: -> None
DoCmd(x)    == L("docmd", "c", x, 0, <<>>)    \* context.command(c, x)
Fail        == L("fail", "", 0, 0, <<>>)      \* event_handler::Fail (EffectError)
StopI       == L("stopi", "", 0, 0, <<>>)     \* event_handler::Stop (StopInstructed)
Susp(p)     == L("susp", "", 0, 0, p)         \* context.suspend(future resolving to the handler p)
Sync(l)     == L("sync", l, 0, 0, <<>>)       \* the lane's sync handler (runtime only)
TakeDrop(k, n) == L(k, "m", n, 0, <<>>)       \* the map lane's take / drop command handler (runtime only)
Entry(s, e) == [L("entry", "", 0, 0, <<>>) EXCEPT !.s = s, !.e = e]   \* the lifecycle method's own log line

B(c, ops) == [c |-> c, ops |-> ops]
Unset == B("unset", <<>>)

Mod(l, i) == CASE l = "c" -> DoCmd(i) [] l \in {"a", "b"} -> Set(l, i) [] l = "m" -> Upd(1, i)

\* The pool of shapes.  c is the combinator style: fbyR a.followed_by(b.followed_by(c)), fbyL (a.followed_by(b)).followed_by(c),
\* thenR a.and_then(|_| b.and_then(|_| c)) built lazily, thenL (a.and_then(|_| b)).and_then(|_| c), seq Sequentially::new(vec),
\* join join(a, join(b, c)), ctx / try: like thenR with and_then_contextual / and_then_try.
Shape(id, s) ==
    LET t1 == T1(s)  t2 == T2(s) IN
    CASE id = 1  -> B("fbyR", <<>>)
      [] id = 2  -> B("fbyR", <<Eff(1)>>)
      [] id = 3  -> B("fbyR", <<Mod(t1, 1), Snap>>)                           \* resume after the cascade, observe it
      [] id = 4  -> B("thenR", <<Eff(1), Mod(t1, 1), Mod(t1, 2), Snap>>)      \* two changes of one lane: true previous
      [] id = 5  -> B("fbyL", <<Mod(t2, 3), Mod(t1, 1), Eff(2)>>)             \* two lanes
      [] id = 6  -> B("fbyR", <<Mod(t1, 1), Fail, Eff(9)>>)                   \* nothing after a failure
      [] id = 7  -> B("thenL", <<Eff(1), Fail>>)
      [] id = 8  -> B("fbyR", <<Susp(<<Mod(t1, 2), Snap>>), Eff(3)>>)         \* suspended handler runs later, top level
      [] id = 9  -> B("seq", <<Upd(1, 1), Upd(1, 2), Rem(1), Rem(1), Snap>>)  \* removing an absent key triggers nothing
      [] id = 10 -> B("thenL", <<Upd(1, 1), Upd(2, 2), Clr, Clr, Snap>>)
      [] id = 11 -> B("seq", <<Snap, Mod(t1, 1), Snap, Mod(t1, 1)>>)          \* same value twice: two triggers
      [] id = 12 -> B("fbyR", <<StopI, Eff(9)>>)
      [] id = 13 -> B("thenR", <<Mod(t1, 1), StopI, Eff(9)>>)
      [] id = 14 -> B("fbyL", <<Xf(1, 1), Xf(1, 1), Xf(2, 2), Xf(1, 2), Snap>>)
      [] id = 15 -> B("fbyR", <<Susp(<<Eff(4), Fail>>), Susp(<<Snap>>)>>)
      [] id = 16 -> B("thenL", <<Get("a"), Mod(t2, 2), Get("b")>>)
      [] id = 17 -> B("fbyR", <<Snap>>)
      [] id = 18 -> B("join", <<Mod(t1, 1), Mod(t2, 2), Snap>>)               \* join(a, join(b, c)): in order, like a sequence
      [] id = 19 -> B("ctx", <<Mod(t1, 1), Snap, Mod(t1, 2)>>)                \* and_then_contextual
      [] id = 20 -> B("try", <<Mod(t2, 1), Mod(t1, 1), Snap>>)                \* and_then_try (Ok)

NoTargetShapes == {1, 2, 7, 12, 15, 17}      \* shapes that modify nothing
ASSUME MapShapes \subseteq NoTargetShapes
ASSUME TopShapes \subseteq 1..20 /\ Shapes \subseteq 1..20

Pool(s) == {Shape(id, s) : id \in (IF SlotLevel(s) = 0 THEN TopShapes ELSE IF SlotLevel(s) = 4 THEN MapShapes ELSE Shapes)}
\* lazily fix the body of slot s
Choice(s) == IF prog[s] = Unset THEN Pool(s) ELSE {prog[s]}
Inst(s, ops) == [i \in 1..Len(ops) |-> [ops[i] EXCEPT !.s = s]]

-----------------------------------------------------------------------------
(* State helpers *)

NoMod == [l |-> "", trig |-> FALSE]
NoPm == [k |-> "none", key |-> 0, old |-> 0, om |-> <<>>]
Pairs(mp) == LET f[i \in 0..NK] == IF i = 0 THEN <<>>
                                   ELSE IF mp[i] # 0 THEN Append(f[i - 1], <<i, mp[i]>>) ELSE f[i - 1]
             IN f[NK]
EmptyMap == [i \in Keys |-> 0]
Opt(v) == IF v = 0 THEN None ELSE v          \* an absent map value as Option

CmdKinds == {"cmd", "set", "upd", "rem", "clr", "take", "drop"}

Top == stack[Len(stack)]
Hd == Head(Top)
PopHead == [stack EXCEPT ![Len(stack)] = Tail(Top)]
ReplaceHead(ops) == [stack EXCEPT ![Len(stack)] = ops \o Tail(Top)]
Running == status = "run" /\ modf.l = "" /\ stack # <<>> /\ Top # <<>>
Op(o) == Running /\ Hd.op = o

Log(e) == acts' = [acts EXCEPT ![Len(acts)].ev = Append(@, e)]
Fin(f) == acts' = [acts EXCEPT ![Len(acts)].fin = f]
Failed(f) == acts' = [acts EXCEPT ![Len(acts)].fin = f, ![Len(acts)].fl = 1]     \* fl: a handler failed during this stimulus

Init == /\ m0 \in InitMaps
        /\ val = [a |-> A0, b |-> B0] /\ map = m0
        /\ pv = [a |-> None, b |-> None] /\ pm = NoPm /\ pc = None
        /\ stack = <<>> /\ modf = NoMod /\ status = "init" /\ cur = "" /\ pending = <<>>
        /\ prog = [s \in Slots |-> Unset]
        /\ acts = <<>> /\ nstim = 0
        /\ chg = [l \in {"c", "a", "b", "m"} |-> 0] /\ trg = [l \in {"c", "a", "b", "m"} |-> 0]
        /\ old = [a |-> None, b |-> None]
        /\ g0 = [k |-> "", frame |-> <<>>, val |-> val, map |-> map, pending |-> <<>>]

-----------------------------------------------------------------------------
(* Leaves: one action per HandlerAction::step of a leaf *)

StepEntry == /\ Op("entry") /\ Log(Hd.e) /\ stack' = PopHead
             /\ UNCHANGED <<val, map, pv, pm, pc, modf, status, cur, pending, prog, nstim, chg, trg, old, m0, g0>>

StepEff == /\ Op("eff") /\ Log(<<"eff", Hd.s, Hd.x>>) /\ stack' = PopHead
           /\ UNCHANGED <<val, map, pv, pm, pc, modf, status, cur, pending, prog, nstim, chg, trg, old, m0, g0>>

StepGet == /\ Op("get") /\ Log(<<"get", Hd.l, val[Hd.l]>>) /\ stack' = PopHead
           /\ UNCHANGED <<val, map, pv, pm, pc, modf, status, cur, pending, prog, nstim, chg, trg, old, m0, g0>>

StepSnap == /\ Op("snap") /\ Log(<<"snap", val.a, val.b, Pairs(map)>>) /\ stack' = PopHead
            /\ UNCHANGED <<val, map, pv, pm, pc, modf, status, cur, pending, prog, nstim, chg, trg, old, m0, g0>>

\* ValueLaneSet::step : lane.set(v) (content replaced, previous := Some(old)), Modification::of(id)
StepSet == /\ Op("set")
           /\ LET l == Hd.l IN
              /\ val' = [val EXCEPT ![l] = Hd.x]
              /\ pv' = [pv EXCEPT ![l] = val[l]]
              /\ old' = [old EXCEPT ![l] = val[l]]
              /\ chg' = [chg EXCEPT ![l] = @ + 1]
              /\ modf' = [l |-> l, trig |-> TRUE]
           /\ stack' = PopHead
           /\ UNCHANGED <<map, pm, pc, status, cur, pending, prog, acts, nstim, trg, m0, g0>>

\* MapLaneUpdate::step : MapStoreInner.update
StepUpd == /\ Op("upd")
           /\ map' = [map EXCEPT ![Hd.x] = Hd.y]
           /\ pm' = [k |-> "upd", key |-> Hd.x, old |-> map[Hd.x], om |-> <<>>]
           /\ chg' = [chg EXCEPT !["m"] = @ + 1]
           /\ modf' = [l |-> "m", trig |-> TRUE]
           /\ stack' = PopHead
           /\ UNCHANGED <<val, pv, pc, status, cur, pending, prog, acts, nstim, trg, old, m0, g0>>

\* MapLaneRemove::step : MapStoreInner.remove leaves `previous` alone when the key is absent,
\* the step still reports Modification::of(id)
StepRem == /\ Op("rem")
           /\ IF map[Hd.x] # 0
                THEN /\ map' = [map EXCEPT ![Hd.x] = 0]
                     /\ pm' = [k |-> "rem", key |-> Hd.x, old |-> map[Hd.x], om |-> <<>>]
                     /\ chg' = [chg EXCEPT !["m"] = @ + 1]
                ELSE UNCHANGED <<map, pm, chg>>
           /\ modf' = [l |-> "m", trig |-> TRUE]
           /\ stack' = PopHead
           /\ UNCHANGED <<val, pv, pc, status, cur, pending, prog, acts, nstim, trg, old, m0, g0>>

\* MapLaneClear::step : previous := Clear(take(content)) even when the map is already empty
StepClr == /\ Op("clr")
           /\ map' = EmptyMap
           /\ pm' = [k |-> "clr", key |-> 0, old |-> 0, om |-> map]
           /\ chg' = [chg EXCEPT !["m"] = @ + 1]
           /\ modf' = [l |-> "m", trig |-> TRUE]
           /\ stack' = PopHead
           /\ UNCHANGED <<val, pv, pc, status, cur, pending, prog, acts, nstim, trg, old, m0, g0>>

\* MapLaneTransformEntry::step : the four cases of MapStoreInner.transform_entry
StepXf == /\ Op("xf")
          /\ LET k == Hd.x  v == map[Hd.x]  f == Hd.y IN
             IF v # 0 /\ f = 1 THEN
                  /\ map' = [map EXCEPT ![k] = v + 1]
                  /\ pm' = [k |-> "upd", key |-> k, old |-> v, om |-> <<>>]
                  /\ chg' = [chg EXCEPT !["m"] = @ + 1] /\ modf' = [l |-> "m", trig |-> TRUE]
             ELSE IF v # 0 THEN
                  /\ map' = [map EXCEPT ![k] = 0]
                  /\ pm' = [k |-> "rem", key |-> k, old |-> v, om |-> <<>>]
                  /\ chg' = [chg EXCEPT !["m"] = @ + 1] /\ modf' = [l |-> "m", trig |-> TRUE]
             ELSE IF f = 1 THEN
                  /\ map' = [map EXCEPT ![k] = 1]
                  /\ pm' = [k |-> "upd", key |-> k, old |-> 0, om |-> <<>>]
                  /\ chg' = [chg EXCEPT !["m"] = @ + 1] /\ modf' = [l |-> "m", trig |-> TRUE]
             ELSE UNCHANGED <<map, pm, chg, modf>>            \* NoChange: StepResult::done, no modification
          /\ stack' = PopHead
          /\ UNCHANGED <<val, pv, pc, status, cur, pending, prog, acts, nstim, trg, old, m0, g0>>

\* MapLaneDropOrTake: the keys to remove are fixed from the contents at the first step (sorted),
\* then one remove per step, each reporting a modification
StepTakeDrop == /\ (Op("take") \/ Op("drop"))
                /\ LET ks == Pairs(map)
                       n == Hd.x
                       del == IF Hd.op = "drop" THEN SubSeq(ks, 1, IF n < Len(ks) THEN n ELSE Len(ks))
                              ELSE SubSeq(ks, (IF n < Len(ks) THEN n ELSE Len(ks)) + 1, Len(ks))
                   IN stack' = ReplaceHead([i \in 1..Len(del) |-> Rem(del[i][1])])
                /\ UNCHANGED <<val, map, pv, pm, pc, modf, status, cur, pending, prog, acts, nstim, chg, trg, old, m0, g0>>

\* DoCommand::step : prev_command := Some(x), Modification::of(id)
StepDoCmd == /\ Op("docmd")
             /\ pc' = Hd.x
             /\ chg' = [chg EXCEPT !["c"] = @ + 1]
             /\ modf' = [l |-> "c", trig |-> TRUE]
             /\ stack' = PopHead
             /\ UNCHANGED <<val, map, pv, pm, status, cur, pending, prog, acts, nstim, trg, old, m0, g0>>

\* ValueLaneSync / MapLaneSync::step : Modification::no_trigger(id)
StepSync == /\ Op("sync")
            /\ modf' = [l |-> Hd.l, trig |-> FALSE]
            /\ stack' = PopHead
            /\ UNCHANGED <<val, map, pv, pm, pc, status, cur, pending, prog, acts, nstim, chg, trg, old, m0, g0>>

\* Suspend::step : action_context.spawn_suspend(future)
StepSusp == /\ Op("susp")
            /\ pending' = Append(pending, [s |-> Hd.s, p |-> Hd.p])
            /\ stack' = PopHead
            /\ UNCHANGED <<val, map, pv, pm, pc, modf, status, cur, prog, acts, nstim, chg, trg, old, m0, g0>>

StopFrame(b) == <<Entry("stop", <<"stop">>)>> \o Inst("stop", b.ops)

\* StepResult::Fail(EffectError): `?` unwinds every run_handler invocation: nothing further of this handler
\* or of the handlers it interrupted.  FailPolicy (what the agent does next; beyond the statement):
\*   on_start            -> AgentInitError::UserCodeError, the agent never runs
\*   a lane command      -> "Incoming frame was rejected by the item", the agent carries on
\*   anything else       -> AgentTaskError::UserCodeError, the agent ends without on_stop
StepFail == /\ Op("fail")
            /\ stack' = <<>>
            /\ CASE cur = "start" -> status' = "dead" /\ Failed("init_err")
                 [] cur \in CmdKinds -> status' = "idle" /\ Failed("run")
                 [] cur = "stop" -> status' = "done" /\ Failed("err")
                 [] OTHER -> status' = "dead" /\ Failed("err")
            /\ UNCHANGED <<val, map, pv, pm, pc, modf, cur, pending, prog, nstim, chg, trg, old, m0, g0>>

\* StepResult::Fail(StopInstructed): unwinds like a failure; the event loop ends and on_stop runs
\* (in on_start: AgentInitError::FailedToStart; in on_stop: the agent ends normally)
StepStop == /\ Op("stopi")
            /\ CASE cur = "start" -> /\ stack' = <<>> /\ status' = "dead" /\ Fin("init_err")
                                     /\ UNCHANGED <<cur, prog>>
                 [] cur = "stop" -> /\ stack' = <<>> /\ status' = "done" /\ Fin("ok")
                                    /\ UNCHANGED <<cur, prog>>
                 [] OTHER -> \E b \in Choice("stop") :
                                    /\ prog' = [prog EXCEPT !["stop"] = b]
                                    /\ stack' = <<StopFrame(b)>>
                                    /\ cur' = "stop"
                                    /\ UNCHANGED <<status, acts>>
            /\ UNCHANGED <<val, map, pv, pm, pc, modf, pending, nstim, chg, trg, old, m0, g0>>

-----------------------------------------------------------------------------
(* run_handler: what happens with the modification a step reported *)

Waiting == status = "run" /\ modf.l # ""
Push(f) == stack' = Append(stack, f)

\* flags without TRIGGER_HANDLER (sync): collector.add_id only
TriggerNone == /\ Waiting /\ ~modf.trig
               /\ modf' = NoMod
               /\ UNCHANGED <<val, map, pv, pm, pc, stack, status, cur, pending, prog, acts, nstim, chg, trg, old, m0, g0>>

\* ValueLikeBranch::item_event: read_with_prev takes `previous`; on_event(new) and on_set(new, prev) are both
\* created now; on_event.followed_by(on_set) is run to completion by a nested run_handler
TriggerValue == /\ Waiting /\ modf.trig /\ modf.l \in {"a", "b"}
                /\ LET l == modf.l
                       se == IF l = "a" THEN "evA" ELSE "evB"
                       ss == IF l = "a" THEN "setA" ELSE "setB"
                   IN \E be \in Choice(se), bs \in Choice(ss) :
                        /\ prog' = [prog EXCEPT ![se] = be, ![ss] = bs]
                        /\ Push(<<Entry(se, <<se, val[l]>>)>> \o Inst(se, be.ops)
                                \o <<Entry(ss, <<ss, val[l], pv[l]>>)>> \o Inst(ss, bs.ops))
                        /\ pv' = [pv EXCEPT ![l] = None]
                        /\ trg' = [trg EXCEPT ![l] = @ + 1]
                /\ modf' = NoMod
                /\ UNCHANGED <<val, map, pm, pc, status, cur, pending, acts, nstim, chg, old, m0, g0>>

\* MapLikeBranch::item_event: read_with_prev takes the MapLaneEvent, map_handler picks the lifecycle method
TriggerMap == /\ Waiting /\ modf.trig /\ modf.l = "m" /\ pm.k # "none"
              /\ LET s == pm.k
                     e == CASE pm.k = "upd" -> <<"upd", pm.key, Opt(pm.old), map[pm.key], Pairs(map)>>
                            [] pm.k = "rem" -> <<"rem", pm.key, pm.old, Pairs(map)>>
                            [] pm.k = "clr" -> <<"clr", Pairs(pm.om)>>
                 IN \E b \in Choice(s) :
                        /\ prog' = [prog EXCEPT ![s] = b]
                        /\ Push(<<Entry(s, e)>> \o Inst(s, b.ops))
              /\ pm' = NoPm
              /\ trg' = [trg EXCEPT !["m"] = @ + 1]
              /\ modf' = NoMod
              /\ UNCHANGED <<val, map, pv, pc, status, cur, pending, acts, nstim, chg, old, m0, g0>>

\* item_event returns None: a remove that removed nothing
TriggerMapNothing == /\ Waiting /\ modf.trig /\ modf.l = "m" /\ pm.k = "none"
                     /\ modf' = NoMod
                     /\ UNCHANGED <<val, map, pv, pm, pc, stack, status, cur, pending, prog, acts, nstim, chg, trg, old, m0, g0>>

\* CommandBranch::item_event: with_prev borrows prev_command (it is not taken)
TriggerCmd == /\ Waiting /\ modf.trig /\ modf.l = "c" /\ pc # None
              /\ \E b \in Choice("cmd") :
                    /\ prog' = [prog EXCEPT !["cmd"] = b]
                    /\ Push(<<Entry("cmd", <<"cmd", pc>>)>> \o Inst("cmd", b.ops))
              /\ trg' = [trg EXCEPT !["c"] = @ + 1]
              /\ modf' = NoMod
              /\ UNCHANGED <<val, map, pv, pm, pc, status, cur, pending, acts, nstim, chg, old, m0, g0>>

\* the handler of this run_handler invocation completed: return to the interrupted one
Return == /\ status = "run" /\ modf.l = "" /\ stack # <<>> /\ Top = <<>>
          /\ stack' = SubSeq(stack, 1, Len(stack) - 1)
          /\ IF Len(stack) > 1 THEN UNCHANGED <<status, acts>>
             ELSE IF cur = "stop" THEN status' = "done" /\ Fin("ok")
             ELSE status' = "idle" /\ UNCHANGED acts
          /\ UNCHANGED <<val, map, pv, pm, pc, modf, cur, pending, prog, nstim, chg, trg, old, m0, g0>>

-----------------------------------------------------------------------------
(* The agent task: one action per kind of TaskEvent *)

NewAct(k, l, x, y) == acts' = Append(acts, [k |-> k, l |-> l, x |-> x, y |-> y, ev |-> <<>>, fin |-> "run", fl |-> 0])
Begin(k, frame, pend) == /\ status' = "run" /\ cur' = k /\ stack' = <<frame>>
                         /\ g0' = [k |-> k, frame |-> frame, val |-> val, map |-> map, pending |-> pend]

\* initialize_agent: lanes are initialised (no handler runs), then on_start
StimStart == /\ status = "init"
             /\ \E b \in Choice("start") :
                   /\ prog' = [prog EXCEPT !["start"] = b]
                   /\ Begin("start", <<Entry("start", <<"start">>)>> \o Inst("start", b.ops), pending)
             /\ NewAct("start", "", 0, 0)
             /\ UNCHANGED <<val, map, pv, pm, pc, modf, pending, nstim, chg, trg, old, m0>>

\* TaskEvent::ValueRequest / MapRequest carrying a Command or a Sync
StimLane == /\ status = "idle" /\ nstim < MaxStim
            /\ \E st \in Stimuli :
                  /\ NewAct(st.k, st.l, st.x, st.y)
                  /\ Begin(st.k, <<CASE st.k = "cmd" -> DoCmd(st.x)
                                     [] st.k = "set" -> Set(st.l, st.x)
                                     [] st.k = "upd" -> Upd(st.x, st.y)
                                     [] st.k = "rem" -> Rem(st.x)
                                     [] st.k = "clr" -> Clr
                                     [] st.k = "sync" -> Sync(st.l)
                                     [] st.k \in {"take", "drop"} -> TakeDrop(st.k, st.x)>>, pending)
            /\ nstim' = nstim + 1
            /\ UNCHANGED <<val, map, pv, pm, pc, modf, pending, prog, chg, trg, old, m0>>

\* TaskEvent::SuspendedComplete: the i-th suspended future completes, its handler runs at top level
StimResume == /\ status = "idle" /\ nstim < MaxStim /\ pending # <<>>
              /\ \E i \in 1..Len(pending) :
                    /\ NewAct("resume", "", i, 0)
                    /\ pending' = SubSeq(pending, 1, i - 1) \o SubSeq(pending, i + 1, Len(pending))
                    /\ Begin("resume", Inst(pending[i].s, pending[i].p),
                             SubSeq(pending, 1, i - 1) \o SubSeq(pending, i + 1, Len(pending)))
              /\ nstim' = nstim + 1
              /\ UNCHANGED <<val, map, pv, pm, pc, modf, prog, chg, trg, old, m0>>

\* every lane input ended: the loop exits and on_stop runs; suspended futures that have not completed are dropped
StimStop == /\ status = "idle"
            /\ \E b \in Choice("stop") :
                  /\ prog' = [prog EXCEPT !["stop"] = b]
                  /\ Begin("stop", StopFrame(b), <<>>)
            /\ NewAct("stop", "", 0, 0)
            /\ pending' = <<>>
            /\ UNCHANGED <<val, map, pv, pm, pc, modf, nstim, chg, trg, old, m0>>

Next == \/ StepEntry \/ StepEff \/ StepGet \/ StepSnap \/ StepSet \/ StepUpd \/ StepRem \/ StepClr \/ StepXf
        \/ StepTakeDrop \/ StepDoCmd \/ StepSync \/ StepSusp \/ StepFail \/ StepStop
        \/ TriggerNone \/ TriggerValue \/ TriggerMap \/ TriggerMapNothing \/ TriggerCmd \/ Return
        \/ StimStart \/ StimLane \/ StimResume \/ StimStop

Spec == Init /\ [][Next]_vars

-----------------------------------------------------------------------------
(* The property, over the model (B3).  The same clauses are what the conformance run decides for the real agent
   through trace equality, because the semantics is deterministic once program and stimuli are fixed. *)

AllEv == LET f[i \in 0..Len(acts)] == IF i = 0 THEN <<>> ELSE f[i - 1] \o acts[i].ev IN f[Len(acts)]

TypeOK == /\ status \in {"init", "idle", "run", "done", "dead"}
          /\ modf.l \in {"", "c", "a", "b", "m"}
          /\ pm.k \in {"none", "upd", "rem", "clr"}
          /\ \A l \in {"a", "b"} : val[l] >= 0 /\ pv[l] >= None
          /\ \A k \in Keys : map[k] >= 0

\* handlers never overlap and cascades are acyclic: the interrupted handlers form a stack no deeper than the lane order
\* (top level, cmd, a, b, m), and only the innermost one is ever stepped (Running / Op look at Top only)
DepthBound == Len(stack) <= 5

\* a pending modification is handed to run_handler before anything else is stepped
ModBeforeStep == (modf.l # "") => status = "run"

\* each state change triggers its handlers exactly once: whenever no modification is in flight, every change made so
\* far has had its lifecycle handler instantiated (no `previous` left behind, none consumed twice) ...
OneTriggerPerChange ==
    /\ \A l \in {"c", "a", "b", "m"} : trg[l] + (IF modf.l = l /\ modf.trig /\ (l # "m" \/ pm.k # "none") THEN 1 ELSE 0) = chg[l]
    /\ (modf.l = "") => (pv.a = None /\ pv.b = None /\ pm.k = "none")

\* ... and with the true previous value
TruePrevious == \A l \in {"a", "b"} : (pv[l] # None) => (pv[l] = old[l] /\ modf.l = l)

\* on_start runs before any other handler
StartFirst == /\ (acts # <<>>) => acts[1].k = "start"
              /\ (AllEv # <<>>) => AllEv[1] = <<"start">>

\* on_stop is the last handler: once its stimulus began nothing else begins, and it happens at most once
StopLast == \A i \in 1..Len(acts) : (\E j \in 1..Len(acts[i].ev) : acts[i].ev[j] = <<"stop">>) =>
                /\ i = Len(acts)
                /\ Cardinality({j \in 1..Len(acts[i].ev) : acts[i].ev[j] = <<"stop">>}) = 1

\* when a handler fails nothing further of it, or of the handlers it interrupted, is executed:
\* the agent is idle/dead/done exactly when no frame is left
NothingLeftBehind == (status \in {"init", "idle", "done", "dead"}) => (stack = <<>> /\ modf.l = "")

\* a dead agent is only ever the result of a failure, and stays dead
DeadIsFinal == (status = "dead") => acts[Len(acts)].fin \in {"err", "init_err"}

-----------------------------------------------------------------------------
(* The reference semantics: the recursion of docs/event_handler.md, written independently of the machine above.
   "[If the handler] has affected the state of any other lane ... a check will be performed to determine if any event
   handlers are triggered on the lane that the handler has modified.  If so, the process is then run recursively on
   _that_ handler until it completes or fails.  Following that, execution of the original handler resumes."
   There is no frame stack, no `previous` slot and no pending modification here: a change runs the lane's lifecycle
   handlers (docs/lifecycle.md: on_event then on_set with the old value; on_update / on_remove / on_clear with the
   old entry / contents) to completion, as a nested evaluation, before the rest of the interrupted handler; a failure
   abandons every enclosing evaluation.  BigStepAgrees states that the machine (M) and this recursion (P) give the same
   events, lane contents and suspended handlers for every stimulus. *)

Body(s) == IF prog[s] = Unset THEN <<>> ELSE prog[s].ops
ValueHandlers(l, new, prev) ==
    LET se == IF l = "a" THEN "evA" ELSE "evB"
        ss == IF l = "a" THEN "setA" ELSE "setB"
    IN <<Entry(se, <<se, new>>)>> \o Inst(se, Body(se)) \o <<Entry(ss, <<ss, new, prev>>)>> \o Inst(ss, Body(ss))
Handler(s, e) == <<Entry(s, e)>> \o Inst(s, Body(s))
LogR(st, e) == [st EXCEPT !.ev = Append(@, e)]

RECURSIVE Run(_, _)
Run(ops, st) ==
    IF ops = <<>> \/ st.ok # "ok" THEN st
    ELSE LET o == Head(ops)  rest == Tail(ops) IN
      CASE o.op = "entry" -> Run(rest, LogR(st, o.e))
        [] o.op = "eff"   -> Run(rest, LogR(st, <<"eff", o.s, o.x>>))
        [] o.op = "get"   -> Run(rest, LogR(st, <<"get", o.l, st.val[o.l]>>))
        [] o.op = "snap"  -> Run(rest, LogR(st, <<"snap", st.val.a, st.val.b, Pairs(st.map)>>))
        [] o.op = "set"   -> Run(rest, Run(ValueHandlers(o.l, o.x, st.val[o.l]), [st EXCEPT !.val[o.l] = o.x]))
        [] o.op = "upd"   -> LET m1 == [st.map EXCEPT ![o.x] = o.y] IN
                             Run(rest, Run(Handler("upd", <<"upd", o.x, Opt(st.map[o.x]), o.y, Pairs(m1)>>),
                                           [st EXCEPT !.map = m1]))
        [] o.op = "rem"   -> IF st.map[o.x] = 0 THEN Run(rest, st)
                             ELSE LET m1 == [st.map EXCEPT ![o.x] = 0] IN
                                  Run(rest, Run(Handler("rem", <<"rem", o.x, st.map[o.x], Pairs(m1)>>),
                                                [st EXCEPT !.map = m1]))
        [] o.op = "clr"   -> Run(rest, Run(Handler("clr", <<"clr", Pairs(st.map)>>), [st EXCEPT !.map = EmptyMap]))
        [] o.op = "xf"    -> LET v == st.map[o.x] IN
                             IF v # 0 /\ o.y = 1 THEN Run(<<Upd(o.x, v + 1)>> \o rest, st)
                             ELSE IF v # 0 THEN Run(<<Rem(o.x)>> \o rest, st)
                             ELSE IF o.y = 1 THEN Run(<<Upd(o.x, 1)>> \o rest, st)
                             ELSE Run(rest, st)
        [] o.op \in {"take", "drop"} ->
                             LET ks == Pairs(st.map)
                                 n == IF o.x < Len(ks) THEN o.x ELSE Len(ks)
                                 del == IF o.op = "drop" THEN SubSeq(ks, 1, n) ELSE SubSeq(ks, n + 1, Len(ks))
                             IN Run([i \in 1..Len(del) |-> Rem(del[i][1])] \o rest, st)
        [] o.op = "docmd" -> Run(rest, Run(Handler("cmd", <<"cmd", o.x>>), st))
        [] o.op = "sync"  -> Run(rest, st)
        [] o.op = "susp"  -> Run(rest, [st EXCEPT !.susp = Append(@, [s |-> o.s, p |-> o.p])])
        [] o.op = "fail"  -> [st EXCEPT !.ok = "fail"]
        [] o.op = "stopi" -> [st EXCEPT !.ok = "stop"]

\* one stimulus: its handler; a requested stop (outside on_start / on_stop) is followed by on_stop
RunStimulus(k, frame, st) ==
    LET r == Run(frame, st) IN
    IF r.ok = "stop" /\ k \notin {"start", "stop"} THEN Run(Handler("stop", <<"stop">>), [r EXCEPT !.ok = "ok"]) ELSE r

BigStepAgrees ==
    (status # "run" /\ acts # <<>>) =>
        LET r == RunStimulus(g0.k, g0.frame, [val |-> g0.val, map |-> g0.map, ev |-> <<>>, ok |-> "ok", susp |-> g0.pending])
            a == acts[Len(acts)]
        IN /\ r.ev = a.ev
           /\ r.val = val /\ r.map = map
           /\ (status = "idle") => (r.susp = pending)
           /\ (r.ok = "fail") <=> (a.fl = 1)

Terminal == status \in {"done", "dead"}
=============================================================================

-------------------------------- MODULE Links --------------------------------
(***************************************************************************)
(* C20 - introspection reports the true number of links and counts every   *)
(* message.                                                                *)
(*                                                                         *)
(* M (mechanism): the link registry of the agent runtime's write task,     *)
(*   runtime/swimos_runtime/src/agent/task/links.rs                        *)
(*     Links { forward: lane -> LaneLinks { remotes, reporter },           *)
(*             backwards: remote -> lanes, total_count, aggregate_reporter }*)
(*   one operator per method (Insert, Remove, RemoveRemote, RemoveLane,    *)
(*   RemoveAll, CountSingle, CountBroadcast, RegisterReporter), the        *)
(*   reporters' atomics (UplinkCounters.link_count; event / command counts *)
(*   as the increments made during the step - a snapshot is taken after    *)
(*   every step, accumulation between snapshots is Counters.tla's subject),*)
(*   and two drivers:                                                      *)
(*     Level = "K": the methods called directly, in any order;             *)
(*     Level = "W": the call sites in agent/task/mod.rs (WriteTaskState:   *)
(*       register_lane, handle_task_message Remote / Link / Unlink /       *)
(*       UnknownLane, handle_event targeted / broadcast with its implicit  *)
(*       link, write failure -> remove_remote, remove_remote_if_idle,      *)
(*       remove_lane, unlink_all) over a RemoteTracker abstracted to the   *)
(*       set of attached remotes.  Every write handed out is run at once;  *)
(*       a write to a remote whose reader has gone fails and the task      *)
(*       removes that remote (the real failure-detection path).            *)
(*                                                                         *)
(* P (property): the abstract set `linked` of (lane, remote) pairs, kept   *)
(*   by the rules of the statement only; the snapshot of every lane with a *)
(*   registered reporter reports |linked[lane]|, the aggregate |linked|,   *)
(*   the event counts equal the number of addressees of the step's send,   *)
(*   the command counts the commands received.                             *)
(*                                                                         *)
(* KeepEntry / Guard select the unchanged tree or the repaired one         *)
(* (DESIGN section 8, F3); the check probes the real code and picks the    *)
(* matching variant.  With the unchanged tree's variant M |= P only holds  *)
(* with the findings' excuses (Excuse), and fails without them.            *)
(***************************************************************************)
EXTENDS Naturals, FiniteSets, Sequences, TLC

CONSTANTS NL, NR,      \* lanes 1..NL, remotes 1..NR
          Level,       \* "K" | "W"
          AggPresent,  \* Links::new(Some(aggregate reporter))  (always TRUE at level W)
          Counting,    \* level K: count_single / count_broadcast are called (FALSE when AggPresent = FALSE:
                       \* the runtime never has lane reporters without the aggregate one)
          KeepEntry,   \* remove_remote keeps an emptied forward entry  (FALSE = unchanged tree, finding F3a)
          Guard,       \* handle_event and detached targets: "none" (unchanged tree, F3b) | "insert" (the implicit
                       \* link needs has_remote) | "all" (a response for a detached remote is dropped before counting)
          Excuse       \* subset of {"F3a", "F3b"}: findings whose exact circumstances excuse P

Lanes   == 1..NL
Remotes == 1..NR

VARIABLES
    \* ---- M: Links
    fwd,      \* forward:   [Lanes -> [here, rem, rep]]  entry present?, remotes, reporter stored IN the entry?
    bwd,      \* backwards: [Remotes -> [here, lanes]]
    total,    \* total_count
    lc,       \* [Lanes -> Nat]  link_count atomic of the lane's current reporter
    alc,      \* link_count atomic of the aggregate reporter
    rdr,      \* [Lanes -> BOOLEAN]  a reader for the lane's current reporter has been handed out
    \* ---- M: write task (level W)
    lanes,    \* [Lanes -> "new" | "up" | "failed"]   lane registry / lane stream state
    att,      \* attached remotes (RemoteTracker.remotes)
    closed,   \* attached remotes whose reader has gone (the next write to them fails)
    stopped,  \* unlink_all has run
    \* ---- P
    linked,   \* SUBSET (Lanes \X Remotes): the links that really exist
    gone,     \* lanes that were removed (remove_lane): P is silent about their lane reporter
    \* ---- bookkeeping for the findings' excuses
    lost,     \* lanes whose reporter-bearing entry was deleted by remove_remote (F3a)
    ph,       \* phantom links: implicit links created for a remote that was not attached (F3b)
    \* ---- the action just taken: inputs, the outputs M expects, and what P expects
    lastAct, pexp

mvars == <<fwd, bwd, total, lc, alc, rdr, lanes, att, closed, stopped, linked, gone, lost, ph>>
vars  == <<fwd, bwd, total, lc, alc, rdr, lanes, att, closed, stopped, linked, gone, lost, ph, lastAct, pexp>>
View  == mvars

-----------------------------------------------------------------------------
(* helpers *)
RECURSIVE SumTo(_, _)
SumTo(f, n) == IF n = 0 THEN 0 ELSE f[n] + SumTo(f, n - 1)
\* bit mask of a subset of 1..n (n <= 4), spelled out because it is evaluated for every output of every step
Mask(S, n) == (IF 1 \in S THEN 1 ELSE 0) + (IF 2 \in S THEN 2 ELSE 0) + (IF 3 \in S THEN 4 ELSE 0) + (IF 4 \in S THEN 8 ELSE 0)
ASSUME NL \in 1..4 /\ NR \in 1..4
Monus(a, b) == IF a > b THEN a - b ELSE 0          \* saturating_sub
B2I(b) == IF b THEN 1 ELSE 0

NoF == [here |-> FALSE, rem |-> {}, rep |-> FALSE]
NoB == [here |-> FALSE, lanes |-> {}]
Held == Level = "W"     \* the read task's LaneSender keeps a clone of every lane reporter

\* the registry as a value, so that a call site is a composition of method calls;
\* ev / aev / cm / acm are the increments made during the current step
Reg0 == [fwd |-> fwd, bwd |-> bwd, total |-> total, lc |-> lc, alc |-> alc,
         ev |-> [l \in Lanes |-> 0], aev |-> 0, cm |-> [l \in Lanes |-> 0], acm |-> 0]

HasRep(R, l) == R.fwd[l].here /\ R.fwd[l].rep
IsLinked(R, l, r) == R.fwd[l].here /\ r \in R.fwd[l].rem
LinkedFrom(R, l) == IF R.fwd[l].here THEN R.fwd[l].rem ELSE {}
FwdPairs(R) == {p \in Lanes \X Remotes : IsLinked(R, p[1], p[2])}

\* LaneLinks: reporter.set_uplinks(remotes.len())
SetLane(R, l) == IF HasRep(R, l) THEN [R EXCEPT !.lc[l] = Cardinality(R.fwd[l].rem)] ELSE R
\* aggregate_reporter.set_uplinks(total_count)
SetAgg(R) == IF AggPresent THEN [R EXCEPT !.alc = R.total] ELSE R
\* forward.entry(lane_id).or_default()
Ensure(R, l) == IF R.fwd[l].here THEN R ELSE [R EXCEPT !.fwd[l] = [here |-> TRUE, rem |-> {}, rep |-> FALSE]]

\* Links::register_reporter (a fresh reporter: its atomics start at 0)
RegisterReporter(R, l) == LET R1 == Ensure(R, l) IN [R1 EXCEPT !.fwd[l].rep = TRUE, !.lc[l] = 0]

\* Links::insert
Insert(R, l, r) ==
    LET R1 == Ensure(R, l)
        R2 == IF r \in R1.fwd[l].rem THEN R1       \* HashSet::insert = false: nothing counted
              ELSE SetLane([R1 EXCEPT !.fwd[l].rem = @ \cup {r}, !.total = @ + 1], l)
        R3 == SetAgg(R2)
    IN [R3 EXCEPT !.bwd[r] = [here |-> TRUE, lanes |-> @.lanes \cup {l}]]

\* the part of remove / remove_lane that maintains `backwards` and decides schedule_prune
DropBack(R, r, l) ==
    IF R.bwd[r].here
      THEN LET ls == R.bwd[r].lanes \ {l} IN
           [R |-> [R EXCEPT !.bwd[r] = IF ls = {} THEN NoB ELSE [here |-> TRUE, lanes |-> ls]], prune |-> ls = {}]
      ELSE [R |-> R, prune |-> FALSE]

\* Links::remove -> TriggerUnlink { remote_id, schedule_prune }
Remove(R, l, r) ==
    LET R1 == IF R.fwd[l].here
                THEN SetAgg(IF r \in R.fwd[l].rem
                              THEN SetLane([R EXCEPT !.fwd[l].rem = @ \ {r}, !.total = Monus(@, 1)], l)
                              ELSE R)
                ELSE R
    IN DropBack(R1, r, l)

\* Links::remove_all_links (the iterator is consumed completely by its callers)
RemoveAll(R) ==
    LET n == SumTo([l \in Lanes |-> Cardinality(LinkedFrom(R, l))], NL) IN
    [R EXCEPT !.bwd = [r \in Remotes |-> NoB],
              !.alc = IF AggPresent THEN 0 ELSE @,
              !.fwd = [l \in Lanes |-> IF R.fwd[l].here THEN [R.fwd[l] EXCEPT !.rem = {}] ELSE R.fwd[l]],
              !.lc = [l \in Lanes |-> IF HasRep(R, l) THEN 0 ELSE R.lc[l]],
              !.total = Monus(@, n)]

\* Links::remove_lane -> one TriggerUnlink per remote that was linked
RECURSIVE DropBackAll(_, _, _)
DropBackAll(R, rs, l) ==
    IF rs = {} THEN [R |-> R, pruned |-> {}]
    ELSE LET r == CHOOSE x \in rs : TRUE
             d == DropBack(R, r, l)
             rest == DropBackAll(d.R, rs \ {r}, l)
         IN [R |-> rest.R, pruned |-> rest.pruned \cup (IF d.prune THEN {r} ELSE {})]
RemoveLane(R, l) ==
    IF ~R.fwd[l].here THEN [R |-> R, rs |-> {}, pruned |-> {}]
    ELSE LET rs == R.fwd[l].rem
             \* take_remotes: count -= len, reporter.set_uplinks(0); then the entry (and the reporter) is dropped
             R1 == SetAgg([R EXCEPT !.fwd[l] = NoF, !.total = Monus(@, Cardinality(rs)),
                                    !.lc[l] = IF HasRep(R, l) THEN 0 ELSE @])
             d == DropBackAll(R1, rs, l)
         IN [R |-> d.R, rs |-> rs, pruned |-> d.pruned]

\* Links::remove_remote
RemoveRemote(R, r) ==
    LET ls == IF R.bwd[r].here THEN R.bwd[r].lanes ELSE {}
        touched == {l \in ls : R.fwd[l].here}
        hit == {l \in touched : r \in R.fwd[l].rem}
    IN SetAgg([R EXCEPT
         !.bwd[r] = NoB,
         !.fwd = [l \in Lanes |->
                    IF l \in touched
                      THEN LET nr == R.fwd[l].rem \ {r} IN
                           IF nr = {} /\ ~KeepEntry
                             THEN NoF                \* entry.remove(): THE REPORTER GOES WITH IT  (F3a)
                             ELSE [R.fwd[l] EXCEPT !.rem = nr]
                      ELSE R.fwd[l]],
         !.lc = [l \in Lanes |-> IF l \in hit /\ R.fwd[l].rep THEN Cardinality(R.fwd[l].rem \ {r}) ELSE R.lc[l]],
         !.total = Monus(@, Cardinality(hit))])

RECURSIVE RemoveRemotes(_, _)
RemoveRemotes(R, rs) == IF rs = {} THEN R
                        ELSE LET r == CHOOSE x \in rs : TRUE IN RemoveRemotes(RemoveRemote(R, r), rs \ {r})

\* Links::count_single / count_broadcast: only with an aggregate reporter AND a forward entry
CountSingle(R, l) ==
    IF AggPresent /\ R.fwd[l].here
      THEN [R EXCEPT !.ev[l] = IF HasRep(R, l) THEN @ + 1 ELSE @, !.aev = @ + 1]
      ELSE R
CountBroadcast(R, l) ==
    IF AggPresent /\ R.fwd[l].here
      THEN LET n == Cardinality(R.fwd[l].rem) IN
           [R EXCEPT !.ev[l] = IF HasRep(R, l) THEN @ + n ELSE @, !.aev = @ + n]
      ELSE R

-----------------------------------------------------------------------------
(* what the readers report after the step (UplinkReportReader::snapshot):   *)
(* <<st, link_count, event_count, command_count>>, st 0 = no reader handed   *)
(* out, 1 = alive, 2 = dead (the reporter was dropped)                       *)
LaneSnap(R, rd, l) ==
    IF ~rd[l] THEN <<0, 0, 0, 0>>
    ELSE IF Held \/ HasRep(R, l) THEN <<1, R.lc[l], R.ev[l], R.cm[l]>>
    ELSE <<2, 0, 0, 0>>
AggSnap(R) == IF AggPresent THEN <<1, R.alc, R.aev, R.acm>> ELSE <<0, 0, 0, 0>>
Snaps(R, rd) == [i \in 1..(NL + 1) |-> IF i <= NL THEN LaneSnap(R, rd, i) ELSE AggSnap(R)]

LinkedOf(S, l) == {r \in Remotes : <<l, r>> \in S}
LanesOf(S, r) == {l \in Lanes : <<l, r>> \in S}

\* P on one snapshot: s = the snapshots taken after the step, pe = what P expects (see Commit)
StrictLane(s, pe, l) ==
    LET o == s[l] IN
    /\ o[1] = 1                                                               \* the reader is alive
    /\ o[2] = pe.links[l]                                                     \* the true number of links
    /\ \E t \in 0..(IF l = pe.tlane THEN pe.tol ELSE 0) : o[3] = pe.ev[l] + t  \* every event counted
    /\ o[4] = pe.cm[l]                                                        \* every command counted
StrictAgg(s, pe) ==
    LET o == s[NL + 1] IN
    /\ o[1] = 1 /\ o[2] = pe.all /\ o[4] = pe.cma
    /\ \E t \in 0..pe.tol : o[3] = pe.eva + t

\* Everything an action decides, in one place.
\*   act   inputs of the call (+ outputs specific to it)
\*   R     the registry after the call(s)
\*   X     the other variables after the step: [rdr, lanes, att, closed, stopped, gone, lost]
\*   L     P: the links that exist after the step
\*   newph phantom links created by the step
\*   send  P: [lane, n, tol]  the step sent an event of `lane` to n addressees (tol: one more may be counted)
\*   pcm   P: lane whose command counter (and the aggregate's) gains one, 0 = none
\*   aMiss the aggregate event count may fall short by this much (consequence of F3a, only with its excuse)
Commit(act, R, X, L, newph, send, pcm, aMiss) ==
    LET goneNew == X.gone
        \* F3a: an entry holding a reporter disappeared although the lane was not removed
        lostNew == ((X.lost \cup {l \in Lanes : fwd[l].here /\ fwd[l].rep /\ ~R.fwd[l].here}) \ goneNew)
        phNew   == ((ph \cup newph) \cap FwdPairs(R)) \ L
        s       == Snaps(R, X.rdr)
        pe      == [links |-> [l \in Lanes |-> Cardinality(LinkedOf(L, l))],
                    all   |-> Cardinality(L),
                    ev    |-> [l \in Lanes |-> IF l = send.lane THEN send.n ELSE 0],
                    eva   |-> send.n,
                    tol   |-> send.tol,
                    tlane |-> send.lane,
                    cm    |-> [l \in Lanes |-> IF l = pcm THEN 1 ELSE 0],
                    cma   |-> IF pcm # 0 THEN 1 ELSE 0,
                    phPre |-> [l \in Lanes |-> Cardinality(LinkedOf(ph, l))],
                    phNow |-> [l \in Lanes |-> Cardinality(LinkedOf(phNew, l))],
                    aMiss |-> aMiss,
                    must  |-> {l \in Lanes : X.rdr[l] /\ l \notin goneNew},
                    lost  |-> lostNew]
        \* the findings this very step exhibits (P fails strictly, in the finding's circumstances)
        anyPh   == phNew # {} \/ ph # {}
        kfA     == \/ \E l \in pe.must \cap lostNew : ~StrictLane(s, pe, l)
                   \/ aMiss > 0 /\ AggPresent /\ ~StrictAgg(s, pe)
        kfB     == /\ anyPh
                   /\ \/ \E l \in pe.must : (pe.phNow[l] > 0 \/ pe.phPre[l] > 0) /\ ~StrictLane(s, pe, l)
                      \/ AggPresent /\ ~StrictAgg(s, pe)
    IN
    /\ fwd' = R.fwd /\ bwd' = R.bwd /\ total' = R.total /\ lc' = R.lc /\ alc' = R.alc
    /\ rdr' = X.rdr /\ lanes' = X.lanes /\ att' = X.att /\ closed' = X.closed /\ stopped' = X.stopped
    /\ linked' = L /\ gone' = goneNew /\ lost' = lostNew /\ ph' = phNew
    /\ lastAct' = act @@ [s |-> s, kf |-> (IF kfA THEN <<"F3a">> ELSE <<>>) \o (IF kfB THEN <<"F3b">> ELSE <<>>)]
    /\ pexp' = pe

Same == [rdr |-> rdr, lanes |-> lanes, att |-> att, closed |-> closed, stopped |-> stopped, gone |-> gone, lost |-> lost]
NoSend == [lane |-> 0, n |-> 0, tol |-> 0]

\* registry projection through the public queries linked_from / linked_to (level K outputs)
FwOut(R) == [l \in Lanes |-> Mask(LinkedFrom(R, l), NR)]
BwOut(R) == [r \in Remotes |-> IF R.bwd[r].here THEN Mask(R.bwd[r].lanes, NL) ELSE 0]
BwHere(R) == [r \in Remotes |-> B2I(R.bwd[r].here)]
KOut(R) == [fw |-> FwOut(R), bw |-> BwOut(R), bwh |-> BwHere(R)]

-----------------------------------------------------------------------------
(* Level K: the methods of Links, called directly                           *)

K_Register(l) ==
    \* as at the call site (register_lane: a fresh lane id): no links exist for the lane yet
    /\ Level = "K" /\ LinkedFrom(Reg0, l) = {}
    /\ LET R == RegisterReporter(Reg0, l) IN
       Commit([k |-> "reg", l |-> l] @@ KOut(R), R,
              [Same EXCEPT !.rdr[l] = TRUE, !.gone = @ \ {l}, !.lost = @ \ {l}], linked, {}, NoSend, 0, 0)

K_Insert(l, r) ==
    /\ Level = "K"
    /\ LET R == Insert(Reg0, l, r) IN
       Commit([k |-> "ins", l |-> l, r |-> r] @@ KOut(R), R, Same, linked \cup {<<l, r>>}, {}, NoSend, 0, 0)

K_Remove(l, r) ==
    /\ Level = "K"
    /\ LET d == Remove(Reg0, l, r) IN
       Commit([k |-> "rem", l |-> l, r |-> r, tu |-> <<r, B2I(d.prune)>>] @@ KOut(d.R), d.R, Same,
           linked \ {<<l, r>>}, {}, NoSend, 0, 0)

K_RemoveRemote(r) ==
    /\ Level = "K"
    /\ LET R == RemoveRemote(Reg0, r) IN
       Commit([k |-> "remr", r |-> r] @@ KOut(R), R, Same, {p \in linked : p[2] # r}, {}, NoSend, 0, 0)

K_RemoveLane(l) ==
    /\ Level = "K"
    /\ LET d == RemoveLane(Reg0, l)
           tus == SelectSeq([r \in Remotes |-> <<r, B2I(r \in d.pruned)>>], LAMBDA x : x[1] \in d.rs)
       IN Commit([k |-> "reml", l |-> l, tus |-> tus] @@ KOut(d.R), d.R, [Same EXCEPT !.gone = @ \cup {l}],
                 {p \in linked : p[1] # l}, {}, NoSend, 0, 0)

K_RemoveAll ==
    /\ Level = "K"
    /\ LET R == RemoveAll(Reg0)
           all == [i \in 1..(NL * NR) |-> <<((i - 1) \div NR) + 1, ((i - 1) % NR) + 1>>]
           pairs == SelectSeq(all, LAMBDA p : IsLinked(Reg0, p[1], p[2]))
       IN Commit([k |-> "remall", pairs |-> pairs] @@ KOut(R), R, Same, {}, {}, NoSend, 0, 0)

K_CountSingle(l) ==
    \* the call site (handle_event, targeted) counts one event that goes to one remote; the case
    \* "no forward entry" only arises at the call site (after F3a, or a lane without a reporter) and
    \* is covered at level W
    /\ Level = "K" /\ Counting /\ fwd[l].here
    /\ LET R == CountSingle(Reg0, l) IN
       Commit([k |-> "cs", l |-> l] @@ KOut(R), R, Same, linked, {}, [lane |-> l, n |-> 1, tol |-> 0], 0, 0)

K_CountBroadcast(l) ==
    /\ Level = "K" /\ Counting
    /\ LET R == CountBroadcast(Reg0, l) IN
       Commit([k |-> "cb", l |-> l] @@ KOut(R), R, Same, linked, {},
              [lane |-> l, n |-> Cardinality(LinkedOf(linked, l)), tol |-> 0], 0, 0)

NextK == \/ \E l \in Lanes : K_Register(l) \/ K_RemoveLane(l) \/ K_CountSingle(l) \/ K_CountBroadcast(l)
         \/ \E l \in Lanes, r \in Remotes : K_Insert(l, r) \/ K_Remove(l, r)
         \/ \E r \in Remotes : K_RemoveRemote(r)
         \/ K_RemoveAll

-----------------------------------------------------------------------------
(* Level W: the call sites in the write task                                *)

\* Frames: what every remote with a live reader receives during the step, in order.
NoRx == [r \in Remotes |-> <<>>]
Send(rx, r, f) == [rx EXCEPT ![r] = Append(@, f)]

\* The write task runs the scheduled writes: a write to a remote whose reader has gone fails and
\* the remote is removed (WriteDone(Err) -> remove_remote(ChannelClosed)); frames reach the others.
\*   written: remotes some write was addressed to;  rx: the frames, had every write succeeded
Finish(act, R, X, L0, newph, send, pcm, aMiss, written, rx) ==
    LET failing == written \cap X.att \cap X.closed
        R1 == RemoveRemotes(R, failing)
        att1 == X.att \ failing
        X1 == [X EXCEPT !.att = att1, !.closed = @ \ failing]
        dcs == SelectSeq([r \in Remotes |-> <<r, "closed">>], LAMBDA x : x[1] \in failing)
        rxs == [r \in Remotes |-> IF r \in X.att /\ r \notin X.closed THEN rx[r] ELSE <<>>]
        L == {p \in L0 : p[2] \in att1}       \* P: a remote that has gone is linked to nothing
    IN Commit(act @@ [rx |-> rxs, att |-> Mask(att1, NR), dc |-> dcs, lk |-> FwOut(R1)],
              R1, X1, L, newph, send, pcm, aMiss)

Running == Level = "W" /\ ~stopped    \* after unlink_all the task only drains its writes and stops
Known(l) == lanes[l] # "new"      \* the lane registry knows the name (it never forgets a failed lane)

W_Lane(l) ==     \* WriteTaskState::register_lane(name, Some(reporter))
    /\ Running /\ lanes[l] = "new"
    /\ Finish([k |-> "lane", l |-> l], RegisterReporter(Reg0, l),
              [Same EXCEPT !.rdr[l] = TRUE, !.lanes[l] = "up"], linked, {}, NoSend, 0, 0, {}, NoRx)

W_Attach(r) ==   \* WriteTaskMessage::Remote
    /\ Running /\ r \notin att
    /\ Finish([k |-> "att", r |-> r], Reg0, [Same EXCEPT !.att = @ \cup {r}], linked, {}, NoSend, 0, 0, {}, NoRx)

W_Link(r, l) ==  \* RwCoordinationMessage::Link
    /\ Running
    /\ IF Known(l) /\ r \in att
         THEN Finish([k |-> "link", r |-> r, l |-> l], Insert(Reg0, l, r), Same, linked \cup {<<l, r>>}, {},
                     NoSend, 0, 0, {r}, Send(NoRx, r, <<"L", l>>))
         ELSE Finish([k |-> "link", r |-> r, l |-> l], Reg0, Same, linked, {}, NoSend, 0, 0, {}, NoRx)

W_Unlink(r, l) ==  \* RwCoordinationMessage::Unlink
    /\ Running
    /\ IF Known(l) /\ IsLinked(Reg0, l, r)
         THEN Finish([k |-> "unlink", r |-> r, l |-> l], Remove(Reg0, l, r).R, Same, linked \ {<<l, r>>}, {},
                     NoSend, 0, 0, {r}, IF r \in att THEN Send(NoRx, r, <<"U", l>>) ELSE NoRx)
         ELSE Finish([k |-> "unlink", r |-> r, l |-> l], Reg0, Same, linked, {}, NoSend, 0, 0, {}, NoRx)

W_Unknown(r) ==  \* RwCoordinationMessage::UnknownLane: an `unlinked` for a lane that does not exist
    /\ Running
    /\ Finish([k |-> "unk", r |-> r], Reg0, Same, linked, {}, NoSend, 0, 0, {r},
              IF r \in att THEN Send(NoRx, r, <<"U", 0>>) ELSE NoRx)

W_EventTo(l, t) ==  \* handle_event, LaneData { target: Some(t), .. }
    /\ Running /\ lanes[l] = "up"
    /\ LET here == t \in att
           act == [k |-> "ev", l |-> l, t |-> t]
       IN
       IF ~here /\ Guard = "all"
         THEN Finish(act, Reg0, Same, linked, {}, [lane |-> l, n |-> 0, tol |-> 1], 0, 0, {}, NoRx)
         ELSE
           LET R1 == CountSingle(Reg0, l)                    \* counted BEFORE the implicit link exists
               implicit == ~IsLinked(R1, l, t) /\ (here \/ Guard = "none")
               R2 == IF implicit THEN Insert(R1, l, t) ELSE R1
               rx == IF ~here THEN NoRx
                     ELSE IF implicit THEN Send(Send(NoRx, t, <<"L", l>>), t, <<"E", l>>)
                     ELSE Send(NoRx, t, <<"E", l>>)
           IN Finish(act, R2, Same,
                     IF here THEN linked \cup {<<l, t>>} ELSE linked,        \* P: an implicit link needs a remote
                     IF implicit /\ ~here THEN {<<l, t>>} ELSE {},
                     \* P: one addressee if the remote exists; for a remote that has gone the statement
                     \* does not say whether the dispatched response is "sent": 0 or 1 are both accepted
                     IF here THEN [lane |-> l, n |-> 1, tol |-> 0] ELSE [lane |-> l, n |-> 0, tol |-> 1],
                     0,
                     \* count_single found no forward entry: the aggregate misses the event
                     IF here /\ ~fwd[l].here THEN 1 ELSE 0,
                     {t}, rx)

W_Broadcast(l) ==   \* handle_event, LaneData { target: None, .. }
    /\ Running /\ lanes[l] = "up"
    /\ LET ts == LinkedFrom(Reg0, l)
           act == [k |-> "ev", l |-> l, t |-> 0]
       IN
       IF ts = {} THEN Finish(act, Reg0, Same, linked, {}, [lane |-> l, n |-> 0, tol |-> 0], 0, 0, {}, NoRx)
       ELSE Finish(act, CountBroadcast(Reg0, l), Same, linked, {},
                   [lane |-> l, n |-> Cardinality(LinkedOf(linked, l)), tol |-> 0], 0, 0,
                   ts, [r \in Remotes |-> IF r \in ts /\ r \in att THEN <<<<"E", l>>>> ELSE <<>>])

W_Command(l) ==     \* read task: aggregate_reporter.count_commands(1); LaneSender::feed_frame counts on the lane's
    /\ Running /\ lanes[l] = "up"
    /\ Finish([k |-> "cmd", l |-> l], [Reg0 EXCEPT !.cm[l] = 1, !.acm = 1], Same, linked, {}, NoSend, l, 0, {}, NoRx)

W_Close(r) ==       \* the remote goes away; the write task will find out when it next writes to it
    /\ Running /\ r \in att /\ r \notin closed
    /\ Finish([k |-> "close", r |-> r], Reg0, [Same EXCEPT !.closed = @ \cup {r}], linked, {}, NoSend, 0, 0, {}, NoRx)

W_Prune(r) ==       \* WriteTaskEvent::PruneRemote -> remove_remote_if_idle
    /\ Running
    /\ IF ~bwd[r].here
         THEN LET wasAtt == r \in att
                  R == RemoveRemote(Reg0, r)
                  X == [Same EXCEPT !.att = @ \ {r}, !.closed = @ \ {r}]
              IN Commit([k |-> "prune", r |-> r, rx |-> NoRx, att |-> Mask(X.att, NR),
                         dc |-> IF wasAtt THEN <<<<r, "timedout">>>> ELSE <<>>, lk |-> FwOut(R)],
                        R, X, {p \in linked : p[2] # r}, {}, NoSend, 0, 0)
         ELSE Finish([k |-> "prune", r |-> r], Reg0, Same, linked, {}, NoSend, 0, 0, {}, NoRx)

W_LaneFailed(l) ==  \* WriteTaskEvent::LaneFailed -> remove_lane, one `unlinked` per remote
    /\ Running /\ lanes[l] = "up"
    /\ LET d == RemoveLane(Reg0, l) IN
       Finish([k |-> "fail", l |-> l], d.R, [Same EXCEPT !.lanes[l] = "failed", !.gone = @ \cup {l}],
              {p \in linked : p[1] # l}, {}, NoSend, 0, 0, d.rs,
              [r \in Remotes |-> IF r \in d.rs /\ r \in att THEN <<<<"U", l>>>> ELSE <<>>])

W_Stop ==           \* unlink_all (shutdown): remove_all_links, one `unlinked` per link
    /\ Running
    /\ LET ps == FwdPairs(Reg0)
           us(r) == SelectSeq([l \in Lanes |-> <<"U", l>>], LAMBDA f : <<f[2], r>> \in ps)
          \* the shutdown loop drops a failed write (`if result.is_ok()`): no remote is removed any more
       IN Finish([k |-> "stop"], RemoveAll(Reg0), [Same EXCEPT !.stopped = TRUE], {}, {}, NoSend, 0, 0,
                 {}, [r \in Remotes |-> IF r \in att THEN us(r) ELSE <<>>])

NextW == \/ \E l \in Lanes : W_Lane(l) \/ W_Broadcast(l) \/ W_Command(l) \/ W_LaneFailed(l)
         \/ \E l \in Lanes, r \in Remotes : W_Link(r, l) \/ W_Unlink(r, l) \/ W_EventTo(l, r)
         \/ \E r \in Remotes : W_Attach(r) \/ W_Unknown(r) \/ W_Close(r) \/ W_Prune(r)
         \/ W_Stop

-----------------------------------------------------------------------------
Init == /\ fwd = [l \in Lanes |-> NoF] /\ bwd = [r \in Remotes |-> NoB] /\ total = 0
        /\ lc = [l \in Lanes |-> 0] /\ alc = 0 /\ rdr = [l \in Lanes |-> FALSE]
        /\ lanes = [l \in Lanes |-> IF Level = "W" THEN "new" ELSE "up"]
        /\ att = IF Level = "W" THEN {} ELSE Remotes
        /\ closed = {} /\ stopped = FALSE
        /\ linked = {} /\ gone = {} /\ lost = {} /\ ph = {}
        /\ lastAct = [k |-> "init"] /\ pexp = [k |-> "init"]

Next == NextK \/ NextW
Spec == Init /\ [][Next]_vars

-----------------------------------------------------------------------------
(* M-only sanity: the two indexes, the running total and the atomics stay in step *)
TypeOK ==
    /\ \A l \in Lanes : fwd[l].rem \subseteq Remotes /\ (~fwd[l].here => fwd[l] = NoF)
    /\ \A r \in Remotes : bwd[r].lanes \subseteq Lanes /\ (~bwd[r].here => bwd[r] = NoB)
    /\ total \in 0..(NL * NR) /\ alc \in 0..(NL * NR)
    /\ closed \subseteq att /\ linked \subseteq Lanes \X Remotes /\ ph \subseteq Lanes \X Remotes

Coherent ==
    /\ total = Cardinality(FwdPairs(Reg0))
    /\ \A r \in Remotes : /\ bwd[r].here <=> bwd[r].lanes # {}                       \* no empty backwards entry
                          /\ bwd[r].lanes = {l \in Lanes : IsLinked(Reg0, l, r)}      \* the indexes mirror each other
    /\ \A l \in Lanes : HasRep(Reg0, l) => lc[l] = Cardinality(fwd[l].rem)
    /\ AggPresent => alc = total

\* the registry holds exactly the real links and the phantoms
RegistryIsLinkedPlusPhantoms == FwdPairs(Reg0) = linked \cup ph /\ linked \cap ph = {}

-----------------------------------------------------------------------------
(* P: the property, evaluated on the snapshot taken after every step        *)
Stepped == lastAct.k # "init"

\* how a lane / the aggregate may deviate under an open finding - exactly, not "anything goes"
ExcusedA(l, o) == /\ "F3a" \in Excuse /\ l \in pexp.lost
                  /\ \/ o = <<2, 0, 0, 0>>                                  \* nobody else holds the reporter: reader dead
                     \/ o[1] = 1 /\ o[2] = 0 /\ o[3] = 0 /\ o[4] = pexp.cm[l]   \* a clone survives: frozen at zero
ExcusedB(l, o) == /\ "F3b" \in Excuse /\ (pexp.phNow[l] > 0 \/ pexp.phPre[l] > 0)
                  /\ o[1] = 1 /\ o[2] = pexp.links[l] + pexp.phNow[l] /\ o[4] = pexp.cm[l]
                  /\ \E x \in 0..pexp.phPre[l], t \in 0..(IF l = pexp.tlane THEN pexp.tol ELSE 0) :
                        o[3] = pexp.ev[l] + x + t

LaneTrue(l) == StrictLane(lastAct.s, pexp, l) \/ ExcusedA(l, lastAct.s[l]) \/ ExcusedB(l, lastAct.s[l])

AggTrue ==
    LET o == lastAct.s[NL + 1]
        allPh == SumTo(pexp.phNow, NL)
        phx == IF "F3b" \in Excuse /\ pexp.tlane # 0 THEN pexp.phPre[pexp.tlane] ELSE 0
        miss == IF "F3a" \in Excuse THEN pexp.aMiss ELSE 0
    IN /\ o[1] = 1
       /\ o[2] = pexp.all + (IF "F3b" \in Excuse THEN allPh ELSE 0)
       /\ \E t \in 0..pexp.tol, x \in 0..phx, y \in 0..miss : o[3] + y = pexp.eva + t + x
       /\ o[4] = pexp.cma

\* with Excuse = {} these are the property itself
LaneCountsTrue == Stepped => \A l \in pexp.must : LaneTrue(l)
AggregateTrue  == (Stepped /\ AggPresent) => AggTrue
\* The event / command counts belong to the step, not to the state, so P is checked on every
\* transition (an invariant would only see the first transition TLC finds into each state).
PStep == [][LaneCountsTrue' /\ AggregateTrue']_vars
\* the findings' circumstances never arise (true of the repaired variant only)
NoPhantoms == ph = {}
NoLostReporter == lost = {}
=============================================================================

------------------------------- MODULE Sim_Lanes ------------------------------
\* Random behaviours of Lanes (tlc -simulate) over scopes whose state graph is too large to dump,
\* with the call sequence recorded and the ghost P riding along (PAccepts is checked on every state
\* of these long behaviours, without the lag bound of the exhaustive runs).  The simulator evaluates
\* invariants on every candidate successor, so the path is printed from the single successor ("end")
\* of the state actually chosen after PathLen calls: one REPLAY line per behaviour.
EXTENDS Lanes, Json
CONSTANT PathLen
VARIABLE path
SimInit == Init /\ path = << >>
SimNext == IF Len(path) < PathLen
           THEN Next /\ path' = Append(path, lastAct')
           ELSE /\ Len(path) = PathLen
                /\ UNCHANGED vars
                /\ path' = Append(path, [k |-> "end"])
PathDump == (Len(path) = PathLen + 1) => PrintT(<<"REPLAY", ToJson(SubSeq(path, 1, PathLen))>>)
=============================================================================

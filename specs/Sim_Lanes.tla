------------------------------- MODULE Sim_Lanes ------------------------------
\* Random behaviours of Lanes (tlc -simulate) over scopes whose state graph is too large to dump,
\* with the call sequence recorded and the ghost P riding along (PAccepts is checked on every state
\* of these long behaviours, without the lag bound of the exhaustive runs).
\*
\* The simulator picks uniformly among the successor states, and a lane has many more ways of being
\* written to (keys x values x code paths) than of being asked to write: left alone, the queues of a
\* simulated lane are never drained.  The choice is therefore made in two stages: first the class of
\* the next call (a write / a sync / anything), then a call of that class (write_to_buffer is always
\* enabled, so it is the fallback of every class).
\*
\* The simulator evaluates invariants on every candidate successor, so the path is printed from the
\* single successor ("end") of the state actually chosen after PathLen calls: one REPLAY line per
\* behaviour.
EXTENDS Lanes, Json
CONSTANT PathLen
VARIABLES path, cls
SimInit == Init /\ path = << >> /\ cls = ""
InClass(c, a) ==
    \/ a.k = "write"
    \/ c = "sync" /\ a.k \in {"sync", "dsync"}
    \/ c = "any" /\ a.k \notin {"sync", "dsync"}
SimNext == IF Len(path) < PathLen
           THEN IF cls = ""
                THEN cls' \in {"write", "sync", "any"} /\ UNCHANGED <<vars, path>>
                ELSE Next /\ InClass(cls, lastAct') /\ path' = Append(path, lastAct') /\ cls' = ""
           ELSE /\ Len(path) = PathLen
                /\ UNCHANGED <<vars, cls>>
                /\ path' = Append(path, [k |-> "end"])
PathDump == (Len(path) = PathLen + 1) => PrintT(<<"REPLAY", ToJson(SubSeq(path, 1, PathLen))>>)
=============================================================================

----------------------------- MODULE CommandOutput -----------------------------
(***************************************************************************)
(* C14 (agent-sent commands), configuration K.                             *)
(*                                                                         *)
(* M: mechanism specification of `CommandOutput`                           *)
(*    (runtime/swimos_runtime/src/agent/task/external_links/mod.rs): the   *)
(*    per-endpoint state that collects the ad hoc commands an agent sends  *)
(*    and hands them to the channel writer.  One action per real           *)
(*    operation:                                                           *)
(*       Connect   replace_writer(CmdChannelWriter::new(channel))          *)
(*       AppendCmd append(key, body, overwrite_permitted)                  *)
(*       WriteAct  write()                                                 *)
(*       Poll      the write future makes progress (owns writer + buffer)  *)
(*       Complete  the write future completes: the bytes are on the        *)
(*                 channel, replace_writer(returned writer)                *)
(*    With TaskMode = TRUE the steps are composed exactly as               *)
(*    external_links_task composes them: append;write() on every command,  *)
(*    replace_writer;write() on NewChannel and on WriteDone.  With         *)
(*    TaskMode = FALSE the three operations are called in any order (a     *)
(*    superset of what the task does).                                     *)
(*                                                                         *)
(* Data model.  A command is identified by <<t, n>>: the n-th command      *)
(* appended for target lane t (the harness concretises <<t, n>> to node /  *)
(* lane names and a body from boundary pools and checks the bytes).  A     *)
(* byte buffer holding whole request frames is the sequence of the         *)
(* commands in it; `offset` (a byte position at a frame boundary) is the   *)
(* number of frames before it.                                             *)
(*                                                                         *)
(* P (NoCoalesce, below the line) is stated over the history variables     *)
(* `sent` (what the agent appended) and `got` (what appeared on the        *)
(* channel) only.                                                          *)
(***************************************************************************)
EXTENDS Naturals, Sequences, FiniteSets, TLC

CONSTANTS NT,          \* number of target lanes
          MaxAppends,  \* bound on the number of append calls
          TaskMode,    \* TRUE: operations composed as in external_links_task; FALSE: free use of the API
          ClearBatch   \* TRUE: write() clears the writer's buffer before batching (tree with fix 1d26ec2)
                       \* FALSE: the code before the fix (negative control: TLC must find the F2 duplicate)

Targets == 1..NT

VARIABLES connected,   \* the outgoing channel has been established (a writer exists somewhere)
          writer,      \* "present" | "absent"             CommandOutput.writer is Some / None
          wbuf,        \* CmdChannelWriter.buffer, wherever the writer currently is: Seq of <<t, n>>
          inflight,    \* a future returned by write() exists and has not completed
          lanes,       \* [Targets -> [buf : Seq(Nat), off : Nat]]        CommandOutput.lane_buffers
          dirty,       \* Seq(Targets), duplicates possible                CommandOutput.dirty
          sent,        \* history: sent[t][n] = overwrite_permitted flag of the n-th command appended for t
          got,         \* history: got[t] = the command numbers seen on the channel for t, in channel order
          lastAct      \* the call just made: inputs and the outputs the implementation must give

vars == <<connected, writer, wbuf, inflight, lanes, dirty, sent, got, lastAct>>
View == <<connected, writer, wbuf, inflight, lanes, dirty, sent, got>>

Range(s) == {s[i] : i \in DOMAIN s}
NApp == LET RECURSIVE Sum(_)
            Sum(S) == IF S = {} THEN 0 ELSE LET t == CHOOSE x \in S : TRUE IN Len(sent[t]) + Sum(S \ {t})
        IN Sum(Targets)

\* The mutable part of CommandOutput (+ the writer's buffer) as one record, so that the real
\* methods can be written as functions and composed the way the task composes them.
St == [w |-> writer, wb |-> wbuf, fl |-> inflight, lb |-> lanes, d |-> dirty]

Frames(t, buf) == [i \in DOMAIN buf |-> <<t, buf[i]>>]

\* ---- CommandOutput::append ------------------------------------------------------------------
\*   buffer.truncate(*offset); off = buffer.len(); encode(message, buffer);
\*   *offset = if overwrite_permitted { off } else { buffer.len() };  dirty.push(i)
AppendF(s, t, n, ow) ==
    LET kept == SubSeq(s.lb[t].buf, 1, s.lb[t].off)
        nb   == Append(kept, n)
    IN [s EXCEPT !.lb[t] = [buf |-> nb, off |-> IF ow THEN Len(kept) ELSE Len(nb)],
                 !.d = Append(s.d, t)]

\* ---- CommandOutput::write -------------------------------------------------------------------
\* for i in dirty.drain(..) { writer.append_buffer(buffer); buffer.clear(); *offset = 0 }
\* (a target listed twice contributes nothing the second time: its buffer is empty by then)
RECURSIVE Batch(_, _)
Batch(d, lb) == IF d = <<>> THEN <<>>
                ELSE LET t == Head(d) IN
                     Frames(t, lb[t].buf) \o Batch(Tail(d), [lb EXCEPT ![t] = [buf |-> <<>>, off |-> 0]])

EmptyLane == [buf |-> <<>>, off |-> 0]

\* returns [s |-> the state afterwards, some |-> whether a future was returned]
WriteF(s) ==
    IF s.w = "absent" \/ s.d = <<>> THEN
        \* (w, None) | (w @ None, _) => { *writer = w; None }
        [s |-> s, some |-> FALSE]
    ELSE IF Len(s.d) = 1 THEN
        \* writer.swap_buffer(buffer) [clear, then swap]; *offset = 0; dirty.clear()
        LET t == s.d[1] IN
        [s |-> [s EXCEPT !.w = "absent", !.fl = TRUE, !.wb = Frames(t, s.lb[t].buf),
                         !.lb[t] = EmptyLane, !.d = <<>>],
         some |-> TRUE]
    ELSE
        \* writer.buffer.clear() [the fix]; append every dirty lane buffer, clearing it
        [s |-> [s EXCEPT !.w = "absent", !.fl = TRUE,
                         !.wb = (IF ClearBatch THEN <<>> ELSE s.wb) \o Batch(s.d, s.lb),
                         !.lb = [t \in Targets |-> IF t \in Range(s.d) THEN EmptyLane ELSE s.lb[t]],
                         !.d = <<>>],
         some |-> TRUE]

\* an operation optionally followed by write(), as the task does
Then(s, wr) == IF wr THEN WriteF(s) ELSE [s |-> s, some |-> FALSE]

Install(s) == /\ writer' = s.w /\ wbuf' = s.wb /\ inflight' = s.fl /\ lanes' = s.lb /\ dirty' = s.d

Out(r, wr) == IF wr THEN [hw |-> r.s.w = "present", w |-> r.some] ELSE [hw |-> r.s.w = "present"]

Init == /\ connected = FALSE /\ writer = "absent" /\ wbuf = <<>> /\ inflight = FALSE
        /\ lanes = [t \in Targets |-> EmptyLane] /\ dirty = <<>>
        /\ sent = [t \in Targets |-> <<>>] /\ got = [t \in Targets |-> <<>>]
        /\ lastAct = [k |-> "init"]

\* LinksTaskEvent::NewChannel: output.replace_writer(CmdChannelWriter::new(channel)); output.write()
Connect ==
    /\ ~connected
    /\ connected' = TRUE
    /\ LET r == Then([St EXCEPT !.w = "present", !.wb = <<>>], TaskMode) IN
       /\ Install(r.s)
       /\ lastAct' = [k |-> "connect", wr |-> TaskMode] @@ Out(r, TaskMode)
    /\ UNCHANGED <<sent, got>>

\* LinksTaskEvent::Command: output.append(addr, &command, overwrite_permitted); output.write()
AppendCmd(t, ow) ==
    /\ NApp < MaxAppends
    /\ LET n == Len(sent[t]) + 1
           r == Then(AppendF(St, t, n, ow), TaskMode) IN
       /\ Install(r.s)
       /\ sent' = [sent EXCEPT ![t] = Append(@, ow)]
       /\ lastAct' = [k |-> "append", t |-> t, n |-> n, ow |-> ow, wr |-> TaskMode] @@ Out(r, TaskMode)
    /\ UNCHANGED <<connected, got>>

\* a bare write() (free mode only: the task never calls it on its own)
WriteAct ==
    /\ ~TaskMode
    /\ LET r == WriteF(St) IN
       /\ Install(r.s)
       /\ lastAct' = [k |-> "write"] @@ Out(r, TRUE)
    /\ UNCHANGED <<connected, sent, got>>

\* The future is polled (by FuturesUnordered) but the task has not handled WriteDone yet: the
\* future owns the writer and its buffer, nothing in CommandOutput changes.
Poll ==
    /\ inflight
    /\ lastAct' = [k |-> "poll", hw |-> FALSE]
    /\ UNCHANGED <<connected, writer, wbuf, inflight, lanes, dirty, sent, got>>

Proj(fr, t) == LET f == SelectSeq(fr, LAMBDA x : x[1] = t) IN [i \in DOMAIN f |-> f[i][2]]

\* LinksTaskEvent::WriteDone(Ok(writer)): everything in the writer's buffer is on the channel
\* (write_all(&buffer) - the buffer itself is NOT consumed); output.replace_writer(writer); output.write()
Complete ==
    /\ inflight
    /\ got' = [t \in Targets |-> got[t] \o Proj(wbuf, t)]
    /\ LET r == Then([St EXCEPT !.w = "present", !.fl = FALSE], TaskMode) IN
       /\ Install(r.s)
       /\ lastAct' = [k |-> "complete", wr |-> TaskMode, fr |-> wbuf] @@ Out(r, TaskMode)
    /\ UNCHANGED <<connected, sent>>

Next == \/ Connect
        \/ \E t \in Targets, ow \in BOOLEAN : AppendCmd(t, ow)
        \/ WriteAct \/ Poll \/ Complete

Spec == Init /\ [][Next]_vars
FairSpec == Spec /\ WF_vars(Connect) /\ WF_vars(Complete) /\ WF_vars(WriteAct)

-----------------------------------------------------------------------------
(* M-level invariants (shape of the mechanism; used to understand P failures) *)

TypeOK == /\ connected \in BOOLEAN /\ inflight \in BOOLEAN /\ writer \in {"present", "absent"}
          /\ \A t \in Targets : lanes[t].off \in 0..Len(lanes[t].buf)
          /\ \A i \in DOMAIN dirty : dirty[i] \in Targets

\* the writer is in exactly one place
WriterPlace == /\ (writer = "present") <=> (connected /\ ~inflight)
               /\ inflight => connected

\* offset marks the start of a trailing overwritable record, or the end of the buffer
OffsetShape == \A t \in Targets :
    LET b == lanes[t].buf o == lanes[t].off IN
    \/ o = Len(b)
    \/ o = Len(b) - 1 /\ sent[t][b[Len(b)]] = TRUE

\* a lane with pending bytes is listed in dirty (else write() would never send them)
PendingIsDirty == \A t \in Targets : lanes[t].buf # <<>> => t \in Range(dirty)

\* the task calls write() after every operation: with the writer at home nothing is left dirty
TaskLeavesNothing == TaskMode => (writer = "present" => dirty = <<>>)

-----------------------------------------------------------------------------
(* P: NoCoalesce for agent-sent commands, over `sent` and `got` only.      *)

Must(t, n) == ~sent[t][n] \/ n = Len(sent[t])   \* non-overwritable, or nothing later to supersede it

\* per target the frames on the channel are appended commands, in append order, none twice
InOrderOnce == \A t \in Targets :
    /\ \A i \in DOMAIN got[t] : got[t][i] \in 1..Len(sent[t])
    /\ \A i, j \in DOMAIN got[t] : i < j => got[t][i] < got[t][j]

\* a command that was overtaken on the channel by a later one to the same target was overwritable
OnlyOverwritableSuperseded == \A t \in Targets : \A i \in DOMAIN got[t] :
    \A n \in 1..(got[t][i] - 1) : n \in Range(got[t]) \/ sent[t][n] = TRUE

\* nothing is lost: a command that must be delivered and has not been is still held - in the
\* buffer being written, or in its lane buffer with the lane marked dirty
Held(t, n) == \/ inflight /\ <<t, n>> \in Range(wbuf)
              \/ n \in Range(lanes[t].buf) /\ t \in Range(dirty)
NothingLost == \A t \in Targets : \A n \in 1..Len(sent[t]) :
    Must(t, n) => (n \in Range(got[t]) \/ Held(t, n))

\* ... so when the component is idle (writer at home, write() has nothing to do) every
\* non-overwritable command and the last command of every target has been delivered
Quiescent == writer = "present" /\ dirty = <<>>
AllDelivered == \A t \in Targets : \A n \in 1..Len(sent[t]) : Must(t, n) => n \in Range(got[t])
QuiescentComplete == Quiescent => AllDelivered

\* the action property: the channel history only grows
GotOnlyGrows == [][\A t \in Targets : Len(got'[t]) >= Len(got[t]) /\ SubSeq(got'[t], 1, Len(got[t])) = got[t]]_vars

\* liveness (FairSpec): if the channel gets established and writes complete, the component
\* drains - it ends idle with everything delivered
Drains == <>[](Quiescent /\ AllDelivered)

=============================================================================

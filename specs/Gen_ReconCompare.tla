--------------------------- MODULE Gen_ReconCompare --------------------------
(* Dump of the enumeration of ReconCompare.tla for the check:                              *)
(*   VAL  one line per abstract value (base or near miss): key, normal form (M)            *)
(*   EDGE one line per edit: base value -> near miss                                       *)
(*   DOC  one line per rendering: value key, tokens, hash events (M), undetected flag      *)
(*   COR  one line per corrupted rendering                                                 *)
EXTENDS ReconCompare, Json
DumpVal == (st = None) => PrintT(<<"VAL", ToJson([key |-> ValueKey(v), nf |-> NormalForm(v), sk |-> Skeleton(v), gen |-> gen, ctx |-> ContextOf(v)])>>)
DumpDoc == (st # None /\ cor = "none") =>
             LET re == RE(v, st, <<>>) IN
             PrintT(<<"DOC", ToJson([key |-> ValueKey(v), toks |-> re.toks, hev |-> re.ev,
                                     undet |-> re.und, dflt |-> (st = Default), nlmix |-> (st = NLMix), nmv |-> (st \in NmStyles)])>>)
DumpCor == (cor # "none") => PrintT(<<"COR", ToJson([key |-> ValueKey(v), toks |-> Render(v, st), cor |-> cor])>>)
EdgeDump == (gen = 0 /\ gen' = 1) => PrintT(<<"EDGE", ToJson([s |-> ValueKey(v), t |-> ValueKey(v')])>>)
=============================================================================

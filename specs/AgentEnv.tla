------------------------------- MODULE AgentEnv -------------------------------
(***************************************************************************)
(* The environment of one agent in configuration E: remotes that attach,   *)
(* send link / sync / unlink / command envelopes, read their response      *)
(* channel at their own pace, disappear; the clock; stop / kill / restart. *)
(* TLC (simulation or exhaustive) generates scripts = behaviours of this   *)
(* environment; the harness executes them against the real agent and       *)
(* runtime.  Values written are drawn from one increasing counter so that  *)
(* "is a subsequence of", "exactly once" and "in order" are decidable from *)
(* the values alone.  Bodies are abstract (m, key, v); the check module    *)
(* concretises them to Recon text.                                         *)
(***************************************************************************)
EXTENDS Naturals, Sequences, FiniteSets, TLC, Json

CONSTANTS NRemotes,     \* remotes 1..NRemotes
          MaxLen,       \* script length
          Caps,         \* response channel capacities (bytes) to choose from
          VLanes, MLanes, SLanes,   \* value / map / supply lanes remotes may address
          UseCmd,       \* TRUE: instruction commands to the "cmd" lane (agent-side writes, supply, sends)
          Keys,         \* map keys
          Advances,     \* set of clock advances (ms) the environment may make ({} = the clock is never advanced)
          Burst,        \* TRUE: sends may be issued back to back without letting the agent settle
          Faults        \* subset of {"drop", "dropread", "unknown", "restart", "kill", "badcmd", "rich", "demand", "http"}
                        \* "demand": the demand lane "dem" and the demand-map lane "dmap" are addressed (link / sync /
                        \*           unlink) and cued by the agent's handlers (cue dem, cuek dmap <k>)
                        \* "http":   HTTP requests are made to the agent (its HTTP lane "http", unknown lane names)

VARIABLES script, att, gone, nv, restarts, kind
vars == <<script, att, gone, nv, restarts, kind>>

Remotes == 1..NRemotes
Live == att \ gone
DLanes == IF "demand" \in Faults THEN {"dem", "dmap"} ELSE {}
Lanes == VLanes \cup MLanes \cup SLanes \cup DLanes
NS == IF Burst THEN {TRUE, FALSE} ELSE {FALSE}

Init == script = <<>> /\ att = {} /\ gone = {} /\ nv = 1 /\ restarts = 0 /\ kind = "none"

Emit(rec) == script' = Append(script, rec)

Attach == \E r \in Remotes \ att : \E c \in Caps :
            /\ Emit([k |-> "attach", r |-> r, cap |-> c])
            /\ att' = att \cup {r} /\ UNCHANGED <<gone, nv, restarts>>

Proto == \E r \in Live : \E l \in Lanes : \E op \in {"link", "sync", "unlink"} : \E ns \in NS :
            /\ Emit([k |-> "send", r |-> r, lane |-> l, op |-> op, nosettle |-> ns])
            /\ UNCHANGED <<att, gone, nv, restarts>>

Unknown == /\ "unknown" \in Faults
           /\ \E r \in Live : \E op \in {"link", "sync", "cmd"} :
                /\ Emit([k |-> "send", r |-> r, lane |-> "nolane", op |-> op, m |-> "raw", v |-> nv])
                /\ UNCHANGED <<att, gone, restarts>> /\ nv' = nv + 1

\* a command whose body the lane cannot decode (a text for a value lane, an unknown map message for a map lane):
\* the envelope is dropped, nothing else may happen
BadCmd == /\ "badcmd" \in Faults
          /\ \E r \in Live : \E l \in VLanes \cup MLanes :
                /\ Emit([k |-> "send", r |-> r, lane |-> l, op |-> "cmd", m |-> (IF l \in VLanes THEN "badv" ELSE "badm")])
                /\ UNCHANGED <<att, gone, nv, restarts>>

SetCmd == \E r \in Live : \E l \in VLanes : \E ns \in NS :
            /\ Emit([k |-> "send", r |-> r, lane |-> l, op |-> "cmd", m |-> "set", v |-> nv, nosettle |-> ns])
            /\ nv' = nv + 1 /\ UNCHANGED <<att, gone, restarts>>

MapCmd == \E r \in Live : \E l \in MLanes : \E ns \in NS :
            \/ \E key \in Keys :
                 /\ Emit([k |-> "send", r |-> r, lane |-> l, op |-> "cmd", m |-> "upd", key |-> key, v |-> nv, nosettle |-> ns])
                 /\ nv' = nv + 1 /\ UNCHANGED <<att, gone, restarts>>
            \/ \E key \in Keys :
                 /\ Emit([k |-> "send", r |-> r, lane |-> l, op |-> "cmd", m |-> "rem", key |-> key, nosettle |-> ns])
                 /\ UNCHANGED <<att, gone, nv, restarts>>
            \/ /\ Emit([k |-> "send", r |-> r, lane |-> l, op |-> "cmd", m |-> "clr", nosettle |-> ns])
               /\ UNCHANGED <<att, gone, nv, restarts>>
            \/ \E n \in 0..2 : \E m \in {"take", "drop"} :
                 /\ Emit([k |-> "send", r |-> r, lane |-> l, op |-> "cmd", m |-> m, n |-> n])
                 /\ UNCHANGED <<att, gone, nv, restarts>>

\* an instruction program for the agent's own handlers (one to three instructions)
\* "rich" \in Faults: the handlers also use the other ways of changing a lane (transform_value, transform_entry,
\* replace_map) and run instructions from timers (later: needs clock advances) and suspended futures (susp)
Basic(n) ==
    {[i |-> "set", lane |-> l, v |-> n] : l \in VLanes}
    \cup {[i |-> "upd", lane |-> l, key |-> key, v |-> n] : l \in MLanes, key \in Keys}
    \cup {[i |-> "rem", lane |-> l, key |-> key] : l \in MLanes, key \in Keys}
    \cup (IF SLanes = {} THEN {} ELSE {[i |-> "sup", v |-> n]})
RichInstr(n) ==
    IF "rich" \notin Faults THEN {}
    ELSE {[i |-> "tv", lane |-> l, v |-> n] : l \in VLanes}
         \cup {[i |-> "te", lane |-> l, key |-> key, v |-> n] : l \in MLanes, key \in Keys}
         \cup {[i |-> "ter", lane |-> l, key |-> key] : l \in MLanes, key \in Keys}
         \cup {[i |-> "rmap", lane |-> l, key |-> key, v |-> n] : l \in MLanes, key \in Keys}
         \cup {[i |-> "later", ms |-> ms, then |-> b] : ms \in {20, 50}, b \in Basic(n)}
         \cup {[i |-> "susp", then |-> b] : b \in Basic(n)}
         \* commands through a registered commander: overwritable (csend) or queued (cqueue)
         \cup {[i |-> c, target |-> t, v |-> n] : c \in {"csend", "cqueue"}, t \in {"t1", "t2"}}

Plain(n) ==
    {[i |-> "set", lane |-> l, v |-> n] : l \in VLanes}
    \cup {[i |-> "upd", lane |-> l, key |-> key, v |-> n] : l \in MLanes, key \in Keys}
    \cup {[i |-> "rem", lane |-> l, key |-> key] : l \in MLanes, key \in Keys}
    \cup {[i |-> "clr", lane |-> l] : l \in MLanes}
    \cup (IF SLanes = {} THEN {} ELSE {[i |-> "sup", v |-> n]})
    \cup {[i |-> "send", target |-> t, v |-> n] : t \in {"t1", "t2"}}
Instr(n) == RichInstr(n) \cup Plain(n)

\* (with "rich", one position of the program draws from all instructions and the others from the plain ones:
\* the number of successors stays within what TLC's simulator accepts)
AgentCmd == /\ UseCmd
            /\ \E r \in Live : \E len \in 1..3 : \E pos \in (IF "rich" \in Faults THEN 1..3 ELSE {0}) :
                 \E a \in (IF pos \in {0, 1} THEN Instr(nv) ELSE Plain(nv)) :
                 \E b \in (IF pos \in {0, 2} THEN Instr(nv + 1) ELSE Plain(nv + 1)) :
                 \E c \in (IF pos \in {0, 3} THEN Instr(nv + 2) ELSE Plain(nv + 2)) :
                   /\ Emit([k |-> "send", r |-> r, lane |-> "cmd", op |-> "cmd", m |-> "prog",
                            prog |-> SubSeq(<<a, b, c>>, 1, len), tag |-> nv, nosettle |-> (Burst /\ len = 1)])
                   /\ nv' = nv + 3 /\ UNCHANGED <<att, gone, restarts>>

\* "demand": link / sync / unlink on the stateless lanes only (Proto addresses them as well, among all the lanes)
DProto == \E r \in Live : \E l \in DLanes : \E op \in {"link", "sync", "unlink"} : \E ns \in NS :
            /\ Emit([k |-> "send", r |-> r, lane |-> l, op |-> op, nosettle |-> ns])
            /\ UNCHANGED <<att, gone, nv, restarts>>

\* "demand": a program of one or two instructions for the agent's handlers that cues the stateless lanes and changes
\* what they compute from (dem computes from "val", dmap from "map") - a small instruction set of its own so that the
\* number of successors stays small
DInstr(n) ==
    {[i |-> "cue", lane |-> "dem"]}
    \cup {[i |-> "cuek", lane |-> "dmap", key |-> key] : key \in Keys}
    \cup {[i |-> "set", lane |-> "val", v |-> n]}
    \cup {[i |-> "upd", lane |-> "map", key |-> key, v |-> n] : key \in Keys}
    \cup {[i |-> "rem", lane |-> "map", key |-> key] : key \in Keys}
DemCmd == /\ "demand" \in Faults
          /\ \E r \in Live : \E len \in 1..2 : \E a \in DInstr(nv) : \E b \in DInstr(nv + 1) : \E ns \in NS :
                /\ (len = 1 => b = a)
                /\ Emit([k |-> "send", r |-> r, lane |-> "cmd", op |-> "cmd", m |-> "prog",
                         prog |-> SubSeq(<<a, b>>, 1, len), tag |-> nv, nosettle |-> ns])
                /\ nv' = nv + 2 /\ UNCHANGED <<att, gone, restarts>>

\* "http": an HTTP request to the agent.  lane "none" = the URI carries no lane parameter; "val" = a lane that exists
\* but is not an HTTP lane; "OPTIONS" stands for the methods an HTTP lane does not support; bad = the body of a PUT /
\* POST is not what the lane's codec decodes.  The request id is the value a good PUT / POST writes.
Http == /\ "http" \in Faults
        \* (sequences, not sets: the repetitions are weights)
        /\ \E mi \in 1..8 : \E li \in 1..6 : \E bi \in 1..3 : \E ns \in NS :
             LET m == <<"GET", "GET", "HEAD", "PUT", "PUT", "POST", "DELETE", "OPTIONS">>[mi]
                 l == <<"http", "http", "http", "nolane", "none", "val">>[li]
                 bad == <<FALSE, FALSE, TRUE>>[bi] IN
                /\ Emit([k |-> "http", method |-> m, lane |-> l, v |-> nv, bad |-> bad, id |-> nv, nosettle |-> ns])
                /\ nv' = nv + 1 /\ UNCHANGED <<att, gone, restarts>>

Read == \E r \in Live : \E n \in {0, 1, 2} :
            /\ Emit([k |-> "read", r |-> r, n |-> n])
            /\ UNCHANGED <<att, gone, nv, restarts>>

Gone == \E r \in Live : \E how \in Faults \cap {"drop", "dropread"} :
            /\ Emit([k |-> how, r |-> r])
            /\ gone' = gone \cup {r} /\ UNCHANGED <<att, nv, restarts>>

Advance == \E ms \in Advances :
            /\ Emit([k |-> "advance", ms |-> ms]) /\ UNCHANGED <<att, gone, nv, restarts>>

Quiesce == /\ Len(script) > 0 /\ script[Len(script)].k # "quiesce"
           /\ Emit([k |-> "quiesce"]) /\ UNCHANGED <<att, gone, nv, restarts>>

Restart == /\ restarts < 2
           /\ \E how \in Faults \cap {"restart", "kill"} :
                /\ script' = script \o (IF how = "kill" THEN <<[k |-> "kill"], [k |-> "restart"]>>
                                                        ELSE <<[k |-> "quiesce"], [k |-> "restart"]>>)
                /\ att' = {} /\ gone' = {} /\ restarts' = restarts + 1 /\ UNCHANGED nv

\* Two-stage choice so that TLC's uniform choice among successors is uniform among the *kinds*
\* of step (with multiplicities as weights), not among their many parameterisations.
Kinds == {"attach", "proto1", "proto2", "proto3", "set1", "set2", "map1", "map2", "map3", "agent1", "agent2",
          "read1", "read2", "read3", "gone", "quiesce", "restart", "unknown", "adv1", "adv2", "adv3", "badcmd",
          \* (enabled only by the features "demand" / "http": without them no successor is added anywhere, so the scripts
          \* generated for the other profiles are what they were)
          "dproto1", "dproto2", "dcmd1", "dcmd2", "dcmd3", "http1", "http2", "http3"}

Can(kd) ==
    CASE kd = "attach" -> att # Remotes
      [] kd \in {"proto1", "proto2", "proto3"} -> Live # {} /\ Lanes # {}
      [] kd \in {"set1", "set2"} -> Live # {} /\ VLanes # {}
      [] kd \in {"map1", "map2", "map3"} -> Live # {} /\ MLanes # {}
      [] kd \in {"agent1", "agent2"} -> Live # {} /\ UseCmd
      [] kd \in {"read1", "read2", "read3"} -> Live # {}
      [] kd = "gone" -> Live # {} /\ Faults \cap {"drop", "dropread"} # {}
      [] kd = "quiesce" -> Len(script) > 0 /\ script[Len(script)].k # "quiesce"
      [] kd = "restart" -> restarts < 2 /\ Faults \cap {"restart", "kill"} # {} /\ Len(script) > 3
      [] kd = "unknown" -> Live # {} /\ "unknown" \in Faults
      [] kd \in {"adv1", "adv2", "adv3"} -> Advances # {}
      [] kd = "badcmd" -> Live # {} /\ "badcmd" \in Faults /\ VLanes \cup MLanes # {}
      [] kd \in {"dproto1", "dproto2"} -> Live # {} /\ DLanes # {}
      [] kd \in {"dcmd1", "dcmd2", "dcmd3"} -> Live # {} /\ "demand" \in Faults
      [] kd \in {"http1", "http2", "http3"} -> "http" \in Faults

Do(kd) ==
    CASE kd = "attach" -> Attach
      [] kd \in {"proto1", "proto2", "proto3"} -> Proto
      [] kd \in {"set1", "set2"} -> SetCmd
      [] kd \in {"map1", "map2", "map3"} -> MapCmd
      [] kd \in {"agent1", "agent2"} -> AgentCmd
      [] kd \in {"read1", "read2", "read3"} -> Read
      [] kd = "gone" -> Gone
      [] kd = "quiesce" -> Quiesce
      [] kd = "restart" -> Restart
      [] kd = "unknown" -> Unknown
      [] kd \in {"adv1", "adv2", "adv3"} -> Advance
      [] kd = "badcmd" -> BadCmd
      [] kd \in {"dproto1", "dproto2"} -> DProto
      [] kd \in {"dcmd1", "dcmd2", "dcmd3"} -> DemCmd
      [] kd \in {"http1", "http2", "http3"} -> Http

Pick == /\ kind = "none" /\ Len(script) < MaxLen
        /\ \E kd \in Kinds : Can(kd) /\ kind' = kd
        /\ UNCHANGED <<script, att, gone, nv, restarts>>

Act == /\ kind \notin {"none", "done"} /\ Do(kind) /\ kind' = "none"

\* one line per complete behaviour
Finish == /\ kind = "none" /\ Len(script) >= MaxLen
          /\ PrintT(<<"SCRIPT", ToJson(script)>>)
          /\ kind' = "done" /\ UNCHANGED <<script, att, gone, nv, restarts>>

Next == Pick \/ Act \/ Finish

Spec == Init /\ [][Next]_vars
=============================================================================

------------------------------- MODULE AgentEnv -------------------------------
(***************************************************************************)
(* The environment of one agent in configuration E: remotes that attach,   *)
(* send link / sync / unlink / command envelopes, read their response      *)
(* channel at their own pace, disappear; the clock; stop / kill / restart. *)
(* TLC (simulation or exhaustive) generates scripts = behaviours of this   *)
(* environment; the harness executes them against the real agent and       *)
(* runtime.  Values written are drawn from one increasing counter so that  *)
(* "is a subsequence of", "exactly once" and "in order" are decidable from *)
(* the values alone.  Bodies are abstract (m, key, v); the check module    *)
(* concretises them to Recon text.                                         *)
(***************************************************************************)
EXTENDS Naturals, Sequences, FiniteSets, TLC, Json

CONSTANTS NRemotes,     \* remotes 1..NRemotes
          MaxLen,       \* script length
          Caps,         \* response channel capacities (bytes) to choose from
          VLanes, MLanes, SLanes,   \* value / map / supply lanes remotes may address
          UseCmd,       \* TRUE: instruction commands to the "cmd" lane (agent-side writes, supply, sends)
          Keys,         \* map keys
          Advances,     \* set of clock advances (ms) the environment may make ({} = the clock is never advanced)
          Burst,        \* TRUE: sends may be issued back to back without letting the agent settle
          Faults        \* subset of {"drop", "dropread", "unknown", "restart", "kill", "badcmd", "rich", "demand", "http"}
                        \* "demand": the demand lane "dem" and the demand-map lane "dmap" are addressed (link / sync /
                        \*           unlink) and cued by the agent's handlers (cue dem, cuek dmap <k>)
                        \* "http":   HTTP requests are made to the agent (its HTTP lane "http", unknown lane names)
                        \* "join":   the agent's handlers add / remove downlinks of the join value lane "jv" and the join map
                        \*           lane "jm" (which remotes may link to and sync with); the environment plays the remote
                        \*           lanes of those downlinks
                        \* "hosted": the agent's handlers open a value and a map downlink, write through their handles, close
                        \*           them; the environment plays their remote lanes, refuses / delays the opening, closes
                        \*           and breaks the channels

VARIABLES script, att, gone, nv, restarts, kind
vars == <<script, att, gone, nv, restarts, kind>>

Remotes == 1..NRemotes
Live == att \ gone
DLanes == IF "demand" \in Faults THEN {"dem", "dmap"} ELSE {}
JLanes == IF "join" \in Faults THEN {"jv", "jm"} ELSE {}
Lanes == VLanes \cup MLanes \cup SLanes \cup DLanes \cup JLanes
NS == IF Burst THEN {TRUE, FALSE} ELSE {FALSE}

Init == script = <<>> /\ att = {} /\ gone = {} /\ nv = 1 /\ restarts = 0 /\ kind = "none"

Emit(rec) == script' = Append(script, rec)

Attach == \E r \in Remotes \ att : \E c \in Caps :
            /\ Emit([k |-> "attach", r |-> r, cap |-> c])
            /\ att' = att \cup {r} /\ UNCHANGED <<gone, nv, restarts>>

Proto == \E r \in Live : \E l \in Lanes : \E op \in {"link", "sync", "unlink"} : \E ns \in NS :
            /\ Emit([k |-> "send", r |-> r, lane |-> l, op |-> op, nosettle |-> ns])
            /\ UNCHANGED <<att, gone, nv, restarts>>

Unknown == /\ "unknown" \in Faults
           /\ \E r \in Live : \E op \in {"link", "sync", "cmd"} :
                /\ Emit([k |-> "send", r |-> r, lane |-> "nolane", op |-> op, m |-> "raw", v |-> nv])
                /\ UNCHANGED <<att, gone, restarts>> /\ nv' = nv + 1

\* a command whose body the lane cannot decode (a text for a value lane, an unknown map message for a map lane):
\* the envelope is dropped, nothing else may happen
BadCmd == /\ "badcmd" \in Faults
          /\ \E r \in Live : \E l \in VLanes \cup MLanes :
                /\ Emit([k |-> "send", r |-> r, lane |-> l, op |-> "cmd", m |-> (IF l \in VLanes THEN "badv" ELSE "badm")])
                /\ UNCHANGED <<att, gone, nv, restarts>>

SetCmd == \E r \in Live : \E l \in VLanes : \E ns \in NS :
            /\ Emit([k |-> "send", r |-> r, lane |-> l, op |-> "cmd", m |-> "set", v |-> nv, nosettle |-> ns])
            /\ nv' = nv + 1 /\ UNCHANGED <<att, gone, restarts>>

MapCmd == \E r \in Live : \E l \in MLanes : \E ns \in NS :
            \/ \E key \in Keys :
                 /\ Emit([k |-> "send", r |-> r, lane |-> l, op |-> "cmd", m |-> "upd", key |-> key, v |-> nv, nosettle |-> ns])
                 /\ nv' = nv + 1 /\ UNCHANGED <<att, gone, restarts>>
            \/ \E key \in Keys :
                 /\ Emit([k |-> "send", r |-> r, lane |-> l, op |-> "cmd", m |-> "rem", key |-> key, nosettle |-> ns])
                 /\ UNCHANGED <<att, gone, nv, restarts>>
            \/ /\ Emit([k |-> "send", r |-> r, lane |-> l, op |-> "cmd", m |-> "clr", nosettle |-> ns])
               /\ UNCHANGED <<att, gone, nv, restarts>>
            \/ \E n \in 0..2 : \E m \in {"take", "drop"} :
                 /\ Emit([k |-> "send", r |-> r, lane |-> l, op |-> "cmd", m |-> m, n |-> n])
                 /\ UNCHANGED <<att, gone, nv, restarts>>

\* an instruction program for the agent's own handlers (one to three instructions)
\* "rich" \in Faults: the handlers also use the other ways of changing a lane (transform_value, transform_entry,
\* replace_map) and run instructions from timers (later: needs clock advances) and suspended futures (susp)
Basic(n) ==
    {[i |-> "set", lane |-> l, v |-> n] : l \in VLanes}
    \cup {[i |-> "upd", lane |-> l, key |-> key, v |-> n] : l \in MLanes, key \in Keys}
    \cup {[i |-> "rem", lane |-> l, key |-> key] : l \in MLanes, key \in Keys}
    \cup (IF SLanes = {} THEN {} ELSE {[i |-> "sup", v |-> n]})
RichInstr(n) ==
    IF "rich" \notin Faults THEN {}
    ELSE {[i |-> "tv", lane |-> l, v |-> n] : l \in VLanes}
         \cup {[i |-> "te", lane |-> l, key |-> key, v |-> n] : l \in MLanes, key \in Keys}
         \cup {[i |-> "ter", lane |-> l, key |-> key] : l \in MLanes, key \in Keys}
         \cup {[i |-> "rmap", lane |-> l, key |-> key, v |-> n] : l \in MLanes, key \in Keys}
         \cup {[i |-> "later", ms |-> ms, then |-> b] : ms \in {20, 50}, b \in Basic(n)}
         \cup {[i |-> "susp", then |-> b] : b \in Basic(n)}
         \* commands through a registered commander: overwritable (csend) or queued (cqueue)
         \cup {[i |-> c, target |-> t, v |-> n] : c \in {"csend", "cqueue"}, t \in {"t1", "t2"}}

Plain(n) ==
    {[i |-> "set", lane |-> l, v |-> n] : l \in VLanes}
    \cup {[i |-> "upd", lane |-> l, key |-> key, v |-> n] : l \in MLanes, key \in Keys}
    \cup {[i |-> "rem", lane |-> l, key |-> key] : l \in MLanes, key \in Keys}
    \cup {[i |-> "clr", lane |-> l] : l \in MLanes}
    \cup (IF SLanes = {} THEN {} ELSE {[i |-> "sup", v |-> n]})
    \cup {[i |-> "send", target |-> t, v |-> n] : t \in {"t1", "t2"}}
Instr(n) == RichInstr(n) \cup Plain(n)

\* (with "rich", one position of the program draws from all instructions and the others from the plain ones:
\* the number of successors stays within what TLC's simulator accepts)
AgentCmd == /\ UseCmd
            /\ \E r \in Live : \E len \in 1..3 : \E pos \in (IF "rich" \in Faults THEN 1..3 ELSE {0}) :
                 \E a \in (IF pos \in {0, 1} THEN Instr(nv) ELSE Plain(nv)) :
                 \E b \in (IF pos \in {0, 2} THEN Instr(nv + 1) ELSE Plain(nv + 1)) :
                 \E c \in (IF pos \in {0, 3} THEN Instr(nv + 2) ELSE Plain(nv + 2)) :
                   /\ Emit([k |-> "send", r |-> r, lane |-> "cmd", op |-> "cmd", m |-> "prog",
                            prog |-> SubSeq(<<a, b, c>>, 1, len), tag |-> nv, nosettle |-> (Burst /\ len = 1)])
                   /\ nv' = nv + 3 /\ UNCHANGED <<att, gone, restarts>>

\* "demand": link / sync / unlink on the stateless lanes only (Proto addresses them as well, among all the lanes)
DProto == \E r \in Live : \E l \in DLanes : \E op \in {"link", "sync", "unlink"} : \E ns \in NS :
            /\ Emit([k |-> "send", r |-> r, lane |-> l, op |-> op, nosettle |-> ns])
            /\ UNCHANGED <<att, gone, nv, restarts>>

\* "join": link / sync / unlink on the join lanes only (Proto addresses them as well, among all the lanes)
JProto == \E r \in Live : \E l \in JLanes : \E op \in {"link", "sync", "unlink"} : \E ns \in NS :
            /\ Emit([k |-> "send", r |-> r, lane |-> l, op |-> op, nosettle |-> ns])
            /\ UNCHANGED <<att, gone, nv, restarts>>

\* "demand": a program of one or two instructions for the agent's handlers that cues the stateless lanes and changes
\* what they compute from (dem computes from "val", dmap from "map") - a small instruction set of its own so that the
\* number of successors stays small
DInstr(n) ==
    {[i |-> "cue", lane |-> "dem"]}
    \cup {[i |-> "cuek", lane |-> "dmap", key |-> key] : key \in Keys}
    \cup {[i |-> "set", lane |-> "val", v |-> n]}
    \cup {[i |-> "upd", lane |-> "map", key |-> key, v |-> n] : key \in Keys}
    \cup {[i |-> "rem", lane |-> "map", key |-> key] : key \in Keys}
DemCmd == /\ "demand" \in Faults
          /\ \E r \in Live : \E len \in 1..2 : \E a \in DInstr(nv) : \E b \in DInstr(nv + 1) : \E ns \in NS :
                /\ (len = 1 => b = a)
                /\ Emit([k |-> "send", r |-> r, lane |-> "cmd", op |-> "cmd", m |-> "prog",
                         prog |-> SubSeq(<<a, b>>, 1, len), tag |-> nv, nosettle |-> ns])
                /\ nv' = nv + 2 /\ UNCHANGED <<att, gone, restarts>>

\* "http": an HTTP request to the agent.  lane "none" = the URI carries no lane parameter; "val" = a lane that exists
\* but is not an HTTP lane; "OPTIONS" stands for the methods an HTTP lane does not support; bad = the body of a PUT /
\* POST is not what the lane's codec decodes.  The request id is the value a good PUT / POST writes.
Http == /\ "http" \in Faults
        \* (sequences, not sets: the repetitions are weights)
        /\ \E mi \in 1..8 : \E li \in 1..6 : \E bi \in 1..3 : \E ns \in NS :
             LET m == <<"GET", "GET", "HEAD", "PUT", "PUT", "POST", "DELETE", "OPTIONS">>[mi]
                 l == <<"http", "http", "http", "nolane", "none", "val">>[li]
                 bad == <<FALSE, FALSE, TRUE>>[bi] IN
                /\ Emit([k |-> "http", method |-> m, lane |-> l, v |-> nv, bad |-> bad, id |-> nv, nosettle |-> ns])
                /\ nv' = nv + 1 /\ UNCHANGED <<att, gone, restarts>>

\* ---- "join" / "hosted": downlinks hosted by the agent.  A downlink is identified by the value of the counter when the
\* instruction that opens it was generated (its node uri is "/d<id>"); no state is added: which downlinks exist is read
\* off the script generated so far (since the last restart).
LastRestart == LET S == {j \in 1..Len(script) : script[j].k = "restart"} IN
               IF S = {} THEN 0 ELSE CHOOSE j \in S : \A x \in S : x <= j
Progs == {j \in (LastRestart + 1)..Len(script) : script[j].k = "send" /\ "m" \in DOMAIN script[j] /\ script[j].m = "prog"}
\* the instructions of the programs generated so far that open a downlink: <<kind, id>>
OpenedBy(j) == LET p == script[j].prog IN
    {<<p[x].i, p[x].id>> : x \in {y \in 1..Len(p) : p[y].i \in {"jadd", "jmadd", "dlv", "dlm"}}}
Opened == UNION {OpenedBy(j) : j \in Progs}
OpenedIds == {o[2] : o \in Opened}
KindOf(id) == LET o == CHOOSE o \in Opened : o[2] = id IN
              CASE o[1] = "jadd" -> "event" [] o[1] = "jmadd" -> "mapevent" [] o[1] = "dlv" -> "value" [] OTHER -> "map"
Resps == {"retry", "abandon", "delete"}
JLinks == {1, 2}      \* link keys of the join map lane

\* "join": a program of one or two instructions for the agent's handlers that adds / removes downlinks of the join lanes
JInstr(n) ==
    {[i |-> "jadd", lane |-> "jv", key |-> key, id |-> n, resp |-> rs] : key \in Keys, rs \in Resps}
    \cup {[i |-> "jrem", lane |-> "jv", key |-> key] : key \in Keys}
    \cup {[i |-> "jmadd", lane |-> "jm", key |-> l, id |-> n, resp |-> rs] : l \in JLinks, rs \in Resps}
    \cup {[i |-> "jmrem", lane |-> "jm", key |-> l] : l \in JLinks}
    \cup {[i |-> "jget", lane |-> l] : l \in {"jv", "jm"}}
JoinCmd == /\ "join" \in Faults
           /\ \E r \in Live : \E len \in 1..2 : \E a \in JInstr(nv) : \E b \in JInstr(nv + 1) : \E ns \in NS :
                /\ (len = 1 => b = a)
                /\ Emit([k |-> "send", r |-> r, lane |-> "cmd", op |-> "cmd", m |-> "prog",
                         prog |-> SubSeq(<<a, b>>, 1, len), tag |-> nv, nosettle |-> ns])
                /\ nv' = nv + 2 /\ UNCHANGED <<att, gone, restarts>>

\* "hosted": a program of one or two instructions that opens / writes to / closes the value and the map downlink, or
\* changes the lanes the downlinks' handlers also change (val, map): handlers of downlinks and lanes interleave
\* (flags: 1 = events when not synced, 2 = keep the downlink when it is unlinked)
HInstr(n) ==
    {[i |-> "dlv", id |-> n, flags |-> f] : f \in 0..3}
    \cup {[i |-> "dlm", id |-> n, flags |-> f] : f \in 0..3}
    \cup {[i |-> "dlset", v |-> n, w |-> w] : w \in 1..3}      \* (w: a weight, no meaning)
    \cup {[i |-> "dlmu", key |-> key, v |-> n] : key \in Keys}
    \cup {[i |-> "dlmr", key |-> key] : key \in Keys}
    \cup {[i |-> "dlmc"]}
    \cup {[i |-> "dlclose", which |-> w, w |-> x] : w \in {"v", "m"}, x \in 1..2}
    \cup {[i |-> "set", lane |-> "val", v |-> n]}
    \cup {[i |-> "upd", lane |-> "map", key |-> key, v |-> n] : key \in Keys}
HostedCmd == /\ "hosted" \in Faults
             /\ \E r \in Live : \E len \in 1..2 : \E a \in HInstr(nv) : \E b \in HInstr(nv + 1) : \E ns \in NS :
                  /\ (len = 1 => b = a)
                  /\ Emit([k |-> "send", r |-> r, lane |-> "cmd", op |-> "cmd", m |-> "prog",
                           prog |-> SubSeq(<<a, b>>, 1, len), tag |-> nv, nosettle |-> ns])
                  /\ nv' = nv + 2 /\ UNCHANGED <<att, gone, restarts>>

\* the environment plays the remote lane of an opened downlink (sequences: the repetitions are weights), closes its
\* channels, feeds it a frame it cannot decode, stops reading what it writes
DlDo == <<"linked", "linked", "linked", "synced", "synced", "synced", "event", "event", "event", "event", "event", "event", "event", "event",
          "unlinked", "close", "closein", "fail", "outfail">>
\* (the map message is a function of the counter, not a choice: the number of successors of an environment step does
\* not depend on the kind of the downlink, so that closing / failing a link is as likely for map downlinks as for others)
MapEvAt(n) == LET K == CHOOSE sq \in [1..Cardinality(Keys) -> Keys] : \A a, b \in 1..Cardinality(Keys) : a < b => sq[a] < sq[b]
                  k1 == K[1]  k2 == K[(1 % Cardinality(Keys)) + 1]  k3 == K[Cardinality(Keys)]
                  sq == <<[m |-> "upd", key |-> k1, v |-> n], [m |-> "upd", key |-> k2, v |-> n], [m |-> "upd", key |-> k3, v |-> n],
                          [m |-> "rem", key |-> k1, v |-> 0], [m |-> "upd", key |-> k1, v |-> n], [m |-> "clr", key |-> 0, v |-> 0],
                          [m |-> "upd", key |-> k2, v |-> n], [m |-> "take", key |-> 0, v |-> 1], [m |-> "upd", key |-> k3, v |-> n],
                          [m |-> "rem", key |-> k2, v |-> 0], [m |-> "upd", key |-> k1, v |-> n], [m |-> "drop", key |-> 0, v |-> 1],
                          [m |-> "upd", key |-> k2, v |-> n], [m |-> "rem", key |-> k3, v |-> 0]>> IN
              sq[(n % Len(sq)) + 1]
DlEnv == /\ OpenedIds # {}
         /\ \E id \in OpenedIds : \E di \in 1..Len(DlDo) : \E ns \in NS :
              LET do == DlDo[di]  kd == KindOf(id) IN
              /\ (do = "outfail" => kd \in {"value", "map"})
              /\ IF do = "event" /\ kd \in {"map", "mapevent"}
                   THEN LET ev == MapEvAt(nv) IN
                          Emit([k |-> "dl", id |-> id, do |-> do, m |-> ev.m, key |-> ev.key, v |-> ev.v, n |-> ev.v, nosettle |-> ns])
                   ELSE Emit([k |-> "dl", id |-> id, do |-> do, v |-> nv, nosettle |-> ns])
              /\ nv' = nv + 1 /\ UNCHANGED <<att, gone, restarts>>

\* the beginning of a well-behaved link in one step: linked, an event, synced (back to back or one at a time)
DlSeq == /\ OpenedIds # {}
         /\ \E id \in OpenedIds : \E key \in Keys : \E ns \in NS :
              LET ev == IF KindOf(id) \in {"map", "mapevent"}
                          THEN [k |-> "dl", id |-> id, do |-> "event", m |-> "upd", key |-> key, v |-> nv, n |-> nv, nosettle |-> ns]
                          ELSE [k |-> "dl", id |-> id, do |-> "event", v |-> nv, nosettle |-> ns] IN
              /\ script' = script \o <<[k |-> "dl", id |-> id, do |-> "linked", v |-> nv, nosettle |-> ns], ev,
                                        [k |-> "dl", id |-> id, do |-> "synced", v |-> nv, nosettle |-> FALSE]>>
              /\ nv' = nv + 1 /\ UNCHANGED <<att, gone, restarts>>

\* how the requests of the agent for a downlink are answered from now on (id 0: every downlink without a policy of its own)
DlOpen == /\ JLanes # {} \/ "hosted" \in Faults
          /\ \E id \in OpenedIds \cup {0} : \E hi \in 1..8 :
               /\ Emit([k |-> "dlopen", id |-> id, how |-> <<"ok", "ok", "ok", "ok", "refuse", "refuse", "fatal", "delay">>[hi]])
               /\ UNCHANGED <<att, gone, nv, restarts>>

DlOpen0 == /\ JLanes # {} \/ "hosted" \in Faults
           /\ \E hi \in 1..6 :
               /\ Emit([k |-> "dlopen", id |-> 0, how |-> <<"ok", "ok", "ok", "refuse", "fatal", "delay">>[hi]])
               /\ UNCHANGED <<att, gone, nv, restarts>>

DlRead == /\ Emit([k |-> "dlread"]) /\ UNCHANGED <<att, gone, nv, restarts>>

Read == \E r \in Live : \E n \in {0, 1, 2} :
            /\ Emit([k |-> "read", r |-> r, n |-> n])
            /\ UNCHANGED <<att, gone, nv, restarts>>

Gone == \E r \in Live : \E how \in Faults \cap {"drop", "dropread"} :
            /\ Emit([k |-> how, r |-> r])
            /\ gone' = gone \cup {r} /\ UNCHANGED <<att, nv, restarts>>

Advance == \E ms \in Advances :
            /\ Emit([k |-> "advance", ms |-> ms]) /\ UNCHANGED <<att, gone, nv, restarts>>

Quiesce == /\ Len(script) > 0 /\ script[Len(script)].k # "quiesce"
           /\ Emit([k |-> "quiesce"]) /\ UNCHANGED <<att, gone, nv, restarts>>

Restart == /\ restarts < 2
           /\ \E how \in Faults \cap {"restart", "kill"} :
                /\ script' = script \o (IF how = "kill" THEN <<[k |-> "kill"], [k |-> "restart"]>>
                                                        ELSE <<[k |-> "quiesce"], [k |-> "restart"]>>)
                /\ att' = {} /\ gone' = {} /\ restarts' = restarts + 1 /\ UNCHANGED nv

\* Two-stage choice so that TLC's uniform choice among successors is uniform among the *kinds*
\* of step (with multiplicities as weights), not among their many parameterisations.
Kinds == {"attach", "proto1", "proto2", "proto3", "set1", "set2", "map1", "map2", "map3", "agent1", "agent2",
          "read1", "read2", "read3", "gone", "quiesce", "restart", "unknown", "adv1", "adv2", "adv3", "badcmd",
          \* (enabled only by the features "demand" / "http": without them no successor is added anywhere, so the scripts
          \* generated for the other profiles are what they were)
          "dproto1", "dproto2", "dcmd1", "dcmd2", "dcmd3", "http1", "http2", "http3",
          \* (likewise "join" / "hosted")
          "jproto1", "jcmd1", "jcmd2", "hcmd1", "hcmd2", "dlenv1", "dlenv2", "dlenv3", "dlenv4", "dlenv5", "dlopen1", "dlread1", "dlseq1", "dlseq2", "dlopen0"}

Can(kd) ==
    CASE kd = "attach" -> att # Remotes
      [] kd \in {"proto1", "proto2", "proto3"} -> Live # {} /\ Lanes # {}
      [] kd \in {"set1", "set2"} -> Live # {} /\ VLanes # {}
      [] kd \in {"map1", "map2", "map3"} -> Live # {} /\ MLanes # {}
      [] kd \in {"agent1", "agent2"} -> Live # {} /\ UseCmd
      [] kd \in {"read1", "read2", "read3"} -> Live # {}
      [] kd = "gone" -> Live # {} /\ Faults \cap {"drop", "dropread"} # {}
      [] kd = "quiesce" -> Len(script) > 0 /\ script[Len(script)].k # "quiesce"
      [] kd = "restart" -> restarts < 2 /\ Faults \cap {"restart", "kill"} # {} /\ Len(script) > 3
      [] kd = "unknown" -> Live # {} /\ "unknown" \in Faults
      [] kd \in {"adv1", "adv2", "adv3"} -> Advances # {}
      [] kd = "badcmd" -> Live # {} /\ "badcmd" \in Faults /\ VLanes \cup MLanes # {}
      [] kd \in {"dproto1", "dproto2"} -> Live # {} /\ DLanes # {}
      [] kd \in {"dcmd1", "dcmd2", "dcmd3"} -> Live # {} /\ "demand" \in Faults
      [] kd \in {"http1", "http2", "http3"} -> "http" \in Faults
      [] kd = "jproto1" -> Live # {} /\ JLanes # {}
      [] kd \in {"jcmd1", "jcmd2"} -> Live # {} /\ "join" \in Faults
      [] kd \in {"hcmd1", "hcmd2"} -> Live # {} /\ "hosted" \in Faults
      [] kd \in {"dlenv1", "dlenv2", "dlenv3", "dlenv4", "dlenv5"} -> Faults \cap {"join", "hosted"} # {} /\ OpenedIds # {}
      [] kd \in {"dlseq1", "dlseq2"} -> Faults \cap {"join", "hosted"} # {} /\ OpenedIds # {}
      [] kd \in {"dlopen1", "dlopen0"} -> Faults \cap {"join", "hosted"} # {} /\ Live # {}
      [] kd = "dlread1" -> "hosted" \in Faults /\ OpenedIds # {}

Do(kd) ==
    CASE kd = "attach" -> Attach
      [] kd \in {"proto1", "proto2", "proto3"} -> Proto
      [] kd \in {"set1", "set2"} -> SetCmd
      [] kd \in {"map1", "map2", "map3"} -> MapCmd
      [] kd \in {"agent1", "agent2"} -> AgentCmd
      [] kd \in {"read1", "read2", "read3"} -> Read
      [] kd = "gone" -> Gone
      [] kd = "quiesce" -> Quiesce
      [] kd = "restart" -> Restart
      [] kd = "unknown" -> Unknown
      [] kd \in {"adv1", "adv2", "adv3"} -> Advance
      [] kd = "badcmd" -> BadCmd
      [] kd \in {"dproto1", "dproto2"} -> DProto
      [] kd \in {"dcmd1", "dcmd2", "dcmd3"} -> DemCmd
      [] kd \in {"http1", "http2", "http3"} -> Http
      [] kd = "jproto1" -> JProto
      [] kd \in {"jcmd1", "jcmd2"} -> JoinCmd
      [] kd \in {"hcmd1", "hcmd2"} -> HostedCmd
      [] kd \in {"dlenv1", "dlenv2", "dlenv3", "dlenv4", "dlenv5"} -> DlEnv
      [] kd \in {"dlseq1", "dlseq2"} -> DlSeq
      [] kd = "dlopen1" -> DlOpen
      [] kd = "dlopen0" -> DlOpen0
      [] kd = "dlread1" -> DlRead

Pick == /\ kind = "none" /\ Len(script) < MaxLen
        /\ \E kd \in Kinds : Can(kd) /\ kind' = kd
        /\ UNCHANGED <<script, att, gone, nv, restarts>>

Act == /\ kind \notin {"none", "done"} /\ Do(kind) /\ kind' = "none"

\* one line per complete behaviour
Finish == /\ kind = "none" /\ Len(script) >= MaxLen
          /\ PrintT(<<"SCRIPT", ToJson(script)>>)
          /\ kind' = "done" /\ UNCHANGED <<script, att, gone, nv, restarts>>

Next == Pick \/ Act \/ Finish

Spec == Init /\ [][Next]_vars
=============================================================================

------------------------------ MODULE Steps_Store ------------------------------
(***************************************************************************)
(* C13, mechanism level (M) of the RocksDB store: every operation of       *)
(* NodePersistence as the sequence of its PERSISTENT writes, so that the   *)
(* process can be killed between any two of them.                          *)
(*                                                                         *)
(* Persistent state (what a reopened database contains):                   *)
(*   pctr   key 'counter' of the lane keyspace (merge operator += 1)       *)
(*   prec   records 'lane/<node uri>/<name>' -> lane id                    *)
(*   pval   value keyspace   [0][lane id]            -> bytes              *)
(*   pmap   map keyspace     [1][lane id][1][len][key] -> bytes            *)
(* Volatile state (lost by a kill):                                        *)
(*   mctr   KeyStore.count (AtomicU64), seeded from pctr by                *)
(*          KeyStore::initialise_with when the plane is opened             *)
(*   pc     the call in flight and how far it got                          *)
(*                                                                         *)
(* Write steps, read off the code (keystore.rs, agent/mod.rs,              *)
(* plane/mod.rs, engine/mod.rs):                                           *)
(*   id_for, name known      : no write (get on the record)                *)
(*   id_for, name first seen : count.fetch_add; then TWO separate writes:  *)
(*                             merge('counter', 1)  and  put(record, id)   *)
(*   put_value / delete_value / update_map / remove_map : one put / delete *)
(*   clear_map               : one delete_range [prefix, prefix+UBOUND)    *)
(*                             (a single atomic range tombstone)           *)
(*   get_value / read_map    : no write                                    *)
(* The only operation with more than one persistent write is the           *)
(* allocation of an identifier.  AllocOrder selects the order of its two   *)
(* writes: "counter_first" is the code; "record_first" is the unsafe order *)
(* (the specification is also run with it, expecting TLC to refute         *)
(* IdsDistinct / Refines: the invariants are not vacuous).                 *)
(* CounterWrite selects how the stored counter is advanced: "merge" is the  *)
(* code (one atomic RocksDB merge, += 1); "rmw" reads the counter and      *)
(* writes it back in two steps - equivalent for one caller, not for two.   *)
(* NT callers (threads; thread t owns the node store of agent t, as each   *)
(* agent task owns its store) interleave their steps freely; they share    *)
(* the plane: KeyStore.count and the database.  With NT = 2 and a clean    *)
(* Reopen the code's variant keeps the laws, "rmw" is refuted (an          *)
(* increment of the stored counter is lost, the next new name after a      *)
(* reopen gets an identifier that is taken).                               *)
(* The in-memory store has no persistent state: a kill loses everything by *)
(* design; its only multi-step hand-over (Drop -> waiting node_store) is   *)
(* in-process and is Store.tla's Restart("handover" / "abandon").          *)
(*                                                                         *)
(* Ghost state: abs = Store.tla's store (what the writes that took effect  *)
(* imply for each name), acked = the identifier each name was told.        *)
(***************************************************************************)
EXTENDS Naturals, Sequences, FiniteSets, TLC

CONSTANTS NA, NI, NK, NV,
          NT,           \* concurrent callers (1: sequential histories)
          OpSet,        \* the operations explored (a subset of Ops: keeps larger scopes tractable)
          MaxId,        \* bound on identifiers handed out (state constraint)
          AllocOrder,   \* "counter_first" | "record_first"
          CounterWrite, \* "merge" | "rmw" | "max" (a proposed repair: merge operator max(stored, id))
          WithCrash     \* BOOLEAN: SIGKILL at any moment (otherwise only the clean Reopen)

Agents  == 1..NA
Items   == 1..NI
Keys    == 1..NK
Vals    == 1..NV
None    == 0
Names   == Agents \X Items
Ids     == 1..MaxId
Threads == 1..NT

VARIABLES pctr, prec, pval, pmap, mctr, pc, acked, abs, lastStep
pvars == <<pctr, prec, pval, pmap>>
vars  == <<pctr, prec, pval, pmap, mctr, pc, acked, abs, lastStep>>
View  == <<pctr, prec, pval, pmap, mctr, pc, acked, abs>>

EmptyMap == [k \in Keys |-> None]
Empty    == [v |-> None, m |-> EmptyMap]
Idle     == [op |-> "none"]
AllIdle  == \A t \in Threads : pc[t] = Idle

Init == /\ pctr = 0 /\ prec = [n \in Names |-> 0]
        /\ pval = [d \in Ids |-> None] /\ pmap = [d \in Ids |-> EmptyMap]
        /\ mctr = 0 /\ pc = [t \in Threads |-> Idle]
        /\ acked = [n \in Names |-> 0] /\ abs = [n \in Names |-> Empty]
        /\ lastStep = [s |-> "init", t |-> 0]

ValueOps == {"put", "delete", "get"}
MapOps   == {"update", "remove", "clear", "read"}
Ops      == {"idfor"} \cup ValueOps \cup MapOps

(* an item is used as a value or as a map (Store.tla's kinds) *)
Allowed(op, n) == /\ op \in ValueOps => abs[n].m = EmptyMap
                  /\ op \in MapOps => abs[n].v = None

(* the persistent steps of the allocation of an identifier, in order *)
CtrSteps   == IF CounterWrite = "rmw" THEN <<"ctr_read", "ctr_write">> ELSE <<"ctr">>
AllocSteps == IF AllocOrder = "counter_first" THEN CtrSteps \o <<"rec">> ELSE <<"rec">> \o CtrSteps

(* a call is made by thread t.  It starts with KeyStore::id_for: a get on the record; a first-seen name
   takes the next number of the shared in-memory counter (count.fetch_add, atomic) and goes on to the
   allocation steps.  A node store belongs to one task: with several threads, thread t works on agent t
   and no two calls are in flight on one name. *)
Begin(t, op, n, key, v) ==
    /\ pc[t] = Idle /\ Allowed(op, n)
    /\ NT > 1 => n[1] = t
    /\ IF prec[n] # 0
         THEN /\ pc' = [pc EXCEPT ![t] = [op |-> op, n |-> n, key |-> key, v |-> v, step |-> "write", k |-> 0,
                                          id |-> prec[n], seen |-> 0, out |-> 0]]
              /\ mctr' = mctr
         ELSE /\ mctr < MaxId
              /\ mctr' = mctr + 1
              /\ pc' = [pc EXCEPT ![t] = [op |-> op, n |-> n, key |-> key, v |-> v, step |-> "alloc", k |-> 1,
                                          id |-> mctr + 1, seen |-> 0, out |-> 0]]
    /\ lastStep' = [s |-> "begin", t |-> t]
    /\ UNCHANGED <<pvars, acked, abs>>

(* one step of the allocation: merge('counter', 1) | get('counter') | put('counter', seen + 1) | put(record, id) *)
AllocStep(t) ==
    /\ pc[t] # Idle /\ pc[t].step = "alloc"
    /\ LET what == AllocSteps[pc[t].k]
           more == pc[t].k < Len(AllocSteps)
           nxt  == IF more THEN [pc[t] EXCEPT !.k = @ + 1] ELSE [pc[t] EXCEPT !.step = "write"] IN
       CASE what = "ctr" ->
              /\ pctr' = IF CounterWrite = "max" THEN (IF pc[t].id > pctr THEN pc[t].id ELSE pctr) ELSE pctr + 1
              /\ UNCHANGED <<prec, pval, pmap>>
              /\ pc' = [pc EXCEPT ![t] = nxt]
         [] what = "ctr_read" ->
              /\ UNCHANGED pvars
              /\ pc' = [pc EXCEPT ![t] = [nxt EXCEPT !.seen = pctr]]
         [] what = "ctr_write" ->
              /\ pctr' = pc[t].seen + 1 /\ UNCHANGED <<prec, pval, pmap>>
              /\ pc' = [pc EXCEPT ![t] = nxt]
         [] what = "rec" ->
              /\ prec' = [prec EXCEPT ![pc[t].n] = pc[t].id] /\ UNCHANGED <<pctr, pval, pmap>>
              /\ pc' = [pc EXCEPT ![t] = nxt]
    /\ lastStep' = [s |-> "alloc", t |-> t]
    /\ UNCHANGED <<mctr, acked, abs>>

(* the operation's own single write (none for id_for and the reads), addressed by the lane id *)
Write(t) ==
    /\ pc[t] # Idle /\ pc[t].step = "write"
    /\ LET d == pc[t].id  n == pc[t].n  c == pc[t]
           done == [pc EXCEPT ![t].step = "ack"] IN
       CASE c.op = "put" ->
              /\ pval' = [pval EXCEPT ![d] = c.v] /\ UNCHANGED <<pctr, prec, pmap>>
              /\ abs' = [abs EXCEPT ![n].v = c.v] /\ pc' = done
         [] c.op = "delete" ->
              /\ pval' = [pval EXCEPT ![d] = None] /\ UNCHANGED <<pctr, prec, pmap>>
              /\ abs' = [abs EXCEPT ![n].v = None] /\ pc' = done
         [] c.op = "update" ->
              /\ pmap' = [pmap EXCEPT ![d][c.key] = c.v] /\ UNCHANGED <<pctr, prec, pval>>
              /\ abs' = [abs EXCEPT ![n].m[c.key] = c.v] /\ pc' = done
         [] c.op = "remove" ->
              /\ pmap' = [pmap EXCEPT ![d][c.key] = None] /\ UNCHANGED <<pctr, prec, pval>>
              /\ abs' = [abs EXCEPT ![n].m[c.key] = None] /\ pc' = done
         [] c.op = "clear" ->
              /\ pmap' = [pmap EXCEPT ![d] = EmptyMap] /\ UNCHANGED <<pctr, prec, pval>>
              /\ abs' = [abs EXCEPT ![n].m = EmptyMap] /\ pc' = done
         [] c.op = "get" ->
              /\ UNCHANGED <<pvars, abs>> /\ pc' = [pc EXCEPT ![t].step = "ack", ![t].out = pval[d]]
         [] c.op = "read" ->
              /\ UNCHANGED <<pvars, abs>> /\ pc' = [pc EXCEPT ![t].step = "ack", ![t].out = pmap[d]]
         [] OTHER ->
              /\ UNCHANGED <<pvars, abs>> /\ pc' = done
    /\ lastStep' = [s |-> "write", t |-> t]
    /\ UNCHANGED <<mctr, acked>>

(* the call returns: the caller now knows the identifier (and the result) *)
Ack(t) ==
    /\ pc[t] # Idle /\ pc[t].step = "ack"
    /\ acked' = [acked EXCEPT ![pc[t].n] = pc[t].id]
    /\ pc' = [pc EXCEPT ![t] = Idle]
    /\ lastStep' = [s |-> "ack", t |-> t]
    /\ UNCHANGED <<pvars, mctr, abs>>

(* SIGKILL at any moment - between any two steps of any call, or while idle - followed by opening
   the database again: only the persistent state survives; initialise_with reads the counter *)
Crash ==
    /\ WithCrash
    /\ pc' = [t \in Threads |-> Idle] /\ mctr' = pctr
    /\ lastStep' = [s |-> "crash", t |-> 0]
    /\ UNCHANGED <<pvars, acked, abs>>
(* clean shutdown (no call in flight) and reopen *)
Reopen ==
    /\ AllIdle
    /\ pc' = pc /\ mctr' = pctr
    /\ lastStep' = [s |-> "reopen", t |-> 0]
    /\ UNCHANGED <<pvars, acked, abs>>

Next == \/ \E t \in Threads :
             \/ \E op \in OpSet, n \in Names, key \in Keys, v \in Vals :
                   /\ (op \notin {"update", "remove"} => key = 1)
                   /\ (op \notin {"put", "update"} => v = 1)
                   /\ Begin(t, op, n, key, v)
             \/ AllocStep(t) \/ Write(t) \/ Ack(t)
        \/ Crash \/ Reopen

Spec == Init /\ [][Next]_vars

Bound == pctr <= MaxId /\ mctr <= MaxId

-----------------------------------------------------------------------------
(* "the identifier assigned to a name never ... collides": at every moment, hence after a kill at
   any point, distinct names that have a record have distinct identifiers *)
IdsDistinct == \A n1, n2 \in Names : (n1 # n2 /\ prec[n1] # 0 /\ prec[n2] # 0) => prec[n1] # prec[n2]
(* "... never changes": an acknowledged identifier is the recorded one for ever *)
AckedStable == \A n \in Names : acked[n] # 0 => prec[n] = acked[n]
AckedNeverChanges == [][\A n \in Names : acked[n] # 0 => acked'[n] = acked[n]]_vars
(* the identifier handed to the caller is not the identifier of another name *)
AckFresh == [][lastStep'.s = "ack" =>
                 \A n \in Names : (n # pc[lastStep'.t].n /\ acked[n] # 0) => acked[n] # pc[lastStep'.t].id]_vars
(* why it works.  One caller: the stored counter is never behind a recorded identifier, the in-memory one
   never behind the stored one (this is what the order of the two writes is for).  Several callers: the same
   whenever no call is in flight, i.e. at every clean reopen (this is what the atomic merge is for). *)
CounterCovers == (AllocOrder = "counter_first" /\ (NT = 1 \/ AllIdle \/ CounterWrite = "max")) =>
                    (\A n \in Names : prec[n] <= pctr) /\ pctr <= mctr
(* isolation and read-your-writes through any crash: what each name reads back (its record's value
   slot and map range) is exactly what the writes to that name imply *)
Stored(n) == IF prec[n] = 0 THEN Empty ELSE [v |-> pval[prec[n]], m |-> pmap[prec[n]]]
Refines == \A n \in Names : Stored(n) = abs[n]
(* a step of a call on one name never changes what another name holds; a crash / reopen changes nothing *)
Isolation == [][\A n \in Names : (lastStep'.t = 0 \/ pc[lastStep'.t] = Idle \/ n # pc[lastStep'.t].n) =>
                                      Stored(n)' = Stored(n)]_vars
(* results *)
ReadResult == [][(lastStep'.s = "write" /\ pc[lastStep'.t].op = "get") =>
                    pc'[lastStep'.t].out = abs[pc[lastStep'.t].n].v]_vars
ReadMapResult == [][(lastStep'.s = "write" /\ pc[lastStep'.t].op = "read") =>
                    pc'[lastStep'.t].out = abs[pc[lastStep'.t].n].m]_vars
TypeOK == /\ pctr \in 0..MaxId + 1 /\ mctr \in 0..MaxId + 1
          /\ \A n \in Names : prec[n] \in 0..MaxId
=============================================================================

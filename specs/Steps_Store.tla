------------------------------ MODULE Steps_Store ------------------------------
(***************************************************************************)
(* C13, mechanism level (M) of the RocksDB store: every operation of       *)
(* NodePersistence as the sequence of its PERSISTENT writes, so that the   *)
(* process can be killed between any two of them.                          *)
(*                                                                         *)
(* Persistent state (what a reopened database contains):                   *)
(*   pctr   key 'counter' of the lane keyspace (merge operator += 1)       *)
(*   prec   records 'lane/<node uri>/<name>' -> lane id                    *)
(*   pval   value keyspace   [0][lane id]            -> bytes              *)
(*   pmap   map keyspace     [1][lane id][1][len][key] -> bytes            *)
(* Volatile state (lost by a kill):                                        *)
(*   mctr   KeyStore.count (AtomicU64), seeded from pctr by                *)
(*          KeyStore::initialise_with when the plane is opened             *)
(*   pc     the call in flight and how far it got                          *)
(*                                                                         *)
(* Write steps, read off the code (keystore.rs, agent/mod.rs,              *)
(* plane/mod.rs, engine/mod.rs):                                           *)
(*   id_for, name known      : no write (get on the record)                *)
(*   id_for, name first seen : count.fetch_add; then TWO separate writes:  *)
(*                             merge('counter', 1)  and  put(record, id)   *)
(*   put_value / delete_value / update_map / remove_map : one put / delete *)
(*   clear_map               : one delete_range [prefix, prefix+UBOUND)    *)
(*                             (a single atomic range tombstone)           *)
(*   get_value / read_map    : no write                                    *)
(* The only operation with more than one persistent write is the           *)
(* allocation of an identifier.  AllocOrder selects the order of its two   *)
(* writes: "counter_first" is the code; "record_first" is the unsafe order *)
(* (the specification is also run with it, expecting TLC to refute         *)
(* IdsDistinct / Refines: the invariants are not vacuous).                 *)
(* The in-memory store has no persistent state: a kill loses everything by *)
(* design; its only multi-step hand-over (Drop -> waiting node_store) is   *)
(* in-process and is Store.tla's Restart("handover" / "abandon").          *)
(*                                                                         *)
(* Ghost state: abs = Store.tla's store (what the writes that took effect  *)
(* imply for each name), acked = the identifier each name was told.        *)
(***************************************************************************)
EXTENDS Naturals, FiniteSets, TLC

CONSTANTS NA, NI, NK, NV,
          OpSet,        \* the operations explored (a subset of Ops: keeps larger scopes tractable)
          MaxId,        \* bound on identifiers handed out (state constraint)
          AllocOrder    \* "counter_first" | "record_first"

Agents == 1..NA
Items  == 1..NI
Keys   == 1..NK
Vals   == 1..NV
None   == 0
Names  == Agents \X Items
Ids    == 1..MaxId

VARIABLES pctr, prec, pval, pmap, mctr, pc, acked, abs, lastStep
pvars == <<pctr, prec, pval, pmap>>
vars  == <<pctr, prec, pval, pmap, mctr, pc, acked, abs, lastStep>>
View  == <<pctr, prec, pval, pmap, mctr, pc, acked, abs>>

EmptyMap == [k \in Keys |-> None]
Empty    == [v |-> None, m |-> EmptyMap]
Idle     == [op |-> "none"]

Init == /\ pctr = 0 /\ prec = [n \in Names |-> 0]
        /\ pval = [d \in Ids |-> None] /\ pmap = [d \in Ids |-> EmptyMap]
        /\ mctr = 0 /\ pc = Idle
        /\ acked = [n \in Names |-> 0] /\ abs = [n \in Names |-> Empty]
        /\ lastStep = "init"

ValueOps == {"put", "delete", "get"}
MapOps   == {"update", "remove", "clear", "read"}
Ops      == {"idfor"} \cup ValueOps \cup MapOps

(* an item is used as a value or as a map (Store.tla's kinds) *)
Allowed(op, n) == /\ op \in ValueOps => abs[n].m = EmptyMap
                  /\ op \in MapOps => abs[n].v = None

(* a call is made.  It starts with KeyStore::id_for: a get on the record; a first-seen name takes the
   next number of the in-memory counter (count.fetch_add) and goes on to the two allocation writes *)
Begin(op, n, key, v) ==
    /\ pc = Idle /\ Allowed(op, n)
    /\ IF prec[n] # 0
         THEN /\ pc' = [op |-> op, n |-> n, key |-> key, v |-> v, step |-> "write", id |-> prec[n], out |-> 0]
              /\ mctr' = mctr
         ELSE /\ mctr < MaxId
              /\ mctr' = mctr + 1
              /\ pc' = [op |-> op, n |-> n, key |-> key, v |-> v, step |-> "alloc1", id |-> mctr + 1, out |-> 0]
    /\ lastStep' = "begin"
    /\ UNCHANGED <<pvars, acked, abs>>

AdvanceCounter == pctr' = pctr + 1 /\ UNCHANGED <<prec, pval, pmap>>
WriteRecord    == prec' = [prec EXCEPT ![pc.n] = pc.id] /\ UNCHANGED <<pctr, pval, pmap>>

(* first persistent write of the allocation *)
Alloc1 ==
    /\ pc # Idle /\ pc.step = "alloc1"
    /\ IF AllocOrder = "counter_first" THEN AdvanceCounter ELSE WriteRecord
    /\ pc' = [pc EXCEPT !.step = "alloc2"]
    /\ lastStep' = "alloc1"
    /\ UNCHANGED <<mctr, acked, abs>>
(* second persistent write of the allocation *)
Alloc2 ==
    /\ pc # Idle /\ pc.step = "alloc2"
    /\ IF AllocOrder = "counter_first" THEN WriteRecord ELSE AdvanceCounter
    /\ pc' = [pc EXCEPT !.step = "write"]
    /\ lastStep' = "alloc2"
    /\ UNCHANGED <<mctr, acked, abs>>

(* the operation's own single write (none for id_for and the reads), addressed by the lane id *)
Write ==
    /\ pc # Idle /\ pc.step = "write"
    /\ LET d == pc.id  n == pc.n IN
       CASE pc.op = "put" ->
              /\ pval' = [pval EXCEPT ![d] = pc.v] /\ UNCHANGED <<pctr, prec, pmap>>
              /\ abs' = [abs EXCEPT ![n].v = pc.v] /\ pc' = [pc EXCEPT !.step = "ack"]
         [] pc.op = "delete" ->
              /\ pval' = [pval EXCEPT ![d] = None] /\ UNCHANGED <<pctr, prec, pmap>>
              /\ abs' = [abs EXCEPT ![n].v = None] /\ pc' = [pc EXCEPT !.step = "ack"]
         [] pc.op = "update" ->
              /\ pmap' = [pmap EXCEPT ![d][pc.key] = pc.v] /\ UNCHANGED <<pctr, prec, pval>>
              /\ abs' = [abs EXCEPT ![n].m[pc.key] = pc.v] /\ pc' = [pc EXCEPT !.step = "ack"]
         [] pc.op = "remove" ->
              /\ pmap' = [pmap EXCEPT ![d][pc.key] = None] /\ UNCHANGED <<pctr, prec, pval>>
              /\ abs' = [abs EXCEPT ![n].m[pc.key] = None] /\ pc' = [pc EXCEPT !.step = "ack"]
         [] pc.op = "clear" ->
              /\ pmap' = [pmap EXCEPT ![d] = EmptyMap] /\ UNCHANGED <<pctr, prec, pval>>
              /\ abs' = [abs EXCEPT ![n].m = EmptyMap] /\ pc' = [pc EXCEPT !.step = "ack"]
         [] pc.op = "get" ->
              /\ UNCHANGED <<pvars, abs>> /\ pc' = [pc EXCEPT !.step = "ack", !.out = pval[d]]
         [] pc.op = "read" ->
              /\ UNCHANGED <<pvars, abs>> /\ pc' = [pc EXCEPT !.step = "ack", !.out = pmap[d]]
         [] OTHER ->
              /\ UNCHANGED <<pvars, abs>> /\ pc' = [pc EXCEPT !.step = "ack"]
    /\ lastStep' = "write"
    /\ UNCHANGED <<mctr, acked>>

(* the call returns: the caller now knows the identifier (and the result) *)
Ack ==
    /\ pc # Idle /\ pc.step = "ack"
    /\ acked' = [acked EXCEPT ![pc.n] = pc.id]
    /\ pc' = Idle
    /\ lastStep' = "ack"
    /\ UNCHANGED <<pvars, mctr, abs>>

(* SIGKILL at any moment - between any two steps of any call, or while idle - followed by opening
   the database again: only the persistent state survives; initialise_with reads the counter *)
Crash ==
    /\ pc' = Idle /\ mctr' = pctr
    /\ lastStep' = "crash"
    /\ UNCHANGED <<pvars, acked, abs>>

Next == \/ \E op \in OpSet, n \in Names, key \in Keys, v \in Vals :
             /\ (op \notin {"update", "remove"} => key = 1)
             /\ (op \notin {"put", "update"} => v = 1)
             /\ Begin(op, n, key, v)
        \/ Alloc1 \/ Alloc2 \/ Write \/ Ack \/ Crash

Spec == Init /\ [][Next]_vars

Bound == pctr <= MaxId /\ mctr <= MaxId

-----------------------------------------------------------------------------
(* "the identifier assigned to a name never ... collides": at every moment, hence after a kill at
   any point, distinct names that have a record have distinct identifiers *)
IdsDistinct == \A n1, n2 \in Names : (n1 # n2 /\ prec[n1] # 0 /\ prec[n2] # 0) => prec[n1] # prec[n2]
(* "... never changes": an acknowledged identifier is the recorded one for ever *)
AckedStable == \A n \in Names : acked[n] # 0 => prec[n] = acked[n]
AckedNeverChanges == [][\A n \in Names : acked[n] # 0 => acked'[n] = acked[n]]_vars
(* the identifier handed to the caller is not the identifier of another name *)
AckFresh == [][lastStep' = "ack" => \A n \in Names : (n # pc.n /\ acked[n] # 0) => acked[n] # pc.id]_vars
(* why it works: the stored counter is never behind a recorded identifier, the in-memory one never
   behind the stored one (this is what the order of the two writes is for) *)
CounterCovers == AllocOrder = "counter_first" => (\A n \in Names : prec[n] <= pctr) /\ pctr <= mctr
(* isolation and read-your-writes through any crash: what each name reads back (its record's value
   slot and map range) is exactly what the writes to that name imply *)
Stored(n) == IF prec[n] = 0 THEN Empty ELSE [v |-> pval[prec[n]], m |-> pmap[prec[n]]]
Refines == \A n \in Names : Stored(n) = abs[n]
(* a step of a call on one name never changes what another name holds; a crash changes nothing *)
Isolation == [][\A n \in Names : (pc = Idle \/ n # pc.n \/ lastStep' = "crash") => Stored(n)' = Stored(n)]_vars
(* results *)
ReadResult == [][(lastStep' = "write" /\ pc.op = "get") => pc'.out = abs[pc.n].v]_vars
ReadMapResult == [][(lastStep' = "write" /\ pc.op = "read") => pc'.out = abs[pc.n].m]_vars
TypeOK == /\ pctr \in 0..MaxId + 1 /\ mctr \in 0..MaxId + 1
          /\ \A n \in Names : prec[n] \in 0..MaxId
=============================================================================

-------------------------- MODULE MC_Trace_WriteTask --------------------------
EXTENDS Trace_WriteTask
KindV == [l \in {"v"} |-> "value"]
KindVS == [l \in {"v", "s"} |-> IF l = "v" THEN "value" ELSE "supply"]
KindVM == [l \in {"v", "m"} |-> IF l = "v" THEN "value" ELSE "map"]
KindM == [l \in {"m"} |-> "map"]
KindS == [l \in {"s"} |-> "supply"]
=============================================================================

------------------------------ MODULE FormDoc ------------------------------
(***************************************************************************)
(* C16 - Form: the typed, the model and the wire representation of a value *)
(* agree.                                                                  *)
(*                                                                         *)
(* This module is the DATA MODEL and the LAWS.  It contains                *)
(*                                                                         *)
(*  1. abstract model values  (swimos_model::Value: leaves are symbols     *)
(*     that the harness concretises from boundary pools),                  *)
(*  2. the schema language of `#[derive(Form)]` (tag, name, header,        *)
(*     header_body, attr, slot, body, skip, tag field, newtype, enums,     *)
(*     generics instantiated, nesting, collections) and the table of the   *)
(*     battery types compiled into harness/h_core/src/bin/form.rs,         *)
(*  3. Inst: the instances of a type at small scope,                       *)
(*  4. Render: the reference writer  (what `Form::as_value` builds:        *)
(*     structural/write/mod.rs + swimos_form_derive/src/structural/write), *)
(*  5. the abstract mutation operators that turn a rendered instance into  *)
(*     schema-violating (and some still schema-conforming) documents,      *)
(*  6. Read: the reference reader (what the recognizers of                 *)
(*     structural/read/recognizer accept when fed from a Value),           *)
(*  7. the laws of the property over one row of the observation table      *)
(*     recorded from the real code.                                        *)
(*                                                                         *)
(* Gen_FormDoc.tla is the generator (TLC enumerates type x instance x      *)
(* mutation and checks the model's own invariants, e.g. Read inverts       *)
(* Render); MC_FormDoc.tla evaluates the laws over the recorded table.     *)
(*                                                                         *)
(* Only the laws (7) can raise an alarm (they are the property statement). *)
(* Render and Read are the mechanism model M: a disagreement between them  *)
(* and the real code on which both real reading paths agree is MODEL-DRIFT *)
(* (a note).  Read models the path through the model value (the events the *)
(* bridge feeds); where the real code has an open finding that Read must   *)
(* mirror to stay a model of it, the behaviour is switched by Defects.     *)
(***************************************************************************)
EXTENDS Naturals, Sequences, FiniteSets, TLC, FormDocCombos

CONSTANTS Scope,    \* 0 = quick domains, 1 = larger domains (thorough)
          Defects   \* the open findings of known_findings/C16.json that the reference reader mirrors
                    \* ("F1": a HashMap in an attribute is not readable from a model value;
                    \*  "F12": a Duration as #[form(body)] is not readable; "F14": an absent optional #[form(body)];
                    \*  "F16": an extant Value header body next to header slots)

(***************************************************************************)
(* 1. Abstract model values                                                *)
(*    leaf classes: x extant | i small non-negative int (fits every        *)
(*    integer type) | n negative int (fits i32) | g int > u32::MAX (fits   *)
(*    i64 and u64) | h in (i32::MAX, u32::MAX] | G in (i64::MAX, u64::MAX] |*)
(*    N in [i64::MIN, i32::MIN) | B > u64::MAX | M < i64::MIN |            *)
(*    T / U timestamp micros (whole seconds / with a sub-second part) |    *)
(*    z nanoseconds < 10^9 | i / q in [1, i32::MAX] | Z zero | c a literal |*)
(*    L = i64::MAX | d blob | r route uri |                                *)
(*    f non-integral float | b bool | s pooled string |                    *)
(*    t literal text (field names, tags)                                   *)
(***************************************************************************)
Leaf(c, s)        == [k |-> c, s |-> s]
Rec(attrs, items) == [k |-> "rec", attrs |-> attrs, items |-> items]
Attr(n, v)        == [n |-> n, v |-> v]
Slot(key, v)      == [slot |-> TRUE, key |-> key, v |-> v]
Item(v)           == [slot |-> FALSE, v |-> v]
Extant            == Leaf("x", "")
Const(n)          == Leaf("c", n)          \* the integer with the decimal literal n
Zero              == Leaf("Z", "")         \* the integer 0
Txt(s)            == Leaf("t", s)
Sym(c, n)         == Leaf(c, n)
IsRec(v)          == v.k = "rec"

RemoveAt(s, i)     == SubSeq(s, 1, i - 1) \o SubSeq(s, i + 1, Len(s))
InsertAt(s, i, e)  == SubSeq(s, 1, i - 1) \o <<e>> \o SubSeq(s, i, Len(s))
ReplaceAt(s, i, e) == [s EXCEPT ![i] = e]
SwapAt(s, i, j)    == [s EXCEPT ![i] = s[j], ![j] = s[i]]
Range(s)           == {s[i] : i \in 1..Len(s)}
RECURSIVE SelectIdx(_, _, _)
\* the increasing sequence of indices i >= from of s with Pred(s[i])
SelectIdx(s, Pred(_), from) ==
    IF from > Len(s) THEN <<>>
    ELSE (IF Pred(s[from]) THEN <<from>> ELSE <<>>) \o SelectIdx(s, Pred, from + 1)
RECURSIVE Prod(_)
\* the set of sequences q with q[i] \in sets[i]
Prod(sets) == IF sets = <<>> THEN {<<>>}
              ELSE {<<h>> \o t : h \in sets[1], t \in Prod(Tail(sets))}

(***************************************************************************)
(* 2. Schema language and the battery                                      *)
(***************************************************************************)
Prim(p)    == [c |-> "prim", p |-> p]
I32 == Prim("i32")  I64 == Prim("i64")  U32 == Prim("u32")  U64 == Prim("u64")  F64 == Prim("f64")
BOOL == Prim("bool")  STR == Prim("string")  VAL == Prim("value")  LEVEL == Prim("level")
Opt(e)     == [c |-> "opt", e |-> e]
Vec(e)     == [c |-> "vec", e |-> e]
Map(k, v)  == [c |-> "map", key |-> k, val |-> v]
Tuple(es)  == [c |-> "tuple", es |-> es]
Named(n)   == [c |-> "named", n |-> n]
Quant(e)   == [c |-> "quant", e |-> e]
\* WIDE collections: exactly one instance, with n entries k -> k / n elements (MessagePack size classes: a map / array
\* header is fixmap / fixarray up to 15 entries, map16 / array16 up to 65535, map32 / array32 beyond)
WMap(n)    == [c |-> "map", key |-> Prim("i32"), val |-> Prim("i32"), wide |-> n]
WVec(n)    == [c |-> "vec", e |-> Prim("i32"), wide |-> n]
IsWide(t)  == "wide" \in DOMAIN t
SizeClass(n) == IF n <= 15 THEN "fix" ELSE IF n <= 65535 THEN "16" ELSE "32"
\* the MessagePack marker class the writer must choose for the body of an attribute-less record
BodyMarker(v) == IF v.k = "rec" /\ v.attrs = <<>> /\ v.items # <<>>
                 THEN (IF \A i \in 1..Len(v.items) : v.items[i].slot THEN "map" ELSE "array") \o SizeClass(Len(v.items))
                 ELSE ""      \* swimos Quantity<T>: a T or the text `infinite`

\* instances (section 3), needed here for the default values of fields
NoneI        == [k |-> "none"]
InfI         == [k |-> "inf"]
FinI(x)      == [k |-> "fin", v |-> <<x>>]
SomeI(x)     == [k |-> "some", v |-> <<x>>]
VecI(xs)     == [k |-> "vec", v |-> xs]
MapI(es)     == [k |-> "map", v |-> es]
TupleI(xs)   == [k |-> "tuple", v |-> xs]
StructI(n, xs) == [k |-> "struct", var |-> n, v |-> xs]
AnyI         == [k |-> "any"]      \* an accepted value the reference reader leaves unspecified

\* a field: rust = name in the Rust source (for building the typed value), name = label after
\* rename / convention ("" = written as a value item), role = where the derive macro puts it
F(rust, name, role, ty) == [rust |-> rust, name |-> name, role |-> role, ty |-> ty]
\* a field of a hand-written lenient reader (Duration, RetryStrategy): when absent it takes the default value dflt,
\* when repeated the last occurrence wins
FD(rust, name, role, ty, dflt) == [rust |-> rust, name |-> name, role |-> role, ty |-> ty, dflt |-> dflt]
Lenient(f) == "dflt" \in DOMAIN f
Roles == {"slot", "attr", "header", "hbody", "body", "skip", "tag"}
\* shape = serde / Rust shape: unit | named | tuple | newtype (exactly one unnamed field)
Struct(tag, shape, fields)      == [kind |-> "struct", tag |-> tag, shape |-> shape, fields |-> fields]
Variant(vn, tag, shape, fields) == [vname |-> vn, tag |-> tag, shape |-> shape, fields |-> fields]
Enum(variants)                  == [kind |-> "enum", variants |-> variants]
NewType(shape, field)           == [kind |-> "newtype", shape |-> shape, field |-> field]
Plain(ty)                       == [kind |-> "plain", ty |-> ty]

GenOf(g) == Struct("Gen", "named", <<F("g", "g", "slot", g), F("n", "n", "slot", I32)>>)
OpOf(kt, vt) == Enum(<<
    Variant("Update", "update", "tuple", <<F("0", "key", "header", kt), F("1", "", "body", vt)>>),
    Variant("Remove", "remove", "newtype", <<F("0", "key", "header", kt)>>),
    Variant("Clear", "clear", "unit", <<>>) >>)

\* ---- the position battery: every primitive kind of Form in every structural position -----------------
\* kinds ("w" prims have the wide boundary domains) and the positions a field of that kind is put in
PosKinds == {"i32", "i64", "u32", "u64", "usize", "nzusize", "f64", "bool", "string", "text", "uri", "bigint", "biguint",
             "blob", "boxblob", "mblob", "unit", "timestamp", "arc", "duration", "retry"}
Positions == {"Plain", "Slot", "Attr", "Hdr", "HBody", "Body", "Vec", "Opt", "MapKey", "MapVal"}
KindTy(k) == CASE k = "i32" -> Prim("i32w") [] k = "i64" -> Prim("i64w") [] k = "u32" -> Prim("u32w") [] k = "u64" -> Prim("u64w")
               [] k = "f64" -> Prim("f64w") [] k = "string" -> Prim("stringw") [] k = "arc" -> Prim("i32w")
               [] k = "boxblob" -> Prim("blob") [] k = "mblob" -> Prim("blob") [] k = "duration" -> Named("Duration")
               [] k = "retry" -> Named("RetryStrategy")
               [] OTHER -> Prim(k)
\* HashMap keys need Eq + Hash; Option<()> is not distinguishable from ()
ValidPos(pos, k) == /\ (pos = "MapKey" => k \notin {"f64", "timestamp", "arc", "duration", "retry", "mblob"})
                    /\ (pos = "Opt" => k # "unit")
PosKey(pos, k) == pos \o "_" \o k
PosKeys == {PosKey(pk[1], pk[2]) : pk \in {q \in Positions \X PosKinds : ValidPos(q[1], q[2])}}
PosOf(key) == CHOOSE pk \in Positions \X PosKinds : PosKey(pk[1], pk[2]) = key
PosType(pos, t) ==
  CASE pos = "Plain"  -> Plain(t)
    [] pos = "Slot"   -> Struct("SlotP", "named", <<F("v", "v", "slot", t)>>)
    [] pos = "Attr"   -> Struct("AttrP", "named", <<F("a", "a", "attr", t), F("x", "x", "slot", I32)>>)
    [] pos = "Hdr"    -> Struct("HdrP", "named", <<F("h", "h", "header", t), F("x", "x", "slot", I32)>>)
    [] pos = "HBody"  -> Struct("HBodyP", "named", <<F("hb", "hb", "hbody", t), F("x", "x", "slot", I32)>>)
    [] pos = "Body"   -> Struct("BodyP", "named", <<F("n", "n", "slot", I32), F("b", "b", "body", t)>>)
    [] pos = "Vec"    -> Plain(Vec(t))
    [] pos = "Opt"    -> Plain(Opt(t))
    [] pos = "MapKey" -> Plain(Map(t, I32))
    [] pos = "MapVal" -> Plain(Map(STR, t))

\* (a constant: TLC evaluates the table once)
PosTypes == [key \in PosKeys |-> PosType(PosOf(key)[1], KindTy(PosOf(key)[2]))]

\* (the combination battery: tag x header x body crossed; generated, with the Rust types, from ONE table: FormDocCombos.tla)
TypeOf(key) ==
  IF key \in PosKeys THEN PosTypes[key] ELSE
  IF key \in ComboKeys THEN ComboTypes[key] ELSE
  CASE key = "Duration" -> Struct("duration", "named", <<FD("secs", "secs", "slot", Prim("secs"), Zero), FD("nanos", "nanos", "slot", Prim("nanos"), Zero)>>)
    \* swimos_utilities::future::RetryStrategy (hand-written Form), the values its constructors build
    [] key = "RetryStrategy" -> Enum(<<
          \* (defaults: swimos_future retry_strategy.rs DEFAULT_*; an interval without delay is an immediate strategy
          \*  with the interval's retries: the value is left unspecified, AnyI)
          Variant("Immediate", "immediate", "named", <<FD("retries", "retries", "slot", Prim("nzusize"), Const("16"))>>),
          Variant("Interval", "interval", "named", <<FD("delay", "delay", "slot", Named("Duration"), AnyI),
                                                     FD("retries", "retries", "slot", Quant(Prim("nzusize")), FinI(Const("8")))>>),
          Variant("Exponential", "exponential", "named",
                  <<FD("max_interval", "max_interval", "slot", Named("Duration"), StructI(0, <<Const("16"), Zero>>)),
                    FD("max_backoff", "max_backoff", "slot", Quant(Named("Duration")), FinI(StructI(0, <<Const("300"), Zero>>)))>>),
          Variant("None", "none", "unit", <<>>) >>)
    [] key = "Value"    -> Plain(VAL)
    [] key = "WMap15"   -> Plain(WMap(15))
    [] key = "WMap16"   -> Plain(WMap(16))
    [] key = "WMap17"   -> Plain(WMap(17))
    [] key = "WMap300"  -> Plain(WMap(300))
    [] key = "WVec15"   -> Plain(WVec(15))
    [] key = "WVec16"   -> Plain(WVec(16))
    [] key = "WVec300"  -> Plain(WVec(300))
    [] key = "WStr"     -> Plain(Prim("wstr"))
    [] key = "WBlob"    -> Plain(Prim("wblob"))
    [] key = "AttrTup"  -> Struct("AttrTup", "named", <<F("a", "a", "attr", Tuple(<<I32, STR>>)), F("x", "x", "slot", I32)>>)
    [] key = "HBodyTup" -> Struct("HBodyTup", "named", <<F("hb", "hb", "hbody", Tuple(<<I32, STR>>)), F("x", "x", "slot", I32)>>)
    [] key = "Unit"     -> Struct("Unit", "unit", <<>>)
    [] key = "Simple"   -> Struct("Simple", "named", <<F("first", "first", "slot", I32)>>)
    [] key = "Two"      -> Struct("Two", "named", <<F("first", "first", "slot", I32), F("second", "second", "slot", STR)>>)
    [] key = "Tup"      -> Struct("Tup", "tuple", <<F("0", "", "slot", I32), F("1", "", "slot", STR)>>)
    [] key = "Renamed"  -> Struct("renamed", "named", <<F("a", "alpha", "slot", I32), F("b", "b", "slot", BOOL)>>)
    [] key = "TupRen"   -> Struct("TupRen", "tuple", <<F("0", "first", "slot", I32), F("1", "second", "slot", STR)>>)
    [] key = "WithAttr" -> Struct("WithAttr", "named", <<F("in_attr", "in_attr", "attr", BOOL), F("first", "first", "slot", I32),
                                                        F("second", "second", "slot", STR)>>)
    [] key = "TwoAttrs" -> Struct("TwoAttrs", "named", <<F("a", "a", "attr", I32), F("b", "b", "attr", Opt(STR)), F("c", "c", "slot", I32)>>)
    [] key = "HdrBody"  -> Struct("HdrBody", "named", <<F("hb", "hb", "hbody", I32), F("first", "first", "slot", STR)>>)
    [] key = "HdrSlots" -> Struct("HdrSlots", "named", <<F("h1", "h1", "header", I32), F("h2", "h2", "header", Opt(STR)),
                                                        F("first", "first", "slot", I32)>>)
    [] key = "HdrOpt"   -> Struct("HdrOpt", "named", <<F("h", "h", "header", Opt(I32)), F("x", "x", "slot", I32)>>)
    [] key = "AttrVec"  -> Struct("AttrVec", "named", <<F("v", "v", "attr", Vec(I32)), F("x", "x", "slot", I32)>>)
    [] key = "AttrMap"  -> Struct("AttrMap", "named", <<F("m", "m", "attr", Map(STR, I32)), F("x", "x", "slot", I32)>>)
    [] key = "HdrBoth"  -> Struct("HdrBoth", "named", <<F("hb", "hb", "hbody", BOOL), F("h1", "h1", "header", I32),
                                                       F("first", "first", "slot", STR)>>)
    [] key = "HdrVec"   -> Struct("HdrVec", "named", <<F("hb", "hb", "hbody", Vec(BOOL)), F("first", "first", "slot", I32)>>)
    [] key = "HdrNest"  -> Struct("HdrNest", "named", <<F("hb", "hb", "hbody", Named("Simple")), F("x", "x", "slot", I32)>>)
    [] key = "BodyVec"  -> Struct("BodyVec", "named", <<F("n", "n", "slot", I32), F("b", "b", "body", Vec(I32))>>)
    [] key = "BodyStr"  -> Struct("BodyStr", "named", <<F("h", "h", "slot", I32), F("b", "b", "body", STR)>>)
    [] key = "BodyNest" -> Struct("BodyNest", "named", <<F("h", "h", "header", I32), F("b", "b", "body", Named("Two"))>>)
    [] key = "Skippy"   -> Struct("Skippy", "named", <<F("sk", "sk", "skip", I32), F("name", "name", "slot", STR)>>)
    [] key = "SkipTup"  -> Struct("SkipTup", "tuple", <<F("0", "", "skip", I32), F("1", "", "slot", STR)>>)
    [] key = "Opt"      -> Struct("Opt", "named", <<F("a", "a", "slot", Opt(I32)), F("b", "b", "slot", I32)>>)
    [] key = "Coll"     -> Struct("Coll", "named", <<F("xs", "xs", "slot", Vec(I32)), F("m", "m", "slot", Map(STR, I32))>>)
    [] key = "GenI"     -> GenOf(I32)
    [] key = "GenS"     -> GenOf(STR)
    [] key = "GenTwo"   -> GenOf(Named("Two"))
    [] key = "GenOptTwo" -> GenOf(Opt(Named("Two")))
    [] key = "Nested"   -> Struct("Nested", "named", <<F("inner", "inner", "slot", Named("Two")), F("at", "at", "attr", Named("Simple")),
                                                      F("o", "o", "slot", Opt(Named("Two")))>>)
    [] key = "VecNest"  -> Struct("VecNest", "named", <<F("xs", "xs", "slot", Vec(Named("Two"))), F("m", "m", "slot", Map(I32, Named("Simple")))>>)
    [] key = "NewT"     -> NewType("newtype", F("0", "", "slot", I32))
    [] key = "NewS"     -> NewType("named", F("inner", "inner", "slot", Named("Two")))
    [] key = "TagField" -> Struct("", "named", <<F("level", "level", "tag", LEVEL), F("v", "v", "slot", I32)>>)
    [] key = "Shape"    -> Enum(<<
                              Variant("Dot", "Dot", "unit", <<>>),
                              Variant("Circle", "circle", "named", <<F("r", "r", "slot", I32)>>),
                              Variant("Pair", "Pair", "tuple", <<F("0", "", "slot", I32), F("1", "", "slot", STR)>>),
                              Variant("Labelled", "Labelled", "named", <<F("k", "k", "header", I32), F("v", "v", "body", STR)>>),
                              Variant("WithAt", "WithAt", "named", <<F("a", "a", "attr", BOOL), F("x", "x", "slot", I32)>>) >>)
    [] key = "OpSI"     -> OpOf(STR, I32)
    [] key = "OpITwo"   -> OpOf(I32, Named("Two"))
    [] key = "ConvStruct" -> Struct("conv-struct", "named", <<F("first_field", "firstField", "slot", I32),
                                                             F("second_field", "secondField", "slot", STR)>>)
    [] key = "ConvEnum" -> Enum(<<
                              Variant("FirstVar", "first-var", "unit", <<>>),
                              Variant("SecondVar", "second-var", "named", <<F("my_field", "myField", "slot", I32)>>) >>)
    [] key = "Nums"     -> Struct("Nums", "named", <<F("f", "f", "slot", F64), F("u", "u", "slot", U32), F("l", "l", "slot", I64),
                                                    F("w", "w", "slot", U64)>>)
    [] key = "ModelVal" -> NewType("newtype", F("0", "", "slot", VAL))
    [] key = "WithValue" -> Struct("WithValue", "named", <<F("a", "a", "attr", VAL), F("v", "v", "slot", VAL), F("n", "n", "slot", I32)>>)
    [] key = "BodyValue" -> Struct("BodyValue", "named", <<F("n", "n", "slot", I32), F("body", "body", "body", VAL)>>)
    [] key = "HdrValue" -> Struct("HdrValue", "named", <<F("hb", "hb", "hbody", VAL), F("x", "x", "slot", I32)>>)
    [] key = "i32"      -> Plain(I32)
    [] key = "u64"      -> Plain(U64)
    [] key = "f64"      -> Plain(F64)
    [] key = "bool"     -> Plain(BOOL)
    [] key = "String"   -> Plain(STR)
    [] key = "VecI"     -> Plain(Vec(I32))
    [] key = "OptI"     -> Plain(Opt(I32))
    [] key = "MapSI"    -> Plain(Map(STR, I32))
    [] key = "PairIS"   -> Plain(Tuple(<<I32, STR>>))
    [] key = "OptTwo"   -> Plain(Opt(Named("Two")))
    [] key = "VecTwo"   -> Plain(Vec(Named("Two")))
    [] key = "VecOptI"  -> Plain(Vec(Opt(I32)))
    \* recognizer reuse: the 2nd and later elements / values are read by a recognizer that has been reset()
    [] key = "VecHdrBoth"  -> Plain(Vec(Named("HdrBoth")))
    [] key = "MapHdrBoth"  -> Plain(Map(I32, Named("HdrBoth")))
    [] key = "OptHdrBoth"  -> Plain(Opt(Named("HdrBoth")))
    [] key = "CollHdr"     -> Struct("CollHdr", "named", <<F("xs", "xs", "slot", Vec(Named("HdrBoth"))),
                                                          F("o", "o", "slot", Opt(Named("HdrBoth")))>>)
    [] key = "VecHdrSlots" -> Plain(Vec(Named("HdrSlots")))
    [] key = "VecHdrBody"  -> Plain(Vec(Named("HdrBody")))
    [] key = "VecHdrVec"   -> Plain(Vec(Named("HdrVec")))
    [] key = "VecHdrNest"  -> Plain(Vec(Named("HdrNest")))
    [] key = "VecHdrOpt"   -> Plain(Vec(Named("HdrOpt")))
    [] key = "VecWithAttr" -> Plain(Vec(Named("WithAttr")))
    [] key = "VecTwoAttrs" -> Plain(Vec(Named("TwoAttrs")))
    [] key = "VecBodyNest" -> Plain(Vec(Named("BodyNest")))
    [] key = "VecBodyStr"  -> Plain(Vec(Named("BodyStr")))
    [] key = "VecShape"    -> Plain(Vec(Named("Shape")))
    [] key = "VecOpSI"     -> Plain(Vec(Named("OpSI")))
    [] key = "VecTagField" -> Plain(Vec(Named("TagField")))
    [] key = "VecTup"      -> Plain(Vec(Named("Tup")))
    [] key = "VecOpt"      -> Plain(Vec(Named("Opt")))
    [] key = "MapShape"    -> Plain(Map(STR, Named("Shape")))
    [] key = "VecAttrVec"  -> Plain(Vec(Named("AttrVec")))
    [] key = "VecAttrMap"  -> Plain(Vec(Named("AttrMap")))

\* collections whose element type carries the header / attribute / body combinations
ReuseKeys == {"VecHdrBoth", "MapHdrBoth", "OptHdrBoth", "CollHdr", "VecHdrSlots", "VecHdrBody", "VecHdrVec", "VecHdrNest", "VecHdrOpt",
              "VecWithAttr", "VecTwoAttrs", "VecBodyNest", "VecBodyStr", "VecShape", "VecOpSI", "VecTagField", "VecTup", "VecOpt",
              "MapShape", "VecAttrVec", "VecAttrMap"}

AllKeys == {"Unit", "Simple", "Two", "Tup", "Renamed", "TupRen", "WithAttr", "TwoAttrs", "HdrBody", "HdrSlots", "HdrOpt",
            "AttrVec", "AttrMap", "HdrBoth", "HdrVec", "HdrNest", "BodyVec", "BodyStr", "BodyNest", "Skippy", "SkipTup", "Opt", "Coll",
            "GenI", "GenS", "GenTwo", "GenOptTwo", "Nested", "VecNest", "NewT", "NewS", "TagField", "Shape",
            "OpSI", "OpITwo", "ConvStruct", "ConvEnum", "Nums", "ModelVal", "WithValue", "BodyValue", "HdrValue",
            "i32", "u64", "f64", "bool", "String", "VecI", "OptI", "MapSI", "PairIS", "OptTwo", "VecTwo", "VecOptI", "Duration", "RetryStrategy", "Value", "AttrTup", "HBodyTup",
            "WMap15", "WMap16", "WMap17", "WMap300", "WVec15", "WVec16", "WVec300", "WStr", "WBlob"} \cup ReuseKeys \cup PosKeys \cup ComboKeys


LevelNames == {"Info", "Warn"}

Live(fields)   == SelectSeq(fields, LAMBDA f : f.role # "skip")
HasRole(fs, r) == \E i \in 1..Len(fs) : fs[i].role = r

(***************************************************************************)
(* 3. Instances at small scope.  d = nesting depth (domains shrink with d) *)
(*    leaf -> a Leaf / model value ; none / some ; vec ; map ; tuple ;     *)
(*    struct: var = variant index (0 for structs), v = values of the live  *)
(*    (non-skipped) fields in declaration order                            *)
(***************************************************************************)

ValuePool(d) ==
    IF d = 0 THEN { Extant, Sym("i", "0"), Sym("s", "0"), Rec(<<>>, <<>>),
                    Rec(<<>>, <<Item(Sym("i", "0"))>>),
                    Rec(<<>>, <<Slot(Txt("k"), Sym("i", "1"))>>),
                    Rec(<<>>, <<Item(Sym("i", "0")), Item(Sym("s", "0"))>>),
                    Rec(<<Attr("va", Extant)>>, <<>>),
                    Rec(<<Attr("va", Sym("i", "0"))>>, <<Slot(Txt("k"), Sym("b", "0")), Item(Sym("s", "1"))>>) }
    ELSE { Sym("i", "0"), Rec(<<Attr("va", Extant)>>, <<Slot(Txt("k"), Sym("i", "1"))>>) }

PrimDom(p, d) ==
    LET big == Scope > 0 /\ d = 0 IN
    CASE p = "i32"    -> IF d = 0 THEN {Sym("i", "0"), Sym("i", "1"), Sym("n", "0")} \cup (IF big THEN {Sym("i", "2")} ELSE {})
                         ELSE IF d = 1 THEN {Sym("i", "0"), Sym("i", "1")} ELSE {Sym("i", "0")}
      [] p = "i64"    -> IF d = 0 THEN {Sym("i", "0"), Sym("n", "0"), Sym("g", "0")} ELSE {Sym("g", "0")}
      [] p = "u32"    -> IF d = 0 THEN {Sym("i", "0"), Sym("i", "1")} ELSE {Sym("i", "0")}
      [] p = "u64"    -> IF d = 0 THEN {Sym("i", "0"), Sym("g", "0")} ELSE {Sym("g", "0")}
      [] p = "f64"    -> IF d = 0 THEN {Sym("f", "0"), Sym("f", "1")} ELSE {Sym("f", "0")}
      [] p = "bool"   -> IF d <= 2 THEN {Sym("b", "0"), Sym("b", "1")} ELSE {Sym("b", "0")}
      [] p = "string" -> IF d = 0 THEN {Sym("s", "0"), Sym("s", "1")} \cup (IF big THEN {Sym("s", "2")} ELSE {})
                         ELSE {Sym("s", "0")}
      [] p = "level"  -> {Txt(n) : n \in LevelNames}
      [] p = "value"  -> ValuePool(d)
      \* the position battery: one symbol per boundary class of the kind (the pools hold the kind limits and the
      \* values that force each MessagePack width)
      \* the combination battery: one value per field (two with Scope > 0), the structure is what varies
      [] p = "i32k"   -> {Sym("i", "0")}
      \* strings / blobs of the length named by the symbol (str8 / str16 / str32, bin8 / bin16 / bin32 boundaries)
      [] p = "wstr"   -> {Leaf("S", "300"), Leaf("S", "70000")}
      [] p = "wblob"  -> {Leaf("D", "300"), Leaf("D", "70000")}
      [] p = "i32c"   -> IF Scope > 0 THEN {Sym("i", "0"), Sym("n", "0")} ELSE {Sym("i", "0")}
      [] p = "boolc"  -> IF Scope > 0 THEN {Sym("b", "0"), Sym("b", "1")} ELSE {Sym("b", "0")}
      [] p = "stringc" -> {Sym("s", "0")}
      [] p = "i32w"   -> {Zero, Sym("i", "0"), Sym("n", "0")}
      [] p = "i64w"   -> IF d <= 1 THEN {Zero, Sym("i", "0"), Sym("n", "0"), Sym("h", "0"), Sym("g", "0"), Sym("L", "0"), Sym("N", "0")}
                         ELSE {Sym("N", "0")}
      [] p = "u32w"   -> {Zero, Sym("i", "0"), Sym("h", "0")}
      [] p = "u64w"   -> IF d <= 1 THEN {Zero, Sym("i", "0"), Sym("h", "0"), Sym("g", "0"), Sym("L", "0"), Sym("G", "0")} ELSE {Sym("G", "0")}
      [] p = "usize"  -> {Zero, Sym("i", "0"), Sym("g", "0"), Sym("G", "0")}
      [] p = "nzusize" -> IF d <= 1 THEN {Sym("q", "0"), Sym("G", "0")} ELSE {Sym("q", "0")}
      [] p = "uri"    -> {Sym("r", "0")}
      [] p = "f64w"   -> {Sym("f", "0"), Sym("f", "1")}
      [] p = "stringw" -> {Sym("s", "0"), Sym("s", "1")}
      [] p = "text"   -> {Sym("s", "0")}
      [] p = "bigint" -> {Zero, Sym("i", "0"), Sym("n", "0"), Sym("G", "0"), Sym("B", "0"), Sym("M", "0")}
      [] p = "biguint" -> {Zero, Sym("i", "0"), Sym("G", "0"), Sym("B", "0")}
      [] p = "blob"   -> {Sym("d", "0"), Sym("d", "1")}
      [] p = "unit"   -> {Extant}
      [] p = "timestamp" -> {Sym("T", "0"), Sym("U", "0")}
      [] p = "nanos"  -> {Sym("z", "0")}
      [] p = "secs"   -> IF d <= 1 THEN {Sym("i", "0"), Sym("G", "0")} ELSE {Sym("G", "0")}

RECURSIVE Inst(_, _)
InstFields(fields, d) ==
    LET live == Live(fields) IN Prod([i \in 1..Len(live) |-> Inst(live[i].ty, d)])
InstDesc(D, d) ==
    CASE D.kind = "struct"  -> {StructI(0, xs) : xs \in InstFields(D.fields, d)}
      [] D.kind = "enum"    -> UNION {{StructI(n, xs) : xs \in InstFields(D.variants[n].fields, d)} : n \in 1..Len(D.variants)}
      [] D.kind = "newtype" -> {StructI(0, <<x>>) : x \in Inst(D.field.ty, d)}
      [] D.kind = "plain"   -> Inst(D.ty, d)
Inst(t, d) ==
    CASE t.c = "prim"  -> PrimDom(t.p, d)
      [] t.c = "opt"   -> {NoneI} \cup {SomeI(x) : x \in Inst(t.e, d + 1)}
      [] t.c = "quant" -> {InfI} \cup {FinI(x) : x \in Inst(t.e, d + 1)}
      [] t.c = "vec" /\ IsWide(t) -> {VecI([k \in 1..t.wide |-> Const(ToString(k))])}
      [] t.c = "map" /\ IsWide(t) -> {MapI([k \in 1..t.wide |-> <<Const(ToString(k)), Const(ToString(k))>>])}
      [] t.c = "vec"   -> LET E == Inst(t.e, d + 1) IN
                          {VecI(<<>>)} \cup {VecI(<<x>>) : x \in E}
                          \cup (IF d = 0 THEN {VecI(<<x, y>>) : x \in E, y \in E} ELSE {})
      [] t.c = "map"   -> LET K == Inst(t.key, d + 1)
                              V == Inst(t.val, d + 1)
                              k1 == CHOOSE k \in K : TRUE
                          IN  {MapI(<<>>)} \cup {MapI(<< <<k, v>> >>) : k \in K, v \in V}
                              \cup (IF d = 0 THEN {MapI(<< <<k1, v>>, <<k2, w>> >>) : k2 \in K \ {k1}, v \in V, w \in V} ELSE {})
      [] t.c = "tuple" -> {TupleI(xs) : xs \in Prod([i \in 1..Len(t.es) |-> Inst(t.es[i], d)])}
      [] t.c = "named" -> InstDesc(TypeOf(t.n), d + 1)

Instances(key) == InstDesc(TypeOf(key), 0)

(***************************************************************************)
(* 4. Render: the reference writer                                         *)
(***************************************************************************)
IsNone(t, x) == t.c = "opt" /\ x.k = "none"      \* StructuralWritable::omit_as_field

RECURSIVE Render(_, _)
\* fields: all fields of the struct / variant ; xs: values of the live ones
RenderStruct(tag, fields, xs) ==
    LET live    == Live(fields)
        n       == Len(live)
        val(i)  == Render(live[i].ty, xs[i])
        idx(r)  == SelectIdx(live, LAMBDA f : f.role = r, 1)
        hasBody == HasRole(live, "body")
        tagName == IF HasRole(live, "tag") THEN xs[idx("tag")[1]].s ELSE tag
        \* with a body field the remaining slots are promoted to the header
        isHdr(f) == f.role = "header" \/ (hasBody /\ f.role = "slot")
        hs      == SelectIdx(live, isHdr, 1)
        hsKept  == SelectSeq(hs, LAMBDA i : ~IsNone(live[i].ty, xs[i]))
        hb      == idx("hbody")
        hdrItems == [j \in 1..Len(hb) |-> Item(val(hb[j]))]
                    \o [j \in 1..Len(hsKept) |-> Slot(Txt(live[hsKept[j]].name), val(hsKept[j]))]
        \* header_body alone is the body of the tag attribute; header slots make it a record (even an
        \* empty one when every slot is omitted); without header fields the tag has no body
        tagBody == IF hs = <<>> /\ hb # <<>> THEN val(hb[1])
                   ELSE IF hs = <<>> THEN Extant
                   ELSE Rec(<<>>, hdrItems)
        \* (an absent optional attribute field is written, with an empty body)
        as      == idx("attr")
        attrs   == <<Attr(tagName, tagBody)>> \o [j \in 1..Len(as) |-> Attr(live[as[j]].name, val(as[j]))]
        \* (only labelled slots are omitted when absent; a positional item is written as extant)
        ss      == SelectSeq(idx("slot"), LAMBDA i : live[i].name = "" \/ ~IsNone(live[i].ty, xs[i]))
        items   == [j \in 1..Len(ss) |-> IF live[ss[j]].name = "" THEN Item(val(ss[j]))
                                          ELSE Slot(Txt(live[ss[j]].name), val(ss[j]))]
    IN  IF hasBody
        THEN LET bv == val(idx("body")[1]) IN
             IF IsRec(bv) THEN Rec(attrs \o bv.attrs, bv.items) ELSE Rec(attrs, <<Item(bv)>>)
        ELSE Rec(attrs, items)
RenderDesc(D, x) ==
    CASE D.kind = "struct"  -> RenderStruct(D.tag, D.fields, x.v)
      [] D.kind = "enum"    -> RenderStruct(D.variants[x.var].tag, D.variants[x.var].fields, x.v)
      [] D.kind = "newtype" -> Render(D.field.ty, x.v[1])
      [] D.kind = "plain"   -> Render(D.ty, x)
Render(t, x) ==
    CASE t.c = "prim"  -> x
      [] t.c = "opt"   -> IF x.k = "none" THEN Extant ELSE Render(t.e, x.v[1])
      [] t.c = "quant" -> IF x.k = "inf" THEN Txt("infinite") ELSE Render(t.e, x.v[1])
      [] t.c = "vec"   -> Rec(<<>>, [i \in 1..Len(x.v) |-> Item(Render(t.e, x.v[i]))])
      [] t.c = "map"   -> Rec(<<>>, [i \in 1..Len(x.v) |-> Slot(Render(t.key, x.v[i][1]), Render(t.val, x.v[i][2]))])
      [] t.c = "tuple" -> Rec(<<>>, [i \in 1..Len(x.v) |-> Item(Render(t.es[i], x.v[i]))])
      [] t.c = "named" -> RenderDesc(TypeOf(t.n), x)

RenderKey(key, x) == RenderDesc(TypeOf(key), x)

(***************************************************************************)
(* 5. Mutation operators.  Local(op, v) = the results of applying op at    *)
(*    node v itself; MutAt(op, v, depth) = at exactly one node of v.       *)
(***************************************************************************)
MutOps == {"dropItem", "dupItem", "swapItems", "dropAttr", "dupAttr", "swapAttrs", "wrongTag", "extraAttr",
           "extraItem", "renameKey", "unslot", "slotify", "wrongKind", "wrap", "unwrap"}

Unknown == "zzz"
KindPool == {Extant, Sym("i", "0"), Sym("n", "0"), Sym("g", "0"), Sym("f", "0"), Sym("b", "0"), Sym("s", "0")}

Local(op, v) ==
    IF IsRec(v) THEN
      LET na == Len(v.attrs)
          ni == Len(v.items) IN
      CASE op = "dropItem"  -> {Rec(v.attrs, RemoveAt(v.items, i)) : i \in 1..ni}
        [] op = "dupItem"   -> {Rec(v.attrs, InsertAt(v.items, i, v.items[i])) : i \in 1..ni}
        [] op = "swapItems" -> {Rec(v.attrs, SwapAt(v.items, i, j)) : i \in 1..ni, j \in 1..ni} \ {v}
        [] op = "dropAttr"  -> {Rec(RemoveAt(v.attrs, i), v.items) : i \in 1..na}
        [] op = "dupAttr"   -> {Rec(InsertAt(v.attrs, i, v.attrs[i]), v.items) : i \in 1..na}
        [] op = "swapAttrs" -> {Rec(SwapAt(v.attrs, i, j), v.items) : i \in 1..na, j \in 1..na} \ {v}
        [] op = "wrongTag"  -> IF na = 0 THEN {} ELSE {Rec(ReplaceAt(v.attrs, 1, Attr(Unknown, v.attrs[1].v)), v.items)}
        [] op = "extraAttr" -> {Rec(InsertAt(v.attrs, i, Attr(Unknown, b)), v.items) :
                                  i \in 1..(na + 1), b \in {Extant, Sym("i", "0")}}
        [] op = "extraItem" -> {Rec(v.attrs, Append(v.items, it)) : it \in {Slot(Txt(Unknown), Sym("i", "0")), Item(Sym("i", "0"))}}
        [] op = "renameKey" -> {Rec(v.attrs, ReplaceAt(v.items, i, Slot(Txt(Unknown), v.items[i].v))) :
                                  i \in {j \in 1..ni : v.items[j].slot}}
        [] op = "unslot"    -> {Rec(v.attrs, ReplaceAt(v.items, i, Item(v.items[i].v))) : i \in {j \in 1..ni : v.items[j].slot}}
        [] op = "slotify"   -> {Rec(v.attrs, ReplaceAt(v.items, i, Slot(Txt(Unknown), v.items[i].v))) :
                                  i \in {j \in 1..ni : ~v.items[j].slot}}
        [] op = "wrongKind" -> {Extant, Sym("i", "0")}
        [] op = "wrap"      -> {Rec(<<>>, <<Item(v)>>)}
        [] op = "unwrap"    -> IF na = 0 /\ ni = 1 /\ ~v.items[1].slot THEN {v.items[1].v} ELSE {}
        [] OTHER            -> {}
    ELSE
      CASE op = "wrongKind" -> {l \in KindPool : l.k # v.k} \cup {Rec(<<>>, <<>>)}
        [] op = "wrap"      -> {Rec(<<>>, <<Item(v)>>)}
        [] OTHER            -> {}

RECURSIVE MutAt(_, _, _)
MutAt(op, v, depth) ==
    Local(op, v) \cup
    (IF IsRec(v) /\ depth > 0 THEN
        UNION {{Rec(ReplaceAt(v.attrs, i, Attr(v.attrs[i].n, m)), v.items) : m \in MutAt(op, v.attrs[i].v, depth - 1)}
                       : i \in 1..Len(v.attrs)}
        \cup UNION {{Rec(v.attrs, ReplaceAt(v.items, i, [v.items[i] EXCEPT !.v = m])) : m \in MutAt(op, v.items[i].v, depth - 1)}
                       : i \in 1..Len(v.items)}
        \cup UNION {{Rec(v.attrs, ReplaceAt(v.items, i, [v.items[i] EXCEPT !.key = m])) : m \in MutAt(op, v.items[i].key, depth - 1)}
                       : i \in {j \in 1..Len(v.items) : v.items[j].slot}}
     ELSE {})

(***************************************************************************)
(* 6. Read: the reference reader, over model values (the events the        *)
(*    bridge feeds to the recognizers).  Result [ok, x].                   *)
(***************************************************************************)
Fail  == [ok |-> FALSE]
Ok(x) == [ok |-> TRUE, x |-> x]

IntClasses == {"i", "n", "g", "h", "G", "N", "B", "M", "T", "U", "z", "Z", "q", "c", "L"}
ReadPrim(p, v) ==
    LET acc == CASE p \in {"i32", "i32w", "i32c", "i32k"} -> {"i", "n", "z", "q", "Z", "c"}
                 [] p \in {"i64", "i64w"} -> {"i", "n", "g", "h", "N", "T", "U", "z", "q", "Z", "c", "L"}
                 [] p \in {"u32", "u32w"} -> {"i", "h", "z", "q", "Z", "c"}
                 [] p \in {"u64", "u64w", "usize", "secs"} -> {"i", "g", "h", "G", "T", "z", "q", "Z", "c", "L"}
                 [] p \in {"f64", "f64w"} -> {"f"} \cup IntClasses
                 [] p \in {"bool", "boolc"} -> {"b"}
                 [] p \in {"string", "stringw", "stringc", "text"} -> {"s", "t", "r", "S"}
                 [] p = "nzusize" -> {"i", "q", "g", "h", "G", "L", "c"}
                 [] p = "uri"    -> {"r", "s", "t"}
                 [] p = "bigint" -> IntClasses
                 [] p = "biguint" -> {"i", "g", "h", "G", "B", "T", "z", "q", "Z", "c", "L"}
                 [] p = "blob"   -> {"d", "D"}
                 [] p = "wblob"  -> {"d", "D"}
                 [] p = "wstr"   -> {"s", "t", "r", "S"}
                 [] p = "unit"   -> {"x"}
                 \* (any micro-second count within chrono's range: not i64::MAX / MIN, not beyond i64)
                 [] p = "timestamp" -> {"T", "U", "i", "n", "g", "h", "z", "q", "Z", "c"}
                 [] p = "nanos"  -> {"z", "i", "h", "q", "Z", "c"}
                 [] p = "level"  -> {"t"}
                 [] p = "value"  -> {"x", "f", "b", "s", "t", "r", "d", "S", "D", "rec"} \cup IntClasses
    IN  IF v.k \in acc /\ (p = "level" => v.s \in LevelNames) THEN Ok(v) ELSE Fail

\* simple = a single event (RecognizerReadable::is_simple)
IsSimple(t) == t.c = "prim" /\ t.p # "value"

RECURSIVE Read(_, _)
\* results of reading each element of a sequence of values with one type
ReadAll(t, vs) == [i \in 1..Len(vs) |-> Read(t, vs[i])]
AllOk(rs) == \A i \in 1..Len(rs) : rs[i].ok
Xs(rs) == [i \in 1..Len(rs) |-> rs[i].x]

\* a value in the body of an attribute: RecognizerReadable::make_attr_recognizer.  From a model value the
\* bridge feeds the events of the value followed by EndAttribute.
ReadAttrBody(t, hv) ==
    CASE t.c = "opt" -> IF hv = Extant /\ ~(t.e.c = "prim" /\ t.e.p = "value") THEN Ok(NoneI)
                        ELSE LET r == (IF t.e.c = "vec" \/ t.e.c = "map" THEN Fail ELSE Read(t.e, hv)) IN
                             IF r.ok THEN Ok(SomeI(r.x)) ELSE Fail
      \* CollaspsibleRec: the items directly in the attribute (a single value, from a model value) or one record
      [] t.c = "vec" -> IF IsRec(hv) /\ hv.attrs = <<>> THEN Read(t, hv)
                        ELSE LET r == Read(t.e, hv) IN IF r.ok THEN Ok(VecI(<<r.x>>)) ELSE Fail
      \* HashMapRecognizer::new_attr expects the entries directly in the attribute: never what the bridge feeds
      \* (finding F1; repaired, it is collapsible like Vec)
      [] t.c = "map" -> IF "F1" \in Defects THEN Fail
                        ELSE IF IsRec(hv) /\ hv.attrs = <<>> THEN Read(t, hv) ELSE Fail
      [] OTHER -> Read(t, hv)

\* the value of the field f if it is absent from the document
Absent(f) == IF f.ty.c = "opt" THEN Ok(NoneI)
             ELSE IF Lenient(f) THEN Ok(f.dflt)       \* hand-written readers: unwrap_or_default
             ELSE Fail

\* header of a struct: hbF = <<field>> or <<>>, hsF = header slot fields ; hv = body of the tag attribute.
\* result: [ok, hb: <<x>> or <<>>, hs: sequence of x]
ReadHeader(hbF, hsF, hv) ==
    LET noHdr == hbF = <<>> /\ hsF = <<>>
        absentAll == [i \in 1..Len(hsF) |-> Absent(hsF[i])]
        \* A: the record form  { hbody?, name: v, ... }
        recForm ==
            IF IsRec(hv) /\ hv.attrs = <<>> THEN
               LET its   == hv.items
                   \* HeaderRecognizer (ExpectingBody) feeds the FIRST item to the header body recognizer whatever it is: an
                   \* absent body is only recognisable by the extant placeholder the writer puts there; a slot in first
                   \* position is not a body
                   first == hbF # <<>> /\ its # <<>>
                   \* (finding F16: a model value as header body next to header slots is not readable from the model)
                   hbr   == IF hbF = <<>> THEN <<>>
                            ELSE IF hbF[1].ty = VAL /\ hsF # <<>> /\ "F16" \in Defects THEN <<Fail>>
                            ELSE IF first THEN (IF its[1].slot THEN <<Fail>> ELSE <<Read(hbF[1].ty, its[1].v)>>)
                            ELSE <<Absent(hbF[1])>>
                   rest  == IF first THEN Tail(its) ELSE its
                   names == [i \in 1..Len(hsF) |-> hsF[i].name]
                   known == \A i \in 1..Len(rest) : rest[i].slot /\ rest[i].key.k = "t" /\ rest[i].key.s \in Range(names)
                   occ(nm) == {i \in 1..Len(rest) : rest[i].key.s = nm}
                   slotr == [i \in 1..Len(hsF) |->
                               IF Cardinality(occ(hsF[i].name)) = 0 THEN Absent(hsF[i])
                               ELSE IF Cardinality(occ(hsF[i].name)) > 1 THEN Fail
                               ELSE Read(hsF[i].ty, rest[CHOOSE j \in occ(hsF[i].name) : TRUE].v)]
               IN IF known /\ AllOk(hbr) /\ AllOk(slotr) THEN [ok |-> TRUE, hb |-> Xs(hbr), hs |-> Xs(slotr)] ELSE Fail
            ELSE Fail
        \* B: only a header body: the tag body is read as the body of an attribute
        flat == IF hbF # <<>> /\ hsF = <<>> THEN
                   LET r == ReadAttrBody(hbF[1].ty, hv) IN
                   IF r.ok THEN [ok |-> TRUE, hb |-> <<r.x>>, hs |-> Xs(absentAll)] ELSE Fail
                ELSE Fail
        \* C: a header body and slots, but the tag body is a single value (not a record): the body, all slots absent
        single == IF hbF # <<>> /\ ~(IsRec(hv) /\ hv.attrs = <<>>) /\ AllOk(absentAll) THEN
                     LET r == Read(hbF[1].ty, hv) IN
                     IF r.ok THEN [ok |-> TRUE, hb |-> <<r.x>>, hs |-> Xs(absentAll)] ELSE Fail
                  ELSE Fail
    IN  IF noHdr THEN (IF hv = Extant THEN [ok |-> TRUE, hb |-> <<>>, hs |-> <<>>] ELSE Fail)
        ELSE IF hbF # <<>> /\ hsF = <<>> THEN flat
        ELSE IF recForm.ok THEN recForm ELSE single

\* the body of a record delegated to a field of type t (DelegateStructRecognizer -> make_body_recognizer)
RECURSIVE ReadBody(_, _, _)
ReadBody(t, attrs, items) ==
    IF t.c = "opt" THEN
        \* FirstOf(EmptyBodyRecognizer, the body recognizer of the element): an empty body is None (also for an element
        \* that is itself an empty collection: finding F15); the writer's rendering of None, a single extant item, is
        \* not accepted by EmptyBodyRecognizer (finding F14)
        IF attrs = <<>> /\ items = <<>> THEN Ok(NoneI)
        ELSE IF attrs = <<>> /\ items = <<Item(Extant)>> THEN (IF "F14" \in Defects THEN Fail ELSE Ok(NoneI))
        ELSE LET r == ReadBody(t.e, attrs, items) IN IF r.ok THEN Ok(SomeI(r.x)) ELSE Fail
    ELSE IF IsSimple(t) THEN
        IF attrs = <<>> /\ Len(items) = 1 /\ ~items[1].slot THEN Read(t, items[1].v) ELSE Fail
    ELSE IF t.c = "prim" /\ t.p = "value" THEN
        \* DelegateBodyMaterializer: a single value item is that value, an empty body is extant
        IF attrs = <<>> /\ Len(items) = 1 /\ ~items[1].slot THEN Ok(items[1].v)
        ELSE IF attrs = <<>> /\ items = <<>> THEN Ok(Extant) ELSE Ok(Rec(attrs, items))
    \* (finding F12: Duration / RetryStrategy ::make_body_recognizer expect the value wrapped in a record body)
    ELSE IF t \in {Named("Duration"), Named("RetryStrategy")} /\ "F12" \in Defects THEN Fail
    ELSE Read(t, Rec(attrs, items))

ReadStruct(tag, fields, v) ==
    IF ~IsRec(v) \/ v.attrs = <<>> THEN Fail ELSE
    LET live    == Live(fields)
        n       == Len(live)
        a1      == v.attrs[1]
        rest    == Tail(v.attrs)
        hasBody == HasRole(live, "body")
        tagOk   == IF HasRole(live, "tag") THEN a1.n \in LevelNames ELSE a1.n = tag
        isHdr(f) == f.role = "header" \/ (hasBody /\ f.role = "slot")
        hbI     == SelectIdx(live, LAMBDA f : f.role = "hbody", 1)
        hsI     == SelectIdx(live, isHdr, 1)
        hdr     == ReadHeader([j \in 1..Len(hbI) |-> live[hbI[j]]], [j \in 1..Len(hsI) |-> live[hsI[j]]], a1.v)
        atI     == SelectIdx(live, LAMBDA f : f.role = "attr", 1)
        atNames == {live[atI[j]].name : j \in 1..Len(atI)}
        \* own attributes: up to the first one that is not an attr field (the rest goes to the body field)
        firstForeign == IF \E i \in 1..Len(rest) : rest[i].n \notin atNames
                        THEN CHOOSE i \in 1..Len(rest) : rest[i].n \notin atNames /\ \A j \in 1..(i - 1) : rest[j].n \in atNames
                        ELSE Len(rest) + 1
        own     == SubSeq(rest, 1, firstForeign - 1)
        foreign == SubSeq(rest, firstForeign, Len(rest))
        occA(nm) == {i \in 1..Len(own) : own[i].n = nm}
        atr(i)  == IF Cardinality(occA(live[i].name)) = 0 THEN Absent(live[i])
                   ELSE IF Cardinality(occA(live[i].name)) > 1 THEN Fail
                   ELSE ReadAttrBody(live[i].ty, own[CHOOSE j \in occA(live[i].name) : TRUE].v)
        slI     == SelectIdx(live, LAMBDA f : f.role = "slot" /\ ~hasBody, 1)
        labelled == \A j \in 1..Len(slI) : live[slI[j]].name # ""
        slNames == {live[slI[j]].name : j \in 1..Len(slI)}
        itemsOk == IF hasBody THEN TRUE
                   ELSE IF labelled
                   THEN \A i \in 1..Len(v.items) : v.items[i].slot /\ v.items[i].key.k = "t" /\ v.items[i].key.s \in slNames
                   ELSE Len(v.items) <= Len(slI) /\ \A i \in 1..Len(v.items) : ~v.items[i].slot
        occS(nm) == {i \in 1..Len(v.items) : v.items[i].key.s = nm}
        pos(i)  == CHOOSE j \in 1..Len(slI) : slI[j] = i
        slr(i)  == IF labelled
                   THEN IF Cardinality(occS(live[i].name)) = 0 THEN Absent(live[i])
                        ELSE IF Cardinality(occS(live[i].name)) > 1 /\ ~Lenient(live[i]) THEN Fail
                        \* (lenient readers: every occurrence is read, the last one wins)
                        ELSE LET js == occS(live[i].name)
                                 last == CHOOSE j \in js : \A k \in js : k <= j
                             IN IF \A j \in js : Read(live[i].ty, v.items[j].v).ok
                                THEN Read(live[i].ty, v.items[last].v) ELSE Fail
                   ELSE IF pos(i) <= Len(v.items) THEN Read(live[i].ty, v.items[pos(i)].v) ELSE Absent(live[i])
        hpos(i, I) == CHOOSE j \in 1..Len(I) : I[j] = i
        res(i)  == CASE live[i].role = "tag"    -> Ok(Txt(a1.n))
                     [] live[i].role = "hbody"  -> Ok(hdr.hb[1])
                     [] isHdr(live[i])          -> Ok(hdr.hs[hpos(i, hsI)])
                     [] live[i].role = "attr"   -> atr(i)
                     [] live[i].role = "body"   -> ReadBody(live[i].ty, foreign, v.items)
                     [] OTHER                   -> slr(i)
    IN  IF tagOk /\ hdr.ok /\ itemsOk /\ (~hasBody => foreign = <<>>)
        THEN LET rs == [i \in 1..n |-> res(i)] IN IF AllOk(rs) THEN Ok(Xs(rs)) ELSE Fail
        ELSE Fail

ReadDesc(D, v) ==
    CASE D.kind = "struct"  -> LET r == ReadStruct(D.tag, D.fields, v) IN IF r.ok THEN Ok(StructI(0, r.x)) ELSE Fail
      [] D.kind = "enum"    -> IF ~IsRec(v) \/ v.attrs = <<>> THEN Fail
                               ELSE LET c == {n \in 1..Len(D.variants) : D.variants[n].tag = v.attrs[1].n} IN
                                    IF c = {} THEN Fail
                                    ELSE LET n == CHOOSE m \in c : TRUE
                                             r == ReadStruct(D.variants[n].tag, D.variants[n].fields, v)
                                         IN IF r.ok THEN Ok(StructI(n, r.x)) ELSE Fail
      [] D.kind = "newtype" -> LET r == Read(D.field.ty, v) IN IF r.ok THEN Ok(StructI(0, <<r.x>>)) ELSE Fail
      [] D.kind = "plain"   -> Read(D.ty, v)

Read(t, v) ==
    CASE t.c = "prim"  -> ReadPrim(t.p, v)
      \* OptionRecognizer: an extant value is first offered to the inner recognizer; None only if that refuses it
      \* (so for Option<Option<_>>, Option<Value>, Option<()> an extant value is Some(..))
      [] t.c = "opt"   -> IF v = Extant
                          THEN LET r == Read(t.e, v) IN IF r.ok THEN Ok(SomeI(r.x)) ELSE Ok(NoneI)
                          ELSE LET r == Read(t.e, v) IN IF r.ok THEN Ok(SomeI(r.x)) ELSE Fail
      [] t.c = "quant" -> IF v = Txt("infinite") THEN Ok(InfI)
                          ELSE LET r == Read(t.e, v) IN IF r.ok THEN Ok(FinI(r.x)) ELSE Fail
      [] t.c = "vec"   -> IF IsRec(v) /\ v.attrs = <<>> /\ \A i \in 1..Len(v.items) : ~v.items[i].slot
                          THEN LET rs == ReadAll(t.e, [i \in 1..Len(v.items) |-> v.items[i].v]) IN
                               IF AllOk(rs) THEN Ok(VecI(Xs(rs))) ELSE Fail
                          ELSE Fail
      [] t.c = "map"   -> IF IsRec(v) /\ v.attrs = <<>> /\ \A i \in 1..Len(v.items) : v.items[i].slot
                          THEN LET ks == ReadAll(t.key, [i \in 1..Len(v.items) |-> v.items[i].key])
                                   vs == ReadAll(t.val, [i \in 1..Len(v.items) |-> v.items[i].v])
                                   \* a later entry with the same key replaces the earlier one
                                   keep == SelectSeq([i \in 1..Len(v.items) |-> i],
                                                     LAMBDA i : \A j \in (i + 1)..Len(v.items) : v.items[j].key # v.items[i].key)
                               IN IF AllOk(ks) /\ AllOk(vs)
                                  THEN Ok(MapI([j \in 1..Len(keep) |-> <<ks[keep[j]].x, vs[keep[j]].x>>])) ELSE Fail
                          ELSE Fail
      [] t.c = "tuple" -> IF IsRec(v) /\ v.attrs = <<>> /\ Len(v.items) = Len(t.es) /\ \A i \in 1..Len(v.items) : ~v.items[i].slot
                          THEN LET rs == [i \in 1..Len(t.es) |-> Read(t.es[i], v.items[i].v)] IN
                               IF AllOk(rs) THEN Ok(TupleI(Xs(rs))) ELSE Fail
                          ELSE Fail
      [] t.c = "named" -> ReadDesc(TypeOf(t.n), v)

ReadKey(key, v) == ReadDesc(TypeOf(key), v)

(***************************************************************************)
(* 7. The laws (P), over one row of the recorded observation table.        *)
(*                                                                         *)
(* instance row (x = the typed value):                                     *)
(*   rt   try_from_value(as_value(x)) accepted,  rt_eq  ... and = x        *)
(*   rtc / rtc_eq   the same through into_value / try_convert              *)
(*   mp / mp_eq     read_from_msg_pack(write msgpack(x)) accepted / = x    *)
(* document row (s = a Recon text, well-formed or schema violating):       *)
(*   p    s parses as a model value                                        *)
(*   d    parse_recognize::<T>(s) accepted,   vd = id of the value         *)
(*   m    parse |> try_from_value accepted,   vm = id of the value         *)
(*   c    parse |> try_convert accepted,      vc = id of the value         *)
(*   isx  the text is a printer's output for the instance with id vx and   *)
(*        the parser's model of it is as_value of that instance            *)
(***************************************************************************)
LawModelRoundTrip(r) == r.rt /\ r.rt_eq /\ r.rtc /\ r.rtc_eq
LawMsgPackRoundTrip(r) == r.mp /\ r.mp_eq
LawInstance(r) == LawModelRoundTrip(r) /\ LawMsgPackRoundTrip(r)

LawPathsAgree(r) == r.p => /\ r.d = r.m
                           /\ (r.d => r.vd = r.vm)
LawConvertAgrees(r) == r.p => (r.c = r.m /\ (r.c => r.vc = r.vm))
\* a text no model value can be parsed from is accepted by neither path
LawUnparseable(r) == ~r.p => ~r.d
\* the text printed for a value reads back as that value, on both paths (a consequence of the
\* model round trip and of the agreement of the paths when the text's model is as_value(x))
LawPrinted(r) == r.isx => (r.p /\ r.d /\ r.m /\ r.vd = r.vx /\ r.vm = r.vx)
LawDocument(r) == LawPathsAgree(r) /\ LawConvertAgrees(r) /\ LawUnparseable(r) /\ LawPrinted(r)

LawsHold(r) == IF r.kind = "inst" THEN LawInstance(r) ELSE LawDocument(r)
\* which law a row breaks (for the report)
Broken(r) == IF r.kind = "inst"
             THEN (IF LawModelRoundTrip(r) THEN <<>> ELSE <<"ModelRoundTrip">>)
                  \o (IF LawMsgPackRoundTrip(r) THEN <<>> ELSE <<"MsgPackRoundTrip">>)
             ELSE (IF LawPathsAgree(r) THEN <<>> ELSE <<"PathsAgree">>)
                  \o (IF LawConvertAgrees(r) THEN <<>> ELSE <<"ConvertAgrees">>)
                  \o (IF LawUnparseable(r) THEN <<>> ELSE <<"Unparseable">>)
                  \o (IF LawPrinted(r) THEN <<>> ELSE <<"Printed">>)
=============================================================================

------------------------------ MODULE ServerPlane ------------------------------
(* Mechanism model M of the server runtime's agent management
   (server/swimos_server_app/src/server/runtime/mod.rs: run_inner / Agents::resolve_agent / remove_agent /
   Routes::find_route / register_remote / attach_agent; the remote's incoming task of swimos_remote as far as it
   decides where an envelope goes: IncomingTask.agent_routes + connect_agent_route), with the properties P1-P5 as
   invariants / action properties.

   One action per step of the server task:
     connect        NewConnection: a remote is registered (register_remote)
     find_req       the remote's incoming task has no (usable) route for the node of the next envelope and asks the server
     forward        ... or has one and writes the envelope into the instance's channel
     start/resolve/ FindRoute: Agents::resolve_agent - entry present -> attach to it; absent -> Routes::find_route (FIRST
     not_found/       match in registration order); match -> new instance registered in the SAME step (Entry::Vacant ->
     fail_route       insert), no match -> NoSuchAgent (@unlinked(..)@nodeNotFound unless the envelope is a command);
                      plane stopping -> FailRoute (nothing is answered)
     inst_start     the new instance finished initialising (state restored from the store when persistence is on)
     attach         attach_agent: the running instance accepted the remote; the pending envelope is forwarded
     attach_fail    attach_agent on an instance that no longer accepts attachments (stopping / finished, not yet removed):
                    the promise is dropped and the remote's incoming task ends - finding KS1
     agent_read     the instance handles the next envelope (link / unlink: the runtime; sync / command: the lane sees it)
     emit           the runtime passes the lane's next answer on: an event to the remotes linked NOW, a sync answer to its
                    requester (which links it implicitly - after any unlink that overtook it)
     stop_begin     an instance begins to stop (inactivity, failure, plane stopping): links are closed, attachments refused
     stop_end       ... its task finishes
     reap           AgentStopped: Agents::remove_agent
     remote_end     RemoteStopped after the peer closed
     stop_remotes / remote_stop / server_end   the shutdown sequence
   Environment: connect, send, disconnect, timeout (an inactivity period passes), fail (the agent fails), release (an
   instance that holds its termination is let go), shutdown.                                                          *)
EXTENDS Naturals, Sequences, FiniteSets, TLC

CONSTANTS Remotes,        \* remote ids
          URIs,           \* names of the node URIs used (strings); Segs gives their segments
          Segs,           \* [URIs -> Seq(STRING)]
          Routes,         \* the route table in registration order: Seq(Seq([t: {"lit","par"}, s: STRING]))
          Ops,            \* envelope kinds the environment uses (subset of {"link","sync","command","unlink"})
          MaxInst,        \* instances per node URI (bound)
          MaxSend,        \* bound on envelopes sent (only used by the Bound constraint)
          MaxBurst,       \* envelopes written back to back before the system settles (Settled exploration)
          Persist,        \* BOOLEAN: a store is configured
          Hold,           \* BOOLEAN: instances do not finish stopping before the environment releases them
          AtomicResolve,  \* TRUE: as the code (check + registration in one step); FALSE: negative control
          Findings        \* open findings the properties excuse (subset of {"KS1"})

VARIABLES srv,        \* "run" | "stopAgents" | "stopRemotes" | "done"
          rem,        \* [Remotes -> "none" | "open" | "gone"]
          peerShut,   \* remotes whose peer has closed its end
          wire,       \* [Remotes -> Seq(envelope | close marker)] written by the peer, not yet taken by the remote task
          pend,       \* [Remotes -> envelope | NoEnv] the envelope the remote's incoming task is resolving
          cache,      \* [Remotes -> [URIs -> 0..MaxInst]] IncomingTask.agent_routes (instance number the writer leads to)
          findq,      \* Seq([r, u]) FindNode requests
          resolving,  \* (negative control only) requests that passed the "is one running?" check
          chan,       \* [URIs -> 0..MaxInst] Agents.agent_channels
          cnt,        \* [URIs -> 0..MaxInst] instances created so far
          ist,        \* [URIs \X (1..MaxInst) -> "free" | "starting" | "running" | "stopping" | "done" | "reaped"]
          imeta,      \* [URIs \X (1..MaxInst) -> [route, params]] what the instance was started with
          att,        \* set of [r, u, n]: attach_agent tasks
          inbox,      \* [URIs \X (1..MaxInst) -> Seq([r, u, op])]
          linked,     \* [URIs -> SUBSET Remotes]
          cur,        \* [URIs \X (1..MaxInst) -> 0..MaxInst] the instance's state: number of the instance that wrote it
          evq,        \* [URIs \X (1..MaxInst) -> Seq(0..MaxInst)] events the lane produced, not yet broadcast by the runtime
          store,      \* [URIs -> 0..MaxInst] persisted state
          due,        \* instances that have to begin stopping
          nohold,     \* instances that failed (their task is over: nothing to hold)
          released,   \* instances released by the environment
          lost,       \* ghost: reasons for which envelopes were dropped
          ks,         \* ghost: remotes closed by attach_fail
          sent,       \* ghost: number of envelopes sent
          burst,      \* envelopes written since the system last moved
          lastAct     \* the step just taken and what it makes observable

vars == <<srv, rem, peerShut, wire, pend, cache, findq, resolving, chan, cnt, ist, imeta, att, inbox, linked, cur, evq, store,
          due, nohold, released, lost, ks, sent, burst, lastAct>>

Insts == URIs \X (1..MaxInst)
NoEnv == [u |-> "-", op |-> "-"]
CloseMark == [u |-> "-", op |-> "close"]

\* ------------------------------------------------------------------------------------------------ routing (C18)
MatchP(p, s) == /\ Len(p) = Len(s)
                /\ \A j \in 1..Len(p) : p[j].t = "lit" => p[j].s = s[j]
Matching(u) == {i \in 1..Len(Routes) : MatchP(Routes[i], Segs[u])}
Min(S) == CHOOSE x \in S : \A y \in S : x <= y
FindRoute(u) == IF Matching(u) = {} THEN 0 ELSE Min(Matching(u))          \* Routes::find_route: the FIRST match
ParNames(p) == {p[j].s : j \in {k \in 1..Len(p) : p[k].t = "par"}}
Unapply(p, s) == [nm \in ParNames(p) |-> s[CHOOSE j \in 1..Len(p) : p[j].t = "par" /\ p[j].s = nm]]
Meta(u) == [route |-> FindRoute(u), params |-> Unapply(Routes[FindRoute(u)], Segs[u])]
NoMeta == [route |-> 0, params |-> <<>>]

\* ------------------------------------------------------------------------------------------------ helpers
RECURSIVE SetToSeq(_)
SetToSeq(S) == IF S = {} THEN <<>> ELSE LET x == CHOOSE y \in S : TRUE IN <<x>> \o SetToSeq(S \ {x})
Open(r) == rem[r] = "open"
Live(i) == ist[i] \in {"starting", "running", "stopping"}
Recv(r, kind, u, b) == [k |-> "recv", r |-> r, kind |-> kind, u |-> u, b |-> b]
\* what the linked remotes of u read when the instance closes its links
\* (while the plane is stopping the remote's outgoing task may see its stop signal before the frame: `opt`)
Unlinks(u) == [j \in 1..Cardinality({r \in linked[u] : Open(r)}) |->
                 [k |-> "recv", r |-> SetToSeq({r \in linked[u] : Open(r)})[j], kind |-> "unlinked", u |-> u, b |-> "stop",
                  opt |-> (srv # "run")]]

Init == /\ srv = "run"
        /\ rem = [r \in Remotes |-> "none"]
        /\ peerShut = {}
        /\ wire = [r \in Remotes |-> <<>>]
        /\ pend = [r \in Remotes |-> NoEnv]
        /\ cache = [r \in Remotes |-> [u \in URIs |-> 0]]
        /\ findq = <<>>
        /\ resolving = {}
        /\ chan = [u \in URIs |-> 0]
        /\ cnt = [u \in URIs |-> 0]
        /\ ist = [i \in Insts |-> "free"]
        /\ imeta = [i \in Insts |-> NoMeta]
        /\ att = {}
        /\ inbox = [i \in Insts |-> <<>>]
        /\ linked = [u \in URIs |-> {}]
        /\ cur = [i \in Insts |-> 0]
        /\ evq = [i \in Insts |-> <<>>]
        /\ store = [u \in URIs |-> 0]
        /\ due = {}
        /\ nohold = {}
        /\ released = {}
        /\ lost = {}
        /\ ks = {}
        /\ sent = 0
        /\ burst = 0
        /\ lastAct = [k |-> "init"]

\* ------------------------------------------------------------------------------------------------ environment
Connect(r) ==
    /\ srv = "run" /\ rem[r] = "none"
    /\ rem' = [rem EXCEPT ![r] = "open"]
    /\ burst' = 0
    /\ lastAct' = [k |-> "connect", r |-> r]
    /\ UNCHANGED <<srv, peerShut, wire, pend, cache, findq, resolving, chan, cnt, ist, imeta, att, inbox, linked, cur, evq, store,
                   due, nohold, released, lost, ks, sent>>

Send(r, u, op) ==
    /\ Open(r) /\ r \notin peerShut
    /\ wire' = [wire EXCEPT ![r] = Append(@, [u |-> u, op |-> op])]
    /\ sent' = sent + 1
    /\ burst' = burst + 1
    /\ lastAct' = [k |-> "send", r |-> r, u |-> u, op |-> op]
    /\ UNCHANGED <<srv, rem, peerShut, pend, cache, findq, resolving, chan, cnt, ist, imeta, att, inbox, linked, cur, evq, store,
                   due, nohold, released, lost, ks>>

Disconnect(r) ==
    /\ Open(r) /\ r \notin peerShut
    /\ peerShut' = peerShut \cup {r}
    /\ wire' = [wire EXCEPT ![r] = Append(@, CloseMark)]
    /\ burst' = 0
    /\ lastAct' = [k |-> "disconnect", r |-> r]
    /\ UNCHANGED <<srv, rem, pend, cache, findq, resolving, chan, cnt, ist, imeta, att, inbox, linked, cur, evq, store,
                   due, nohold, released, lost, ks, sent>>

Timeout ==
    /\ srv = "run"
    /\ \E i \in Insts : ist[i] = "running"
    /\ due' = due \cup {i \in Insts : ist[i] = "running"}
    /\ burst' = 0
    /\ lastAct' = [k |-> "timeout"]
    /\ UNCHANGED <<srv, rem, peerShut, wire, pend, cache, findq, resolving, chan, cnt, ist, imeta, att, inbox, linked, cur, evq,
                   store, nohold, released, lost, ks, sent>>

Fail(u) ==
    /\ chan[u] # 0 /\ ist[<<u, chan[u]>>] = "running" /\ <<u, chan[u]>> \notin due
    /\ due' = due \cup {<<u, chan[u]>>}
    /\ nohold' = nohold \cup {<<u, chan[u]>>}
    /\ burst' = 0
    /\ lastAct' = [k |-> "fail", u |-> u]
    /\ UNCHANGED <<srv, rem, peerShut, wire, pend, cache, findq, resolving, chan, cnt, ist, imeta, att, inbox, linked, cur, evq,
                   store, released, lost, ks, sent>>

Release(u) ==
    /\ Hold
    /\ \E n \in 1..MaxInst : /\ ist[<<u, n>>] = "stopping" /\ <<u, n>> \notin released /\ <<u, n>> \notin nohold
                             /\ released' = released \cup {<<u, n>>}
    /\ burst' = 0
    /\ lastAct' = [k |-> "release", u |-> u]
    /\ UNCHANGED <<srv, rem, peerShut, wire, pend, cache, findq, resolving, chan, cnt, ist, imeta, att, inbox, linked, cur, evq,
                   store, due, nohold, lost, ks, sent>>

Shutdown ==
    /\ srv = "run"
    /\ srv' = "stopAgents"
    /\ due' = due \cup {i \in Insts : ist[i] = "running"}
    /\ burst' = 0
    /\ lastAct' = [k |-> "shutdown"]
    /\ UNCHANGED <<rem, peerShut, wire, pend, cache, findq, resolving, chan, cnt, ist, imeta, att, inbox, linked, cur, evq, store,
                   nohold, released, lost, ks, sent>>

\* ------------------------------------------------------------------------------------------------ the remote's incoming task
RemoteTake(r) ==
    /\ Open(r) /\ pend[r] = NoEnv /\ wire[r] # <<>>
    /\ burst' = 0
    /\ LET m == Head(wire[r]) IN
       IF m = CloseMark THEN
            \* the peer closed: the task ends, the server forgets the remote (RemoteStopped)
            /\ rem' = [rem EXCEPT ![r] = "gone"]
            /\ wire' = [wire EXCEPT ![r] = <<>>]
            /\ cache' = [cache EXCEPT ![r] = [u \in URIs |-> 0]]
            /\ linked' = [u \in URIs |-> linked[u] \ {r}]
            /\ lastAct' = [k |-> "remote_end", r |-> r, o |-> <<[k |-> "closed", r |-> r, code |-> 1000], [k |-> "eof", r |-> r]>>]
            /\ UNCHANGED <<pend, findq, inbox, lost>>
       ELSE LET c == cache[r][m.u] IN
         IF c # 0 /\ ist[<<m.u, c>>] = "running" THEN
            /\ inbox' = [inbox EXCEPT ![<<m.u, c>>] = Append(@, [r |-> r, u |-> m.u, op |-> m.op])]
            /\ wire' = [wire EXCEPT ![r] = Tail(@)]
            /\ lastAct' = [k |-> "forward", r |-> r, u |-> m.u, o |-> <<>>]
            /\ UNCHANGED <<rem, pend, cache, findq, linked, lost>>
         ELSE
            \* no writer, or writing fails (the instance dropped its end): ask the server
            /\ cache' = [cache EXCEPT ![r][m.u] = 0]
            /\ pend' = [pend EXCEPT ![r] = m]
            /\ findq' = Append(findq, [r |-> r, u |-> m.u])
            /\ wire' = [wire EXCEPT ![r] = Tail(@)]
            /\ lastAct' = [k |-> "find_req", r |-> r, u |-> m.u, o |-> <<>>]
            /\ UNCHANGED <<rem, inbox, linked, lost>>
    /\ UNCHANGED <<srv, peerShut, resolving, chan, cnt, ist, imeta, att, cur, evq, store, due, nohold, released, ks, sent>>

\* ------------------------------------------------------------------------------------------------ the server task
NewInstance(r, u) ==
    LET n == cnt[u] + 1 IN
    /\ n <= MaxInst
    /\ cnt' = [cnt EXCEPT ![u] = n]
    /\ chan' = [chan EXCEPT ![u] = n]
    /\ ist' = [ist EXCEPT ![<<u, n>>] = "starting"]
    /\ imeta' = [imeta EXCEPT ![<<u, n>>] = Meta(u)]
    /\ att' = att \cup {[r |-> r, u |-> u, n |-> n]}
    /\ lastAct' = [k |-> "start", r |-> r, u |-> u,
                   o |-> <<[k |-> "agent_run", u |-> u, route |-> Meta(u).route, params |-> Meta(u).params, n |-> n]>>]

Find ==
    /\ findq # <<>>
    /\ burst' = 0
    /\ LET q == Head(findq)
           m == pend[q.r] IN
       /\ findq' = Tail(findq)
       /\ IF srv # "run" THEN
              \* FailRoute: AgentResolutionError::PlaneStopping - the remote answers nothing
              /\ pend' = [pend EXCEPT ![q.r] = NoEnv]
              /\ lost' = lost \cup {"shutdown"}
              /\ lastAct' = [k |-> "fail_route", r |-> q.r, u |-> q.u, o |-> <<>>]
              /\ UNCHANGED <<chan, cnt, ist, imeta, att, resolving>>
          ELSE IF chan[q.u] # 0 THEN
              /\ att' = att \cup {[r |-> q.r, u |-> q.u, n |-> chan[q.u]]}
              /\ lastAct' = [k |-> "resolve", r |-> q.r, u |-> q.u, o |-> <<>>]
              /\ UNCHANGED <<pend, lost, chan, cnt, ist, imeta, resolving>>
          ELSE IF FindRoute(q.u) = 0 THEN
              /\ pend' = [pend EXCEPT ![q.r] = NoEnv]
              /\ lastAct' = [k |-> "not_found", r |-> q.r, u |-> q.u, op |-> m.op,
                             o |-> IF m.op # "command" /\ Open(q.r) THEN <<Recv(q.r, "unlinked", q.u, "nf")>> ELSE <<>>]
              /\ UNCHANGED <<lost, chan, cnt, ist, imeta, att, resolving>>
          ELSE IF AtomicResolve THEN
              /\ NewInstance(q.r, q.u)
              /\ UNCHANGED <<pend, lost, resolving>>
          ELSE
              \* negative control: the decision to start and the registration are separate steps
              /\ resolving' = resolving \cup {q}
              /\ lastAct' = [k |-> "check", r |-> q.r, u |-> q.u, o |-> <<>>]
              /\ UNCHANGED <<pend, lost, chan, cnt, ist, imeta, att>>
    /\ UNCHANGED <<srv, rem, peerShut, wire, cache, inbox, linked, cur, evq, store, due, nohold, released, ks, sent>>

Register(q) ==
    /\ q \in resolving
    /\ resolving' = resolving \ {q}
    /\ NewInstance(q.r, q.u)
    /\ burst' = 0
    /\ UNCHANGED <<srv, rem, peerShut, wire, pend, cache, findq, inbox, linked, cur, evq, store, due, nohold, released, lost, ks, sent>>

InstStart(i) ==
    /\ ist[i] = "starting"
    /\ ist' = [ist EXCEPT ![i] = "running"]
    /\ cur' = [cur EXCEPT ![i] = IF Persist THEN store[i[1]] ELSE 0]
    /\ UNCHANGED evq
    /\ due' = IF srv # "run" THEN due \cup {i} ELSE due
    /\ burst' = 0
    /\ lastAct' = [k |-> "inst_start", u |-> i[1], o |-> <<[k |-> "started", u |-> i[1], n |-> i[2], restored |-> cur'[i]]>>]
    /\ UNCHANGED <<srv, rem, peerShut, wire, pend, cache, findq, resolving, chan, cnt, imeta, att, inbox, linked, store,
                   nohold, released, lost, ks, sent>>

KillRemote(r) ==
    /\ rem' = [rem EXCEPT ![r] = "gone"]
    /\ wire' = [wire EXCEPT ![r] = <<>>]
    /\ pend' = [pend EXCEPT ![r] = NoEnv]
    /\ cache' = [cache EXCEPT ![r] = [u \in URIs |-> 0]]
    /\ linked' = [u \in URIs |-> linked[u] \ {r}]

Attach(a) ==
    /\ a \in att
    /\ burst' = 0
    /\ LET i == <<a.u, a.n>> IN
       IF ~Open(a.r) THEN
            /\ att' = att \ {a}
            /\ lastAct' = [k |-> "attach_drop", r |-> a.r, u |-> a.u, o |-> <<>>]
            /\ UNCHANGED <<rem, wire, pend, cache, linked, inbox, lost, ks>>
       ELSE IF ist[i] = "running" THEN
            /\ att' = att \ {a}
            /\ cache' = [cache EXCEPT ![a.r][a.u] = a.n]
            /\ inbox' = [inbox EXCEPT ![i] = Append(@, [r |-> a.r, u |-> pend[a.r].u, op |-> pend[a.r].op])]
            /\ pend' = [pend EXCEPT ![a.r] = NoEnv]
            /\ lastAct' = [k |-> "attach", r |-> a.r, u |-> a.u, o |-> <<>>]
            /\ UNCHANGED <<rem, wire, linked, lost, ks>>
       ELSE
            \* KS1: the instance does not accept attachments any more (or never will); attach_agent drops the promise,
            \* connect_agent_route returns Err, the remote's incoming task ends and the web socket is closed (1001)
            /\ ist[i] \in {"stopping", "done", "reaped"}
            /\ att' = {b \in att : b.r # a.r}
            /\ KillRemote(a.r)
            \* (while the plane is stopping the remote is about to be closed with the same code anyway: not a finding)
            /\ lost' = lost \cup {IF srv = "run" THEN "ks1" ELSE "shutdown"}
            /\ ks' = IF srv = "run" THEN ks \cup {a.r} ELSE ks
            /\ lastAct' = [k |-> "attach_fail", r |-> a.r, u |-> a.u, kf |-> IF srv = "run" THEN "KS1" ELSE "",
                           o |-> <<[k |-> "closed", r |-> a.r, code |-> 1001], [k |-> "eof", r |-> a.r]>>]
            /\ UNCHANGED inbox
    /\ UNCHANGED <<srv, peerShut, findq, resolving, chan, cnt, ist, imeta, cur, evq, store, due, nohold, released, sent>>

AgentRead(i) ==
    /\ ist[i] = "running" /\ inbox[i] # <<>> /\ i \notin due
    /\ burst' = 0
    /\ LET m == Head(inbox[i])
           u == i[1]
           n == i[2] IN
       /\ inbox' = [inbox EXCEPT ![i] = Tail(@)]
       /\ CASE m.op = "command" ->
                 /\ cur' = [cur EXCEPT ![i] = n]
                 /\ store' = IF Persist THEN [store EXCEPT ![u] = n] ELSE store
                 /\ evq' = [evq EXCEPT ![i] = Append(@, [t |-> "ev", r |-> 0, w |-> n])]
                 /\ lastAct' = [k |-> "agent_read", u |-> u, op |-> m.op,
                                o |-> <<[k |-> "deliver", u |-> u, n |-> n, op |-> "command"]>>]
                 /\ UNCHANGED linked
            [] m.op = "link" ->
                 /\ linked' = [linked EXCEPT ![u] = @ \cup {m.r}]
                 /\ lastAct' = [k |-> "agent_read", u |-> u, op |-> m.op,
                                o |-> IF Open(m.r) THEN <<Recv(m.r, "linked", u, "")>> ELSE <<>>]
                 /\ UNCHANGED <<cur, evq, store>>
            [] m.op = "sync" ->
                 \* the lane sees the request; its answer (which links the remote implicitly) passes through the runtime later
                 /\ evq' = [evq EXCEPT ![i] = Append(@, [t |-> "sync", r |-> m.r, w |-> cur[i]])]
                 /\ lastAct' = [k |-> "agent_read", u |-> u, op |-> m.op,
                                o |-> <<[k |-> "deliver", u |-> u, n |-> n, op |-> "sync"]>>]
                 /\ UNCHANGED <<cur, store, linked>>
            [] m.op = "unlink" ->
                 /\ linked' = [linked EXCEPT ![u] = @ \ {m.r}]
                 /\ lastAct' = [k |-> "agent_read", u |-> u, op |-> m.op,
                                o |-> IF m.r \in linked[u] /\ Open(m.r) THEN <<Recv(m.r, "unlinked", u, "closed")>> ELSE <<>>]
                 /\ UNCHANGED <<cur, evq, store>>
    /\ UNCHANGED <<srv, rem, peerShut, wire, pend, cache, findq, resolving, chan, cnt, ist, imeta, att, due, nohold, released,
                   lost, ks, sent>>

\* the runtime broadcasts the next event of the lane to the remotes linked NOW (a link request that was handled after
\* the command but before its event left still gets the event)
Emit(i) ==
    /\ ist[i] = "running" /\ evq[i] # <<>> /\ i \notin due
    /\ evq' = [evq EXCEPT ![i] = Tail(@)]
    /\ burst' = 0
    /\ LET u == i[1]
           x == Head(evq[i])
           tg == SetToSeq({r \in linked[u] : Open(r)}) IN
       IF x.t = "ev" THEN
            /\ lastAct' = [k |-> "emit", u |-> u, o |-> [j \in 1..Len(tg) |-> Recv(tg[j], "event", u, ToString(x.w))]]
            /\ UNCHANGED linked
       ELSE
            /\ linked' = [linked EXCEPT ![u] = @ \cup {x.r}]
            /\ lastAct' = [k |-> "emit", u |-> u,
                           o |-> IF ~Open(x.r) THEN <<>> ELSE
                                 (IF x.r \in linked[u] THEN <<>> ELSE <<Recv(x.r, "linked", u, "")>>) \o
                                 <<Recv(x.r, "event", u, ToString(x.w)), Recv(x.r, "synced", u, "")>>]
    /\ UNCHANGED <<srv, rem, peerShut, wire, pend, cache, findq, resolving, chan, cnt, ist, imeta, att, inbox, cur, store,
                   due, nohold, released, lost, ks, sent>>

StopBegin(i) ==
    /\ i \in due /\ ist[i] = "running"
    /\ due' = due \ {i}
    /\ ist' = [ist EXCEPT ![i] = "stopping"]
    /\ lost' = IF inbox[i] # <<>> THEN lost \cup {"inflight"} ELSE lost
    /\ inbox' = [inbox EXCEPT ![i] = <<>>]
    /\ linked' = [linked EXCEPT ![i[1]] = {}]
    /\ burst' = 0
    /\ lastAct' = [k |-> "stop_begin", u |-> i[1],
                   o |-> <<[k |-> IF i \in nohold THEN "failed" ELSE "stopping", u |-> i[1], n |-> i[2]]>> \o Unlinks(i[1])]
    /\ evq' = [evq EXCEPT ![i] = <<>>]
    /\ UNCHANGED <<srv, rem, peerShut, wire, pend, cache, findq, resolving, chan, cnt, imeta, att, cur, store, nohold,
                   released, ks, sent>>

StopEnd(i) ==
    /\ ist[i] = "stopping"
    /\ ~Hold \/ i \in released \/ i \in nohold
    /\ ist' = [ist EXCEPT ![i] = "done"]
    /\ burst' = 0
    /\ lastAct' = [k |-> "stop_end", u |-> i[1],
                   o |-> IF i \in nohold THEN <<>> ELSE <<[k |-> "stopped", u |-> i[1], n |-> i[2]]>>]
    /\ UNCHANGED <<srv, rem, peerShut, wire, pend, cache, findq, resolving, chan, cnt, imeta, att, inbox, linked, cur, evq, store,
                   due, nohold, released, lost, ks, sent>>

Reap(i) ==
    /\ ist[i] = "done"
    /\ ist' = [ist EXCEPT ![i] = "reaped"]
    /\ chan' = [chan EXCEPT ![i[1]] = 0]            \* agent_channels.remove(node): by name
    /\ cur' = [cur EXCEPT ![i] = 0]                 \* (nothing of the instance is left: keeps the state space small)
    /\ UNCHANGED evq
    /\ nohold' = nohold \ {i}
    /\ released' = released \ {i}
    /\ burst' = 0
    /\ lastAct' = [k |-> "reap", u |-> i[1], o |-> <<>>]
    /\ UNCHANGED <<srv, rem, peerShut, wire, pend, cache, findq, resolving, cnt, imeta, att, inbox, linked, store, due,
                   lost, ks, sent>>

StopRemotes ==
    /\ srv = "stopAgents"
    /\ \A i \in Insts : ist[i] \in {"free", "reaped"}
    /\ srv' = "stopRemotes"
    /\ burst' = 0
    /\ lastAct' = [k |-> "stop_remotes", o |-> <<>>]
    /\ UNCHANGED <<rem, peerShut, wire, pend, cache, findq, resolving, chan, cnt, ist, imeta, att, inbox, linked, cur, evq, store,
                   due, nohold, released, lost, ks, sent>>

RemoteStop(r) ==
    /\ srv = "stopRemotes" /\ Open(r)
    /\ KillRemote(r)
    /\ lost' = IF wire[r] # <<>> \/ pend[r] # NoEnv THEN lost \cup {"shutdown"} ELSE lost
    /\ burst' = 0
    /\ lastAct' = [k |-> "remote_stop", r |-> r, o |-> <<[k |-> "closed", r |-> r, code |-> 1001], [k |-> "eof", r |-> r]>>]
    /\ UNCHANGED <<srv, peerShut, findq, resolving, chan, cnt, ist, imeta, att, inbox, cur, evq, store, due, nohold, released, ks, sent>>

ServerEnd ==
    /\ srv = "stopRemotes"
    /\ \A r \in Remotes : ~Open(r)
    /\ srv' = "done"
    /\ burst' = 0
    /\ lastAct' = [k |-> "server_end", o |-> <<[k |-> "server_end"]>>]
    /\ UNCHANGED <<rem, peerShut, wire, pend, cache, findq, resolving, chan, cnt, ist, imeta, att, inbox, linked, cur, evq, store,
                   due, nohold, released, lost, ks, sent>>

EnvNext == \/ \E r \in Remotes : Connect(r) \/ Disconnect(r)
           \/ \E r \in Remotes, u \in URIs, op \in Ops : Send(r, u, op)
           \/ Timeout \/ Shutdown
           \/ \E u \in URIs : Fail(u) \/ Release(u)
SysNext == \/ \E r \in Remotes : RemoteTake(r) \/ RemoteStop(r)
           \/ Find
           \/ \E q \in resolving : Register(q)
           \/ \E i \in Insts : InstStart(i) \/ AgentRead(i) \/ Emit(i) \/ StopBegin(i) \/ StopEnd(i) \/ Reap(i)
           \/ \E a \in att : Attach(a)
           \/ StopRemotes \/ ServerEnd
Next == EnvNext \/ SysNext
Spec == Init /\ [][Next]_vars

EnvKinds == {"connect", "send", "disconnect", "timeout", "fail", "release", "shutdown"}

\* ------------------------------------------------------------------------------------------------ P
TypeOK == /\ srv \in {"run", "stopAgents", "stopRemotes", "done"}
          /\ \A r \in Remotes : rem[r] \in {"none", "open", "gone"}
          /\ \A u \in URIs : chan[u] \in 0..MaxInst /\ cnt[u] \in 0..MaxInst
          /\ \A i \in Insts : ist[i] \in {"free", "starting", "running", "stopping", "done", "reaped"}

\* P1: at any time at most one live instance per node URI
P1_OneLive == \A u \in URIs : Cardinality({n \in 1..MaxInst : Live(<<u, n>>)}) <= 1
\* ... and a new instance is only started when none is registered
P1_StartOnlyIfNone == [][lastAct'.k = "start" => \A n \in 1..MaxInst : ~Live(<<lastAct'.u, n>>) /\ ist[<<lastAct'.u, n>>] # "done"]_vars

\* P2: envelopes only ever travel towards an instance of the node they address, made from the first matching route with
\* the parameters unapply gives
P2_RightInstance == /\ \A i \in Insts : \A j \in 1..Len(inbox[i]) : inbox[i][j].u = i[1]
                    /\ \A r \in Remotes, u \in URIs : cache[r][u] # 0 => ist[<<u, cache[r][u]>>] # "free"
                    /\ \A a \in att : ist[<<a.u, a.n>>] # "free"
                    /\ \A i \in Insts : ist[i] # "free" =>
                          /\ imeta[i].route = FindRoute(i[1]) /\ imeta[i].route # 0
                          /\ imeta[i].params = Unapply(Routes[imeta[i].route], Segs[i[1]])
\* a dead instance receives nothing
P4_DeadGetsNothing == \A i \in Insts : inbox[i] # <<>> => ist[i] = "running"

\* P3: no route -> answered node-not-found exactly once (a command: not at all), nothing is started
P3_Unrouted == \A u \in URIs : FindRoute(u) = 0 => cnt[u] = 0 /\ chan[u] = 0
P3_NotFound == [][lastAct'.k = "not_found" =>
                    /\ FindRoute(lastAct'.u) = 0
                    /\ cnt' = cnt /\ ist' = ist
                    /\ Len(lastAct'.o) = IF lastAct'.op = "command" \/ ~Open(lastAct'.r) THEN 0 ELSE 1]_vars
P3_OnlyUnrouted == [][\A j \in 1..(IF "o" \in DOMAIN lastAct' THEN Len(lastAct'.o) ELSE 0) :
                        (lastAct'.o[j].k = "recv" /\ lastAct'.o[j].b = "nf") => FindRoute(lastAct'.o[j].u) = 0]_vars

\* P4: nothing is lost except what was in flight to an instance that stopped, what a closing peer / a stopping plane drops
P4_NoLoss == lost \subseteq ({"inflight", "shutdown"} \cup (IF "KS1" \in Findings THEN {"ks1"} ELSE {}))
\* a remote is closed only by its peer, by the shutdown, or by KS1
ClosedOnlyWhen == \A r \in Remotes : rem[r] = "gone" =>
                     \/ r \in peerShut \/ srv # "run"
                     \/ (r \in ks /\ "KS1" \in Findings)

\* P5: when the server task ends every instance has stopped and every remote is closed
P5_Shutdown == srv = "done" => /\ \A i \in Insts : ist[i] \in {"free", "reaped"}
                               /\ \A r \in Remotes : rem[r] # "open"
                               /\ att = {} \/ \A a \in att : ~Open(a.r)

\* liveness (thorough): the system settles, and after a shutdown the server task ends
Fairness == WF_vars(SysNext)
LiveSpec == Init /\ [][Next]_vars /\ Fairness
ShutdownCompletes == (srv = "stopAgents" /\ ~Hold) ~> (srv = "done")

Bound == sent <= MaxSend
View == <<srv, rem, peerShut, wire, pend, cache, findq, resolving, chan, cnt, ist, att, inbox, linked, cur, evq, store,
          due, nohold, released, burst>>
=============================================================================

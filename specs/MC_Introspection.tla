-------------------------- MODULE MC_Introspection --------------------------
(* Introspection + state-graph dump (see MC_Links) and, for TLC's simulation  *)
(* mode, a recorded path printed as a REPLAY line (see Sim_Links).            *)
EXTENDS Introspection, Json
CONSTANT PathLen
VARIABLE path
EdgeDump == PrintT(<<"EDGE", ToJson([s |-> View, a |-> lastAct', t |-> View'])>>)
InitDump == (lastAct.k = "init") => PrintT(<<"INIT", ToJson(View)>>)
GraphInit == Init /\ path = <<>>
GraphNext == Next /\ UNCHANGED path
SimInit == Init /\ path = <<>>
SimNext == Next /\ path' = Append(path, lastAct')
PathDump == (Len(path) = PathLen) => PrintT(<<"REPLAY", ToJson(path)>>)
SimBound == Len(path) < PathLen
=============================================================================

----------------------------- MODULE Gen_Framing -----------------------------
(***************************************************************************)
(* C10 - enumeration of the replay cases from the data model.               *)
(*                                                                         *)
(* FramingData.tla (generated from the layout table of checks/c10.py)       *)
(* gives, per codec pair, the frames of its message pool:                   *)
(*   GenFrames[i] = [codec, len (bytes of the frame), rep (belongs to the   *)
(*                   representative subset used for sequences),             *)
(*                   fields = << [role, vals] >> the corruptible fields:    *)
(*                   role "tag" with the number of undefined values of the  *)
(*                   pool, role "len" with the number of boundary values ]  *)
(* TLC enumerates (as initial states, one per case family):                 *)
(*   "cut"  every message sequence (every single message; every sequence    *)
(*          of 2..MaxFrames representatives of one codec) together with     *)
(*          every set of at most Cuts* cut points of its byte stream        *)
(*          (a cut set {a, b} = pieces a, b - a, rest) - every single       *)
(*          split point and every pair of split points, exhaustively;       *)
(*   "bad"  every (prefix of 0..1 representative frames, frame, field,      *)
(*          boundary value) corruption, delivered whole, byte by byte and    *)
(*          split right behind the corrupted field.                         *)
(* Byte-by-byte delivery and random multi-splits are behaviours of          *)
(* MC_Framing generated with `tlc -simulate`.                               *)
(***************************************************************************)
EXTENDS Naturals, Sequences, FiniteSets, TLC, Json, FramingData

CONSTANTS MaxFrames,     \* longest sequence
          CutsSingle,    \* number of simultaneous cut points enumerated for single messages (1 or 2)
          CutsPair,      \* ... for sequences of two messages
          CutsLonger     \* ... for longer sequences

VARIABLE case

Codecs == {GenFrames[i].codec : i \in 1..Len(GenFrames)}
All(c) == {i \in 1..Len(GenFrames) : GenFrames[i].codec = c}
Reps(c) == {i \in All(c) : GenFrames[i].rep}

RECURSIVE SeqLen(_, _)
SeqLen(s, k) == IF k = 0 THEN 0 ELSE GenFrames[s[k]].len + SeqLen(s, k - 1)

CutSets(L, k) == {{}} \cup {{a} : a \in 1..(L - 1)}
                      \cup (IF k >= 2 THEN {{a, b} : a \in 1..(L - 1), b \in 1..(L - 1)} ELSE {})

CutCases ==
    {[kind |-> "cut", seq |-> <<i>>, cuts |-> CutSets(GenFrames[i].len, CutsSingle)] : i \in 1..Len(GenFrames)}
    \cup UNION {{[kind |-> "cut", seq |-> s, cuts |-> CutSets(SeqLen(s, n), IF n = 2 THEN CutsPair ELSE CutsLonger)] : s \in [1..n -> Reps(c)]} :
                  n \in 2..MaxFrames, c \in Codecs}

\* the frame i with field f set to its v-th boundary value, after the prefix p
BadOf(i, p) == UNION {{[kind |-> "bad", prefix |-> p, frame |-> i, field |-> f, val |-> v] :
                          v \in 1..GenFrames[i].fields[f].vals} : f \in 1..Len(GenFrames[i].fields)}
FirstRep(c) == CHOOSE j \in Reps(c) : \A k \in Reps(c) : j <= k
BadCases == UNION {UNION {BadOf(i, p) : p \in {<<>>, <<FirstRep(GenFrames[i].codec)>>}} :
                      i \in UNION {Reps(c) : c \in Codecs}}

Init == case \in CutCases \cup BadCases
Next == UNCHANGED case

\* printing the case is the whole purpose (evaluated once per initial state)
Dump == PrintT(<<"CASE", ToJson(case)>>)
=============================================================================

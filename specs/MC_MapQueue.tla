----------------------------- MODULE MC_MapQueue -----------------------------
EXTENDS MapQueue, Json
\* Prints every transition of the state graph once (the action constraint is evaluated on
\* each successor TLC generates); lastAct and the ghost p are hidden by the VIEW.
EdgeDump == PrintT(<<"EDGE", ToJson([s |-> View, a |-> lastAct', t |-> View'])>>)
InitDump == (lastAct.k = "init") => PrintT(<<"INIT", ToJson(View)>>)

\* Take / drop case enumeration at scope TDK (0 = off): every set of present keys x kind x n,
\* with the removal M expects; TLC also checks M's answer against the documented law P.
CONSTANT TDK
TDCases == {[present |-> S, kind |-> kd, n |-> n] : S \in SUBSET (1..TDK), kd \in {"drop", "take"}, n \in 0..(TDK + 1)}
TDLawHolds == \A cs \in TDCases :
    TDLaw(cs.present, cs.kind, cs.n, {TDRemoved(cs.present, cs.kind, cs.n)[i] : i \in DOMAIN TDRemoved(cs.present, cs.kind, cs.n)})
TDDump == (lastAct.k = "init" /\ TDK > 0) =>
    \A cs \in TDCases :
        PrintT(<<"TD", ToJson([present |-> PSorted(cs.present), kind |-> cs.kind, n |-> cs.n,
                               removed |-> TDRemoved(cs.present, cs.kind, cs.n)])>>)
ASSUME TDLawHolds
=============================================================================

--------------------------- MODULE DownlinkSession ---------------------------
(***************************************************************************)
(* P for C07: "a shared downlink serves every consumer a complete, ordered *)
(* session".  A deterministic monitor over the OBSERVABLE events of one    *)
(* downlink connection (what the remote lane sent and received on the      *)
(* socket, what every consumer wrote and read).  It is a pure function     *)
(* PStep(p, e) on a record p, so that exactly the same text judges         *)
(*   - the mechanism model (DownlinkRuntime.tla: every action feeds its    *)
(*     observable events through PStep, invariant PHolds), and             *)
(*   - executions recorded from the real runtime (Trace_DownlinkSession).  *)
(*                                                                         *)
(* Events (records; JSON objects in a recorded trace):                     *)
(*   [k:"attach", c, sync, keep]   consumer c hands its AttachAction over  *)
(*   [k:"csend",  c, op]           consumer c writes a command             *)
(*   [k:"cdrop",  c]               consumer c drops both its channels      *)
(*   [k:"crecv",  c, n]            consumer c reads notification n         *)
(*   [k:"rsend",  n]               the remote lane writes notification n   *)
(*   [k:"rrecv",  f]               the remote lane reads request frame f   *)
(*   [k:"settle"]                  quiescence barrier: everything before   *)
(*                                 happened-before everything after        *)
(*   [k:"stop"]                    the runtime's stop trigger is fired     *)
(*   [k:"rclose"]                  the socket to the remote goes away      *)
(*   [k:"reset", kind, strategy]   (trace only) a new case                 *)
(*   [k:"finish", running]         end of the script: the remote has read  *)
(*                                 and answered every frame, all is idle   *)
(* n = [t:"linked"|"synced"|"unlinked"|"eof"] or [t:"event", op]           *)
(* f = [t:"link"|"sync"] or [t:"cmd", op]                                  *)
(* op = [o:"set",v] (value lane) | [o:"upd",k,v] | [o:"rem",k] | [o:"clr"] *)
(*                                                                         *)
(* What P demands (each clause is a phrase of the property statement):     *)
(*  S1 a consumer's first notification is linked, and only once the lane   *)
(*     has sent linked;                                                    *)
(*  S2 every event it reads is an event the lane sent, in the lane's       *)
(*     order, none twice (pos = candidate positions in N, subset           *)
(*     construction because equal bodies may occur twice);                 *)
(*  S3 once it is registered (no SYNC: from linked; SYNC: from synced) it  *)
(*     reads EVERY later event: its events are a gap-free run of N, the    *)
(*     run starts no later than the first event sent after it read linked, *)
(*     and at quiescence / at unlinked the run has reached the end of N;   *)
(*  S4 synced only if asked for, only after the lane sent a synced, and    *)
(*     the state the consumer holds then (fold of its events) is a state   *)
(*     of the lane: View(N[1..p]) for a cut p from which S3 continues;     *)
(*  S5 at quiescence on an open link every live consumer is linked, and    *)
(*     synced if it asked;                                                 *)
(*  S6 unlinked exactly when the link closes (lane sent unlinked / stop),  *)
(*     last, and to every consumer that had been linked;                   *)
(*  S7 a MALFORMED frame (an event body that is no map message, map        *)
(*     downlink with interpretation; rsend marked bad): with the IGNORE    *)
(*     strategy every session is exactly the session without that frame    *)
(*     (it is not part of N); with the ABORT strategy the link closes at   *)
(*     that frame: S6 applies (everything before it delivered, unlinked,   *)
(*     end of stream, nothing sent after it is delivered), and a consumer  *)
(*     attaching afterwards is refused (attachfail);                       *)
(*  S8 stop request / socket gone (stop, rclose): S6 without the           *)
(*     completeness clause;                                                *)
(*  S9 the runtime stops by itself only for inactivity (the clock was       *)
(*     advanced, event "advance") and never while a consumer that attached *)
(*     and has not dropped is being served: such a consumer is never told  *)
(*     unlinked / end of stream while the link is open;                    *)
(*  C1 every command on the socket was written by a consumer, at most once;*)
(*  C2 commands of one consumer that conflict (value: all; map: same key,  *)
(*     or one is a clear) arrive in the order written;                     *)
(*  C3 a command is missing at quiescence only if superseded, so the lane  *)
(*     ends as if all were sent: for every key the last command on the     *)
(*     socket affecting it is not OLDER than any other written command     *)
(*     affecting it (older = written earlier by the same consumer, or      *)
(*     already read by the lane when the other was written).               *)
(*  C4 a consumer that writes something that is no command (badcmd) only   *)
(*     loses its own later commands; commands with a key that is not UTF-8 *)
(*     (badkey) are owed to nobody.                                        *)
(* P does NOT constrain: how many sync frames are sent, batching, order    *)
(* between consumers, order between commands of different consumers that   *)
(* were written concurrently, what a consumer reads before synced (beyond  *)
(* S2), repeated linked/synced (no-ops).                                   *)
(*                                                                         *)
(* Known findings are DEVIATIONS with a specific signature; they are       *)
(* taken only if listed in p.enabled, recorded in p.kf, and anything else  *)
(* fails.                                                                  *)
(***************************************************************************)
EXTENDS Naturals, Sequences, FiniteSets

Has(r, f) == f \in DOMAIN r

Max(S) == CHOOSE x \in S : \A y \in S : y <= x
Min(S) == CHOOSE x \in S : \A y \in S : x <= y

-----------------------------------------------------------------------------
(* operations and views; a view is a set of <<key, value>> pairs, a value  *)
(* lane is the one-key map "*"                                             *)

OpKey(op) == IF op.o = "set" THEN "*" ELSE IF op.o = "clr" THEN "__any" ELSE
             IF Has(op, "k") THEN op.k ELSE "__bad"

\* the order of a map's keys (take / drop count entries in key order); the scripts use these keys
KeyOrder == <<"k1", "k2", "k3", "k4">>
SortedKeys(view) == SelectSeq(KeyOrder, LAMBDA k : \E x \in view : x[1] = k)
FirstKeys(view, n) == LET ks == SortedKeys(view) IN {ks[i] : i \in 1..(IF n < Len(ks) THEN n ELSE Len(ks))}

ApplyOp(view, op) ==
    IF op.o = "set" THEN {<<"*", op.v>>}
    ELSE IF op.o = "upd" THEN {x \in view : x[1] # op.k} \cup {<<op.k, op.v>>}
    ELSE IF op.o = "rem" THEN {x \in view : x[1] # op.k}
    ELSE IF op.o = "clr" THEN {}
    ELSE IF op.o = "take" THEN {x \in view : x[1] \in FirstKeys(view, op.n)}
    ELSE IF op.o = "drop" THEN {x \in view : x[1] \notin FirstKeys(view, op.n)}
    ELSE view          \* "bad": a body that is no map message, passed through by a map-event downlink

Affects(op, key) == op.o = "clr" \/ OpKey(op) = key
Conflict(a, b) == a.o = "clr" \/ b.o = "clr" \/ OpKey(a) = OpKey(b)

-----------------------------------------------------------------------------
(* the monitor state                                                       *)

NoCons == [att |-> FALSE]

PInit(kind, enabled, strategy) ==
    [kind    |-> kind,          \* "value" | "map" | "mapevent" (map downlink without interpretation)
     strat   |-> strategy,      \* what the runtime is told to do with a malformed frame: "abort" | "ignore"
     adv     |-> FALSE,         \* the clock was advanced (inactivity timeouts are in play)
     nbad    |-> 0,             \* malformed frames the lane's side sent (map downlink)
     enabled |-> enabled,       \* ids of OPEN known findings (deviation actions allowed)
     st      |-> "ok",          \* "ok" | "fail"
     why     |-> "",            \* first failure
     kf      |-> {},            \* deviations taken
     ep      |-> 0,             \* number of settle barriers seen
     N       |-> <<>>,          \* notifications the lane sent: [n, ep]
     views   |-> <<>>,          \* views[i] = lane state after N[1..i]
     closed  |-> "no",          \* "no" | "unlinked" | "stop" | "rclose" | "abort" (malformed frame, strategy abort)
     cpos    |-> 0,             \* Len(N) when the link closed
     cons    |-> <<>>,          \* sequence of consumer records (index = order of attach)
     cmds    |-> <<>>,          \* commands written: [c, op, gl = commands the lane had read by then]
     got     |-> <<>>,          \* command ops read by the lane, in order
     syncs   |-> 0,             \* sync frames read by the lane
     links   |-> 0]

Fail(p, why) == IF p.st = "ok" THEN [p EXCEPT !.st = "fail", !.why = why] ELSE p
Deviate(p, id) == [p EXCEPT !.kf = @ \cup {id}]

ViewAt(p, i) == IF i = 0 THEN {} ELSE p.views[i]
IsEv(p, i) == p.N[i].n.t = "event"
LastView(p) == ViewAt(p, Len(p.N))

\* index into p.cons of consumer id c (0 if none); a consumer id attaches at most once
CIdx(p, c) == LET S == {i \in 1..Len(p.cons) : p.cons[i].c = c} IN IF S = {} THEN 0 ELSE Max(S)

\* the next event position after q (0 if none)
NextEv(p, q) == LET S == {j \in (q+1)..Len(p.N) : IsEv(p, j)} IN IF S = {} THEN 0 ELSE Min(S)

LinkedSent(p) == \E i \in 1..Len(p.N) : p.N[i].n.t = "linked"
SyncedSent(p) == \E i \in 1..Len(p.N) : p.N[i].n.t = "synced"

\* the consumer attached no earlier (in happens-before) than the lane's linked
Late(p, x) == \E i \in 1..Len(p.N) : p.N[i].n.t = "linked" /\ p.N[i].ep <= x.aep

IsMap(p) == p.kind \in {"map", "mapevent"}
\* nothing the lane's side sends after the frame that closes the link can be delivered (a stop
\* request, in contrast, races with what is already on its way)
Limit(p) == IF p.closed \in {"unlinked", "abort"} THEN p.cpos ELSE Len(p.N)

Live(x) == x.ph \in {"att", "linked", "synced"}
Registered(x) == (x.ph = "synced") \/ (x.ph = "linked" /\ ~x.sync /\ x.mode = "norm")

-----------------------------------------------------------------------------
(* environment events                                                      *)

OnAttach(p, e) ==
    \* a sync asked for by an earlier consumer (even one that has dropped since) is still outstanding
    LET mids == \E i \in 1..Len(p.cons) : p.cons[i].sync /\ ~p.cons[i].sy /\ p.cons[i].ph # "never"
        x == [c |-> e.c, sync |-> e.sync, ph |-> "att", pos |-> {}, view |-> {}, aep |-> p.ep,
              mids |-> mids, mode |-> "norm", lpos |-> 0, nev |-> 0,
              sy |-> FALSE,         \* has read synced
              cbroken |-> FALSE,    \* it wrote something that is no command: its command stream is cut
              dpos |-> {}]          \* candidate positions if the F10c deviation was taken at synced
    IN IF CIdx(p, e.c) # 0 THEN Fail(p, "harness: consumer attached twice")
       ELSE [p EXCEPT !.cons = Append(@, x)]

OnAttachFail(p, e) ==
    LET i == CIdx(p, e.c) IN
    IF i = 0 THEN p ELSE [p EXCEPT !.cons[i].ph = "never"]

\* cf = the consumer had already written something that is no command at all (op "badcmd"): the
\* runtime stops reading its commands there (Failed -> terminate), its notifications go on
OnCSend(p, e) ==
    LET cf == \E j \in 1..Len(p.cmds) : p.cmds[j].c = e.c /\ p.cmds[j].op.o = "badcmd"
        i == CIdx(p, e.c)
        q == [p EXCEPT !.cmds = Append(@, [c |-> e.c, op |-> e.op, gl |-> Len(p.got), cf |-> cf])] IN
    IF e.op.o = "badcmd" /\ i # 0 THEN [q EXCEPT !.cons[i].cbroken = TRUE] ELSE q

OnCDrop(p, e) ==
    LET i == CIdx(p, e.c) IN
    IF i = 0 THEN p ELSE [p EXCEPT !.cons[i].ph = IF @ = "never" THEN @ ELSE "dropped"]

\* A malformed frame (an event body that is no map message, map downlink with interpretation).
\* ignore: the sessions are exactly the sessions without that frame - it is not part of N.
\* abort : the link closes there, as if the lane had unlinked.
OnBadFrame(p) ==
    IF p.strat = "ignore" THEN [p EXCEPT !.nbad = @ + 1]
    ELSE IF p.closed = "no" THEN [p EXCEPT !.nbad = @ + 1, !.closed = "abort", !.cpos = Len(p.N)]
    ELSE [p EXCEPT !.nbad = @ + 1]

OnRSend(p, e) ==
    IF Has(e, "bad") /\ e.bad THEN OnBadFrame(p) ELSE
    LET n == e.n
        q == [p EXCEPT !.N = Append(@, [n |-> n, ep |-> p.ep]),
                       !.views = Append(@, IF n.t = "event" THEN ApplyOp(LastView(p), n.op) ELSE LastView(p))]
    IN IF n.t = "unlinked" /\ p.closed = "no"
         THEN [q EXCEPT !.closed = "unlinked", !.cpos = Len(q.N)]
         ELSE q

OnStop(p) == IF p.closed = "no" THEN [p EXCEPT !.closed = "stop", !.cpos = Len(p.N)] ELSE p
\* the connection to the remote goes away (socket dropped / bytes that are no envelope)
OnRClose(p) == IF p.closed = "no" THEN [p EXCEPT !.closed = "rclose", !.cpos = Len(p.N)] ELSE p

OnSettle(p) == [p EXCEPT !.ep = @ + 1]

OnRRecv(p, e) ==
    LET f == e.f IN
    IF f.t = "link" THEN [p EXCEPT !.links = @ + 1]
    ELSE IF f.t = "sync" THEN [p EXCEPT !.syncs = @ + 1]
    ELSE IF f.t = "cmd" THEN
        \* C1 (causality half): it was written before it is read
        IF \E j \in 1..Len(p.cmds) : p.cmds[j].op = f.op
          THEN [p EXCEPT !.got = Append(@, f.op)]
          ELSE Fail(p, "C1: a command arrived on the socket that no consumer wrote")
    ELSE Fail(p, "unexpected request frame on the socket")

-----------------------------------------------------------------------------
(* a consumer reads a notification                                         *)

OnLinked(p, i) ==
    LET x == p.cons[i] IN
    IF x.ph \in {"linked", "synced"} THEN p                         \* repeated linked: no-op
    ELSE IF x.ph # "att" THEN Fail(p, "S6: notification after unlinked")
    ELSE IF ~LinkedSent(p) THEN Fail(p, "S1: linked before the lane sent linked")
    ELSE [p EXCEPT !.cons[i].ph = "linked", !.cons[i].pos = 0..Len(p.N), !.cons[i].lpos = Len(p.N)]

\* the candidate positions after reading event op: gap-free (strict) or in order only (loose)
Strict(p, S, op) == {j \in 1..Limit(p) : IsEv(p, j) /\ p.N[j].n.op = op /\ \E q \in S : NextEv(p, q) = j}
Loose(p, S, op)  == {j \in 1..Limit(p) : IsEv(p, j) /\ p.N[j].n.op = op /\ \E q \in S : q < j}

OnEvent(p, i, op) ==
    LET x == p.cons[i]
        strict == Strict(p, x.pos, op)
        dstrict == Strict(p, x.dpos, op)
        loose  == Loose(p, x.pos, op)
        upd(S, D) == [p EXCEPT !.cons[i].pos = S, !.cons[i].dpos = D, !.cons[i].view = ApplyOp(@, op),
                               !.cons[i].nev = @ + 1]
    IN
    IF x.ph \notin {"linked", "synced"} THEN Fail(p, "S1: event before linked / after unlinked")
    \* (an ignored malformed frame must be skipped, not forwarded as the buffer that was cleared for it)
    ELSE IF op.o = "empty" THEN Fail(p, "S2: event without a body (not a map message) delivered")
    ELSE IF Registered(x) THEN
        IF strict # {} THEN upd(strict, dstrict)
        \* KF F10c (see OnSynced): the cut chosen at synced does not work out, the deviation does
        ELSE IF dstrict # {} THEN Deviate(upd(dstrict, {}), "F10c")
        \* KF F10b: a value-downlink consumer WITHOUT SYNC that attached after the link was
        \* established is parked with the consumers awaiting synced and misses events
        ELSE IF loose # {} /\ "F10b" \in p.enabled /\ p.kind = "value" /\ ~x.sync /\ Late(p, x)
            THEN Deviate([upd(loose, {}) EXCEPT !.cons[i].mode = "kfb"], "F10b")
        ELSE IF loose # {} THEN Fail(p, "S3: a registered consumer missed an event (gap)")
        ELSE Fail(p, "S2: event not sent by the lane, repeated or out of order")
    ELSE IF loose # {} THEN upd(loose, {})
    ELSE Fail(p, "S2: event not sent by the lane, repeated or out of order")

OnSynced(p, i) ==
    LET x == p.cons[i]
        cuts == {c \in 0..Len(p.N) : (\E q \in x.pos : q <= c) /\ ViewAt(p, c) = x.view}
        \* KF F10c: a map-downlink SYNC consumer that attached while another consumer's sync was
        \* outstanding is told synced with the other's (for it partial) snapshot; it then simply
        \* continues from where it was (its own snapshot arrives later as ordinary events)
        f10c == "F10c" \in p.enabled /\ IsMap(p) /\ x.sync /\ x.mids
    IN
    IF x.ph = "synced" THEN p                                        \* repeated synced: no-op
    ELSE IF x.ph # "linked" THEN Fail(p, "S1: synced before linked / after unlinked")
    ELSE IF ~SyncedSent(p) THEN Fail(p, "S4: synced before the lane sent synced")
    ELSE IF ~x.sync /\ x.mode = "norm" THEN p                        \* not asked for: tolerated no-op
    ELSE IF cuts # {} THEN [p EXCEPT !.cons[i].ph = "synced", !.cons[i].pos = cuts, !.cons[i].mode = "norm",
                                     !.cons[i].sy = TRUE,
                                     !.cons[i].dpos = IF f10c THEN x.pos ELSE {}]
    ELSE IF f10c THEN Deviate([p EXCEPT !.cons[i].ph = "synced", !.cons[i].sy = TRUE], "F10c")
    ELSE Fail(p, "S4: synced while holding a state the lane never had")

\* everything the lane sent up to position `upto` has been read by a registered consumer
CompleteFrom(p, S, upto) == \E q \in S : LET j == NextEv(p, q) IN j = 0 \/ j > upto
Complete(p, x, upto) == CompleteFrom(p, x.pos, upto)

OnUnlinked(p, i) ==
    LET x == p.cons[i] IN
    IF x.ph \notin {"att", "linked", "synced"} THEN Fail(p, "S6: unlinked twice")
    ELSE IF p.closed = "no" THEN Fail(p, "S6: unlinked although the link was not closed")
    ELSE IF p.closed \in {"unlinked", "abort"} /\ Registered(x) /\ ~Complete(p, x, p.cpos)
        THEN IF CompleteFrom(p, x.dpos, p.cpos)                                          \* KF F10c, see OnSynced
               THEN Deviate([p EXCEPT !.cons[i].ph = "unlinked"], "F10c")
             ELSE IF "F10b" \in p.enabled /\ p.kind = "value" /\ ~x.sync /\ Late(p, x)     \* KF F10b, see OnEvent
               THEN Deviate([p EXCEPT !.cons[i].ph = "unlinked"], "F10b")
               ELSE Fail(p, "S3: unlinked before all events of the lane were delivered")
    ELSE [p EXCEPT !.cons[i].ph = "unlinked"]

OnEof(p, i) ==
    LET x == p.cons[i] IN
    IF x.ph \in {"linked", "synced"} THEN Fail(p, "S6: consumer channel closed without unlinked")
    ELSE IF x.ph \in {"att", "unlinked"} THEN [p EXCEPT !.cons[i].ph = "eof"]
    ELSE p

OnCRecv(p, e) ==
    LET i == CIdx(p, e.c)
        n == e.n IN
    IF i = 0 THEN Fail(p, "notification for a consumer that never attached")
    ELSE IF n.t = "linked" THEN OnLinked(p, i)
    ELSE IF n.t = "event" THEN OnEvent(p, i, n.op)
    ELSE IF n.t = "synced" THEN OnSynced(p, i)
    ELSE IF n.t = "unlinked" THEN OnUnlinked(p, i)
    ELSE IF n.t = "eof" THEN OnEof(p, i)
    ELSE Fail(p, "undecodable notification")

-----------------------------------------------------------------------------
(* quiescence: sessions                                                    *)

\* first session obligation that is not met (0 = all met); kfb = it is the F10b signature
SessionDebt(p, x) ==
    IF x.ph \in {"never", "dropped", "eof", "unlinked"} THEN
        IF x.ph = "eof" /\ p.closed = "no" THEN "S6: consumer channel closed although the link is open" ELSE ""
    ELSE IF p.closed # "no" THEN
        IF x.ph \in {"linked", "synced"} THEN "S6: the link closed but a linked consumer was not told unlinked" ELSE ""
    ELSE IF x.ph = "att" THEN
        IF LinkedSent(p) THEN "S5: never linked" ELSE ""
    \* (a consumer that broke its own command stream is no longer counted by the write task: if it is
    \*  the only one left, a sync still owed to it is not requested - not demanded here)
    ELSE IF x.sync /\ x.ph # "synced" /\ ~x.cbroken THEN "S5: asked for SYNC but never synced"
    ELSE IF (Registered(x) \/ x.mode = "kfb") /\ ~Complete(p, x, Len(p.N)) THEN "S3: events of the lane never delivered"
    ELSE ""

IsF10b(p, x) == "F10b" \in p.enabled /\ p.kind = "value" /\ ~x.sync /\ Late(p, x) /\ x.ph = "linked"
Undelivered == "S3: events of the lane never delivered"

\* the deviation (if any) that explains consumer x's unmet obligation
Excuse(p, x) ==
    IF SessionDebt(p, x) # Undelivered THEN ""
    ELSE IF x.ph = "synced" /\ CompleteFrom(p, x.dpos, Len(p.N)) THEN "F10c"
    ELSE IF IsF10b(p, x) THEN "F10b"
    ELSE ""

CheckSessions(p) ==
    LET bad == {i \in 1..Len(p.cons) : SessionDebt(p, p.cons[i]) # ""}
        unexcused == {i \in bad : Excuse(p, p.cons[i]) = ""}
    IN IF bad = {} THEN p
       ELSE IF unexcused = {} THEN [p EXCEPT !.kf = @ \cup {Excuse(p, p.cons[i]) : i \in bad}]
       ELSE Fail(p, SessionDebt(p, p.cons[Min(unexcused)]))

-----------------------------------------------------------------------------
(* quiescence: commands                                                    *)

\* command a is older than command b: written earlier by the same consumer, or already read by
\* the lane when b was written.  (Nothing else orders commands of different consumers: a
\* command may wait in its consumer's channel while the runtime takes another consumer's.)
HB(p, f, a, b) == \/ p.cmds[a].c = p.cmds[b].c /\ a < b
                  \/ \E i \in 1..Len(p.got) : f[i] = a /\ i <= p.cmds[b].gl

Dropped(p, c) == LET i == CIdx(p, c) IN i # 0 /\ p.cons[i].ph \in {"dropped", "never"}

\* assignments of the received commands to written commands (equal bodies are interchangeable):
\* sequences f with cmds[f[i]].op = got[i], injective; built position by position
RECURSIVE MatchFrom(_, _, _)
MatchFrom(p, i, used) ==
    IF i > Len(p.got) THEN {<<>>}
    ELSE UNION {{<<j>> \o r : r \in MatchFrom(p, i + 1, used \cup {j})} :
                j \in {j \in 1..Len(p.cmds) : j \notin used /\ p.cmds[j].op = p.got[i]}}
Matchings(p) == MatchFrom(p, 1, {})

\* C2: conflicting commands of one consumer arrive in the order written
OrderOK(p, f) ==
    \A i, j \in 1..Len(p.got) :
        (i < j /\ p.cmds[f[i]].c = p.cmds[f[j]].c /\ Conflict(p.got[i], p.got[j])) => f[i] < f[j]

CmdKeys(p) == {OpKey(p.cmds[j].op) : j \in 1..Len(p.cmds)} \cup {"__any"}

\* commands the lane is owed at all: real commands (not garbage, key valid UTF-8) written before
\* their consumer's command stream broke
Owed(p, j) == p.cmds[j].op.o # "badcmd" /\ ~Has(p.cmds[j].op, "badkey") /\ ~p.cmds[j].cf

\* C3 for one key: the commands that are newer than the last one the lane applied
Stale(p, f, key) ==
    LET want == {j \in 1..Len(p.cmds) : /\ Affects(p.cmds[j].op, key) /\ Owed(p, j)
                                        /\ (~Dropped(p, p.cmds[j].c) \/ \E i \in 1..Len(p.got) : f[i] = j)}
        gk == {i \in 1..Len(p.got) : Affects(p.got[i], key)}
    IN IF want = {} THEN {}
       ELSE IF gk = {} THEN want
       ELSE LET l == f[Max(gk)] IN {j \in want : j # l /\ HB(p, f, l, j)}

FinalOK(p, f) == \A key \in CmdKeys(p) : Stale(p, f, key) = {}

\* KF F10a: under backpressure a value command with an EMPTY body is not kept (the buffer being
\* empty means "nothing pending"): it never reaches the lane, nor does the pending command it
\* overwrote
IsF10a(p, f) ==
    /\ "F10a" \in p.enabled /\ p.kind = "value"
    /\ \A key \in CmdKeys(p) :
         LET st == Stale(p, f, key) IN
         \A j \in st : \/ p.cmds[j].op.v = ""
                       \/ \E j2 \in st : HB(p, f, j, j2)                                    \* superseded anyway
                       \/ \E j2 \in st : p.cmds[j2].op.v = "" /\ j2 # j /\ ~HB(p, f, j2, j) \* wiped by the empty one

CheckCommands(p) ==
    LET M == Matchings(p) IN
    IF M = {} THEN Fail(p, "C1: a command arrived twice or was never written")
    ELSE IF \A f \in M : ~OrderOK(p, f) THEN Fail(p, "C2: commands of one consumer were reordered")
    ELSE IF p.closed # "no" THEN p
    ELSE IF \E f \in M : OrderOK(p, f) /\ FinalOK(p, f) THEN p
    ELSE IF \E f \in M : OrderOK(p, f) /\ IsF10a(p, f) THEN Deviate(p, "F10a")
    ELSE Fail(p, "C3: a command that nothing supersedes never reached the lane")

OnFinish(p, e) ==
    LET q == CheckSessions(p) IN
    IF q.st # "ok" THEN q
    \* S9 the runtime may stop by itself only for INACTIVITY: the clock has been advanced and no session
    \*    is cut by it - no consumer that attached (and did not drop) is without service
    ELSE IF p.closed = "no" /\ Has(e, "running") /\ ~e.running
            /\ ~(p.adv /\ \A i \in 1..Len(p.cons) : p.cons[i].ph \notin {"att", "linked", "synced"})
        THEN Fail(q, "the runtime stopped although the link is open")
    ELSE CheckCommands(q)

-----------------------------------------------------------------------------
PStep(p, e) ==
    IF p.st # "ok" THEN p
    ELSE IF e.k = "attach" THEN OnAttach(p, e)
    ELSE IF e.k = "attachfail" THEN OnAttachFail(p, e)
    ELSE IF e.k = "csend" THEN OnCSend(p, e)
    ELSE IF e.k = "csendfail" THEN p
    ELSE IF e.k = "cdrop" THEN OnCDrop(p, e)
    ELSE IF e.k = "crecv" THEN OnCRecv(p, e)
    ELSE IF e.k = "rsend" THEN OnRSend(p, e)
    ELSE IF e.k = "rrecv" THEN OnRRecv(p, e)
    ELSE IF e.k = "settle" THEN OnSettle(p)
    ELSE IF e.k = "stop" THEN OnStop(p)
    ELSE IF e.k = "rclose" THEN OnRClose(p)
    ELSE IF e.k = "advance" THEN [p EXCEPT !.adv = TRUE]
    ELSE IF e.k = "finish" THEN OnFinish(p, e)
    ELSE Fail(p, "unknown event")

RECURSIVE PSteps(_, _)
PSteps(p, es) == IF es = <<>> THEN p ELSE PSteps(PStep(p, Head(es)), Tail(es))

PHolds(p) == p.st = "ok"
=============================================================================

-------------------------- MODULE Trace_CommandOutput --------------------------
(***************************************************************************)
(* P for C14 / agent-sent commands (NoCoalesce) as a trace specification:  *)
(* a deterministic monitor over the recorded history of one CommandOutput  *)
(* (or of anything else that forwards commands to target lanes over one    *)
(* channel).  It knows nothing of the mechanism (buffers, offsets, dirty   *)
(* list, batches): only what was handed over and what came out.            *)
(*                                                                         *)
(* Events (ndjson):                                                        *)
(*  {"k":"reset","id":s}              a fresh component; starts case s     *)
(*  {"k":"append","t":t,"n":n,"ow":b} the n-th command for target lane t   *)
(*                                     was handed over, overwritable iff b *)
(*  {"k":"frames","fr":[[t,n],..]}    these frames were read from the      *)
(*        ("trail":k bytes of a        channel, in this order.  A frame    *)
(*         partial frame left over)    that does not decode to the exact   *)
(*                                     bytes of a command handed over is   *)
(*                                     [t,n,"why"] / [0,0,"why"]           *)
(*  {"k":"idle"}                      the component is idle: it holds its  *)
(*                                     writer and has nothing to write     *)
(*  {"k":"end","idle":b}              the driver has established the       *)
(*                                     channel, let every write complete   *)
(*                                     and called write() until it had     *)
(*                                     nothing to do (b = it got there)    *)
(*  {"k":"panic"}                     the code under test panicked / hung  *)
(*                                                                         *)
(* Laws (per target lane t):                                               *)
(*  L1 every frame is a command that was handed over for t                 *)
(*  L2 frames for t appear in hand-over order, none twice                  *)
(*  L3 a command skipped on the channel (a later one for t is delivered    *)
(*     but it is not) was marked overwritable                              *)
(*  L4 when idle, the last command of every t and (by L3) every            *)
(*     non-overwritable command has been delivered; the component becomes  *)
(*     idle once its writes complete (nothing is lost, nothing gets stuck) *)
(*                                                                         *)
(* One TLC run validates many cases: a rejected case is recorded and the   *)
(* monitor resynchronises at the next reset.                               *)
(***************************************************************************)
EXTENDS Naturals, Sequences, TLC, Json, IOUtils

Rec == ndJsonDeserialize(IOEnv.TRACE)

MaxT == 8
TIds == 1..MaxT

VARIABLES i,       \* position in the trace
          sent,    \* [TIds -> Seq(BOOLEAN)]   overwritable flags of the commands handed over
          last,    \* [TIds -> Nat]            number of the last command seen on the channel
          ok,      \* the current case has not been rejected
          caseId,
          fails    \* rejected cases: [id, at, why]
vars == <<i, sent, last, ok, caseId, fails>>

Has(e, f) == f \in DOMAIN e

TraceInit == /\ i = 1 /\ sent = [t \in TIds |-> <<>>] /\ last = [t \in TIds |-> 0]
             /\ ok = TRUE /\ caseId = "" /\ fails = <<>>
             /\ TLCSet(1, 1) /\ TLCSet(2, <<>>)

\* L1-L3 over a batch of frames, left to right
RECURSIVE Fold(_, _, _)
Fold(fr, j, l) ==
    IF j > Len(fr) THEN [last |-> l, err |-> ""]
    ELSE LET f == fr[j] IN
         IF Len(f) # 2 THEN [last |-> l, err |-> "L1: a frame on the channel is not the exact encoding of a command that was sent"]
         ELSE LET t == f[1]
                  n == f[2] IN
              IF ~(t \in TIds) \/ n < 1 THEN [last |-> l, err |-> "L1: unknown frame"]
              ELSE IF n > Len(sent[t]) THEN [last |-> l, err |-> "L1: frame for a command that was never sent"]
              ELSE IF n <= l[t] THEN [last |-> l, err |-> "L2: command delivered twice or out of order"]
              ELSE IF \E m \in (l[t] + 1)..(n - 1) : ~sent[t][m]
                   THEN [last |-> l, err |-> "L3: a non-overwritable command was superseded"]
              ELSE Fold(fr, j + 1, [l EXCEPT ![t] = n])

Complete == \A t \in TIds : last[t] = Len(sent[t])

Fail(why) == /\ ok' = FALSE
             /\ fails' = Append(fails, [id |-> caseId, at |-> i, why |-> why])
             /\ UNCHANGED <<sent, last, caseId>>

Step(e) ==
    IF e.k = "reset" THEN
        /\ sent' = [t \in TIds |-> <<>>] /\ last' = [t \in TIds |-> 0] /\ ok' = TRUE
        /\ caseId' = (IF Has(e, "id") THEN e.id ELSE "?") /\ fails' = fails
    ELSE IF ~ok THEN UNCHANGED <<sent, last, ok, caseId, fails>>       \* skip to the next case
    ELSE IF e.k = "append" THEN
        IF e.t \in TIds /\ e.n = Len(sent[e.t]) + 1
        THEN /\ sent' = [sent EXCEPT ![e.t] = Append(@, e.ow)]
             /\ UNCHANGED <<last, ok, caseId, fails>>
        ELSE Fail("malformed trace: append out of sequence")
    ELSE IF e.k = "frames" THEN
        LET r == Fold(e.fr, 1, last) IN
        IF r.err # "" THEN Fail(r.err)
        ELSE IF Has(e, "trail") /\ e.trail > 0 THEN Fail("L1: part of a frame was written to the channel")
        ELSE /\ last' = r.last /\ UNCHANGED <<sent, ok, caseId, fails>>
    ELSE IF e.k = "idle" THEN
        IF Complete THEN UNCHANGED <<sent, last, ok, caseId, fails>>
        ELSE Fail("L4: idle although a command that must be delivered has not been (command lost)")
    ELSE IF e.k = "end" THEN
        IF ~e.idle THEN Fail("L4: the component never becomes idle although all its writes completed (stuck)")
        ELSE IF ~Complete THEN Fail("L4: drained and idle although a command that must be delivered has not been (command lost)")
        ELSE UNCHANGED <<sent, last, ok, caseId, fails>>
    ELSE IF e.k = "panic" THEN Fail("panic / hang in the code under test")
    ELSE Fail("malformed trace: unknown event")

TraceNext == /\ i <= Len(Rec)
             /\ Step(Rec[i])
             /\ i' = i + 1
             /\ TLCSet(1, i + 1)
             /\ TLCSet(2, fails')

TraceSpec == TraceInit /\ [][TraceNext]_vars

TraceAccepted ==
    LET m == TLCGet(1)
        f == TLCGet(2) IN
    /\ PrintT(<<"TRACE_RESULT", ToJson([accepted |-> (m = Len(Rec) + 1 /\ f = <<>>), matched |-> m - 1,
                                         total |-> Len(Rec), kf |-> <<>>, failed |-> f])>>)
    /\ m = Len(Rec) + 1 /\ f = <<>>
=============================================================================

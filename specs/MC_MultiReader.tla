---------------------------- MODULE MC_MultiReader ----------------------------
EXTENDS MultiReader, Json
\* Prints every transition of the state graph once (lastAct and the bypass history are hidden by the VIEW).
EdgeDump == PrintT(<<"EDGE", ToJson([s |-> View, a |-> lastAct', t |-> View'])>>)
InitDump == (lastAct.k = "init") => PrintT(<<"INIT", ToJson(View)>>)
=============================================================================

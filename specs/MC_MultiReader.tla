---------------------------- MODULE MC_MultiReader ----------------------------
EXTENDS MultiReader, Json
\* Prints every transition of the state graph once (lastAct and the bypass history are hidden by the VIEW).
EdgeDump == PrintT(<<"EDGE", ToJson([s |-> View, a |-> lastAct', t |-> View'])>>)
\* burst scenario (ACTION_CONSTRAINT): every source is attached and filled to MaxItems before the first poll,
\* then the reader only polls - the schedule on which starving a source would show
Burst == /\ lastAct'.k # "close"
         /\ (lastAct'.k = "poll") => \A s \in Streams : st[s] = "att" /\ sent[s] = MaxItems
InitDump == (lastAct.k = "init") => PrintT(<<"INIT", ToJson(View)>>)
=============================================================================

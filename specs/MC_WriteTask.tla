----------------------------- MODULE MC_WriteTask -----------------------------
EXTENDS WriteTask, Json
EdgeDump == PrintT(<<"EDGE", ToJson([s |-> View, a |-> lastAct', t |-> View'])>>)
InitDump == (lastAct.k = "init") => PrintT(<<"INIT", ToJson(View)>>)
KindV == [l \in {"v"} |-> "value"]
KindVS == [l \in {"v", "s"} |-> IF l = "v" THEN "value" ELSE "supply"]
KindVM == [l \in {"v", "m"} |-> IF l = "v" THEN "value" ELSE "map"]
KindM == [l \in {"m"} |-> "map"]
KindS == [l \in {"s"} |-> "supply"]
=============================================================================

------------------------- MODULE Trace_HostedDownlink -------------------------
(***************************************************************************)
(* P for the downlinks an agent hosts, seen from the agent loop             *)
(* (agent_model/mod.rs: open_new_downlink, LinkFuture::{Opening, Running,   *)
(* Reconnecting}, HostedDownlinkEvent; agent_model/downlink/hosted):        *)
(*                                                                         *)
(*  H1  the lifecycle callbacks of a downlink are exactly what the          *)
(*      notifications delivered to it imply, in order, with the right       *)
(*      arguments (on_synced sees the fold of the events received since it  *)
(*      linked; on_event / on_set / on_update / on_remove / on_clear carry   *)
(*      the body, the true previous value and the map of that moment);       *)
(*  H2  on_unlinked / on_failed once when the link closes / the channel      *)
(*      fails; nothing after the downlink terminated or the agent stopped it;*)
(*  H3  a callback runs to completion before anything else happens in the    *)
(*      agent (its log entries, including the lane events it triggers, are   *)
(*      contiguous);                                                         *)
(*  H4  the agent asks the runtime for a downlink exactly when it opens one, *)
(*      when a kept downlink lost its channel, and again after a recoverable *)
(*      refusal as long as the retry strategy allows (1 + Retries attempts   *)
(*      per series), never after a fatal refusal;                            *)
(*  H5  what a downlink writes is what the handlers asked it to write, in    *)
(*      order (values may be skipped - the output holds the latest value     *)
(*      only; map operations may be coalesced per key), and at quiescence    *)
(*      an undisturbed downlink has written the latest value / a sequence    *)
(*      with the same effect.                                                *)
(*                                                                         *)
(* What the log does not show is WHEN the agent takes a delivered            *)
(* notification; notifications that imply no callback are taken silently.   *)
(* The hidden action Consume resolves this; TLC searches.                    *)
(*                                                                         *)
(* Events (projection of the log of configuration E, checks/e_join.py):      *)
(*   reset ids lm            new agent instance; ids = downlinks of the run  *)
(*   open id kind ewns keep  the instruction that opens the downlink ran     *)
(*   dlreq id | dlans id how(ok|refuse|fatal)                                *)
(*   dlin id do(linked|synced|event|unlinked|fail|close|closein|outfail) ... *)
(*   cb id cb ph(b|e) [v prev k map]     | lane lane m [k v]                 *)
(*   dlset id v ok | dlmop id m k v ok | dlclose id linked                   *)
(*   dlout id [v | m k v] | other (any other entry logged inside the agent)  *)
(*   quiescent | stopping                                                    *)
(* ABSENT is -1; maps are sequences indexed by key.                          *)
(***************************************************************************)
EXTENDS Naturals, Integers, Sequences, FiniteSets, TLC, Json, IOUtils

CONSTANTS Keys,            \* map keys (1..n)
          Retries,         \* the agent's keep_linked_retry = immediate(Retries) (0: none)
          EnabledFindings

Rec == ndJsonDeserialize(IOEnv.TRACE)

VARIABLES i,
          D,       \* [id -> record] per downlink (see Fresh)
          cur,     \* the downlink whose callback is in progress (0: none)
          exp,     \* what the callback in progress still has to log (sequence of patterns)
          LM,      \* the map lane `map` as its own events show it (the map downlink's handlers change it)
          stopping,
          kf
vars == <<i, D, cur, exp, LM, stopping, kf>>

Has(e, f) == f \in DOMAIN e
Max(a, b) == IF a > b THEN a ELSE b
NK == Cardinality(Keys)
EmptyMap == [k \in 1..NK |-> -1]

Fresh == [kind |-> "none", ewns |-> FALSE, keep |-> FALSE,
          phase |-> "none",      \* none | asking (a request is owed or unanswered) | run | dead
          want |-> FALSE,        \* a request for the downlink is owed by the agent
          asked |-> FALSE,       \* a request is unanswered
          left |-> 0,            \* further attempts of the current series
          gen |-> 0,             \* channels it has had so far
          inq |-> <<>>,          \* delivered, not yet taken
          ls |-> "U",            \* U | L | S   (the downlink's own link state)
          val |-> -1, map |-> EmptyMap,
          stopped |-> FALSE,     \* the agent stopped it through its handle
          orphan |-> FALSE,      \* its handle was dropped (the slot holds the handle of a newer downlink): never restarted
          obroken |-> FALSE,     \* the environment dropped the reader of its output: a write may fail at any time
          wl |-> <<>>, wpos |-> 0,             \* values set through the handle, how many of them are accounted for
          reqv |-> [k \in 1..NK |-> {}], reqc |-> FALSE,   \* map operations requested: values per key (-1 = remove), a clear
          mwant |-> EmptyMap, mgot |-> EmptyMap, excused |-> FALSE]

TraceInit == /\ i = 1 /\ D = <<>> /\ cur = 0 /\ exp = <<>> /\ LM = EmptyMap /\ stopping = FALSE /\ kf = {}
             /\ TLCSet(1, 1) /\ TLCSet(2, {}) /\ TLCSet(3, 0) /\ TLCSet(4, {})

Ids == DOMAIN D
Upd(id, r) == D' = [D EXCEPT ![id] = r]

\* ---------------------------------------------------------------- what a notification implies
Cb(id, cb, ph) == [e |-> "cb", id |-> id, cb |-> cb, ph |-> ph]
Pair(id, cb) == <<Cb(id, cb, "b"), Cb(id, cb, "e")>>
Dispatch(d) == d.ls = "S" \/ d.ewns

\* keys of m in ascending order that a take(n) / drop(n) removes
Present(m) == {k \in 1..NK : m[k] # -1}
Rank(m, k) == Cardinality({j \in Present(m) : j < k})
TakeRemoved(m, n) == {k \in Present(m) : Rank(m, k) >= n}
DropRemoved(m, n) == {k \in Present(m) : Rank(m, k) < n}
SortedSeq(S) == LET RECURSIVE f(_) f(T) == IF T = {} THEN <<>> ELSE LET x == CHOOSE x \in T : \A y \in T : x <= y IN <<x>> \o f(T \ {x}) IN f(S)

\* the entries of on_remove for the keys ks (a sequence), one after the other, starting from map m, lane map lm
RECURSIVE Removes(_, _, _, _)
Removes(id, ks, m, lm) ==
    IF ks = <<>> THEN <<>>
    ELSE LET k == Head(ks)  m2 == [m EXCEPT ![k] = -1] IN
         <<[e |-> "cb", id |-> id, cb |-> "remove", ph |-> "b", k |-> k, prev |-> m[k], map |-> m2]>>
         \o (IF lm[k] # -1 THEN <<[e |-> "lane", lane |-> "map", m |-> "rem", k |-> k]>> ELSE <<>>)
         \o <<Cb(id, "remove", "e")>>
         \o Removes(id, Tail(ks), m2, [lm EXCEPT ![k] = -1])

\* the log entries the callback(s) for notification n make, and the downlink's record afterwards
\* (value downlinks: hosted/value/mod.rs next_event; map downlinks: hosted/map/mod.rs next_event)
Closed(d) == IF d.keep /\ ~d.stopped THEN [d EXCEPT !.ls = "U", !.val = -1, !.map = EmptyMap]
                                     ELSE [d EXCEPT !.ls = "U", !.val = -1, !.map = EmptyMap, !.phase = "dead", !.inq = <<>>]
\* the channel is gone: a kept downlink asks for a new one (a new series of attempts), any other is dropped
Lost(d, restart) == IF restart
             THEN [d EXCEPT !.ls = "U", !.val = -1, !.map = EmptyMap, !.phase = "asking", !.want = TRUE, !.left = Retries, !.inq = <<>>, !.excused = TRUE]
             ELSE [d EXCEPT !.ls = "U", !.val = -1, !.map = EmptyMap, !.phase = "dead", !.inq = <<>>, !.excused = TRUE]

\* whether a downlink that lost its channel is restarted: a kept downlink that the agent has not stopped; one whose handle
\* was dropped is restarted only if it has not noticed that yet (either may happen)
Restarts(d) == IF d.keep /\ ~d.stopped THEN (IF d.orphan THEN {TRUE, FALSE} ELSE {TRUE}) ELSE {FALSE}
\* The end of the input / a frame that cannot be decoded is taken by the downlink in two steps: it reads it, closes its
\* own output (which waits for as long as what it has written is not read), and only then hands the event to the agent.
\* A stop through the handle in between is not looked at before the event has been handed over: its callback still runs,
\* and the decision to ask for a new channel is taken without the stop - after a failed read at once; after the end of
\* the input of a linked downlink only when it is next polled (the stop is seen first: no restart).  The new channel, if
\* any, is dropped as soon as it is attached.
RestartsTaken(d, n) == IF ~d.keep THEN {FALSE}
                       ELSE IF n.do = "close" /\ d.ls \in {"L", "S"} THEN {FALSE}
                       ELSE IF d.orphan THEN {TRUE, FALSE} ELSE {TRUE}

Expect(id, d, n) ==
    CASE n.do = "linked" -> Pair(id, "linked")
      [] n.do = "synced" ->
           IF d.kind = "value"
             THEN (IF d.val # -1 THEN <<[e |-> "cb", id |-> id, cb |-> "synced", ph |-> "b", v |-> d.val], Cb(id, "synced", "e")>> ELSE <<>>)
             ELSE <<[e |-> "cb", id |-> id, cb |-> "synced", ph |-> "b", map |-> d.map], Cb(id, "synced", "e")>>
      [] n.do = "event" /\ d.kind = "value" ->
           IF Dispatch(d)
             THEN <<[e |-> "cb", id |-> id, cb |-> "event", ph |-> "b", v |-> n.v], [e |-> "lane", lane |-> "val", m |-> "set", v |-> n.v],
                    Cb(id, "event", "e"), [e |-> "cb", id |-> id, cb |-> "set", ph |-> "b", v |-> n.v, prev |-> d.val], Cb(id, "set", "e")>>
             ELSE <<>>
      [] n.do = "event" /\ d.kind = "map" ->
           IF ~Dispatch(d) THEN <<>>
           ELSE (CASE n.m = "upd" ->
                       <<[e |-> "cb", id |-> id, cb |-> "update", ph |-> "b", k |-> n.k, v |-> n.v, prev |-> d.map[n.k], map |-> [d.map EXCEPT ![n.k] = n.v]],
                         [e |-> "lane", lane |-> "map", m |-> "upd", k |-> n.k, v |-> n.v], Cb(id, "update", "e")>>
                  [] n.m = "rem" -> IF d.map[n.k] = -1 THEN <<>> ELSE Removes(id, <<n.k>>, d.map, LM)
                  [] n.m = "clr" -> <<[e |-> "cb", id |-> id, cb |-> "clear", ph |-> "b", map |-> d.map], [e |-> "lane", lane |-> "map", m |-> "clr"], Cb(id, "clear", "e")>>
                  [] n.m = "take" -> Removes(id, SortedSeq(TakeRemoved(d.map, n.n)), d.map, LM)
                  [] n.m = "drop" ->
                       IF n.n >= Cardinality(Present(d.map))
                         THEN <<[e |-> "cb", id |-> id, cb |-> "clear", ph |-> "b", map |-> d.map], [e |-> "lane", lane |-> "map", m |-> "clr"], Cb(id, "clear", "e")>>
                         ELSE Removes(id, SortedSeq(DropRemoved(d.map, n.n)), d.map, LM))
      [] n.do = "unlinked" -> Pair(id, "unlinked")
      [] n.do = "fail" -> Pair(id, "failed")
      [] n.do = "close" -> IF d.ls \in {"L", "S"} THEN Pair(id, "unlinked") ELSE <<>>
      [] n.do = "stop" -> IF d.ls \in {"L", "S"} THEN Pair(id, "unlinked") ELSE <<>>

After(d, n, rs) ==
    CASE n.do = "linked" -> IF d.ls = "U" THEN [d EXCEPT !.ls = "L"] ELSE d
      [] n.do = "synced" -> [d EXCEPT !.ls = "S"]
      [] n.do = "event" /\ d.kind = "value" -> [d EXCEPT !.val = n.v]
      [] n.do = "event" /\ d.kind = "map" ->
           (CASE n.m = "upd" -> [d EXCEPT !.map[n.k] = n.v]
             [] n.m = "rem" -> [d EXCEPT !.map[n.k] = -1]
             [] n.m = "clr" -> [d EXCEPT !.map = EmptyMap]
             [] n.m = "take" -> [d EXCEPT !.map = [k \in 1..NK |-> IF k \in TakeRemoved(d.map, n.n) THEN -1 ELSE d.map[k]]]
             [] n.m = "drop" -> [d EXCEPT !.map = [k \in 1..NK |-> IF k \in DropRemoved(d.map, n.n) THEN -1 ELSE d.map[k]]])
      \* an unlinked notification: a downlink that is not kept terminates; a kept one stays on its channel, unlinked
      [] n.do = "unlinked" -> Closed(d)
      \* a frame that cannot be decoded / the end of the input: the channel is lost
      [] n.do = "fail" -> Lost(d, rs)
      [] n.do = "close" -> Lost(d, rs)
      \* stopped through the handle: never restarted
      [] n.do = "stop" -> [d EXCEPT !.ls = "U", !.val = -1, !.map = EmptyMap, !.phase = "dead", !.inq = <<>>]

\* the agent takes the next notification delivered to downlink id
Consume(id) ==
    /\ cur = 0 /\ D[id].phase = "run" /\ D[id].inq # <<>>
    /\ LET d == D[id]  n == Head(d.inq)  x == Expect(id, d, n) IN
       /\ \E rs \in (IF "taken" \in DOMAIN n THEN RestartsTaken(d, n) ELSE Restarts(d)) :
              Upd(id, After([d EXCEPT !.inq = Tail(d.inq)], n, rs))
       /\ exp' = x
       /\ cur' = IF x = <<>> THEN 0 ELSE id
    /\ UNCHANGED <<LM, stopping, kf>>

\* a write of a downlink whose output nobody reads any more fails: the agent reconnects a kept downlink (no
\* callback), drops any other (no callback)
WFail(id) ==
    /\ cur = 0 /\ D[id].phase = "run" /\ D[id].obroken
    /\ \E rs \in Restarts(D[id]) : Upd(id, [Lost(D[id], rs) EXCEPT !.obroken = FALSE])
    /\ UNCHANGED <<cur, exp, LM, stopping, kf>>

Matches(e, p) == \A f \in DOMAIN p : f \in DOMAIN e /\ e[f] = p[f]

LaneStep(e) ==
    IF e.e = "lane" /\ e.lane = "map"
      THEN LM' = CASE e.m = "upd" -> [LM EXCEPT ![e.k] = e.v] [] e.m = "rem" -> [LM EXCEPT ![e.k] = -1] [] OTHER -> EmptyMap
      ELSE UNCHANGED LM

\* position of the first occurrence of v in s after position from (0: none)
Match(s, from, v) ==
    LET S == {p \in (from + 1)..Len(s) : s[p] = v} IN IF S = {} THEN 0 ELSE CHOOSE p \in S : \A q \in S : p <= q

Step(e) ==
    IF cur # 0
      THEN \* a callback is in progress: the next entry is the next one it makes - whatever else would be an overlap
           /\ Matches(e, Head(exp))
           /\ exp' = Tail(exp) /\ cur' = IF Len(exp) = 1 THEN 0 ELSE cur
           /\ LaneStep(e)
           /\ UNCHANGED <<D, stopping, kf>>
      ELSE
    \/ /\ e.e = "reset"
       /\ D' = [id \in {e.ids[x] : x \in 1..Len(e.ids)} |-> Fresh]
       /\ cur' = 0 /\ exp' = <<>> /\ LM' = e.lm /\ stopping' = FALSE /\ UNCHANGED kf      \* (lm: what the lane `map` holds when the instance starts)
    \/ /\ e.e = "open" /\ e.id \in Ids /\ D[e.id].phase = "none"
       \* (the handle goes to the slot of its kind: the handle of the downlink opened before is dropped)
       \* (a downlink that lost its channel decides whether to ask for a new one when it is next polled - after the callback
       \* for the loss has run; if its handle is dropped before that it is not restarted: either may be the case for a
       \* request that is owed and has not been seen yet)
       /\ \E dies \in BOOLEAN :
            D' = [x \in Ids |-> IF x = e.id THEN [D[x] EXCEPT !.kind = e.kind, !.ewns = e.ewns, !.keep = e.keep, !.phase = "asking", !.want = TRUE, !.left = Retries]
                                ELSE IF D[x].kind # e.kind THEN D[x]
                                ELSE IF dies /\ D[x].phase = "asking" /\ D[x].want /\ D[x].gen > 0
                                       THEN [D[x] EXCEPT !.orphan = TRUE, !.excused = TRUE, !.phase = "dead", !.want = FALSE]
                                       ELSE [D[x] EXCEPT !.orphan = TRUE, !.excused = TRUE]]
       /\ UNCHANGED <<cur, exp, LM, stopping, kf>>
    \/ /\ e.e = "dlreq" /\ e.id \in Ids
       /\ D[e.id].want                                       \* H4: only a request that is due
       /\ Upd(e.id, [D[e.id] EXCEPT !.want = FALSE, !.asked = TRUE])
       /\ UNCHANGED <<cur, exp, LM, stopping, kf>>
    \/ /\ e.e = "dlans" /\ e.id \in Ids /\ D[e.id].asked
       /\ LET d == [D[e.id] EXCEPT !.asked = FALSE] IN
          Upd(e.id, CASE e.how = "ok" -> [d EXCEPT !.phase = "run", !.gen = @ + 1, !.inq = IF d.stopped THEN <<[do |-> "stop"]>> ELSE <<>>,
                                                    !.ls = "U", !.val = -1, !.map = EmptyMap, !.obroken = FALSE]
                      [] e.how = "refuse" -> IF d.left > 0 THEN [d EXCEPT !.left = @ - 1, !.want = TRUE] ELSE [d EXCEPT !.phase = "dead"]
                      [] OTHER -> [d EXCEPT !.phase = "dead"])
       /\ UNCHANGED <<cur, exp, LM, stopping, kf>>
    \/ /\ e.e = "dlin" /\ e.id \in Ids
       /\ LET d == D[e.id] IN
          Upd(e.id, IF d.phase # "run" \/ d.stopped THEN d                  \* (nobody is listening)
                    ELSE IF e.do = "outfail" THEN [d EXCEPT !.obroken = TRUE, !.excused = TRUE]
                    \* (close: both channels go - the end of the input is queued behind what was delivered, a write may fail
                    \* before it is seen; closein: only the input ends)
                    ELSE IF e.do = "close" THEN [d EXCEPT !.obroken = TRUE, !.excused = TRUE, !.inq = Append(@, e)]
                    ELSE IF e.do = "closein" THEN [d EXCEPT !.inq = Append(@, [e EXCEPT !.do = "close"])]
                    ELSE [d EXCEPT !.inq = Append(@, e)])
       /\ UNCHANGED <<cur, exp, LM, stopping, kf>>
    \/ /\ e.e = "dlclose" /\ e.id \in Ids
       /\ LET d == D[e.id] IN
          \* (what the handle reports is the link state the notifications taken so far imply)
          /\ (d.phase = "run" => (e.linked <=> d.ls \in {"L", "S"}))
          /\ \E dies \in BOOLEAN : \E taken \in BOOLEAN :
               Upd(e.id, IF d.phase = "run" /\ ~d.stopped
                         THEN IF taken /\ d.inq # <<>> /\ Head(d.inq).do \in {"fail", "close"}
                                \* (the downlink has read the end of its channel already, see RestartsTaken)
                                THEN [d EXCEPT !.stopped = TRUE, !.inq = <<[do |-> Head(d.inq).do, taken |-> TRUE]>>, !.excused = TRUE]
                                ELSE [d EXCEPT !.stopped = TRUE, !.inq = <<[do |-> "stop"]>>, !.excused = TRUE]
                         \* (a restart that is owed and has not been seen yet may not happen any more, see `open`)
                         ELSE IF dies /\ d.phase = "asking" /\ d.want /\ d.gen > 0
                         THEN [d EXCEPT !.stopped = TRUE, !.excused = TRUE, !.phase = "dead", !.want = FALSE]
                         ELSE [d EXCEPT !.stopped = TRUE, !.excused = TRUE])
       /\ UNCHANGED <<cur, exp, LM, stopping, kf>>
    \/ /\ e.e = "dlset" /\ e.id \in Ids
       /\ Upd(e.id, IF e.ok THEN [D[e.id] EXCEPT !.wl = Append(@, e.v)] ELSE D[e.id])
       /\ UNCHANGED <<cur, exp, LM, stopping, kf>>
    \/ /\ e.e = "dlmop" /\ e.id \in Ids
       /\ Upd(e.id, IF ~e.ok THEN D[e.id]
                    ELSE CASE e.m = "upd" -> [D[e.id] EXCEPT !.reqv[e.k] = @ \cup {e.v}, !.mwant[e.k] = e.v]
                           [] e.m = "rem" -> [D[e.id] EXCEPT !.reqv[e.k] = @ \cup {-1}, !.mwant[e.k] = -1]
                           [] OTHER -> [D[e.id] EXCEPT !.reqc = TRUE, !.mwant = EmptyMap])
       /\ UNCHANGED <<cur, exp, LM, stopping, kf>>
    \/ /\ e.e = "dlout" /\ e.id \in Ids                     \* H5: nothing fabricated, in order
       /\ LET d == D[e.id] IN
          IF d.kind = "value"
            THEN LET p == Match(d.wl, d.wpos, e.v) IN /\ p > 0 /\ Upd(e.id, [d EXCEPT !.wpos = p])
            ELSE /\ (CASE e.m = "upd" -> e.v \in d.reqv[e.k]
                       [] e.m = "rem" -> -1 \in d.reqv[e.k] \/ d.reqc
                       [] OTHER -> d.reqc)
                 /\ Upd(e.id, CASE e.m = "upd" -> [d EXCEPT !.mgot[e.k] = e.v]
                                [] e.m = "rem" -> [d EXCEPT !.mgot[e.k] = -1]
                                [] OTHER -> [d EXCEPT !.mgot = EmptyMap])
       /\ UNCHANGED <<cur, exp, LM, stopping, kf>>
    \/ /\ e.e = "lane" /\ LaneStep(e) /\ UNCHANGED <<D, cur, exp, stopping, kf>>
    \/ /\ e.e = "other" /\ UNCHANGED <<D, cur, exp, LM, stopping, kf>>
    \/ /\ e.e = "stopping" /\ stopping' = TRUE /\ UNCHANGED <<D, cur, exp, LM, kf>>
    \/ /\ e.e = "quiescent"
       /\ stopping \/ \A id \in Ids : LET d == D[id] IN
             /\ ~d.want                                                   \* H4: every request that was due has been made
             /\ (d.phase = "run" /\ ~d.obroken) => d.inq = <<>>       \* H1: everything delivered has been taken
             /\ d.phase = "run" => \A x \in 1..Len(d.inq) : d.inq[x].do # "close"   \* H2: a closed channel has been noticed
             /\ (d.phase = "run" /\ ~d.excused) =>                      \* H5: an undisturbed downlink has written everything
                   /\ (d.kind = "value" => d.wpos = Len(d.wl))
                   /\ (d.kind = "map" => d.mgot = d.mwant)
       /\ UNCHANGED <<D, cur, exp, LM, stopping, kf>>

RecordKf(s) ==
    IF TLCGet(3) = 0 THEN TLCSet(2, s) /\ TLCSet(3, 1)
    ELSE IF Cardinality(s) < Cardinality(TLCGet(2)) THEN TLCSet(2, s) ELSE TRUE

TraceNext ==
    /\ i <= Len(Rec)
    /\ \/ /\ \E id \in Ids : Consume(id) \/ WFail(id)
          /\ UNCHANGED i
       \/ /\ Step(Rec[i])
          /\ i' = i + 1
          /\ TLCSet(1, Max(TLCGet(1), i + 1))
          /\ (i + 1 = Len(Rec) + 1) => RecordKf(kf')

TraceSpec == TraceInit /\ [][TraceNext]_vars

TraceAccepted ==
    LET m == TLCGet(1) IN
    /\ PrintT(<<"TRACE_RESULT", ToJson([accepted |-> (m = Len(Rec) + 1), matched |-> m - 1, total |-> Len(Rec),
                                        kf |-> IF m = Len(Rec) + 1 THEN TLCGet(2) ELSE TLCGet(4)])>>)
    /\ m = Len(Rec) + 1
=============================================================================

------------------------------ MODULE Trace_Lanes ------------------------------
(***************************************************************************)
(* P for the agent-side lane objects as a trace specification: it folds    *)
(* the calls made on a real lane and the frames decoded from the buffer    *)
(* the real write_to_buffer filled with the operators of LanesP.tla, and   *)
(* accepts the execution iff P never objects.  It knows nothing about the  *)
(* mechanism (Lanes.tla).                                                  *)
(*                                                                         *)
(* Events (ndjson; values and keys are the abstract numbers of the case,   *)
(* a concrete value outside the case's binding is given a number no call   *)
(* ever used):                                                             *)
(*  {"k":"reset","kind":K,"nk":n,"ids":[..],"case":id}     a fresh lane    *)
(*  {"k":"set","v":v,"mod":b}          value lane set / command received   *)
(*  {"k":"push","v":v,"mod":b}         supply lane item                    *)
(*  {"k":"cue","v":v,"mod":b}          demand lane cued, on_cue computed v *)
(*  {"k":"dsync","id":r,"v":v,"mod":b} demand lane sync, on_cue computed v *)
(*  {"k":"sync","id":r,"mod":b}                                            *)
(*  {"k":"upd","key":c,"v":v,"mod":b} | {"k":"rem","key":c,"mod":b} |      *)
(*  {"k":"clr","mod":b} | {"k":"take"|"drop","n":n,"mod":b}    map lane    *)
(*  {"k":"write","res":"nodata|done|more|reqev","frames":[frame..]}        *)
(*  {"k":"nop"}      a command that was rejected before it reached the     *)
(*                   lane (undecodable body): the lane must be unchanged   *)
(*  any of them may carry "cur": what the lane really holds afterwards     *)
(*  (a number, or the map as the sequence of the values of keys 1..nk)     *)
(* Anything else (the check writes {"k":"bad",..} for a panic) is rejected.*)
(***************************************************************************)
EXTENDS Integers, Sequences, FiniteSets, TLC, Json, IOUtils, LanesP

CONSTANT EnabledFindings      \* ids of the open known findings whose deviations P may take (and report)

Rec == ndJsonDeserialize(IOEnv.TRACE)

VARIABLES i, p
vars == <<i, p>>

Has(e, f) == f \in DOMAIN e
Max(a, b) == IF a > b THEN a ELSE b
SeqSet(s) == {s[j] : j \in DOMAIN s}

TraceInit == /\ i = 1 /\ p = LPInit("value", 1, {}, EnabledFindings, "", {}) /\ TLCSet(1, 1) /\ TLCSet(2, "")

Apply(e) ==
    IF e.k = "reset" THEN LPInit(e.kind, e.nk, SeqSet(e.ids), EnabledFindings, e.case, p.kf)
    ELSE IF e.k = "set" THEN LPSet(p, e.v, e.mod)
    ELSE IF e.k = "push" THEN LPPush(p, e.v, e.mod)
    ELSE IF e.k = "cue" THEN LPCue(p, e.v, e.mod)
    ELSE IF e.k = "dsync" THEN LPDSync(p, e.id, e.v, e.mod)
    ELSE IF e.k = "sync" THEN LPSync(p, e.id, e.mod)
    ELSE IF e.k = "upd" THEN LPMapUpd(p, e.key, e.v, e.mod)
    ELSE IF e.k = "rem" THEN LPMapRem(p, e.key, e.mod)
    ELSE IF e.k = "clr" THEN LPMapClr(p, e.mod)
    ELSE IF e.k \in {"take", "drop"} THEN LPMapTd(p, e.k, e.n, e.mod)
    ELSE IF e.k = "write" THEN LPWrite(p, e.res, e.frames)
    ELSE IF e.k = "nop" THEN p
    ELSE LPFail(p, "not-a-lane-event")

Step(e) == LET q == Apply(e)
               q2 == IF q.ok /\ e.k # "reset" /\ Has(e, "cur") THEN LPCurIs(q, e.cur) ELSE q IN
           /\ (q2.ok \/ (TLCSet(2, q2.why) /\ FALSE))
           /\ p' = q2

TraceNext == /\ i <= Len(Rec)
             /\ Step(Rec[i])
             /\ i' = i + 1
             /\ TLCSet(1, Max(TLCGet(1), i + 1))
             /\ TLCSet(3, p'.kf)

TraceSpec == TraceInit /\ TLCSet(3, {}) /\ [][TraceNext]_vars

SetToSeq(S) == LET RECURSIVE f(_) f(T) == IF T = {} THEN << >> ELSE LET x == CHOOSE y \in T : TRUE IN <<x>> \o f(T \ {x}) IN f(S)

TraceAccepted ==
    LET m == TLCGet(1) IN
    /\ PrintT(<<"TRACE_RESULT", ToJson([accepted |-> (m = Len(Rec) + 1), matched |-> m - 1, total |-> Len(Rec),
                                        why |-> TLCGet(2), kf |-> SetToSeq(TLCGet(3))])>>)
    /\ m = Len(Rec) + 1
=============================================================================

------------------------------- MODULE Recon -------------------------------
(***************************************************************************)
(* Data model and laws for property C09 (Recon text is a faithful and      *)
(* stable encoding, however it is chunked).  This module is constant-level *)
(* (no variables); it is used by                                           *)
(*   Gen_Recon       - the structural-writer protocol as a state machine:  *)
(*                     TLC enumerates every abstract model value of small  *)
(*                     scope (and simulates deep ones);                    *)
(*   Gen_ReconChunk  - the parser's state-stack machine: TLC enumerates    *)
(*                     token sequences (accepted and rejected);            *)
(*   MC_Recon        - the laws below, evaluated by TLC over the table of  *)
(*                     observations recorded from the real printers,       *)
(*                     parser and decoders.                                *)
(*                                                                         *)
(* Leaves are abstract classes; the harness (h_core/src/bin/recon.rs)      *)
(* concretises each from a boundary pool (numeric limits, +-0.0,           *)
(* subnormals, text needing quotes/escapes, non-BMP, keywords, blobs).     *)
(***************************************************************************)
EXTENDS Naturals, Sequences, FiniteSets, TLC

(***************************************************************************)
(* 1. Abstract model values  (swimos_model::Value)                         *)
(*    leaf classes: X extant, B bool, I integer of the kind the parser     *)
(*    picks, O integer of another kind, F finite float, Z non-finite       *)
(*    float, T identifier text, Q text needing quotes, D blob,             *)
(*    N / S rotate over the numeric / textual classes.                     *)
(*    name classes: n identifier, q not an identifier.                     *)
(***************************************************************************)
Nil         == [t |-> "nil"]
Leaf(c)     == [t |-> "leaf", c |-> c]
Rec(as, is) == [t |-> "rec", attrs |-> as, items |-> is]
AttrOf(n, v) == [n |-> n, v |-> v]
VItem(v)    == [v |-> v]
SItem(k, v) == [k |-> k, v |-> v]
IsSlot(it)  == "k" \in DOMAIN it

AllLeafClasses == {"X", "B", "I", "O", "F", "Z", "T", "Q", "D", "N", "S"}
AllNameClasses == {"n", "q"}

(***************************************************************************)
(* 2. The structural-writer protocol (swimos_form::structural::write):     *)
(*      StructuralWriter::record, HeaderWriter::write_attr,                *)
(*      HeaderWriter::complete_header(kind, num_items),                    *)
(*      BodyWriter::write_value / write_slot / done, PrimitiveWriter::*.   *)
(*    A frame is a record under construction.  `exp` says which value the  *)
(*    frame is waiting for.                                                *)
(***************************************************************************)
NewFrame == [attrs |-> <<>>, items |-> <<>>, hdr |-> TRUE, decl |-> 0,
             exp |-> "open", nm |-> "-", key |-> Nil]

Top(stk)       == stk[Len(stk)]
SetTop(stk, f) == [stk EXCEPT ![Len(stk)] = f]
Pop(stk)       == SubSeq(stk, 1, Len(stk) - 1)

\* hand a finished value to the frame that is waiting for it
Accept(f, v) ==
    CASE f.exp = "attr" -> [f EXCEPT !.attrs = Append(@, AttrOf(f.nm, v)), !.exp = "open", !.nm = "-"]
      [] f.exp = "item" -> [f EXCEPT !.items = Append(@, VItem(v)), !.exp = "open"]
      [] f.exp = "key"  -> [f EXCEPT !.key = v, !.exp = "val"]
      [] f.exp = "val"  -> [f EXCEPT !.items = Append(@, SItem(f.key, v)), !.exp = "open", !.key = Nil]

\* a value is expected at the current position
Expecting(stk, doc) == IF stk = <<>> THEN doc = Nil ELSE Top(stk).exp # "open"

\* the least number of further nodes needed to finish everything that has been promised
FrameOwed(f, isTop) ==
    (IF f.hdr THEN 0
     ELSE f.decl - Len(f.items) - (IF f.exp \in {"item", "key", "val"} THEN 1 ELSE 0))
    + (CASE f.exp = "open" -> 0
         [] f.exp \in {"attr", "item", "val"} -> (IF isTop THEN 1 ELSE 0)
         [] f.exp = "key" -> (IF isTop THEN 2 ELSE 1))

RECURSIVE OwedUpTo(_, _)
OwedUpTo(stk, n) == IF n = 0 THEN 0 ELSE FrameOwed(stk[n], n = Len(stk)) + OwedUpTo(stk, n - 1)
Owed(stk, doc) == IF stk = <<>> THEN (IF doc = Nil THEN 1 ELSE 0) ELSE OwedUpTo(stk, Len(stk))

(***************************************************************************)
(* 3. Tokens and the parser's state-stack machine                          *)
(*    (swimos_recon::recon_parser::record::{ParseState, StateChange,       *)
(*    IncrementalReconParser::parse}).  One token class per alternative    *)
(*    of the `alt` combinators; literals of every primitive kind behave    *)
(*    alike in the grammar and are one class.                              *)
(***************************************************************************)
Tokens == {"lit", "prim", "sep", "colon", "nl", "rb", "rp", "attr0", "attrp", "lb"}

PInit      == [k |-> "-", s |-> "Init"]
PAfterAttr == [k |-> "-", s |-> "AfterAttr"]
PBody(k, s) == [k |-> k, s |-> s]          \* k: "A" attribute body, "R" record body
PPanic     == [k |-> "-", s |-> "PANIC"]   \* ParseState::after_item on a state it does not expect

AfterItem(st) ==
    CASE st.s = "Init" -> PAfterAttr
      [] st.s \in {"StartOrNl", "AfterSep"} -> PBody(st.k, "AfterValue")
      [] st.s = "Slot" -> PBody(st.k, "AfterSlot")
      [] OTHER -> PPanic

PopAfterAttr(stk) == LET r == Pop(stk) IN IF r = <<>> THEN r ELSE SetTop(r, PAfterAttr)
PopAfterItem(stk) == LET r == Pop(stk) IN IF r = <<>> THEN r ELSE SetTop(r, AfterItem(Top(r)))
EndDelim(k)       == IF k = "A" THEN "rp" ELSE "rb"
EndChange(k, stk) == IF k = "A" THEN PopAfterAttr(stk) ELSE PopAfterItem(stk)

POk(stk)  == [ok |-> TRUE, stk |-> stk]
PErr(stk) == [ok |-> FALSE, stk |-> stk]

\* primary_attr (inside a body: starts a new record) / PushBody
StartItem(stk, tok) ==
    CASE tok = "attr0" -> POk(Append(stk, PAfterAttr))
      [] tok = "attrp" -> POk(stk \o <<PInit, PBody("A", "StartOrNl")>>)
      [] tok = "lb"    -> POk(Append(stk, PBody("R", "StartOrNl")))

RECURSIVE PStep(_, _)
PStep(stk, tok) ==
    LET top == Top(stk) IN
    CASE top.s = "Init" ->
           (CASE tok \in {"lit", "prim"} -> POk(<<>>)                          \* state.clear()
              [] tok = "attr0" -> POk(SetTop(stk, PAfterAttr))                 \* secondary_attr, no body
              [] tok = "attrp" -> POk(Append(stk, PBody("A", "StartOrNl")))    \* PushAttr
              [] tok = "lb"    -> POk(SetTop(stk, PBody("R", "StartOrNl")))
              [] tok = "nl"    -> POk(stk)                                     \* multispace0
              [] OTHER -> PErr(stk))
      [] top.s = "AfterAttr" ->
           (CASE tok \in {"lit", "prim"} -> POk(PopAfterItem(stk))             \* singleton body
              [] tok = "attr0" -> POk(stk)
              [] tok = "attrp" -> POk(Append(stk, PBody("A", "StartOrNl")))
              [] tok = "lb"    -> POk(SetTop(stk, PBody("R", "StartOrNl")))
              [] tok \in {"sep", "rp", "rb", "nl"} ->                          \* peek: empty body, token not consumed
                    LET r == PopAfterItem(stk) IN IF r = <<>> THEN POk(r) ELSE PStep(r, tok)
              [] OTHER -> PErr(stk))                                           \* ':' after an attribute
      [] top.s \in {"StartOrNl", "AfterSep"} ->
           (CASE tok \in {"lit", "prim"} -> POk(SetTop(stk, PBody(top.k, "AfterValue")))
              [] tok = "sep"   -> POk(SetTop(stk, PBody(top.k, "AfterSep")))
              [] tok = "colon" -> POk(SetTop(stk, PBody(top.k, "Slot")))
              [] tok = EndDelim(top.k) -> POk(EndChange(top.k, stk))
              [] tok \in {"attr0", "attrp", "lb"} -> StartItem(stk, tok)
              [] tok = "nl"    -> POk(stk)
              [] OTHER -> PErr(stk))
      [] top.s = "AfterValue" ->
           (CASE tok = "nl"    -> POk(SetTop(stk, PBody(top.k, "StartOrNl")))
              [] tok = "sep"   -> POk(SetTop(stk, PBody(top.k, "AfterSep")))
              [] tok = "colon" -> POk(SetTop(stk, PBody(top.k, "Slot")))
              [] tok = EndDelim(top.k) -> POk(EndChange(top.k, stk))
              [] OTHER -> PErr(stk))
      [] top.s = "AfterSlot" ->
           (CASE tok = "nl"    -> POk(SetTop(stk, PBody(top.k, "StartOrNl")))
              [] tok = "sep"   -> POk(SetTop(stk, PBody(top.k, "AfterSep")))
              [] tok = EndDelim(top.k) -> POk(EndChange(top.k, stk))
              [] OTHER -> PErr(stk))
      [] top.s = "Slot" ->
           (CASE tok \in {"lit", "prim"} -> POk(SetTop(stk, PBody(top.k, "AfterSlot")))
              [] tok = "nl"    -> POk(SetTop(stk, PBody(top.k, "StartOrNl")))
              [] tok = "sep"   -> POk(SetTop(stk, PBody(top.k, "AfterSep")))
              [] tok = EndDelim(top.k) -> POk(EndChange(top.k, stk))
              [] tok \in {"attr0", "attrp", "lb"} -> StartItem(stk, tok)
              [] OTHER -> PErr(stk))
      [] OTHER -> PErr(stk)

\* IncrementalReconParser::into_final_parser: what may be left when the input ends
AcceptAtEof(stk) == stk = <<>> \/ stk = <<PInit>> \/ stk = <<PAfterAttr>>

NoPanicState(stk) == \A j \in 1..Len(stk) : stk[j] # PPanic

(***************************************************************************)
(* 4. The laws (P).  A row is one observation record written by the        *)
(*    harness; ids are hashes of exact canonical forms (kinds, float bits, *)
(*    order), "err" stands for any error result.                           *)
(*                                                                         *)
(*    value row : k="value", vid, produced (the real parser maps an        *)
(*                independent, fully explicit rendering of the value back  *)
(*                to exactly it: a witness that the parser can produce     *)
(*                it), nonfinite, pr = one entry per printer               *)
(*                [back = id of parse(print_p(v)), nf, again = per printer *)
(*                id of parse(print_q(parse(print_p(v))))]                 *)
(*    typed row : k="typed", vid, pr = [back] (id of the typed value read  *)
(*                back with parse_recognize::<T>)                          *)
(*    text row  : k="text", one (id of the one-shot result or "err"),      *)
(*                vid = one, pr as for a value row (the parsed value is    *)
(*                parser-produced by definition)                           *)
(*    every row : chunk = per text [one, rd0, wl0, rd, wl (sets of result  *)
(*                ids over all cut plans), wl_left_bad, doc0, doc]         *)
(***************************************************************************)
Has(r, f) == f \in DOMAIN r
Flag(r, f) == Has(r, f) /\ r[f]

\* No input, well-formed or not, causes a panic or a hang.
Total(r) == ~Has(r, "panic") /\ ~Has(r, "hang")

Printers(r) == IF Has(r, "pr") THEN 1..Len(r.pr) ELSE {}

\* Typed values and values the parser can produce are recovered exactly, by every printer.
RoundTrip(r) ==
    (Total(r) /\ ~Flag(r, "nonfinite") /\ ~Flag(r, "skip") /\
     (r.k = "typed" \/ (r.k = "value" /\ Flag(r, "produced")) \/ (r.k = "text" /\ Has(r, "vid"))))
    => \A p \in Printers(r) : r.pr[p].back = r.vid

\* For an arbitrary model value one print/parse cycle reaches a value that further cycles
\* (through any of the printers: it is a parser-produced value) do not change.
FixedPoint(r) ==
    (Total(r) /\ r.k \in {"value", "text"} /\ ~Flag(r, "nonfinite"))
    => \A p \in Printers(r) :
          /\ r.pr[p].back # "err"
          /\ (~Flag(r.pr[p], "nf")) =>
                \A q \in 1..Len(r.pr[p].again) : r.pr[p].again[q].back = r.pr[p].back

AllEq(seq, x) == \A j \in 1..Len(seq) : seq[j] = x

\* Every chunking gives the one-shot result; the length-delimited decoder consumes exactly its frame.
\* (a byte string that is not UTF-8 is outside the one-shot parser's domain: only totality applies to it)
ChunkOne(c) ==
    \/ Flag(c, "binary")
    \/ /\ c.rd0 = c.one /\ c.wl0 = c.one /\ c.wl0_left = 9
       /\ AllEq(c.rd, c.one) /\ AllEq(c.wl, c.one) /\ c.wl_left_bad = 0
       /\ Has(c, "doc") => AllEq(c.doc, c.doc0)
ChunkIndependent(r) ==
    (Total(r) /\ Has(r, "chunk")) => \A j \in 1..Len(r.chunk) : ChunkOne(r.chunk[j])

\* protocol facts about one recorded sequence of decoder calls (a sample per row)
CallsOk(calls) ==
    \A j \in 1..Len(calls) :
        /\ calls[j].consumed <= calls[j].avail
        /\ (calls[j].out # "none") => j = Len(calls)          \* a result ends the frame
CallsLaw(r) ==
    (Total(r) /\ Has(r, "chunk")) =>
        \A j \in 1..Len(r.chunk) : Has(r.chunk[j], "sample") => CallsOk(r.chunk[j].sample.calls)

LawNames == <<"Total", "RoundTrip", "FixedPoint", "ChunkIndependent", "CallsLaw">>
LawHolds(name, r) ==
    CASE name = "Total" -> Total(r)
      [] name = "RoundTrip" -> RoundTrip(r)
      [] name = "FixedPoint" -> FixedPoint(r)
      [] name = "ChunkIndependent" -> ChunkIndependent(r)
      [] name = "CallsLaw" -> CallsLaw(r)
Broken(r) == {n \in {LawNames[j] : j \in 1..Len(LawNames)} : ~LawHolds(n, r)}
=============================================================================

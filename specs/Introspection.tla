---------------------------- MODULE Introspection ----------------------------
(***************************************************************************)
(* C20, the layer that REPORTS the counts: server/swimos_introspection.    *)
(*                                                                         *)
(* M (mechanism), one action per real operation:                           *)
(*  - the observed agent: IntrospectionResolver::register_agent (AddAgent  *)
(*    on the unbounded message channel), lanes added at arbitrary points   *)
(*    (NodeReporting::register -> UplinkReporterRegistration on the        *)
(*    bounded registration channel), remotes linking / unlinking, events,  *)
(*    commands, a lane failing, the agent stopping (reporters dropped,     *)
(*    close_agent -> AgentClosed);  what its reporters hold is taken from  *)
(*    the truth (`linked`, pending counts): that the runtime keeps them    *)
(*    right is Links.tla's subject;                                        *)
(*  - task/mod.rs introspection_task: the two input channels merged by     *)
(*    futures::stream::select - a round robin whose preference flips on    *)
(*    EVERY poll - and drained once per scheduling of the task (IPoll);    *)
(*    Agents { name_map, forest }, AgentIntrospectionUpdater { lanes,      *)
(*    epoch }, IntrospectAgent / IntrospectLane (new_snapshot, which       *)
(*    clears closed lanes);                                                *)
(*  - meta_agent/{node,lane}: init (resolve, then the first snapshot of    *)
(*    run_pulse_lane_inner, kept as last_pulse and only handed out in      *)
(*    answer to a sync), one snapshot per pulse interval (Tick) published  *)
(*    as an event, make_pulse's rates, the node meta agent's `lanes` lane  *)
(*    (cached listing, refreshed when AgentIntrospectionHandle::changed),  *)
(*    termination when the reporter has gone.                              *)
(*                                                                         *)
(* P (property), as history variables next to M:                           *)
(*  - Conservation: what the published pulses have reported so far plus    *)
(*    what the reporters still hold is what was counted (per lane and for  *)
(*    the node);  LinkCountsTrue: every published pulse carries the number *)
(*    of remotes linked at its snapshot (lane) / of links of the agent     *)
(*    (node = sum over its lanes);                                         *)
(*  - LanesKnown: every lane a running agent has registered is known to    *)
(*    the introspection task once its messages have been processed;        *)
(*  - NothingAfterRemoval: no pulse for a removed lane / stopped agent.    *)
(*                                                                         *)
(* LaneMetaLives / MsgFirst select the unchanged tree or the repaired one  *)
(* (findings F3e: the lane meta agent drops its AgentContext and is        *)
(* terminated at once, after its first snapshot has consumed the counts;   *)
(* F3d: a lane registration overtakes the registration of its agent and    *)
(* is dropped).                                                            *)
(***************************************************************************)
EXTENDS Integers, FiniteSets, Sequences, TLC

CONSTANTS NL, NR,        \* lanes 1..NL, remotes 1..NR
          MaxCount,      \* bound on pending counts (state constraint)
          RateMul,       \* 10^6 / pulse interval in microseconds  (rate = count * RateMul for a full interval)
          LaneMetaLives, \* TRUE: the lane meta agent keeps its context (F3e repaired)
          MsgFirst,      \* TRUE: the message channel is always served first (F3d repaired)
          Excuse         \* subset of {"F3d", "F3e"}

Lanes == 1..NL
Remotes == 1..NR
Metas == 0..NL           \* 0 = node meta agent, l = lane meta agent of lane l

VARIABLES
    \* ---- the observed agent (truth)
    ag,        \* "none" | "up" | "stopped"
    added,     \* lanes the agent has added
    failed,    \* lanes that have failed (reporter dropped on both sides)
    att,       \* attached remotes
    linked,    \* SUBSET (Lanes \X Remotes)
    ev, cm,    \* [Lanes -> Nat]  event / command counts pending in the lane reporters
    aev, acm,  \* the same in the aggregate reporter
    \* ---- the introspection task
    msgQ,      \* Seq of [t |-> "AddAgent" | "Closed" | "IAgent" | "ILane", l |-> lane]
    regQ,      \* Seq of lanes (UplinkReporterRegistration)
    pref,      \* "L" | "R": which channel select() polls first next time
    known,     \* the agent is in the registry (name_map + forest)
    rl,        \* lanes in the agent's AgentIntrospectionUpdater
    stale,     \* epoch # current_epoch of the node meta agent's handle
    \* ---- the meta agents
    ms,        \* [Metas -> "off" | "init" | "on" | "end"]
    last,      \* [Metas -> pulse]   last_pulse
    list,      \* the node meta agent's cached lane listing
    \* ---- P / findings bookkeeping
    repE, repC,    \* [Metas -> Nat]-like owed counters: counted and not yet reported by a published pulse
    overtaken,     \* lanes whose registration was processed before that of their agent (F3d)
    eaten,         \* lanes whose counts were consumed by a lane meta agent that never published them (F3e)
    lastAct

tvars == <<ag, added, failed, att, linked, ev, cm, aev, acm>>
ivars == <<msgQ, regQ, pref, known, rl, stale>>
mvars == <<ms, last, list>>
pvars == <<repE, repC, overtaken, eaten>>
vars  == <<tvars, ivars, mvars, pvars, lastAct>>
\* `last` only feeds the answer to a later sync of a pulse lane: it is left out of the VIEW (no invariant reads it);
\* replayed behaviours come from simulation, where the whole state is carried along a path
View  == <<tvars, ivars, ms, list, pvars>>

Of(S, l) == {r \in Remotes : <<l, r>> \in S}
N(l) == Cardinality(Of(linked, l))
Active == ag = "up"                                   \* the aggregate reporter exists
LaneActive(l) == ag = "up" /\ l \in added /\ l \notin failed
Dead == IF ag = "up" THEN failed ELSE Lanes           \* lanes whose reader is_active() = false
NoPulse == <<0, 0, 0, 0, 0>>
Msg(t, l) == [t |-> t, l |-> l]
MsCode(s) == CASE s = "off" -> 0 [] s = "init" -> 1 [] s = "on" -> 2 [] OTHER -> 3
MsOut(f) == [i \in 1..(NL + 1) |-> MsCode(f[i - 1])]
SetSeq(S) == SelectSeq([i \in 1..NL |-> i], LAMBDA x : x \in S)

\* UplinkSnapshot::make_pulse: <<linkCount, eventRate, eventCount, commandRate, commandCount>>;
\* full = a whole pulse interval has passed since the previous snapshot, otherwise no time at all (rate u64::MAX, written -1)
Pulse(n, e, c, full) == <<n, IF full THEN e * RateMul ELSE -1, e, IF full THEN c * RateMul ELSE -1, c>>

-----------------------------------------------------------------------------
(* the introspection task: one scheduling = drain both channels            *)

\* Q: [msgQ, regQ, pref, known, rl, stale, over, grantN, grantL, deny]
ProcMsg(Q, m) ==
    CASE m.t = "AddAgent" -> [Q EXCEPT !.known = TRUE, !.rl = {}, !.stale = FALSE]     \* a new updater
      [] m.t = "Closed"   -> [Q EXCEPT !.known = FALSE]
      [] m.t = "IAgent"   -> IF Q.known THEN [Q EXCEPT !.grantN = TRUE]                 \* make_handle
                             ELSE [Q EXCEPT !.deny = @ \cup {0}]                        \* NoSuchAgent
      [] OTHER (* ILane *) ->
             IF Q.known /\ Active
               THEN LET rl2 == Q.rl \ Dead IN                                          \* new_snapshot: clear_closed
                    IF m.l \in rl2 THEN [Q EXCEPT !.rl = rl2, !.grantL = @ \cup {m.l}]
                    ELSE [Q EXCEPT !.rl = rl2, !.deny = @ \cup {m.l}]                   \* NoSuchLane
               ELSE [Q EXCEPT !.deny = @ \cup {m.l}]                                    \* NoSuchAgent

ProcReg(Q, l) ==
    IF Q.known THEN [Q EXCEPT !.rl = @ \cup {l}, !.stale = TRUE]                        \* add_lane: epoch + 1
    \* with_agent finds nothing: the registration is DROPPED.  Harmless if the agent has closed; a loss if the
    \* agent's own registration is still waiting in the other channel (F3d)
    ELSE IF \E i \in 1..Len(Q.msgQ) : Q.msgQ[i].t = "AddAgent" THEN [Q EXCEPT !.over = @ \cup {l}]
    ELSE Q

RECURSIVE Drain(_)
Drain(Q) ==
    LET first == IF MsgFirst THEN "L" ELSE Q.pref
        Q1 == IF MsgFirst THEN Q ELSE [Q EXCEPT !.pref = IF @ = "L" THEN "R" ELSE "L"]  \* PollNext::toggle on every poll
        takeL == Q.msgQ # <<>> /\ (first = "L" \/ Q.regQ = <<>>)
        takeR == Q.regQ # <<>> /\ (first = "R" \/ Q.msgQ = <<>>)
    IN IF takeL THEN Drain(ProcMsg([Q1 EXCEPT !.msgQ = Tail(@)], Head(Q.msgQ)))
       ELSE IF takeR THEN Drain(ProcReg([Q1 EXCEPT !.regQ = Tail(@)], Head(Q.regQ)))
       ELSE Q1                                                                          \* Pending

SeqOfPulses(f, S) ==        \* <<m, kind, pulse...>> for m in S, ascending
    SelectSeq([i \in 1..(NL + 1) |-> IF (i - 1) \in S THEN <<i - 1>> \o f[i - 1] ELSE <<>>], LAMBDA x : x # <<>>)

IPoll ==
    LET Q == Drain([msgQ |-> msgQ, regQ |-> regQ, pref |-> pref, known |-> known, rl |-> rl, stale |-> stale,
                    over |-> {}, grantN |-> FALSE, grantL |-> {}, deny |-> {}])
        \* the meta agents whose request was answered go on with their initialisation
        nodeUp == Q.grantN /\ Active                       \* first snapshot of the aggregate reader succeeds
        nodeEnd == (Q.grantN /\ ~Active) \/ 0 \in Q.deny
        laneUp == IF LaneMetaLives THEN Q.grantL ELSE {}
        laneEnd == (Q.deny \ {0}) \cup (Q.grantL \ laneUp)
        rl2 == IF nodeUp THEN Q.rl \ Dead ELSE Q.rl        \* run_lanes_descriptor_lane: handle.new_snapshot()
        p0 == Pulse(Cardinality(linked), aev, acm, FALSE)
        pl(l) == Pulse(N(l), ev[l], cm[l], FALSE)
        newLast == [m \in Metas |-> IF m = 0 /\ nodeUp THEN p0 ELSE IF m \in laneUp THEN pl(m) ELSE last[m]]
        up == (IF nodeUp THEN {0} ELSE {}) \cup laneUp
    IN
    /\ msgQ' = Q.msgQ /\ regQ' = Q.regQ /\ pref' = Q.pref /\ known' = Q.known
    /\ rl' = rl2
    /\ stale' = (IF nodeUp THEN FALSE ELSE Q.stale)
    /\ ms' = [m \in Metas |-> IF m \in up THEN "on" ELSE IF (m = 0 /\ nodeEnd) \/ m \in laneEnd THEN "end" ELSE ms[m]]
    /\ last' = newLast
    /\ list' = IF nodeUp THEN rl2 ELSE list
    \* the first snapshot consumes the counts - whether or not the agent lives to publish them
    /\ aev' = (IF nodeUp THEN 0 ELSE aev)
    /\ acm' = (IF nodeUp THEN 0 ELSE acm)
    /\ ev' = [l \in Lanes |-> IF l \in Q.grantL THEN 0 ELSE ev[l]]
    /\ cm' = [l \in Lanes |-> IF l \in Q.grantL THEN 0 ELSE cm[l]]
    /\ repE' = [m \in Metas |-> IF m \in up THEN 0 ELSE repE[m]]
    /\ repC' = [m \in Metas |-> IF m \in up THEN 0 ELSE repC[m]]
    /\ overtaken' = overtaken \cup Q.over
    /\ eaten' = eaten \cup (Q.grantL \ laneUp)
    /\ lastAct' = [k |-> "ipoll",
                   px |-> SeqOfPulses([m \in Metas |-> <<"S">> \o newLast[m]], up),     \* handed out to the observer's sync
                   ls |-> <<-1>>, ms |-> MsOut(ms')]
    /\ UNCHANGED <<ag, added, failed, att, linked>>

-----------------------------------------------------------------------------
(* the observed agent and its remotes                                       *)
NoObs == [px |-> <<>>, ls |-> <<-1>>, ms |-> MsOut(ms)]
Quiet(act) == lastAct' = act @@ NoObs

Reg ==
    /\ ag = "none"
    /\ ag' = "up" /\ msgQ' = Append(msgQ, Msg("AddAgent", 0))
    /\ Quiet([k |-> "reg"])
    /\ UNCHANGED <<added, failed, att, linked, ev, cm, aev, acm, regQ, pref, known, rl, stale, mvars, pvars>>

AddLane(l) ==
    /\ ag = "up" /\ l \notin added
    /\ added' = added \cup {l} /\ regQ' = Append(regQ, l)
    /\ Quiet([k |-> "addlane", l |-> l])
    /\ UNCHANGED <<ag, failed, att, linked, ev, cm, aev, acm, msgQ, pref, known, rl, stale, mvars, pvars>>

Att(r) ==
    /\ ag = "up" /\ r \notin att
    /\ att' = att \cup {r}
    /\ Quiet([k |-> "att", r |-> r])
    /\ UNCHANGED <<ag, added, failed, linked, ev, cm, aev, acm, ivars, mvars, pvars>>

Link(r, l) ==
    /\ ag = "up" /\ r \in att
    /\ linked' = IF LaneActive(l) THEN linked \cup {<<l, r>>} ELSE linked     \* unknown / failed lane: `lane not found`
    /\ Quiet([k |-> "link", r |-> r, l |-> l])
    /\ UNCHANGED <<ag, added, failed, att, ev, cm, aev, acm, ivars, mvars, pvars>>

Unlink(r, l) ==
    /\ ag = "up" /\ r \in att
    /\ linked' = linked \ {<<l, r>>}
    /\ Quiet([k |-> "unlink", r |-> r, l |-> l])
    /\ UNCHANGED <<ag, added, failed, att, ev, cm, aev, acm, ivars, mvars, pvars>>

Event(l) ==       \* the lane emits an event: one per linked remote, counted for the lane and for the node
    /\ LaneActive(l)
    /\ ev' = [ev EXCEPT ![l] = @ + N(l)] /\ aev' = aev + N(l)
    /\ repE' = [m \in Metas |-> IF m = 0 \/ m = l THEN repE[m] + N(l) ELSE repE[m]]
    /\ Quiet([k |-> "ev", l |-> l])
    /\ UNCHANGED <<ag, added, failed, att, linked, cm, acm, ivars, mvars, repC, overtaken, eaten>>

Command(l) ==     \* a command envelope for the lane: counted by the read task (node) and by the LaneSender (lane)
    /\ LaneActive(l)
    /\ cm' = [cm EXCEPT ![l] = @ + 1] /\ acm' = acm + 1
    /\ repC' = [m \in Metas |-> IF m = 0 \/ m = l THEN repC[m] + 1 ELSE repC[m]]
    /\ Quiet([k |-> "cmd", l |-> l])
    /\ UNCHANGED <<ag, added, failed, att, linked, ev, aev, ivars, mvars, repE, overtaken, eaten>>

Fail(l) ==        \* the lane breaks on both sides; the command that makes the read task notice is counted for the node
    /\ LaneActive(l)
    /\ failed' = failed \cup {l} /\ linked' = {p \in linked : p[1] # l}
    /\ acm' = acm + 1 /\ repC' = [repC EXCEPT ![0] = @ + 1]
    /\ Quiet([k |-> "fail", l |-> l])
    /\ UNCHANGED <<ag, added, att, ev, cm, aev, ivars, mvars, repE, overtaken, eaten>>

Stop ==           \* the agent stops: every reporter is dropped; the server tells the introspection task
    /\ ag = "up"
    /\ ag' = "stopped" /\ linked' = {} /\ att' = {}
    /\ msgQ' = Append(msgQ, Msg("Closed", 0))
    /\ Quiet([k |-> "stop"])
    /\ UNCHANGED <<added, failed, ev, cm, aev, acm, regQ, pref, known, rl, stale, mvars, pvars>>

-----------------------------------------------------------------------------
(* the meta agents and their observers                                      *)
MNode ==
    /\ ms[0] \in {"off", "end"}
    /\ ms' = [ms EXCEPT ![0] = "init"] /\ msgQ' = Append(msgQ, Msg("IAgent", 0))
    /\ lastAct' = [k |-> "mnode", px |-> <<>>, ls |-> <<-1>>, ms |-> MsOut(ms')]
    /\ UNCHANGED <<tvars, regQ, pref, known, rl, stale, last, list, pvars>>

MLane(l) ==
    /\ ms[l] \in {"off", "end"}
    /\ ms' = [ms EXCEPT ![l] = "init"] /\ msgQ' = Append(msgQ, Msg("ILane", l))
    /\ lastAct' = [k |-> "mlane", l |-> l, px |-> <<>>, ls |-> <<-1>>, ms |-> MsOut(ms')]
    /\ UNCHANGED <<tvars, regQ, pref, known, rl, stale, last, list, pvars>>

StopMeta(m) ==
    /\ ms[m] = "on"
    /\ ms' = [ms EXCEPT ![m] = "off"]
    /\ lastAct' = [k |-> "stopmeta", m |-> m, px |-> <<>>, ls |-> <<-1>>, ms |-> MsOut(ms')]
    /\ UNCHANGED <<tvars, ivars, last, list, pvars>>

Tick ==           \* the pulse interval passes: every running meta agent takes a snapshot and publishes it
    LET on == {m \in Metas : ms[m] = "on"}
        alive == {m \in on : IF m = 0 THEN Active ELSE LaneActive(m)}
        p(m) == IF m = 0 THEN Pulse(Cardinality(linked), aev, acm, TRUE) ELSE Pulse(N(m), ev[m], cm[m], TRUE)
        newLast == [m \in Metas |-> IF m \in alive THEN p(m) ELSE last[m]]
    IN
    /\ on # {}
    /\ ms' = [m \in Metas |-> IF m \in on \ alive THEN "end" ELSE ms[m]]     \* snapshot() = None: the pulse lane ends
    /\ last' = newLast
    /\ aev' = (IF 0 \in alive THEN 0 ELSE aev)
    /\ acm' = (IF 0 \in alive THEN 0 ELSE acm)
    /\ ev' = [l \in Lanes |-> IF l \in alive THEN 0 ELSE ev[l]]
    /\ cm' = [l \in Lanes |-> IF l \in alive THEN 0 ELSE cm[l]]
    /\ repE' = [m \in Metas |-> IF m \in alive THEN 0 ELSE repE[m]]
    /\ repC' = [m \in Metas |-> IF m \in alive THEN 0 ELSE repC[m]]
    /\ lastAct' = [k |-> "tick", px |-> SeqOfPulses([m \in Metas |-> <<"E">> \o newLast[m]], alive),
                   ls |-> <<-1>>, ms |-> MsOut(ms')]
    /\ UNCHANGED <<ag, added, failed, att, linked, ivars, list, overtaken, eaten>>

SyncPulse(m) ==   \* a sync of the pulse lane is answered with last_pulse: no new snapshot
    /\ ms[m] = "on"
    /\ lastAct' = [k |-> "syncp", m |-> m, px |-> <<<<m, "S">> \o last[m]>>, ls |-> <<-1>>, ms |-> MsOut(ms)]
    /\ UNCHANGED <<tvars, ivars, mvars, pvars>>

SyncLanes ==      \* a sync of the node meta agent's `lanes` lane
    /\ ms[0] = "on"
    /\ IF stale \/ ~Active                                   \* handle.changed()
         THEN IF Active
                THEN /\ list' = rl \ Dead /\ rl' = rl \ Dead /\ stale' = FALSE /\ ms' = ms
                     /\ lastAct' = [k |-> "synclanes", px |-> <<>>, ls |-> SetSeq(rl \ Dead), ms |-> MsOut(ms)]
                ELSE /\ ms' = [ms EXCEPT ![0] = "end"]       \* new_snapshot() = None: the lane ends, and the agent with it
                     /\ lastAct' = [k |-> "synclanes", px |-> <<>>, ls |-> <<-1>>, ms |-> MsOut(ms')]
                     /\ UNCHANGED <<list, rl, stale>>
         ELSE /\ lastAct' = [k |-> "synclanes", px |-> <<>>, ls |-> SetSeq(list), ms |-> MsOut(ms)]
              /\ UNCHANGED <<list, rl, stale, ms>>
    /\ UNCHANGED <<tvars, msgQ, regQ, pref, known, last, pvars>>

Next == \/ Reg \/ Stop \/ IPoll \/ MNode \/ Tick \/ SyncLanes
        \/ \E l \in Lanes : AddLane(l) \/ Event(l) \/ Command(l) \/ Fail(l) \/ MLane(l)
        \/ \E r \in Remotes : Att(r)
        \/ \E r \in Remotes, l \in Lanes : Link(r, l) \/ Unlink(r, l)
        \/ \E m \in Metas : StopMeta(m) \/ SyncPulse(m)

Init == /\ ag = "none" /\ added = {} /\ failed = {} /\ att = {} /\ linked = {}
        /\ ev = [l \in Lanes |-> 0] /\ cm = [l \in Lanes |-> 0] /\ aev = 0 /\ acm = 0
        /\ msgQ = <<>> /\ regQ = <<>> /\ pref = "L" /\ known = FALSE /\ rl = {} /\ stale = FALSE
        /\ ms = [m \in Metas |-> "off"] /\ last = [m \in Metas |-> NoPulse] /\ list = {}
        /\ repE = [m \in Metas |-> 0] /\ repC = [m \in Metas |-> 0] /\ overtaken = {} /\ eaten = {}
        /\ lastAct = [k |-> "init"]

Spec == Init /\ [][Next]_vars
Bounded == /\ aev <= MaxCount /\ acm <= MaxCount /\ \A l \in Lanes : ev[l] <= MaxCount /\ cm[l] <= MaxCount
           /\ \A m \in Metas : repE[m] <= MaxCount + 1 /\ repC[m] <= MaxCount + 1
           /\ Len(msgQ) <= 2 /\ Len(regQ) <= NL

-----------------------------------------------------------------------------
TypeOK == /\ ag \in {"none", "up", "stopped"} /\ added \subseteq Lanes /\ failed \subseteq added
          /\ linked \subseteq (added \ failed) \X att /\ rl \subseteq added /\ list \subseteq added
          /\ pref \in {"L", "R"} /\ \A m \in Metas : ms[m] \in {"off", "init", "on", "end"}

\* P: nothing counted is lost - what the reporters hold is exactly what no published pulse has reported yet
Conservation ==
    /\ Active => repE[0] = aev /\ repC[0] = acm
    /\ \A l \in Lanes : LaneActive(l) =>
          \/ repE[l] = ev[l] /\ repC[l] = cm[l]
          \/ "F3e" \in Excuse /\ l \in eaten /\ ev[l] <= repE[l] /\ cm[l] <= repC[l]

\* P: every lane of a running agent is known once the introspection task has caught up
LanesKnown ==
    (ag = "up" /\ msgQ = <<>> /\ regQ = <<>> /\ known) =>
        \A l \in added \ failed : l \in rl \/ ("F3d" \in Excuse /\ l \in overtaken)

\* P: a published pulse carries the true link count of its snapshot; nothing is published for what has gone
PulsesTrue ==
    lastAct.k \in {"tick", "ipoll"} =>
        \A i \in 1..Len(lastAct.px) :
            LET x == lastAct.px[i] IN
            /\ ag = "up"
            /\ IF x[1] = 0 THEN x[3] = Cardinality(linked) ELSE x[1] \notin failed /\ x[3] = N(x[1])
\* the node's count is the sum over its lanes
RECURSIVE SumN(_)
SumN(n) == IF n = 0 THEN 0 ELSE N(n) + SumN(n - 1)
NodeIsSumOfLanes == Cardinality(linked) = SumN(NL)

\* a lane meta agent that was started for a known lane keeps running while the lane does (fails with F3e)
LaneMetaAvailable == \A l \in Lanes : (ms[l] = "end" /\ LaneActive(l) /\ l \in eaten) => "F3e" \in Excuse
NoLostRegistration == overtaken = {}
NoEatenCounts == eaten = {}
=============================================================================

---------------------------- MODULE Gen_FormDoc ----------------------------
(***************************************************************************)
(* Generator for C16: TLC enumerates, for every battery type in Keys,      *)
(*   Pick      an instance x at small scope;  doc := Render(x)             *)
(*   <op>      one abstract mutation operator applied at one node of doc   *)
(*             (at most MaxMut in a row, at nesting depth <= MutDepth)     *)
(*   Commit    the document becomes a frame already decoded on ONE reused  *)
(*             decoder; the next frame is another instance (after a well-  *)
(*             formed frame) or a well-formed instance (after a mutant)    *)
(* and prints every distinct (type, frames, document) once (DOC lines) with*)
(* what the reference reader expects (the reader has no memory: it expects *)
(* the same of a document whatever was decoded before it).  One action per operator, so    *)
(* TLC's coverage shows which operators produced documents.                *)
(*                                                                         *)
(* Invariants checked on the model itself:                                 *)
(*   WellFormed          every generated document is a model value         *)
(*   ReadInvertsRender   Read(Render(x)) = x for every instance, except    *)
(*                       where Render is not injective (RenderClash) and   *)
(*                       in the circumstances of an open finding (Excused; *)
(*                       the check re-runs without the excuse to see that  *)
(*                       the model still exhibits the finding)             *)
(*   WrongTagRejected    a document whose tag attribute was renamed is     *)
(*                       rejected for every struct / enum type             *)
(***************************************************************************)
EXTENDS FormDoc, Json

CONSTANTS Excused,    \* open findings whose (specific) circumstances excuse ReadInvertsRender
          Keys,       \* battery types of this run
          MaxFrames,  \* documents decoded in a row by one (reused) decoder
          MaxMut,     \* mutation operators applied in a row
          MutDepth    \* nesting depth down to which a mutation is applied

VARIABLES ty, inst, doc, hist, sess
vars == <<ty, inst, doc, hist, sess>>
\* mutants are identified by (type, document); instances stay distinct even if they render alike
View == <<ty, doc, IF hist = <<>> THEN inst ELSE NoneI, sess>>

ASSUME Keys \subseteq AllKeys
ASSUME PrintT(<<"SCHEMA", ToJson([k \in AllKeys |-> TypeOf(k)])>>)

Init == ty = "" /\ inst = NoneI /\ doc = Extant /\ hist = <<>> /\ sess = <<>>

Pick == /\ ty = ""
        /\ \E k \in Keys : \E x \in Instances(k) :
              ty' = k /\ inst' = x /\ doc' = RenderKey(k, x) /\ hist' = <<>>
        /\ UNCHANGED sess

Mut(op) == /\ ty # "" /\ sess = <<>>
           /\ Len(hist) < MaxMut
           /\ \E m \in MutAt(op, doc, MutDepth) : doc' = m
           /\ hist' = Append(hist, op)
           /\ UNCHANGED <<ty, inst, sess>>

DropItem  == Mut("dropItem")
DupItem   == Mut("dupItem")
SwapItems == Mut("swapItems")
DropAttr  == Mut("dropAttr")
DupAttr   == Mut("dupAttr")
SwapAttrs == Mut("swapAttrs")
WrongTag  == Mut("wrongTag")
ExtraAttr == Mut("extraAttr")
ExtraItem == Mut("extraItem")
RenameKey == Mut("renameKey")
Unslot    == Mut("unslot")
Slotify   == Mut("slotify")
WrongKind == Mut("wrongKind")
Wrap      == Mut("wrap")
Unwrap    == Mut("unwrap")

\* the operators after which a frame sequence is continued (a rejected frame, then the well-formed one)
SessOps == {"wrongTag", "dropItem", "dupItem", "extraItem", "dropAttr", "swapAttrs"}
\* after a well-formed frame: the same instance again, a fixed instance c, and after c every instance
\* (so every instance occurs both before and after another one; 3n sequences instead of n * n)
NextInsts == LET c == CHOOSE y \in Instances(ty) : TRUE IN
             IF inst = c THEN Instances(ty) ELSE {inst, c}
\* after a mutant (usually a rejected frame): a well-formed instance other than the one the mutant was made from,
\* so that anything the rejected frame left behind in the recognizer shows in the value
AfterMutant == IF Instances(ty) = {inst} THEN inst ELSE CHOOSE y \in Instances(ty) \ {inst} : TRUE
Commit == /\ ty # "" /\ Len(sess) + 1 < MaxFrames
          /\ Len(hist) <= 1 /\ (hist # <<>> => hist[1] \in SessOps)
          /\ sess' = Append(sess, doc)
          /\ IF hist = <<>>
             THEN \E y \in NextInsts : inst' = y /\ doc' = RenderKey(ty, y)
             ELSE inst' = AfterMutant /\ doc' = RenderKey(ty, AfterMutant)
          /\ hist' = <<>>
          /\ UNCHANGED ty

Next == \/ Pick \/ Commit
        \/ DropItem \/ DupItem \/ SwapItems \/ DropAttr \/ DupAttr \/ SwapAttrs \/ WrongTag \/ ExtraAttr
        \/ ExtraItem \/ RenameKey \/ Unslot \/ Slotify \/ WrongKind \/ Wrap \/ Unwrap

----------------------------------------------------------------------------
RECURSIVE WF(_)
WF(v) == IF IsRec(v)
         THEN /\ \A i \in 1..Len(v.attrs) : WF(v.attrs[i].v)
              /\ \A i \in 1..Len(v.items) : WF(v.items[i].v) /\ (v.items[i].slot => WF(v.items[i].key))
         ELSE v.k \in {"x", "f", "b", "s", "t", "r", "d", "S", "D"} \cup IntClasses
WellFormed == WF(doc)

\* instances of the same type with the same rendering: no reader can tell them apart
RenderClash == \E y \in Instances(ty) : y # inst /\ RenderKey(ty, y) = doc
\* F1: the type has a HashMap field written as an attribute
FieldsOf(D) == IF D.kind = "struct" THEN D.fields ELSE <<>>
ExcuseF1 == "F1" \in Excused /\ \E i \in 1..Len(FieldsOf(TypeOf(ty))) :
                LET f == FieldsOf(TypeOf(ty))[i] IN f.role = "attr" /\ f.ty.c = "map"
\* F3: a body field of type Value that holds the empty record (read back as extant)
ExcuseF3 == "F3" \in Excused /\ \E i \in 1..Len(Live(FieldsOf(TypeOf(ty)))) :
                LET f == Live(FieldsOf(TypeOf(ty)))[i] IN f.role = "body" /\ f.ty = VAL /\ inst.v[i] = Rec(<<>>, <<>>)
\* F12: a body field of type Duration / RetryStrategy
ExcuseF12 == "F12" \in Excused /\ \E i \in 1..Len(FieldsOf(TypeOf(ty))) :
                LET f == FieldsOf(TypeOf(ty))[i] IN f.role = "body" /\ f.ty \in {Named("Duration"), Named("RetryStrategy")}
\* the live fields of the struct / variant the instance belongs to
InstFieldsOf == LET D == TypeOf(ty) IN
                IF D.kind = "struct" THEN Live(D.fields) ELSE IF D.kind = "enum" THEN Live(D.variants[inst.var].fields) ELSE <<>>
\* F14 / F15: an optional body field that is None / that holds an empty collection (read back as None)
ExcuseF14 == "F14" \in Excused /\ \E i \in 1..Len(InstFieldsOf) :
                InstFieldsOf[i].role = "body" /\ InstFieldsOf[i].ty.c = "opt" /\ inst.v[i] = NoneI
ExcuseF15 == "F15" \in Excused /\ \E i \in 1..Len(InstFieldsOf) :
                InstFieldsOf[i].role = "body" /\ InstFieldsOf[i].ty.c = "opt" /\ inst.v[i] = SomeI(VecI(<<>>))
\* F16: a model value as header body next to header slots
ExcuseF16 == "F16" \in Excused /\ \E i \in 1..Len(InstFieldsOf) :
                InstFieldsOf[i].role = "hbody" /\ InstFieldsOf[i].ty = VAL /\ HasRole(InstFieldsOf, "header")
ReadInvertsRender == (ty # "" /\ hist = <<>> /\ sess = <<>>) =>
                        (ReadKey(ty, doc) = Ok(inst) \/ RenderClash \/ ExcuseF1 \/ ExcuseF3 \/ ExcuseF12
                         \/ ExcuseF14 \/ ExcuseF15 \/ ExcuseF16)

Tagged(k) == TypeOf(k).kind \in {"struct", "enum"}
WrongTagRejected == (ty # "" /\ hist = <<>> /\ sess = <<>> /\ Tagged(ty)) => \A m \in Local("wrongTag", doc) : ~ReadKey(ty, m).ok

\* printed once per distinct (type, document)
Emit == ty # "" =>
          PrintT(<<"DOC", ToJson([ty |-> ty, ops |-> hist, doc |-> doc, inst |-> inst, exp |-> ReadKey(ty, doc),
                                  clash |-> (hist = <<>> /\ RenderClash), marker |-> BodyMarker(doc),
                                  sess |-> sess, exps |-> [i \in 1..Len(sess) |-> ReadKey(ty, sess[i])]])>>)
=============================================================================

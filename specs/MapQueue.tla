------------------------------- MODULE MapQueue -------------------------------
(***************************************************************************)
(* Mechanism specification (M) of the two coalescing queues between a map  *)
(* lane and its subscribers, and of their composition:                     *)
(*                                                                         *)
(*  AG  swimos_agent  MapStoreInner<K, V, WriteQueues<K>, M>  (= the Inner *)
(*      of MapLane):  content + EventQueue<K, ()> {events, head_epoch,     *)
(*      epoch_map} + sync_queues + NextWrite {sync_index, next}.           *)
(*      server/swimos_agent/src/{map_storage,event_queue,lanes/queues}     *)
(*  RT  swimos_runtime  MapOperationQueue {queue, head_epoch, epoch_map},  *)
(*      keyed by ReconKey (Recon equality of the key text).                *)
(*      runtime/swimos_runtime/src/backpressure/map_queue/mod.rs           *)
(*                                                                         *)
(* One action per real operation; the case analysis inside an action is    *)
(* the case analysis of the code (comments name the branch).  Epochs are   *)
(* counted modulo a small E, so the wrapping_add / wrapping_sub index      *)
(* arithmetic wraps after E pops without an intervening clear.             *)
(*                                                                         *)
(*  Mode = "rt"   one MapOperationQueue: RtPush (update / remove / clear   *)
(*                with key texts, several texts per Recon value), RtPop.   *)
(*  Mode = "ag"   the lane: LaneUpdate / LaneRemove / LaneClear /          *)
(*                LaneDropOrTake / LaneSync / AgPop (= pop_operation);     *)
(*                consumers see what AgPop emits.                          *)
(*  Mode = "comp" "ag", each emitted response pushed into the RT queue of  *)
(*                every consumer it is addressed to; RtPop(c) is consumer  *)
(*                c catching up (any relative speed).                      *)
(*                                                                         *)
(* P (MapReplica.tla) rides along as the ghost variable p when Ghost is    *)
(* TRUE; the invariants PAccepts / Converged are C02.  With Ghost = FALSE  *)
(* the state space is finite without a bound on the number of operations   *)
(* and the state graph is dumped for replay on the real queues.            *)
(***************************************************************************)
EXTENDS Integers, Sequences, FiniteSets, TLC, MapReplica

CONSTANTS NK,        \* keys are 1..NK (as ranks in the documented key order); Recon-distinct
          Alias2,    \* keys that have a second, Recon-equal but different, text (RT only)
          Alias3,    \* keys that have a third one
          NV,        \* values 1..NV; value v has a text of length v (matters for the RT buffer reuse branch)
          E,         \* epochs are counted modulo E (usize in the code); E > longest queue
          Remotes,   \* remotes that may sync (AG); the consumer "L" is linked from the start
          Mode,      \* "rt" | "ag" | "comp"
          Ghost,     \* maintain P's ghost state
          Watched,   \* ... for these consumers (P is per consumer: watching them one at a time is as good)
          MaxLag     \* with Ghost: no subscriber lags more than MaxLag lane writes behind (state constraint LagBound)

Keys == 1..NK
Vals == 1..NV
NAlias(k) == IF k \in Alias3 THEN 3 ELSE IF k \in Alias2 THEN 2 ELSE 1
Texts == UNION {{[c |-> k, a |-> a] : a \in 1..NAlias(k)} : k \in Keys}
Consumers == {"L"} \cup Remotes

VARIABLES content,   \* AG  MapStoreInner.content : [Keys -> 0..NV], 0 = no entry
          evq,       \* AG  WriteQueues.event_queue : [items, head, emap]
          syncqs,    \* AG  WriteQueues.sync_queues : Seq([id, keys])
          nextSel,   \* AG  WriteQueues.next.next : "event" | "sync"
          syncIdx,   \* AG  WriteQueues.next.sync_index
          linked,    \* remotes receiving standard events (linked when they asked to sync)
          rq,        \* RT  [Consumers -> [items, head, emap]]  one MapOperationQueue per consumer
          p,         \* ghost: P
          lastAct    \* the call just made with the results M expects (hidden from the VIEW)

vars == <<content, evq, syncqs, nextSel, syncIdx, linked, rq, p, lastAct>>
View == [content |-> content, evq |-> evq, syncqs |-> syncqs, nextSel |-> nextSel,
         syncIdx |-> syncIdx, linked |-> linked, rq |-> rq]

-----------------------------------------------------------------------------
(* The coalescing queue shared by both layers.                               *)
(*   items  VecDeque of entries [k, key, cap, val]                           *)
(*   head   head_epoch (mod E)                                               *)
(*   emap   epoch_map : key -> epoch, -1 = no entry                          *)

NoKey == [c |-> 0, a |-> 0]
ClrEntry == [k |-> "clr", key |-> NoKey, cap |-> 0, val |-> 0]
EmptyQ == [items |-> << >>, head |-> 0, emap |-> [c \in Keys |-> -1]]

QEmpty(q) == Len(q.items) = 0
\* let index = epoch.wrapping_sub(*head_epoch);
QIdx(q, c) == (q.emap[c] + E - q.head) % E
\* epoch_map.get(&k).and_then(|epoch| { debug_assert!(index < len); queue.get_mut(index) })
QHas(q, c) == q.emap[c] # -1 /\ QIdx(q, c) < Len(q.items)

\* push of a keyed entry: replace in place, or append and index
QPut(q, c, new, Merge(_, _)) ==
    IF QHas(q, c)
    THEN [q EXCEPT !.items[QIdx(q, c) + 1] = Merge(@, new)]
    ELSE [q EXCEPT !.items = Append(@, new),
                   !.emap[c] = (q.head + Len(q.items)) % E]      \* head_epoch.wrapping_add(queue.len())

\* push of a clear: *head_epoch = 0; queue.clear(); epoch_map.clear(); push_back(Clear)
QClear == [items |-> <<ClrEntry>>, head |-> 0, emap |-> [c \in Keys |-> -1]]

\* pop_front: head_epoch.wrapping_add(1); epoch_map.remove(key)
QPopped(q) ==
    LET e == Head(q.items) IN
    [items |-> Tail(q.items), head |-> (q.head + 1) % E,
     emap |-> IF e.k = "clr" THEN q.emap ELSE [q.emap EXCEPT ![e.key.c] = -1]]

-----------------------------------------------------------------------------
(* RT: MapOperationQueue::push / pop                                         *)

RtEntry(op, t, v) == [k |-> op, key |-> t, cap |-> v, val |-> v]

\* Update over a queued entry of the same key:
\*   QueueEntry::Update { value: old, .. } if old.capacity() >= value.len() => old.clear(); old.put(value)
\*                                            (the queued key text is kept)
\*   _ => *entry = QueueEntry::Update { key: recon_key, value: copy }   (new key text)
RtMergeUpd(old, new) == IF old.k = "upd" /\ old.cap >= new.val THEN [old EXCEPT !.val = new.val] ELSE new
\* Remove over a queued entry: *entry = QueueEntry::Remove { key: recon_key }
RtMergeRem(old, new) == new

RtPushed(q, op, t, v) ==
    IF op = "clr" THEN QClear
    ELSE IF op = "upd" THEN QPut(q, t.c, RtEntry("upd", t, v), RtMergeUpd)
    ELSE QPut(q, t.c, RtEntry("rem", t, 0), RtMergeRem)

RtOut(q) == IF QEmpty(q) THEN [op |-> "none", key |-> NoKey, v |-> 0]
            ELSE LET e == Head(q.items) IN [op |-> e.k, key |-> e.key, v |-> e.val]
RtPoppedQ(q) == IF QEmpty(q) THEN q ELSE QPopped(q)

\* ghost
GObs(pp, c, out) == IF Ghost /\ c \in Watched /\ out.op # "none" THEN PObs(pp, c, out.op, out.key.c, out.v) ELSE pp

RtPush(op, t, v) ==
    /\ Mode = "rt"
    /\ rq' = [rq EXCEPT !["L"] = RtPushed(@, op, t, v)]
    /\ p' = IF ~Ghost THEN p
            ELSE IF op = "clr" THEN PLaneClr(p)
            ELSE IF op = "upd" THEN PLaneUpd(p, t.c, v)
            ELSE PLaneRem(p, t.c)
    /\ lastAct' = [k |-> "push", op |-> op, key |-> t, v |-> v, empty |-> FALSE]
    /\ UNCHANGED <<content, evq, syncqs, nextSel, syncIdx, linked>>

RtPop(c) ==
    /\ Mode \in {"rt", "comp"}
    /\ c \in {"L"} \cup linked
    /\ LET out == RtOut(rq[c]) IN
       /\ rq' = [rq EXCEPT ![c] = RtPoppedQ(@)]
       /\ p' = GObs(p, c, out)
       /\ lastAct' = [k |-> IF Mode = "rt" THEN "pop" ELSE "rtpop", to |-> c, out |-> out,
                      empty |-> QEmpty(RtPoppedQ(rq[c]))]
    /\ UNCHANGED <<content, evq, syncqs, nextSel, syncIdx, linked>>

-----------------------------------------------------------------------------
(* AG: MapStoreInner + EventQueue + WriteQueues                               *)

EvEntry(op, c) == [k |-> op, key |-> [c |-> c, a |-> 1], cap |-> 0, val |-> 0]
EvMerge(old, new) == new          \* *entry = MapOperation::Update / Remove

WqEmpty(q, sqs) == QEmpty(q) /\ Len(sqs) = 0      \* WriteQueues::is_empty

\* MapStoreInner::update: content.insert; queue.push(Update { key, value: () })
LaneUpdate(c, v) ==
    /\ Mode \in {"ag", "comp"}
    /\ content' = [content EXCEPT ![c] = v]
    /\ evq' = QPut(evq, c, EvEntry("upd", c), EvMerge)
    /\ p' = IF Ghost THEN PLaneUpd(p, c, v) ELSE p
    /\ lastAct' = [k |-> "update", key |-> c, v |-> v, empty |-> FALSE]
    /\ UNCHANGED <<syncqs, nextSel, syncIdx, linked, rq>>

\* MapStoreInner::remove: if let Some(prev) = content.remove(key) { queue.push(Remove) }  else nothing
RemovedFrom(q, c) == QPut(q, c, EvEntry("rem", c), EvMerge)
LaneRemove(c) ==
    /\ Mode \in {"ag", "comp"}
    /\ IF content[c] # 0
       THEN /\ content' = [content EXCEPT ![c] = 0]
            /\ evq' = RemovedFrom(evq, c)
       ELSE UNCHANGED <<content, evq>>
    /\ p' = IF Ghost /\ content[c] # 0 THEN PLaneRem(p, c) ELSE p
    /\ lastAct' = [k |-> "remove", key |-> c, empty |-> WqEmpty(evq', syncqs)]
    /\ UNCHANGED <<syncqs, nextSel, syncIdx, linked, rq>>

\* MapStoreInner::clear: content.take(); queue.push(Clear)   (also when the map is already empty)
LaneClear ==
    /\ Mode \in {"ag", "comp"}
    /\ content' = [c \in Keys |-> 0]
    /\ evq' = QClear
    /\ p' = IF Ghost THEN PLaneClr(p) ELSE p
    /\ lastAct' = [k |-> "clear", empty |-> FALSE]
    /\ UNCHANGED <<syncqs, nextSel, syncIdx, linked, rq>>

\* MapLaneDropOrTake: drop_or_take(map, kind, n) then MapLaneRemoveMultiple (remove each, in order)
Present == {c \in Keys : content[c] # 0}
RECURSIVE RemoveAllFrom(_, _)
RemoveAllFrom(q, ks) == IF ks = << >> THEN q ELSE RemoveAllFrom(RemovedFrom(q, Head(ks)), Tail(ks))
LaneDropOrTake(kind, n) ==
    /\ Mode \in {"ag", "comp"}
    /\ LET removed == TDRemoved(Present, kind, n) IN
       /\ content' = [c \in Keys |-> IF \E i \in DOMAIN removed : removed[i] = c THEN 0 ELSE content[c]]
       /\ evq' = RemoveAllFrom(evq, removed)
       /\ p' = IF Ghost THEN PLaneRemAll(p, removed) ELSE p
       /\ lastAct' = [k |-> kind, n |-> n, removed |-> removed, empty |-> WqEmpty(evq', syncqs)]
    /\ UNCHANGED <<syncqs, nextSel, syncIdx, linked, rq>>

\* MapLane::sync: keys = content.keys() (in key order for an ordered backing); sync_queues.push(SyncQueue::new(id, keys))
\* The remote is linked from its sync request on (it starts with an empty replica).
LaneSync(r) ==
    /\ Mode \in {"ag", "comp"}
    /\ \A i \in DOMAIN syncqs : syncqs[i].id # r        \* bound: one sync at a time per remote
    /\ syncqs' = Append(syncqs, [id |-> r, keys |-> PSorted(Present)])
    /\ linked' = linked \cup {r}
    /\ p' = IF Ghost /\ r \in Watched /\ r \notin linked THEN PLink(p, r) ELSE p
    /\ lastAct' = [k |-> "sync", id |-> r, keys |-> PSorted(Present), empty |-> FALSE]
    /\ UNCHANGED <<content, evq, nextSel, syncIdx, rq>>

Flip(s) == IF s = "event" THEN "sync" ELSE "event"
\* update_sync_queues: Update / Remove => queue.remove(k) for every queue ; Clear => queue.clear()
PruneKey(sqs, c) == [i \in DOMAIN sqs |-> [sqs[i] EXCEPT !.keys = SelectSeq(@, LAMBDA x : x # c)]]
PruneAll(sqs) == [i \in DOMAIN sqs |-> [sqs[i] EXCEPT !.keys = << >>]]
RemoveAt(s, i) == SubSeq(s, 1, i - 1) \o SubSeq(s, i + 1, Len(s))

\* WriteQueues::pop   st = [evq, syncqs, nextSel, syncIdx]
RawPop(st) ==
    LET sel == st.nextSel                       \* let selection = next.flip();
        st1 == [st EXCEPT !.nextSel = Flip(sel)]
    IN
    IF (sel = "event" /\ ~QEmpty(st.evq)) \/ Len(st.syncqs) = 0
    THEN IF ~QEmpty(st.evq)
         THEN LET e == Head(st.evq.items) IN
              [st  |-> [st1 EXCEPT !.evq = QPopped(st.evq),
                                   !.syncqs = IF e.k = "clr" THEN PruneAll(@) ELSE PruneKey(@, e.key.c)],
               raw |-> [t |-> "event", op |-> e.k, id |-> "", key |-> e.key.c]]
         ELSE [st |-> st1, raw |-> [t |-> "none", op |-> "", id |-> "", key |-> 0]]
    ELSE IF st.syncIdx < Len(st.syncqs)         \* sync_queues.get_mut(*sync_index)
    THEN LET sq == st.syncqs[st.syncIdx + 1] IN
         IF Len(sq.keys) > 0
         THEN [st  |-> [st1 EXCEPT !.syncqs[st.syncIdx + 1].keys = Tail(@),
                                   !.syncIdx = (st.syncIdx + 1) % Len(st.syncqs)],
               raw |-> [t |-> "sync", op |-> "upd", id |-> sq.id, key |-> Head(sq.keys)]]
         ELSE LET rest == RemoveAt(st.syncqs, st.syncIdx + 1) IN
              [st  |-> [st1 EXCEPT !.syncqs = rest,
                                   !.syncIdx = IF st.syncIdx >= Len(rest) THEN 0 ELSE st.syncIdx],
               raw |-> [t |-> "synced", op |-> "", id |-> sq.id, key |-> 0]]
    ELSE [st |-> st1, raw |-> [t |-> "none", op |-> "", id |-> "", key |-> 0]]

\* <WriteQueues as MapEventQueue>::pop: loop { match WriteQueues::pop(self)? { .. } }
\*   Event(Update k)   : to_operation reads the value NOW; no entry => nothing emitted, loop
\*   Event(Remove/Clear): emitted
\*   SyncEvent(id, k)  : content.get(k) NOW; no entry => loop
\*   Synced(id)        : emitted
RECURSIVE PopLoop(_)
PopLoop(st) ==
    LET r == RawPop(st)  raw == r.raw IN
    IF raw.t = "none" THEN [st |-> r.st, out |-> [t |-> "none", op |-> "", id |-> "", key |-> 0, v |-> 0]]
    ELSE IF raw.t = "synced" THEN [st |-> r.st, out |-> [t |-> "synced", op |-> "", id |-> raw.id, key |-> 0, v |-> 0]]
    ELSE IF raw.op = "upd"
         THEN IF content[raw.key] = 0 THEN PopLoop(r.st)
              ELSE [st |-> r.st, out |-> [t |-> raw.t, op |-> "upd", id |-> raw.id, key |-> raw.key, v |-> content[raw.key]]]
    ELSE [st |-> r.st, out |-> [t |-> "event", op |-> raw.op, id |-> "", key |-> raw.key, v |-> 0]]

\* who receives an emitted response
Receivers(out) == IF out.t = "event" THEN {"L"} \cup linked
                  ELSE IF out.t = "sync" THEN {out.id} ELSE {}

RECURSIVE GObsAll(_, _, _)
GObsAll(pp, cs, out) ==
    IF cs = {} THEN pp
    ELSE LET c == CHOOSE x \in cs : TRUE IN
         GObsAll(PObs(pp, c, out.op, out.key, out.v), cs \ {c}, out)

\* MapStoreInner::pop_operation (called by MapLane::write_to_buffer)
AgPop ==
    /\ Mode \in {"ag", "comp"}
    /\ LET r == PopLoop([evq |-> evq, syncqs |-> syncqs, nextSel |-> nextSel, syncIdx |-> syncIdx])
           out == r.out
           rc == Receivers(out)
       IN
       /\ evq' = r.st.evq /\ syncqs' = r.st.syncqs /\ nextSel' = r.st.nextSel /\ syncIdx' = r.st.syncIdx
       /\ IF Mode = "comp"
          THEN /\ rq' = [c \in Consumers |->
                           IF c \in rc THEN RtPushed(rq[c], out.op, [c |-> out.key, a |-> 1], out.v) ELSE rq[c]]
               /\ p' = p
          ELSE /\ rq' = rq
               /\ p' = IF Ghost THEN GObsAll(p, rc \cap Watched, out) ELSE p
       /\ lastAct' = [k |-> "agpop", out |-> out, empty |-> WqEmpty(r.st.evq, r.st.syncqs)]
    /\ UNCHANGED <<content, linked>>

-----------------------------------------------------------------------------
Init ==
    /\ content = [c \in Keys |-> 0]
    /\ evq = EmptyQ /\ syncqs = << >> /\ nextSel = "event" /\ syncIdx = 0
    /\ linked = {}
    /\ rq = [c \in Consumers |-> EmptyQ]
    /\ p = PInit(Keys, Watched, {"L"} \cap Watched)
    /\ lastAct = [k |-> "init"]

\* (the leading conjunct only gives each case its own name in TLC's coverage report)
RtPushUpd(t, v) == Mode = "rt" /\ RtPush("upd", t, v)
RtPushRem(t) == Mode = "rt" /\ RtPush("rem", t, 0)
RtPushClr == Mode = "rt" /\ RtPush("clr", NoKey, 0)
LaneDrop(n) == Mode # "rt" /\ LaneDropOrTake("drop", n)
LaneTake(n) == Mode # "rt" /\ LaneDropOrTake("take", n)

Next ==
    \/ \E t \in Texts, v \in Vals : RtPushUpd(t, v)
    \/ \E t \in Texts : RtPushRem(t)
    \/ RtPushClr
    \/ \E c \in Consumers : RtPop(c)
    \/ \E c \in Keys, v \in Vals : LaneUpdate(c, v)
    \/ \E c \in Keys : LaneRemove(c)
    \/ LaneClear
    \/ \E n \in 0..NK : LaneDrop(n)
    \/ \E n \in 0..NK : LaneTake(n)
    \/ \E r \in Remotes : LaneSync(r)
    \/ AgPop

Spec == Init /\ [][Next]_vars

LagBound == PLag(p) <= MaxLag

-----------------------------------------------------------------------------
(* M-only sanity invariants                                                   *)

AllQueues == {evq} \cup {rq[c] : c \in Consumers}

\* the debug_assert!(index < queue.len()) of both push implementations
IndexInRange == \A q \in AllQueues : \A c \in Keys : q.emap[c] # -1 => QIdx(q, c) < Len(q.items)

\* epoch_map is exactly the index of the keyed entries of the queue (one entry per key)
EpochMapExact ==
    \A q \in AllQueues :
        /\ \A c \in Keys :
              q.emap[c] # -1 <=> \E i \in DOMAIN q.items : q.items[i].k # "clr" /\ q.items[i].key.c = c
        /\ \A i \in DOMAIN q.items :
              q.items[i].k # "clr" => /\ q.emap[q.items[i].key.c] # -1
                                      /\ QIdx(q, q.items[i].key.c) = i - 1
        /\ q.head \in 0..(E - 1)
        /\ Len(q.items) < E

\* a clear is always the head of its queue (everything older was discarded)
ClearAtHead == \A q \in AllQueues : \A i \in DOMAIN q.items : q.items[i].k = "clr" => i = 1

\* NextWrite.sync_index points into sync_queues (or they are empty and it is 0)
SyncIdxOk == IF Len(syncqs) = 0 THEN syncIdx = 0 ELSE syncIdx < Len(syncqs)

\* an event queue never holds an Update for a key that has no entry (so to_operation's None branch is dead),
\* and never a Remove for a key that has one
EventsMatchContent ==
    \A i \in DOMAIN evq.items :
        /\ evq.items[i].k = "upd" => content[evq.items[i].key.c] # 0
        /\ evq.items[i].k = "rem" => content[evq.items[i].key.c] = 0

TypeOK ==
    /\ content \in [Keys -> 0..NV]
    /\ nextSel \in {"event", "sync"}
    /\ linked \subseteq Remotes
    /\ \A i \in DOMAIN syncqs : syncqs[i].id \in linked

-----------------------------------------------------------------------------
(* P = C02 over the ghost consumers (meaningful with Ghost = TRUE)            *)

\* everything a consumer received was admissible (in-order subsequence per key, clear never overtaken)
PAccepts == PAllOk(p)

\* consumer c has nothing left to receive
Drained(c) ==
    /\ QEmpty(evq)
    /\ \A i \in DOMAIN syncqs : syncqs[i].id # c
    /\ QEmpty(rq[c])

\* ... then its replica is the lane's map
Converged == Ghost => \A c \in Watched : Drained(c) => PConverged(p, c)

\* the lane of P and the lane of M are the same map
RefIsContent == (Ghost /\ Mode # "rt") => p.ref = content

=============================================================================

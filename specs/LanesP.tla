-------------------------------- MODULE LanesP --------------------------------
(***************************************************************************)
(* P for the agent-side lane objects (configuration K of C01, C02, C03 and *)
(* C14): what any correct lane may write into its output buffer, as pure   *)
(* operators over one record `p`.  The same text is used                   *)
(*   - by Lanes.tla (B3: the ghost p of the mechanism model is stepped     *)
(*     with these operators and TLC checks PAccepts in every state), and   *)
(*   - by Trace_Lanes.tla (B1/B2: the calls made on the real lane objects  *)
(*     and the frames decoded from their real buffers are folded with      *)
(*     them).                                                              *)
(* P knows nothing about dirty flags, queues, round-robin order, how many  *)
(* frames one write produces or which WriteResult a lane prefers where the *)
(* agent loop does not care.  It demands (and no more):                    *)
(*                                                                         *)
(* D   every frame is a decodable lane response of the lane's kind.        *)
(* C01 value (and command) lanes: the bodies of the standard events are an *)
(*     in-order subsequence of the values the lane held (never invented,   *)
(*     never reordered; skipping is allowed), and when the lane says it    *)
(*     has nothing more to write the last event is the current value.      *)
(* C02 map lanes: a consumer folding every standard event sees, per key,   *)
(*     an in-order subsequence of the values the key held, a clear is      *)
(*     never lost or overtaken (MapReplica.tla), holds the lane's map when *)
(*     the lane says it has nothing more to write, and take / drop remove  *)
(*     exactly the keys designated by the documented key order.            *)
(* C14 supply lanes: the standard events are exactly the pushed items,     *)
(*     once each, in push order.                                           *)
(*     (demand lanes, which no property of the list describes: an event    *)
(*     carries a value on_cue computed since the last event - or repeats   *)
(*     that event; the sync clauses and W apply to them as to any lane.)   *)
(* C03 per sync request by remote id: zero or more sync events then one    *)
(*     synced, all labelled id; never for an id without a request; every   *)
(*     sync event carries a value the lane (the key) held at or after the  *)
(*     request; at synced a remote that started empty at its request and   *)
(*     applied the standard events and its own sync events since holds,    *)
(*     for every key, a value (or absence) the lane held inside the        *)
(*     window.  Stateless lanes (supply) answer with synced alone.         *)
(* W   the WriteResult tells the agent loop the truth where the loop       *)
(*     relies on it (agent_model/mod.rs, dirty_items.retain):              *)
(*       NoData  => nothing was written (else the bytes are stranded in    *)
(*                  the writer's buffer, the writer is put back unsent);   *)
(*       NoData or Done => nothing is left: no sync unanswered, nothing    *)
(*                  stale, no item queued (the loop drops the lane from    *)
(*                  dirty_items, nothing would ever be written again);     *)
(*     and an operation that creates something to write reports the lane   *)
(*     as modified (else the loop never asks it to write).                 *)
(*     (Done with an empty buffer, or DataStillAvailable followed by       *)
(*     NoData, cost the loop one empty write and are allowed.)             *)
(*                                                                         *)
(* Known finding F12 (open, known_findings/C03.json) shows at this level:  *)
(* a sync requested while a `clear` is still queued in the map lane can be *)
(* answered `synced` before the events younger than that clear have been   *)
(* emitted, so the window replica lacks keys the lane held throughout.     *)
(* The deviation is taken only if "F12" is in p.en, only when that stale   *)
(* clear was emitted inside the window and only for missing keys; each use *)
(* is recorded in p.kf.                                                    *)
(***************************************************************************)
EXTENDS Integers, Sequences, FiniteSets, MapReplica

\* A frame: [t |-> "event" | "sync" | "synced" | "bad", id |-> remote ("" if none),
\*           op |-> "" (value-like) | "upd" | "rem" | "clr", k |-> key (0 if none), v |-> value (0 if none)]

LPInit(kind, nk, ids, en, case, kf0) ==
    [kind |-> kind, ok |-> TRUE, why |-> "", en |-> en, case |-> case, kf |-> kf0,
     \* value-like lanes (value, command, demand)
     cur |-> 0,                \* the value the lane holds (demand: the value last computed)
     hist |-> << 0 >>,         \* values held from the one matched by the last event on, oldest first
     changed |-> FALSE, hasEv |-> FALSE, lastEv |-> 0,
     owed |-> FALSE, cadm |-> {},      \* demand: a cue not yet answered; values computed since the last event (and its value)
     \* supply lanes: items pushed and not yet emitted
     fifo |-> << >>,
     \* map lanes: the lane and the consumer "L" that folds every standard event
     mp |-> PInit(1..nk, {"L"}, {"L"}),
     clrPending |-> FALSE,     \* the lane was cleared and no clear event has been emitted since
     \* sync windows, per remote id
     out   |-> [i \in ids |-> 0],                       \* unanswered requests
     adm   |-> [i \in ids |-> {}],                      \* value-like: values held inside the window
     rv    |-> [i \in ids |-> -1],                      \* value-like: what the remote holds (-1: nothing)
     madm  |-> [i \in ids |-> [k \in 1..nk |-> {}]],    \* map: values (0 = absent) each key held inside the window
     mrep  |-> [i \in ids |-> [k \in 1..nk |-> 0]],     \* map: the window replica
     stale |-> [i \in ids |-> FALSE],                   \* a clear was pending when the window opened ...
     sawStale |-> [i \in ids |-> FALSE]]                \* ... and has been emitted inside the window

LPFail(p, why) == IF p.ok THEN [p EXCEPT !.ok = FALSE, !.why = why] ELSE p
LPIds(p) == DOMAIN p.out
LPKeys(p) == PKeys(p.mp)
LPOpen(p) == {i \in LPIds(p) : p.out[i] > 0}
LPValueLike(p) == p.kind \in {"value", "command", "demand"}

\* W: an operation that leaves something to write must report the lane as modified
LPModLaw(q, needed, mod) == IF needed /\ ~mod THEN LPFail(q, "modification-not-reported") ELSE q

\* ---- calls that change what the lane holds -------------------------------------------------
LPHistAppend(h, v) == IF h[Len(h)] = v THEN h ELSE Append(h, v)
LPAdmAdd(p, v) == [i \in LPIds(p) |-> IF p.out[i] > 0 THEN p.adm[i] \cup {v} ELSE p.adm[i]]

\* a value lane is set / a command lane receives a command
LPSet(p, v, mod) ==
    LPModLaw([p EXCEPT !.cur = v, !.hist = LPHistAppend(@, v), !.changed = TRUE, !.adm = LPAdmAdd(p, v)], TRUE, mod)

\* an item is pushed to a supply lane
LPPush(p, v, mod) == LPModLaw([p EXCEPT !.fifo = Append(@, v)], TRUE, mod)

\* a demand lane is cued and its on_cue handler computes v
LPCue(p, v, mod) ==
    LPModLaw([p EXCEPT !.owed = TRUE, !.cur = v, !.cadm = @ \cup {v}, !.adm = LPAdmAdd(p, v)], TRUE, mod)

\* remote id asks to sync
LPSync(p, id, mod) ==
    IF id \notin LPIds(p) THEN LPFail(p, "unknown-remote")
    ELSE LET fresh == p.out[id] = 0 IN
         LPModLaw([p EXCEPT !.out[id] = @ + 1,
                            !.adm[id] = IF ~fresh THEN @ ELSE IF p.kind = "value" THEN {p.cur} ELSE {},
                            !.rv[id] = IF fresh THEN -1 ELSE @,
                            !.madm[id] = IF fresh THEN [k \in LPKeys(p) |-> {p.mp.ref[k]}] ELSE @,
                            !.mrep[id] = IF fresh THEN PZero(LPKeys(p)) ELSE @,
                            !.stale[id] = IF fresh THEN p.clrPending ELSE @,
                            !.sawStale[id] = IF fresh THEN FALSE ELSE @],
                  TRUE, mod)

\* ... of a demand lane: the request triggers on_cue, which computes v
LPDSync(p, id, v, mod) ==
    LET q == LPSync(p, id, mod) IN
    [q EXCEPT !.cur = v, !.adm = LPAdmAdd(q, v), !.cadm = @ \cup {v}]

\* map lanes: key k takes value v (0: its entry is removed) for every open window
LPMadmAdd(p, S, v) ==
    [i \in LPIds(p) |-> IF p.out[i] = 0 THEN p.madm[i]
                        ELSE [k \in LPKeys(p) |-> IF k \in S THEN p.madm[i][k] \cup {v} ELSE p.madm[i][k]]]

LPMapUpd(p, k, v, mod) ==
    IF k \notin LPKeys(p) \/ v <= 0 THEN LPFail(p, "key-or-value-outside-the-case")
    ELSE LET q == [p EXCEPT !.mp = PLaneUpd(p.mp, k, v), !.madm = LPMadmAdd(p, {k}, v)] IN
         LPModLaw(q, q.mp.ref # p.mp.ref, mod)

LPMapRem(p, k, mod) ==
    IF k \notin LPKeys(p) THEN LPFail(p, "key-or-value-outside-the-case")
    ELSE LET q == [p EXCEPT !.mp = PLaneRem(p.mp, k), !.madm = LPMadmAdd(p, {k}, 0)] IN
         LPModLaw(q, q.mp.ref # p.mp.ref, mod)

LPMapClr(p, mod) ==
    LET q == [p EXCEPT !.mp = PLaneClr(p.mp), !.madm = LPMadmAdd(p, LPKeys(p), 0), !.clrPending = TRUE] IN
    LPModLaw(q, q.mp.ref # p.mp.ref, mod)

\* a take / drop command: the lane must become the documented result
LPMapTd(p, kind, n, mod) ==
    LET rem == TDRemoved({k \in LPKeys(p) : p.mp.ref[k] # 0}, kind, n)
        S == {rem[j] : j \in DOMAIN rem}
        q == [p EXCEPT !.mp = PLaneRemAll(p.mp, rem), !.madm = LPMadmAdd(p, S, 0)]
    IN LPModLaw(q, S # {}, mod)

\* what the lane really holds after a call (ValueLane::read / MapLane::get_map): an exact contract
LPCurIs(p, cur) ==
    IF p.kind = "map"
    THEN IF Len(cur) = Cardinality(LPKeys(p)) /\ \A k \in LPKeys(p) : cur[k] = p.mp.ref[k] THEN p
         ELSE LPFail(p, "lane-map-differs-from-the-operations-applied")
    ELSE IF cur = p.cur THEN p ELSE LPFail(p, "lane-value-differs-from-the-operations-applied")

\* a request of remote id has been answered; when it was the last one the window is closed (and forgotten)
LPAnswered(p, id) ==
    IF p.out[id] > 1 THEN [p EXCEPT !.out[id] = @ - 1]
    ELSE [p EXCEPT !.out[id] = 0, !.adm[id] = {}, !.rv[id] = -1,
                   !.madm[id] = [k \in LPKeys(p) |-> {}], !.mrep[id] = PZero(LPKeys(p)),
                   !.stale[id] = FALSE, !.sawStale[id] = FALSE]

\* ---- one frame decoded from the lane's buffer -------------------------------------------------
LPNoRequest(p, f) == f.id \notin LPIds(p) \/ p.out[f.id] = 0

LPValFrame(p, f) ==
    IF f.t = "event" THEN
        IF p.kind \in {"value", "command"} THEN
            LET S == {j \in DOMAIN p.hist : p.hist[j] = f.v} IN
            IF S = {} THEN LPFail(p, "event-value-not-held-since-the-last-event")
            ELSE [p EXCEPT !.hist = PFrom(@, PMinOf(S)), !.hasEv = TRUE, !.lastEv = f.v,
                           !.rv = [i \in LPIds(p) |-> IF p.out[i] > 0 THEN f.v ELSE p.rv[i]]]
        ELSE IF p.kind = "supply" THEN
            IF p.fifo = << >> \/ Head(p.fifo) # f.v THEN LPFail(p, "supply-event-is-not-the-next-pushed-item")
            ELSE [p EXCEPT !.fifo = Tail(@)]
        ELSE \* demand: a value on_cue computed since the last event (or that event's value again: repetition is tolerated
             \* as it is for value lanes; demand lanes are stateless, no property of the list says more about their events)
            IF f.v \notin p.cadm THEN LPFail(p, "demand-event-value-not-computed-since-the-last-event")
            ELSE [p EXCEPT !.owed = FALSE, !.cadm = {f.v},
                           !.rv = [i \in LPIds(p) |-> IF p.out[i] > 0 THEN f.v ELSE p.rv[i]]]
    ELSE IF f.t = "sync" THEN
        IF LPNoRequest(p, f) THEN LPFail(p, "sync-event-without-request")
        ELSE IF p.kind \in {"supply", "command"} THEN LPFail(p, "sync-event-on-a-stateless-lane")
        ELSE IF f.v \notin p.adm[f.id] THEN LPFail(p, "sync-event-value-not-held-inside-the-window")
        ELSE [p EXCEPT !.rv[f.id] = f.v]
    ELSE IF f.t = "synced" THEN
        IF LPNoRequest(p, f) THEN LPFail(p, "synced-without-request")
        ELSE IF p.kind \in {"value", "demand"} /\ (p.rv[f.id] = -1 \/ p.rv[f.id] \notin p.adm[f.id])
             THEN LPFail(p, "synced-but-the-remote-holds-no-value-of-the-window")
        ELSE LPAnswered(p, f.id)
    ELSE LPFail(p, "undecodable-frame")

\* MapReplica counts the lane clears the consumer has not been told of; clears coalesce in the lane's queue (two clears,
\* one event), which leaves a residue in that counter for ever.  A count above the number of clears still ahead of some key
\* changes no verdict of PObs (no key can be moved onto such a clear, and a clear event is tolerated once the lane has been
\* cleared at all), so it is cut back: the ghost state stays bounded by the lag.
LPMax(S) == IF S = {} THEN 0 ELSE CHOOSE x \in S : \A y \in S : y <= x
LPNorm(mp) ==
    LET ahead == LPMax({PClrCount(Tail(mp.cons["L"].adm[k])) : k \in PKeys(mp)}) IN
    IF mp.cons["L"].pend > ahead THEN [mp EXCEPT !.cons["L"].pend = ahead] ELSE mp

LPMapFrame(p, f) ==
    IF f.t = "event" THEN
        LET mp2 == LPNorm(PObs(p.mp, "L", f.op, f.k, f.v))
            clr == f.op = "clr" IN
        IF ~mp2.cons["L"].ok THEN LPFail([p EXCEPT !.mp = mp2], "map-event-not-admissible")
        ELSE [p EXCEPT !.mp = mp2,
                       !.mrep = [i \in LPIds(p) |->
                                    IF p.out[i] = 0 THEN p.mrep[i]
                                    ELSE IF clr THEN PZero(LPKeys(p))
                                    ELSE [p.mrep[i] EXCEPT ![f.k] = IF f.op = "upd" THEN f.v ELSE 0]],
                       !.clrPending = IF clr THEN FALSE ELSE @,
                       !.sawStale = [i \in LPIds(p) |-> IF clr /\ p.out[i] > 0 THEN p.sawStale[i] \/ p.stale[i] ELSE p.sawStale[i]],
                       !.stale = [i \in LPIds(p) |-> IF clr THEN FALSE ELSE p.stale[i]]]
    ELSE IF f.t = "sync" THEN
        IF LPNoRequest(p, f) THEN LPFail(p, "sync-event-without-request")
        ELSE IF f.op # "upd" \/ f.k \notin LPKeys(p) \/ f.v <= 0 THEN LPFail(p, "sync-event-is-not-an-update-of-a-key")
        ELSE IF f.v \notin p.madm[f.id][f.k] THEN LPFail(p, "sync-event-value-not-held-inside-the-window")
        ELSE [p EXCEPT !.mrep[f.id][f.k] = f.v]
    ELSE IF f.t = "synced" THEN
        IF LPNoRequest(p, f) THEN LPFail(p, "synced-without-request")
        ELSE LET bad == {k \in LPKeys(p) : p.mrep[f.id][k] \notin p.madm[f.id][k]} IN
             IF bad = {} THEN LPAnswered(p, f.id)
             ELSE IF "F12" \in p.en /\ p.sawStale[f.id] /\ \A k \in bad : p.mrep[f.id][k] = 0
                  THEN LPAnswered([p EXCEPT !.kf = @ \cup {[case |-> p.case, id |-> "F12"]}], f.id)
             ELSE LPFail(p, "synced-but-the-window-replica-holds-what-the-lane-never-held-inside-the-window")
    ELSE LPFail(p, "undecodable-frame")

LPFrame(p, f) ==
    IF ~p.ok THEN p
    ELSE IF p.kind = "map" THEN LPMapFrame(p, f) ELSE LPValFrame(p, f)

RECURSIVE LPFrames(_, _)
LPFrames(p, fs) == IF fs = << >> THEN p ELSE LPFrames(LPFrame(p, Head(fs)), Tail(fs))

\* ---- W: the result of the write ------------------------------------------------------------------
LPNothingLeft(p) ==
    IF LPOpen(p) # {} THEN "sync-request-unanswered"
    ELSE IF p.kind \in {"value", "command"} /\ p.changed /\ ~(p.hasEv /\ p.lastEv = p.cur) THEN "last-event-is-not-the-current-value"
    ELSE IF p.kind = "supply" /\ p.fifo # << >> THEN "pushed-items-not-emitted"
    ELSE IF p.kind = "demand" /\ p.owed THEN "cue-unanswered"
    ELSE IF p.kind = "map" /\ ~PConverged(p.mp, "L") THEN "replica-differs-from-the-lane-map"
    ELSE ""

LPResult(p, res, n) ==
    IF ~p.ok THEN p
    ELSE IF res \notin {"nodata", "done", "more", "reqev"} THEN LPFail(p, "unknown-write-result")
    ELSE IF res = "nodata" /\ n > 0 THEN LPFail(p, "NoData-but-bytes-were-written")
    ELSE IF res \in {"nodata", "done"} /\ LPNothingLeft(p) # "" THEN LPFail(p, "nothing-more-to-write-claimed-but-" \o LPNothingLeft(p))
    ELSE p

LPWrite(p, res, frames) == LPResult(LPFrames(p, frames), res, Len(frames))

\* how far the observers lag behind the lane (state constraint for exhaustive checking)
LPLag(p) ==
    LET a == Len(p.hist) - 1  b == PLag(p.mp)  c == Len(p.fifo)
        ab == IF a > b THEN a ELSE b
    IN IF ab > c THEN ab ELSE c
=============================================================================

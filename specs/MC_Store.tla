------------------------------- MODULE MC_Store -------------------------------
(* Store + the state-graph dump: one EDGE line per transition of the complete *)
(* state graph (TLC evaluates the action constraint on every successor it     *)
(* generates); lastAct carries the call and the result the stores must give   *)
(* and is hidden by the VIEW, so it does not multiply states.                 *)
EXTENDS Store, Json
EdgeDump == PrintT(<<"EDGE", ToJson([s |-> View, a |-> lastAct', t |-> View'])>>)
InitDump == (lastAct.k = "init") => PrintT(<<"INIT", ToJson(View)>>)
=============================================================================

--------------------------- MODULE MC_DownlinkState ---------------------------
(* DownlinkState for TLC:                                                   *)
(*  - EdgeDump / InitDump: the state graph (VIEW View hides lastAct/trace), *)
(*    every edge labelled with the input and the outputs M expects;         *)
(*  - LeafDump: with MaxLen > 0 every notification sequence of that length  *)
(*    (the state then contains the history, so states = sequences), printed *)
(*    with the expected callbacks of both implementations at every step.    *)
EXTENDS DownlinkState, Json
EdgeDump == PrintT(<<"EDGE", ToJson([s |-> View, a |-> lastAct', t |-> View'])>>)
InitDump == (lastAct.k = "init") => PrintT(<<"INIT", ToJson(View)>>)
LeafDump == (MaxLen > 0 /\ Len(trace) = MaxLen) => PrintT(<<"REPLAY", ToJson(trace)>>)
=============================================================================

--------------------------- MODULE MC_SupplyUplink ---------------------------
EXTENDS SupplyUplink, Json
EdgeDump == PrintT(<<"EDGE", ToJson([s |-> View, a |-> lastAct', t |-> View'])>>)
InitDump == (lastAct.k = "init") => PrintT(<<"INIT", ToJson(View)>>)
=============================================================================

---------------------------- MODULE Trace_Trigger ----------------------------
(***************************************************************************)
(* P for the one-shot trigger / promise of swimos_trigger, as a trace      *)
(* specification over recorded call histories (sequential replays of       *)
(* Trigger.tla and histories of free-running threads: one sender, several  *)
(* receivers; events ordered by a global atomic stamp, an invocation is    *)
(* stamped before the call starts, a response after it returned).          *)
(*                                                                         *)
(*   - a poll answers Ok iff the sender triggered (promise: provided - the *)
(*     harness reports "ok" only for the very value provided), Err iff the *)
(*     sender was dropped without, pending iff neither has happened;       *)
(*   - the answer never changes afterwards (the event happens once);       *)
(*   - trigger / provide returns false only when no receiver exists;       *)
(*   - no lost wake-up, for EVERY receiver: a receiver that was told to    *)
(*     wait and whose waker has not fired since => nothing has happened    *)
(*     yet - whenever and from whatever it was cloned.                     *)
(* A call takes effect at one point between its invocation and its         *)
(* response; TLC searches the order.                                       *)
(*                                                                         *)
(* Known finding KTRIG-F1 (deviation, only when KF contains it): receivers *)
(* related by a clone made AFTER the original had been told to wait share  *)
(* one waker slot (sl); a pending poll of one of them with another waker   *)
(* takes the slot from the others (lost), which are then never woken.      *)
(*                                                                         *)
(* Events (ndjson):                                                        *)
(*   {"k":"reset","conc":0|1}               a fresh trigger, receiver 1    *)
(*   {"k":"clone","r":n,"from":o} {"k":"dropR","r":r}                      *)
(*   {"k":"check","r":r,"res":"none|ok|err","term":b}                      *)
(*   {"k":"inv","t":"R","r":r,"w":w} {"k":"res","t":"R","r":r,"res":"pending|ok|err","woke":[n1..nNW]} *)
(*   {"k":"inv","t":"S","op":"trigger|dropS"} {"k":"res","t":"S","res":"true|false|done","woke":[..]}  *)
(*   {"k":"idle","r":r}  (conc = 1) r was told to wait, its waker has not  *)
(*                       fired and the sender has finished                 *)
(***************************************************************************)
EXTENDS Naturals, Sequences, FiniteSets, TLC, Json, IOUtils

CONSTANT KF

Rec == ndJsonDeserialize(IOEnv.TRACE)
RS == 1..8

VARIABLES i, conc, flag, alive, sPh, rPh, rW, rWait, sl, nsl, lost, kf
vars == <<i, conc, flag, alive, sPh, rPh, rW, rWait, sl, nsl, lost>>

Has(e, f) == f \in DOMAIN e
Max(a, b) == IF a > b THEN a ELSE b
WokeN(e, w) == IF Has(e, "woke") /\ w >= 1 /\ w <= Len(e.woke) THEN e.woke[w] ELSE 0
Dev == "KTRIG-F1" \in KF

Fresh == /\ flag' = 0 /\ alive' = {1} /\ sPh' = "idle" /\ rPh' = [r \in RS |-> "idle"] /\ rW' = [r \in RS |-> 0]
         /\ rWait' = [r \in RS |-> 0] /\ sl' = [r \in RS |-> 0] /\ nsl' = 0 /\ lost' = [r \in RS |-> FALSE]

TraceInit == /\ i = 1 /\ conc = 0 /\ flag = 0 /\ alive = {1} /\ sPh = "idle" /\ rPh = [r \in RS |-> "idle"]
             /\ rW = [r \in RS |-> 0] /\ rWait = [r \in RS |-> 0] /\ sl = [r \in RS |-> 0] /\ nsl = 0
             /\ lost = [r \in RS |-> FALSE] /\ kf = {}
             /\ TLCSet(1, 1) /\ TLCSet(2, {"?"})

-----------------------------------------------------------------------------
\* the point at which a call in progress takes effect

Internal ==
    /\ \/ /\ sPh = "inv_trigger"
          /\ IF alive = {} THEN sPh' = "false" /\ flag' = flag ELSE sPh' = "true" /\ flag' = 1
          /\ UNCHANGED <<rPh, sl, nsl, lost>>
       \/ /\ sPh = "inv_dropS" /\ sPh' = "done"
          /\ flag' = IF flag = 0 /\ alive # {} THEN 2 ELSE flag
          /\ UNCHANGED <<rPh, sl, nsl, lost>>
       \/ \E r \in alive :
          /\ rPh[r] = "inv"
          /\ rPh' = [rPh EXCEPT ![r] = IF flag = 0 THEN "pending" ELSE IF flag = 1 THEN "ok" ELSE "err"]
          /\ IF flag = 0 THEN
                LET g == IF sl[r] # 0 THEN sl[r] ELSE nsl + 1 IN
                /\ sl' = [sl EXCEPT ![r] = g] /\ nsl' = IF sl[r] # 0 THEN nsl ELSE nsl + 1
                /\ lost' = [x \in RS |-> IF x = r THEN FALSE
                                         ELSE IF Dev /\ sl[x] = g /\ rW[x] # rW[r] THEN TRUE ELSE lost[x]]
             ELSE UNCHANGED <<sl, nsl, lost>>
          /\ UNCHANGED <<flag, sPh>>
    /\ UNCHANGED <<i, conc, alive, rW, rWait, kf>>

-----------------------------------------------------------------------------
Quiet(sp, rp) == sp \in {"idle", "gone"} /\ \A r \in RS : rp[r] = "idle"

\* a waiter whose waker was among those woken during the call is not waiting any more
AfterWoke(e, rw) == [r \in RS |-> IF rw[r] # 0 /\ WokeN(e, rw[r]) > 0 THEN 0 ELSE rw[r]]

Event(e) ==
    \/ /\ e.k = "reset" /\ Fresh /\ conc' = (IF Has(e, "conc") THEN e.conc ELSE 0)
    \/ /\ e.k = "clone" /\ e.from \in alive /\ e.r \in RS \ alive /\ rPh[e.r] = "idle"
       /\ alive' = alive \cup {e.r} /\ sl' = [sl EXCEPT ![e.r] = sl[e.from]]
       /\ rW' = [rW EXCEPT ![e.r] = rW[e.from]]
       /\ UNCHANGED <<conc, flag, sPh, rPh, rWait, nsl, lost>>
    \/ /\ e.k = "dropR" /\ e.r \in alive /\ rPh[e.r] = "idle"
       /\ alive' = alive \ {e.r} /\ rWait' = [rWait EXCEPT ![e.r] = 0]
       /\ UNCHANGED <<conc, flag, sPh, rPh, rW, sl, nsl, lost>>
    \/ /\ e.k = "check" /\ e.r \in alive
       /\ e.res = (IF flag = 0 THEN "none" ELSE IF flag = 1 THEN "ok" ELSE "err") /\ e.term = (flag # 0)
       /\ UNCHANGED <<conc, flag, alive, sPh, rPh, rW, rWait, sl, nsl, lost>>
    \/ /\ e.k = "inv" /\ e.t = "S" /\ sPh = "idle"
       /\ sPh' = (IF e.op = "trigger" THEN "inv_trigger" ELSE "inv_dropS")
       /\ UNCHANGED <<conc, flag, alive, rPh, rW, rWait, sl, nsl, lost>>
    \/ /\ e.k = "res" /\ e.t = "S" /\ sPh = e.res /\ e.res \in {"true", "false", "done"}
       /\ sPh' = "gone" /\ rWait' = AfterWoke(e, rWait)
       /\ UNCHANGED <<conc, flag, alive, rPh, rW, sl, nsl, lost>>
    \/ /\ e.k = "inv" /\ e.t = "R" /\ e.r \in alive /\ rPh[e.r] = "idle"
       /\ rPh' = [rPh EXCEPT ![e.r] = "inv"] /\ rW' = [rW EXCEPT ![e.r] = e.w]
       /\ UNCHANGED <<conc, flag, alive, sPh, rWait, sl, nsl, lost>>
    \/ /\ e.k = "res" /\ e.t = "R" /\ e.r \in alive /\ rPh[e.r] = e.res /\ e.res \in {"pending", "ok", "err"}
       /\ rPh' = [rPh EXCEPT ![e.r] = "idle"]
       /\ rWait' = [AfterWoke(e, rWait) EXCEPT ![e.r] = IF e.res = "pending" /\ conc = 0 /\ WokeN(e, rW[e.r]) = 0 THEN rW[e.r] ELSE 0]
       /\ UNCHANGED <<conc, flag, alive, sPh, rW, sl, nsl, lost>>
    \/ /\ e.k = "idle" /\ conc = 1 /\ e.r \in alive /\ sPh \in {"idle", "gone"} /\ rPh[e.r] = "idle"
       \* parked for good: legitimate only when nothing has happened (or the slot was taken: KTRIG-F1)
       /\ flag = 0 \/ lost[e.r]
       /\ UNCHANGED <<conc, flag, alive, sPh, rPh, rW, rWait, sl, nsl, lost>>

\* no lost wake-up, for every receiver, whenever no call is in progress (sequential histories)
Stuck == {r \in alive' : rWait'[r] # 0}
WakeRule == (conc' = 0 /\ Quiet(sPh', rPh') /\ flag' # 0) => \A r \in Stuck : lost'[r]
UsesDev == conc' = 0 /\ Quiet(sPh', rPh') /\ flag' # 0 /\ Stuck # {}

Consume == /\ i <= Len(Rec)
           /\ Event(Rec[i])
           /\ WakeRule
           /\ kf' = IF UsesDev \/ (Rec[i].k = "idle" /\ flag # 0) THEN kf \cup {"KTRIG-F1"} ELSE kf
           /\ i' = i + 1
           /\ TLCSet(1, Max(TLCGet(1), i + 1))
           /\ (i + 1 = Len(Rec) + 1) =>
                 (IF kf' = {} THEN TLCSet(2, {}) ELSE IF TLCGet(2) = {"?"} THEN TLCSet(2, kf') ELSE TRUE)

TraceNext == Consume \/ Internal
TraceSpec == TraceInit /\ [][TraceNext]_vars

TraceAccepted ==
    LET m == TLCGet(1)
        k == IF m = Len(Rec) + 1 /\ TLCGet(2) # {"?"} /\ TLCGet(2) # {} THEN <<"KTRIG-F1">> ELSE <<>> IN
    /\ PrintT(<<"TRACE_RESULT", ToJson([accepted |-> (m = Len(Rec) + 1), matched |-> m - 1, total |-> Len(Rec), kf |-> k])>>)
    /\ m = Len(Rec) + 1
=============================================================================

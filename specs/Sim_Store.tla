------------------------------- MODULE Sim_Store ------------------------------
(* Store + a recorded path, for TLC's simulation mode: behaviours of length   *)
(* PathLen over a larger scope than the exhaustive dump can afford, printed   *)
(* as REPLAY lines (calls with the results the stores must give).             *)
EXTENDS Store, Json
CONSTANT PathLen
VARIABLE path
SimInit == Init /\ path = <<>>
SimNext == Next /\ path' = Append(path, lastAct')
PathDump == (Len(path) = PathLen) => PrintT(<<"REPLAY", ToJson(path)>>)
=============================================================================

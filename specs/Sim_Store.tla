------------------------------- MODULE Sim_Store ------------------------------
(* Store + a recorded path, for TLC's simulation mode: behaviours of PathLen   *)
(* calls over a larger scope than the exhaustive dump can afford, printed as   *)
(* REPLAY lines (calls with the results the stores must give).                 *)
(* The simulator evaluates invariants on every candidate successor, so the     *)
(* path is printed from the single successor ("end") of the state the          *)
(* simulator actually chose after PathLen calls: one line per behaviour.       *)
EXTENDS Store, Json
CONSTANT PathLen
VARIABLE path
SimInit == Init /\ path = <<>>
SimNext == IF Len(path) < PathLen
           THEN Next /\ path' = Append(path, lastAct')
           ELSE /\ Len(path) = PathLen
                /\ UNCHANGED vars
                /\ path' = Append(path, [k |-> "end"])
PathDump == (Len(path) = PathLen + 1) => PrintT(<<"REPLAY", ToJson(SubSeq(path, 1, PathLen))>>)
=============================================================================

----------------------------- MODULE ReconChunk -----------------------------
(***************************************************************************)
(* The incremental consumer of Recon text (C09, chunk independence):       *)
(*                                                                         *)
(*   WithLenRecognizerDecoder::decode      api/formats/swimos_recon/src/encoding.rs *)
(*     states ReadingHeader / ReadingBody{remaining} /                     *)
(*            AfterBody{remaining,value} / Discarding{remaining,error}     *)
(*   consume_bounded                       swimos_utilities/swimos_encoding/src/codec.rs *)
(*     hands the inner decoder the bytes of the current frame only and     *)
(*     calls decode_eof once the last byte of the frame is in the buffer   *)
(*   RecognizerDecoder::decode/decode_eof  recon_parser/async_parser/mod.rs *)
(*     nom *streaming* parsers: a token that touches the end of the        *)
(*     available input is Incomplete; the decoder consumes what it         *)
(*     recognised and RETAINS the unconsumed tail for the next call        *)
(*                                                                         *)
(* A frame is <8 byte length L><body of L bytes>, followed by the next     *)
(* frame (Trail bytes, delivered with the last piece).  The body is a      *)
(* value of V bytes followed by L-V blanks.  Its bytes are abstract: the   *)
(* inner decoder recognises tokens of Tok bytes (so a partial token is     *)
(* retained) and knows the value is finished either when its closing       *)
(* delimiter has been read (kind "closed": record, quoted string) or only  *)
(* at the end of the frame (kind "open": a bare number / identifier /      *)
(* blob, or a trailing attribute - more input could extend it).            *)
(*                                                                         *)
(* The environment (a byte channel, a socket) delivers the stream in       *)
(* arbitrary pieces: actions Deliver*.  After every delivery the framed    *)
(* reader calls the decoder once: action Decode.  A behaviour is therefore *)
(* one way of cutting the input; TLC enumerates all of them.               *)
(*                                                                         *)
(* EagerInit models what IncrementalReconParser does in state Init on the  *)
(* unchanged tree: `parse_init` uses the *complete* variants of the        *)
(* identifier / number / blob parsers, so a bare top-level primitive is    *)
(* accepted from whatever prefix of it is available.  With EagerInit =     *)
(* FALSE (the streaming variants, as in every other parser state) TLC      *)
(* proves the invariants; with TRUE it produces the counterexample that    *)
(* the harness reproduces on the real decoder.                             *)
(***************************************************************************)
EXTENDS Naturals, Sequences, FiniteSets, TLC

CONSTANTS Lens,        \* body lengths L to explore
          Blanks,      \* numbers of trailing blanks inside the frame (L - V)
          Kinds,       \* subset of {"closed", "open"}
          Tok,         \* token size of the abstract inner decoder (>= 1)
          MaxCuts,     \* at most this many cuts inside the body
          HdrCuts,     \* offsets (1..8) at which the 8 byte header may additionally be cut, {} = never
          Trail,       \* bytes of the following frame that arrive with the last piece
          Modes,       \* subset of {"free", "bytewise"}: how the environment cuts (bytewise = one byte per delivery)
          EagerInit    \* TRUE: state Init accepts a prefix of a bare primitive (unchanged tree)

HDR == 8

VARIABLES L, V, kind, mode, \* the frame and the environment chosen in the initial state
          delivered,      \* stream bytes handed to the buffer so far
          consumed,       \* stream bytes the decoder has advanced past (buffer = delivered - consumed)
          st, remaining,  \* WithLenRecognizerDecoderState
          held,           \* value parked in AfterBody: "none" | "full" | "prefix"
          result,         \* what decode returned for this frame: "none" | "full" | "prefix"
          results,        \* number of Some(..) results returned
          turn,           \* "deliver" | "decode" | "done"
          cuts,           \* body offsets at which the environment has cut so far (the plan)
          hcut,           \* header cut used (0 = none)
          lastAct

vars == <<L, V, kind, mode, delivered, consumed, st, remaining, held, result, results, turn, cuts, hcut, lastAct>>

Total == HDR + L
Min(a, b) == IF a < b THEN a ELSE b

Init == /\ L \in Lens
        /\ \E b \in Blanks : b <= L /\ V = L - b
        /\ kind \in Kinds
        /\ mode \in Modes
        /\ delivered = 0 /\ consumed = 0
        /\ st = "Header" /\ remaining = 0 /\ held = "none" /\ result = "none" /\ results = 0
        /\ turn = "deliver" /\ cuts = <<>> /\ hcut = 0
        /\ lastAct = [k |-> "init"]

(***************************************************************************)
(* The environment: deliver up to the next cut point.                      *)
(***************************************************************************)
Arrive(to, upto) ==
    /\ turn = "deliver"
    /\ to > delivered
    /\ delivered' = upto
    /\ cuts' = IF to > HDR /\ to < Total THEN Append(cuts, to - HDR) ELSE cuts
    /\ hcut' = IF to <= HDR /\ to < Total THEN to ELSE hcut
    /\ turn' = "decode"
    /\ lastAct' = [k |-> "deliver", to |-> to]
    /\ UNCHANGED <<L, V, kind, mode, consumed, st, remaining, held, result, results>>

\* one cut inside (or right after) the 8 byte length prefix
DeliverHeaderCut == \E to \in HdrCuts : /\ mode = "free" /\ to <= HDR /\ to < Total /\ hcut = 0 /\ delivered = 0
                                        /\ Arrive(to, to)
\* a cut inside the body
DeliverBodyCut   == \E to \in (HDR + 1)..(HDR + L) : /\ mode = "free" /\ to < Total /\ Len(cuts) < MaxCuts
                                                     /\ Arrive(to, to)
\* one byte at a time (after the header): every possible cut at once
DeliverByte      == /\ mode = "bytewise" /\ turn = "deliver" /\ delivered + 1 < Total
                    /\ Arrive(IF delivered < HDR THEN HDR ELSE delivered + 1, IF delivered < HDR THEN HDR ELSE delivered + 1)
\* the rest of the frame, together with the first bytes of the next frame
DeliverRest      == /\ turn = "deliver" /\ (mode = "bytewise" => (delivered + 1 >= Total \/ Total <= HDR))
                    /\ Arrive(Total, Total + Trail)

(***************************************************************************)
(* The inner decoder on a window of `w` bytes that starts at body offset   *)
(* `off`; `eof` = the window ends the frame (decode_eof).  Returns how     *)
(* many bytes it consumes and what it returns.                             *)
(***************************************************************************)
Inner(off, w, eof) ==
    LET end      == off + w                      \* body offset one past the window
        \* complete tokens; the token that touches the end of the window is Incomplete and retained
        whole    == IF eof THEN w ELSE IF w = 0 THEN 0 ELSE ((w - 1) \div Tok) * Tok
        \* a closed value ends with its delimiter; an open one is only known to have ended when
        \* something that cannot extend it (a blank) has been seen, or at the end of the frame
        knowsEnd == \/ kind = "closed" /\ end >= V
                    \/ kind = "open" /\ (end > V \/ eof)
    IN
    IF knowsEnd THEN [c |-> V - off, out |-> "full"]
    ELSE IF kind = "open" /\ EagerInit /\ off = 0 /\ w > 0
         THEN [c |-> Min(w, V), out |-> IF w >= V THEN "full" ELSE "prefix"]
    ELSE [c |-> Min(whole, V - off), out |-> "none"]

(***************************************************************************)
(* One call of WithLenRecognizerDecoder::decode: the `loop` over its       *)
(* states until it breaks with Some / None.                                *)
(***************************************************************************)
RECURSIVE Run(_)
Run(s) ==   \* s = [st, remaining, consumed, held, out]
    LET buf == delivered - s.consumed IN
    CASE s.st = "Header" ->
            IF buf < HDR THEN [s EXCEPT !.out = "none"]
            ELSE Run([s EXCEPT !.st = "Body", !.remaining = L, !.consumed = @ + HDR])
      [] s.st = "Body" ->
            LET w   == Min(s.remaining, buf)
                eof == s.remaining <= buf
                r   == Inner(L - s.remaining, w, eof)
            IN IF r.out = "none"
                 THEN [s EXCEPT !.remaining = @ - r.c, !.consumed = @ + r.c, !.out = "none"]
                 ELSE Run([s EXCEPT !.st = "After", !.remaining = @ - r.c, !.consumed = @ + r.c, !.held = r.out])
      [] s.st = "After" ->
            IF buf >= s.remaining
              THEN [s EXCEPT !.st = "Header", !.consumed = @ + s.remaining, !.remaining = 0, !.out = s.held, !.held = "none"]
              ELSE [s EXCEPT !.remaining = @ - buf, !.consumed = @ + buf, !.out = "none"]

Decode ==
    /\ turn = "decode"
    /\ LET r == Run([st |-> st, remaining |-> remaining, consumed |-> consumed, held |-> held, out |-> "none"]) IN
       /\ st' = r.st /\ remaining' = r.remaining /\ consumed' = r.consumed /\ held' = r.held
       /\ result' = IF r.out # "none" THEN r.out ELSE result
       /\ results' = IF r.out # "none" THEN results + 1 ELSE results
       /\ turn' = IF r.out # "none" \/ delivered >= Total THEN "done" ELSE "deliver"
       /\ lastAct' = [k |-> "decode", out |-> r.out, consumed |-> r.consumed - consumed]
    /\ UNCHANGED <<L, V, kind, mode, delivered, cuts, hcut>>

Next == DeliverHeaderCut \/ DeliverBodyCut \/ DeliverByte \/ DeliverRest \/ Decode
Spec == Init /\ [][Next]_vars

(***************************************************************************)
(* P: what any correct incremental decoder must satisfy, whatever the cuts *)
(***************************************************************************)
TypeOK == /\ consumed <= delivered
          /\ st \in {"Header", "Body", "After"}
          /\ turn \in {"deliver", "decode", "done"}
          /\ results <= 1

\* the decoder never reads past its own frame
WithinFrame == consumed <= Total

\* the result is the one-shot parser's result, never a value made from a prefix of the input
SameAsOneShot == result # "prefix" /\ held # "prefix"

\* a result is only returned when the whole frame has been consumed, and then exactly the frame
FrameAligned == (result # "none") => (consumed = Total /\ st = "Header")

\* no result can be returned before every byte of the value has arrived
NotBeforeValue == (result # "none" \/ held # "none") => delivered >= HDR + V

\* when everything has been delivered and the decoder has been called, the result is there
Delivers == (turn = "done") => (result # "none" /\ results = 1)

\* the unconsumed tail is retained: nothing that was delivered and not consumed is lost
\* (buffer length = delivered - consumed is implied by the representation; the decoder
\*  may only drop bytes by consuming them, which WithinFrame / FrameAligned bound)
Finished == turn = "done"
=============================================================================

---------------------------- MODULE MC_ReconCompare ----------------------------
(***************************************************************************)
(* P for C15: the laws of the statement, evaluated by TLC over the pair    *)
(* table OBSERVED on the real swimos_recon (compare_recon_values,          *)
(* recon_hash, parse_recognize::<Value> + Value::eq), together with the    *)
(* verdict of the mechanism model M of ReconCompare.tla (normal forms and  *)
(* hash events, interned to numbers by the check) on the same pair.        *)
(*                                                                         *)
(* TABLE (json):                                                           *)
(*   valid[i]  1 / 0   text i parses as a Value                            *)
(*   hash[i]   class number of recon_hash(text i)   (0 = the hasher panicked) *)
(*   mvalid[i], mnf[i], mhev[i]   M: expected validity, normal form class, hash event class *)
(*   rows[r] = <<a, b, cmp, veq, mc>>  cmp = compare_recon_values(a, b) (1/0, 9 = panic)     *)
(*                                  veq = parse(a) == parse(b) (1/0, 2 = not both valid)     *)
(*                                  mc = M's comparator on the pair (1/0, 2 = not simulated) *)
(* First pass (INIT SimInit, NEXT SimNext, INVARIANT SimReport), TABLE = { sim: [[row, eventsA, eventsB]] }:          *)
(* TLC runs the transcription of the comparator on the parse events of the chosen pairs.    *)
(*   chunk    rows are evaluated in chunks of this many (one initial state per chunk)        *)
(* Two texts are the same string iff a = b (texts are deduplicated).       *)
(***************************************************************************)
EXTENDS Integers, Sequences, TLC, Json, IOUtils

\* the mechanism model (only its constant-level operators are used here)
RC == INSTANCE ReconCompare WITH Wide <- FALSE, v <- 0, gen <- 0, st <- 0, cor <- "none"

T == ndJsonDeserialize(IOEnv.TABLE)[1]
NR == Len(T.rows)
Chunks == 0..((NR - 1) \div T.chunk)
RowsOf(c) == (c * T.chunk + 1)..(IF (c + 1) * T.chunk < NR THEN (c + 1) * T.chunk ELSE NR)

A(r) == T.rows[r][1]
B(r) == T.rows[r][2]
Cmp(r) == T.rows[r][3]
Veq(r) == T.rows[r][4]
BothValid(r) == T.valid[A(r)] = 1 /\ T.valid[B(r)] = 1
HashEq(r) == T.hash[A(r)] = T.hash[B(r)]
\* M
MBothValid(r) == T.mvalid[A(r)] = 1 /\ T.mvalid[B(r)] = 1
MVeq(r) == IF MBothValid(r) THEN (IF T.mnf[A(r)] = T.mnf[B(r)] THEN 1 ELSE 0) ELSE 2
\* the comparator: rows[r][5] = the verdict of the transcription RC!CompareEvents on the parse events of the two
\* texts where the first pass (Simulate, below) ran it; 2 = not simulated: equal normal forms <=> equal
MCmp(r) == IF MBothValid(r)
             THEN (IF T.rows[r][5] # 2 THEN T.rows[r][5] ELSE IF T.mnf[A(r)] = T.mnf[B(r)] THEN 1 ELSE 0)
             ELSE (IF A(r) = B(r) THEN 1 ELSE 0)
MHashEq(r) == T.mhev[A(r)] = T.mhev[B(r)]

-----------------------------------------------------------------------------
(* the laws, over (valid_a_and_b, cmp, veq, hasheq, same_string) *)

\* "Two valid Recon strings compare equal, without being deserialised, exactly when they parse to equal values"
\*   => keys that differ only in formatting are one key
EqualValuesCompareEqual(bv, cmp, veq) == (bv /\ veq = 1) => cmp = 1
\*   => distinct keys are never merged
DistinctValuesCompareUnequal(bv, cmp, veq) == (bv /\ veq = 0) => cmp = 0
\* "strings that compare equal produce the same hash"
CompareEqualImpliesHashEqual(cmp, heq) == (cmp = 1) => heq
\* "for strings that are not valid Recon the comparison is plain string equality"
InvalidIsStringEquality(bv, cmp, same) == (~bv) => ((cmp = 1) <=> same)
\* a panic is no answer
NoPanic(cmp, ha, hb) == cmp \in {0, 1} /\ ha # 0 /\ hb # 0

VARIABLES law, row, ok, mok,
          cs      \* first pass only: the state of the comparator loop (RC!CmpStep); 0 in the second pass
vars == <<law, row, ok, mok, cs>>
\* one initial state per chunk of rows: `row` holds the chunk number until a law instance is evaluated
Init == law = "init" /\ row \in Chunks /\ ok = TRUE /\ mok = TRUE /\ cs = 0
Fresh == law = "init"
Eval(l, r, o, m) == law' = l /\ row' = r /\ ok' = o /\ mok' = m /\ cs' = cs

EvalEqualValuesCompareEqual == Fresh /\ \E r \in RowsOf(row) :
    /\ BothValid(r) /\ Veq(r) = 1
    /\ Eval("EqualValuesCompareEqual", r, EqualValuesCompareEqual(TRUE, Cmp(r), Veq(r)), EqualValuesCompareEqual(MBothValid(r), MCmp(r), MVeq(r)))
EvalDistinctValuesCompareUnequal == Fresh /\ \E r \in RowsOf(row) :
    /\ BothValid(r) /\ Veq(r) = 0
    /\ Eval("DistinctValuesCompareUnequal", r, DistinctValuesCompareUnequal(TRUE, Cmp(r), Veq(r)), DistinctValuesCompareUnequal(MBothValid(r), MCmp(r), MVeq(r)))
EvalCompareEqualImpliesHashEqual == Fresh /\ \E r \in RowsOf(row) :
    /\ Cmp(r) = 1
    /\ Eval("CompareEqualImpliesHashEqual", r, CompareEqualImpliesHashEqual(Cmp(r), HashEq(r)), CompareEqualImpliesHashEqual(MCmp(r), MHashEq(r)))
EvalInvalidIsStringEquality == Fresh /\ \E r \in RowsOf(row) :
    /\ ~BothValid(r)
    /\ Eval("InvalidIsStringEquality", r, InvalidIsStringEquality(FALSE, Cmp(r), A(r) = B(r)), InvalidIsStringEquality(MBothValid(r), MCmp(r), A(r) = B(r)))
EvalNoPanic == Fresh /\ \E r \in RowsOf(row) :
    Eval("NoPanic", r, NoPanic(Cmp(r), T.hash[A(r)], T.hash[B(r)]), TRUE)
\* binding of M to the code (a difference is MODEL-DRIFT, never an alarm)
EvalConform == Fresh /\ \E r \in RowsOf(row) :
    Eval("Conform", r, TRUE, /\ T.valid[A(r)] = T.mvalid[A(r)] /\ T.valid[B(r)] = T.mvalid[B(r)]
                             /\ Cmp(r) = MCmp(r) /\ Veq(r) = MVeq(r) /\ (HashEq(r) <=> MHashEq(r)))

Next == \/ EvalEqualValuesCompareEqual \/ EvalDistinctValuesCompareUnequal \/ EvalCompareEqualImpliesHashEqual
        \/ EvalInvalidIsStringEquality \/ EvalNoPanic \/ EvalConform

\* ---- first pass: the transcription of incremental_compare / ValueValidator on the parse events of chosen pairs ----
SimInit == law = "sim" /\ row \in 1..Len(T.sim) /\ ok = TRUE /\ mok = TRUE /\ cs = RC!CmpStart
\* one iteration of the loop of incremental_compare per step
SimStep == /\ law = "sim" /\ cs.res = "run"
           /\ cs' = RC!CmpStep(T.sim[row][2], T.sim[row][3], cs)
           /\ UNCHANGED <<law, row, ok, mok>>
SimNext == SimStep
SimReport == (cs.res # "run") => PrintT(<<"SIM", ToJson([row |-> T.sim[row][1], cmp |-> RC!CompareResult(cs)])>>)

\* INVARIANT: always TRUE; prints the law instances the real code breaks and the rows where M differs from the code
Report == /\ ok \/ PrintT(<<"FAIL", ToJson([law |-> law, row |-> row, m |-> mok])>>)
          /\ (law = "Conform" /\ ~mok) => PrintT(<<"DRIFT", ToJson([row |-> row, cmp |-> MCmp(row), veq |-> MVeq(row), heq |-> MHashEq(row)])>>)
          /\ (law \notin {"Conform", "init"} /\ ok /\ ~mok) => PrintT(<<"MONLY", ToJson([law |-> law, row |-> row])>>)
=============================================================================

--------------------------- MODULE DownlinkRuntime ---------------------------
(***************************************************************************)
(* M for C07: the mechanism of runtime/swimos_runtime/src/downlink/mod.rs  *)
(* ({Value,Map}DownlinkRuntime::run = attach_task || read_task ||          *)
(* write_task), its environment (one remote lane behind a socket of        *)
(* SockCap request frames, consumers that attach / write commands / drop), *)
(* and the property monitor P of DownlinkSession.tla fed with every        *)
(* observable event, so that TLC checks M |= P (invariant PHolds(p)).      *)
(*                                                                         *)
(* One action per real operation:                                          *)
(*   attach_task : A_Fwd (consumer_tx.send then producer_tx.send), A_Stop  *)
(*   read_task   : one action per loop iteration = per ReadTaskEvent:      *)
(*                 R_NewConsumer, R_Linked, R_Synced (sync_current vs      *)
(*                 sync_only), R_Event, R_Unlinked, R_Stop                 *)
(*   write_task  : WriteState::{Idle, Writing} x {FLUSHED, NEEDS_SYNC}:    *)
(*                 W_LinkDone (send_link), W_IdleEmpty_Reg, W_Idle_Block   *)
(*                 (immediate_or_start starts the flush), W_Idle_Reg,      *)
(*                 W_Idle_Rec, W_Idle_Gone, W_Wr_Done (SuspendedCompleted: *)
(*                 NEEDS_SYNC, then has_data, then Idle), W_Wr_Rec         *)
(*                 (push_operation = backpressure), W_Wr_Gone, W_Wr_Reg    *)
(*                 (set_needs_sync), W_Stop                                *)
(* State <-> code: dl = dl_state; awL/awS/reg = awaiting_linked /          *)
(* awaiting_synced / registered; cur = current; syncEv = sync_event;       *)
(* ws = WriteState (start = send_link pending, idle, wsync = Writing(Left  *)
(* (send_sync)), wflush = Writing(Right(do_flush))); flushed / needsSync = *)
(* WriteTaskState bits; fstart = the ImmediateOrStart of this Idle         *)
(* iteration has polled its flush; bp = ValueBackpressure.current /        *)
(* MapBackpressure.queue; wreg = the SelectAll of DownlinkReceivers;       *)
(* wire = request frames written by RequestSender and not yet read by the  *)
(* remote (a flush completes iff Len(wire) <= SockCap, see the harness).   *)
(*                                                                         *)
(* Scheduling.  run() is ONE future: join(att, select(read, write)).  A    *)
(* poll of it polls attach_task, read_task, write_task in that order, each *)
(* until it blocks, so a task's actions are enabled only when the tasks    *)
(* polled before it have nothing to do (AttEnabled / ReadEnabled), and     *)
(* the environment (harness driver, remote, consumers) runs only BETWEEN   *)
(* polls: when everything is idle (Quiescent), or - unless Settled - in a  *)
(* burst of several environment actions before the next poll (burst).      *)
(* Nondeterminism left inside a poll is the code's own: tokio::select!     *)
(* between a new consumer and a message (R_NewConsumer vs R_Linked ..),   *)
(* SelectAll                                                               *)
(* over the consumers command streams (W_Idle_Rec(c), W_Wr_Rec(c)).        *)
(*                                                                         *)
(* Every environment action appends a record to hist: its inputs and the   *)
(* outputs M expects until the next environment action (deliveries to      *)
(* consumers, frame read, notifications sent).  A finished hist is a       *)
(* script for the harness (MC_DownlinkRuntime!DumpOnFinish).               *)
(*                                                                         *)
(* Abstractions (named): consumer channels never fill (the read task never *)
(* blocks in a send); a dropped consumer disappears from the read task's   *)
(* lists at once (the code notices at its next send; unobservable); the    *)
(* read side's feed-then-flush is one step; timeouts never fire.           *)
(* Deliberate deviations of the CODE are modelled as the code has them     *)
(* unless listed in Fixed: F10a (empty command body = "no data"), F10b     *)
(* (late consumer without SYNC parked in awaiting_synced); F10c (one       *)
(* awaiting_synced list for all outstanding syncs) is always modelled.     *)
(***************************************************************************)
EXTENDS Naturals, Sequences, FiniteSets, TLC, DownlinkSession

CONSTANTS Kind,        \* "value" | "map"
          Consumers,   \* e.g. {1, 2}
          SockCap,     \* request frames the socket holds
          MaxCmd,      \* commands per consumer
          MaxSet,      \* spontaneous updates of the remote lane
          KeySeq,      \* map keys in the lane's (sorted) sync order, e.g. <<"k1","k2">>
          InitLane,    \* initial lane state (a view)
          OptSet,      \* option records [sync, keep] a consumer may attach with
          AllowEmpty,  \* consumers may write a command with an empty body (value)
          AllowHold,   \* the remote may deliver its answers one notification at a time
          AllowStop,   \* the environment may fire the stop trigger / the lane may unlink
          Placement,   \* TRUE: "late attach placement" scripts - the first consumer attaches first with SYNC, the
                       \* remote delivers every answer one notification at a time, nobody drops: the later
                       \* consumers' attaches fall at every position of the remote's notification sequence
          Settled,     \* TRUE: environment acts only when the runtime is quiescent
          MaxSteps,    \* bound on the number of environment actions
          Strategies,  \* bad-frame strategies the runtime may be given: subset of {"abort", "ignore"}
          MaxBad,      \* malformed frames the remote side may send (map downlinks)
          AllowBadCmd, \* consumers may write garbage / keys that are not UTF-8 on their command channel
          AllowTakeDrop, \* the lane may emit take(n) / drop(n) events
          Fixed,       \* findings repaired in the tree under test (subset of {"F10a","F10b"})
          Enabled      \* open known findings (deviation actions of P)

VARIABLES
    \* environment
    lane, rlinked, outbox, down, wire, aq, cq, cstate, copt, ncmd, nset, stopped, closing,
    strat, nbad,       \* the BadFrameStrategy given to the runtime; malformed frames sent so far
    \* attach task
    rq, wq, attDone,
    \* read task
    rs, dl, awL, awS, reg, cur, syncEv, timer,
    \* write task
    ws, flushed, needsSync, fstart, bp, wreg,
    \* scheduling: TRUE while the environment acts without the runtime having been polled
    burst, breads,
    \* property monitor, script
    p, hist, done

envVars == <<lane, rlinked, outbox, down, wire, aq, cq, cstate, copt, ncmd, nset, stopped, closing>>
attVars == <<rq, wq, attDone>>
readVars == <<rs, dl, awL, awS, reg, cur, syncEv, timer>>
writeVars == <<ws, flushed, needsSync, fstart, bp, wreg>>
vars == <<envVars, strat, nbad, attVars, readVars, writeVars, burst, breads, p, hist, done>>
\* the mechanism state without the script (what a state of the implementation is)
MView == <<envVars, strat, nbad, attVars, readVars, writeVars, burst, breads, p, done>>

Keys == {KeySeq[i] : i \in 1..Len(KeySeq)}
IsMapKind == Kind # "value"        \* "map" (MapInterpretation) or "mapevent" (NoInterpretation)
NoOp == [o |-> "none"]

Val(w, i) == "w" \o ToString(w) \o "n" \o ToString(i)
RVal(i) == "r" \o ToString(i)

Lk == [t |-> "linked"]
Sy == [t |-> "synced"]
Ul == [t |-> "unlinked"]
Eo == [t |-> "eof"]
Ev(op) == [t |-> "event", op |-> op]

SeqToSet(s) == {s[i] : i \in 1..Len(s)}
Filter(s, c) == SelectSeq(s, LAMBDA x : x # c)
RECURSIVE Concat(_)
Concat(ss) == IF ss = <<>> THEN <<>> ELSE Head(ss) \o Concat(Tail(ss))

LookUp(view, k) == {x[2] : x \in {y \in view : y[1] = k}}

Init ==
    /\ lane = InitLane /\ rlinked = FALSE /\ outbox = <<>> /\ down = <<>>
    /\ wire = <<[t |-> "link"]>>          \* write_task starts with send_link
    /\ aq = <<>> /\ cq = [c \in Consumers |-> <<>>] /\ cstate = [c \in Consumers |-> "new"]
    /\ copt = [c \in Consumers |-> [sync |-> FALSE, keep |-> FALSE]]
    /\ ncmd = [c \in Consumers |-> 0] /\ nset = 0 /\ stopped = FALSE /\ closing = FALSE
    /\ rq = <<>> /\ wq = <<>> /\ attDone = FALSE
    /\ strat \in Strategies /\ nbad = 0
    \* task_state = Some(timeout): no consumer yet, messages are absorbed without being forwarded
    /\ timer = TRUE
    /\ rs = "run" /\ dl = "init" /\ awL = <<>> /\ awS = <<>> /\ reg = <<>> /\ cur = NoOp /\ syncEv = FALSE
    /\ ws = "start" /\ flushed = TRUE /\ needsSync = FALSE /\ fstart = FALSE /\ bp = <<>> /\ wreg = {}
    /\ p = PInit(Kind, Enabled, strat)
    /\ hist = <<>> /\ done = FALSE /\ burst = FALSE /\ breads = 0

-----------------------------------------------------------------------------
(* observations: deliveries to consumers go to P and to the script's expectation *)

Alive(c) == cstate[c] = "att"
Deliveries(ds) == [i \in 1..Len(ds) |-> [k |-> "crecv", c |-> ds[i].c, n |-> ds[i].n]]

\* internal action: feed events to P, append the deliveries to the expectation of the last
\* environment action
Observe(ds) ==
    /\ burst' = FALSE /\ breads' = 0 /\ UNCHANGED <<strat, nbad>>
    /\ p' = PSteps(p, Deliveries(ds))
    /\ hist' = IF ds = <<>> \/ hist = <<>> THEN hist
               ELSE [hist EXCEPT ![Len(hist)].del = @ \o ds]

Silent == Observe(<<>>)

To(c, ns) == IF Alive(c) THEN [i \in 1..Len(ns) |-> [c |-> c, n |-> ns[i]]] ELSE <<>>
ToAll(cs, ns) == Concat([i \in 1..Len(cs) |-> To(cs[i], ns)])

-----------------------------------------------------------------------------
(* attach_task                                                             *)

G_A_Fwd == ~done /\ ~attDone /\ aq # <<>> /\ ~(stopped \/ rs = "done")
A_Fwd ==
    /\ G_A_Fwd
    /\ rq' = Append(rq, Head(aq)) /\ wq' = Append(wq, Head(aq)) /\ aq' = Tail(aq)
    /\ UNCHANGED <<lane, rlinked, outbox, down, wire, cq, cstate, copt, ncmd, nset, stopped, closing,
                   attDone, readVars, writeVars, done>> /\ Silent

\* take_until(combined_stop): stop trigger, or the kill switch once read/write has ended.
\* Requests still queued are dropped with their channels (the consumer sees end of stream).
G_A_Stop == ~done /\ ~attDone /\ (stopped \/ rs = "done" \/ ws = "stopped")
A_Stop ==
    /\ G_A_Stop
    /\ attDone' = TRUE /\ aq' = <<>>
    /\ Observe(ToAll(aq, <<Eo>>))
    /\ UNCHANGED <<lane, rlinked, outbox, down, wire, cq, cstate, copt, ncmd, nset, stopped, closing,
                   rq, wq, readVars, writeVars, done>>

-----------------------------------------------------------------------------
(* read_task                                                               *)
(* One poll of the runtime's future polls attach_task, then read_task,     *)
(* then write_task (join(att, select(read, write))), each until it blocks: *)
(* a task acts only when the tasks polled before it have nothing to do.    *)
AttEnabled == G_A_Fwd \/ G_A_Stop
ReadTurn == ~done /\ ~AttEnabled

RG_NewConsumer == rs = "run" /\ rq # <<>>
G_R_NewConsumer == ReadTurn /\ RG_NewConsumer
R_NewConsumer ==
    /\ G_R_NewConsumer
    /\ LET c == Head(rq) IN
       /\ rq' = Tail(rq)
       /\ IF ~Alive(c) THEN UNCHANGED <<awL, awS, reg, timer>> /\ Observe(<<>>)
          ELSE /\ timer' = FALSE                  \* task_state.set(None): a consumer is attached
               /\ IF dl = "init" THEN awL' = Append(awL, c) /\ UNCHANGED <<awS, reg>> /\ Observe(<<>>)
                  ELSE /\ Observe(To(c, <<Lk>>))
                       \* the code parks every late consumer with those awaiting synced (F10b)
                       /\ IF "F10b" \in Fixed /\ ~copt[c].sync
                            THEN reg' = Append(reg, c) /\ UNCHANGED <<awL, awS>>
                            ELSE awS' = Append(awS, c) /\ UNCHANGED <<awL, reg>>
    /\ UNCHANGED <<envVars, wq, attDone, rs, dl, cur, syncEv, writeVars, done>>

Msg == Head(down)
RG_Message == rs = "run" /\ down # <<>>
G_R_Message == ReadTurn /\ RG_Message
\* is_active: while the "no consumers" timeout is armed, messages only update dl_state / current
Active == ~timer
BadMsg == Msg.t = "event" /\ Msg.op.o = "bad" /\ Kind = "map"      \* MapInterpretation rejects it

R_Linked ==
    /\ G_R_Message /\ Msg.t = "linked"
    /\ down' = Tail(down) /\ dl' = "linked"
    /\ IF Active
         THEN /\ awL' = <<>>
              /\ awS' = awS \o SelectSeq(awL, LAMBDA c : copt[c].sync)
              /\ reg' = reg \o SelectSeq(awL, LAMBDA c : ~copt[c].sync)
              /\ timer' = (awS' = <<>> /\ reg' = <<>>)
              /\ Observe(ToAll(awL, <<Lk>>))
         ELSE UNCHANGED <<awL, awS, reg, timer>> /\ Observe(<<>>)
    /\ UNCHANGED <<lane, rlinked, outbox, wire, aq, cq, cstate, copt, ncmd, nset, stopped, closing,
                   attVars, rs, cur, syncEv, writeVars, done>>

R_Synced ==
    /\ G_R_Message /\ Msg.t = "synced"
    /\ down' = Tail(down) /\ dl' = "synced"
    /\ IF Active
         THEN /\ reg' = reg \o awS /\ awS' = <<>>
              /\ timer' = (reg' = <<>>)
              \* sync_current (SINGLE_FRAME_STATE && sync_event) vs sync_only
              /\ IF Kind = "value" /\ syncEv
                   THEN Observe(ToAll(awS, <<Ev(cur), Sy>>))
                   ELSE Observe(ToAll(awS, <<Sy>>))
         ELSE UNCHANGED <<awS, reg, timer>> /\ Observe(<<>>)
    /\ UNCHANGED <<lane, rlinked, outbox, wire, aq, cq, cstate, copt, ncmd, nset, stopped, closing,
                   attVars, rs, awL, cur, syncEv, writeVars, done>>

\* send_current(registered); for a map (not SINGLE_FRAME_STATE) also awaiting_synced
Forward(op) ==
    IF Active
      THEN /\ Observe(ToAll(IF IsMapKind THEN reg \o awS ELSE reg, <<Ev(op)>>))
           /\ timer' = (reg = <<>> /\ awS = <<>>)
      ELSE UNCHANGED timer /\ Observe(<<>>)

R_Event ==
    /\ G_R_Message /\ Msg.t = "event" /\ ~BadMsg
    /\ down' = Tail(down) /\ syncEv' = TRUE /\ cur' = Msg.op
    /\ Forward(Msg.op)
    /\ UNCHANGED <<lane, rlinked, outbox, wire, aq, cq, cstate, copt, ncmd, nset, stopped, closing,
                   attVars, rs, dl, awL, awS, reg, writeVars, done>>

\* interpret_frame_data fails and the strategy says Ignore: `continue` - the frame is skipped
\* (sync_event is set only after a successful interpretation; the current value is a value lane's
\* business, whose interpretation cannot fail)
R_BadIgnore ==
    /\ G_R_Message /\ BadMsg /\ strat = "ignore"
    /\ down' = Tail(down)
    /\ UNCHANGED <<syncEv, cur, timer>> /\ Observe(<<>>)
    /\ UNCHANGED <<lane, rlinked, outbox, wire, aq, cq, cstate, copt, ncmd, nset, stopped, closing,
                   attVars, rs, dl, awL, awS, reg, writeVars, done>>

\* break out of the loop: unlink(awaiting_linked), unlink(awaiting_synced), unlink(registered);
\* the task ends, every consumer channel it owns is dropped
EndRead(live) ==
    /\ rs' = "done" /\ awL' = <<>> /\ awS' = <<>> /\ reg' = <<>>
    /\ Observe(ToAll(live, <<Ul, Eo>>) \o ToAll(rq, <<Eo>>))
    /\ rq' = <<>>

R_Unlinked ==
    /\ G_R_Message /\ Msg.t = "unlinked"
    /\ down' = Tail(down)
    /\ EndRead(awL \o awS \o reg)
    /\ UNCHANGED <<lane, rlinked, outbox, wire, aq, cq, cstate, copt, ncmd, nset, stopped, closing,
                   wq, attDone, dl, cur, syncEv, timer, writeVars, done>>

\* interpret_frame_data fails and the strategy says Abort(report): break Err(report) - every
\* consumer is unlinked, the runtime stops (run() logs the report)
R_BadAbort ==
    /\ G_R_Message /\ BadMsg /\ strat = "abort"
    /\ down' = Tail(down)
    /\ EndRead(awL \o awS \o reg)
    /\ UNCHANGED <<lane, rlinked, outbox, wire, aq, cq, cstate, copt, ncmd, nset, stopped, closing,
                   wq, attDone, dl, cur, syncEv, timer, writeVars, done>>

\* MessagesStopped / ReadFailed: the socket ended (after everything that was still in it)
R_SockClosed ==
    /\ G_R_Message /\ Msg.t = "closed"
    /\ down' = Tail(down)
    /\ EndRead(awL \o awS \o reg)
    /\ UNCHANGED <<lane, rlinked, outbox, wire, aq, cq, cstate, copt, ncmd, nset, stopped, closing,
                   wq, attDone, dl, cur, syncEv, timer, writeVars, done>>

\* ConsumerChannelStopped: the attach task has gone and the queue is drained
RG_Stop == rs = "run" /\ attDone /\ rq = <<>>
G_R_Stop == ReadTurn /\ RG_Stop
R_Stop ==
    /\ G_R_Stop
    /\ EndRead(awL \o awS \o reg)
    /\ UNCHANGED <<envVars, wq, attDone, dl, cur, syncEv, timer, writeVars, done>>

-----------------------------------------------------------------------------
(* write_task                                                              *)

ReadEnabled == RG_NewConsumer \/ RG_Message \/ RG_Stop
WriteTurn == ~done /\ ~AttEnabled /\ ~ReadEnabled

FlushDone == Len(wire) <= SockCap
RegReady == wq # <<>>
RecReady(c) == c \in wreg /\ (cq[c] # <<>> \/ ~Alive(c))
\* Failed(id, _) -> DownlinkReceiver::terminate: the consumer wrote something that is no command;
\* the runtime stops reading its commands (what it wrote after that is lost), Term marks the stream
Term == [o |-> "term"]
Terminated(c) == cq[c] # <<>> /\ Head(cq[c]).o = "term"
NotCmd(op) == op.o = "badcmd"
AnyRec == \E c \in Consumers : RecReady(c)
StopReady == attDone /\ wq = <<>>
Cmd(op) == [t |-> "cmd", op |-> op]
SyncF == [t |-> "sync"]

\* BackpressureStrategy::push_operation
Push(q, op) ==
    IF Kind = "value" THEN
        \* ValueBackpressure: one slot, overwritten; has_data() is "slot not empty" (F10a)
        IF op.v = "" /\ "F10a" \notin Fixed THEN <<>> ELSE <<op>>
    ELSE IF "badkey" \in DOMAIN op THEN q      \* MapOperationQueue::push fails (InvalidKey): logged, dropped
    ELSE IF op.o = "clr" THEN <<op>>
    ELSE LET S == {i \in 1..Len(q) : q[i].o # "clr" /\ q[i].k = op.k} IN
         IF S = {} THEN Append(q, op) ELSE [q EXCEPT ![Min(S)] = op]

\* which way the Idle state's immediate_or_start goes when an input arrives
DirectPath == flushed \/ ~fstart \/ FlushDone
FlushedAfter == flushed \/ (fstart /\ FlushDone)

G_W_LinkDone == WriteTurn /\ ws = "start" /\ FlushDone
W_LinkDone ==
    /\ G_W_LinkDone
    /\ ws' = "idle" /\ fstart' = FALSE
    /\ UNCHANGED <<envVars, attVars, readVars, flushed, needsSync, bp, wreg, done>> /\ Silent

\* Idle, registered.is_empty(): join(reg_requests.next(), flush)
G_W_IdleEmpty_Reg == WriteTurn /\ ws = "idle" /\ wreg = {} /\ RegReady /\ (flushed \/ FlushDone)
W_IdleEmpty_Reg ==
    /\ G_W_IdleEmpty_Reg
    /\ LET c == Head(wq) IN
       /\ wq' = Tail(wq) /\ wreg' = {c} /\ flushed' = TRUE /\ needsSync' = FALSE /\ fstart' = FALSE
       /\ IF copt[c].sync THEN wire' = Append(wire, SyncF) /\ ws' = "wsync"
                          ELSE UNCHANGED wire /\ ws' = "idle"
    /\ UNCHANGED <<lane, rlinked, outbox, down, aq, cq, cstate, copt, ncmd, nset, stopped, closing,
                   rq, attDone, readVars, bp, done>> /\ Silent

\* Idle, not FLUSHED, nothing ready: immediate_or_start polls (starts) the flush and waits
G_W_Idle_Block == WriteTurn /\ ws = "idle" /\ wreg # {} /\ ~flushed /\ ~fstart /\ ~RegReady /\ ~AnyRec /\ ~StopReady
W_Idle_Block ==
    /\ G_W_Idle_Block
    /\ fstart' = TRUE
    /\ UNCHANGED <<envVars, attVars, readVars, ws, flushed, needsSync, bp, wreg, done>> /\ Silent

\* select(reg_requests.next(), registered.next()): a registration wins over a record
G_W_Idle_Reg == WriteTurn /\ ws = "idle" /\ wreg # {} /\ RegReady
W_Idle_Reg ==
    /\ G_W_Idle_Reg
    /\ LET c == Head(wq) IN
       /\ wq' = Tail(wq) /\ wreg' = wreg \cup {c}
       /\ IF DirectPath
            THEN /\ flushed' = FlushedAfter /\ fstart' = FALSE /\ UNCHANGED needsSync
                 /\ IF copt[c].sync THEN wire' = Append(wire, SyncF) /\ ws' = "wsync"
                                    ELSE UNCHANGED wire /\ ws' = "idle"
            ELSE \* the flush is pending: remember NEEDS_SYNC, wait in Writing
                 /\ needsSync' = copt[c].sync /\ ws' = "wflush"
                 /\ UNCHANGED <<wire, flushed, fstart>>
    /\ UNCHANGED <<lane, rlinked, outbox, down, aq, cq, cstate, copt, ncmd, nset, stopped, closing,
                   rq, attDone, readVars, bp, done>> /\ Silent

G_W_Idle_Rec(c) == WriteTurn /\ ws = "idle" /\ wreg # {} /\ ~RegReady /\ ~StopReady /\ c \in wreg /\ cq[c] # <<>>
W_Idle_Rec(c) ==
    /\ G_W_Idle_Rec(c)
    /\ IF NotCmd(Head(cq[c]))
         THEN \* Some(Err(Failed)): terminate the receiver; back to Idle / wait for the pending flush
              /\ cq' = [cq EXCEPT ![c] = <<Term>>] /\ wreg' = wreg \ {c}
              /\ IF DirectPath THEN flushed' = FlushedAfter /\ fstart' = FALSE /\ UNCHANGED ws
                               ELSE ws' = "wflush" /\ UNCHANGED <<flushed, fstart>>
              /\ UNCHANGED <<wire, bp>>
         ELSE /\ cq' = [cq EXCEPT ![c] = Tail(@)] /\ UNCHANGED wreg
              /\ IF DirectPath
                   THEN \* write_direct + feed_command: completes at once; nothing buffered => Idle again
                        /\ wire' = Append(wire, Cmd(Head(cq[c]))) /\ flushed' = FALSE /\ fstart' = FALSE
                        /\ UNCHANGED <<ws, bp>>
                   ELSE /\ bp' = Push(bp, Head(cq[c])) /\ ws' = "wflush"
                        /\ UNCHANGED <<wire, flushed, fstart>>
    /\ UNCHANGED <<lane, rlinked, outbox, down, aq, cstate, copt, ncmd, nset, stopped, closing,
                   attVars, readVars, needsSync, done>> /\ Silent

\* a consumer's command stream ended; SelectAll drops it, and yields None when it is empty
G_W_Idle_Gone(c) == WriteTurn /\ ws = "idle" /\ wreg # {} /\ ~RegReady /\ ~StopReady /\ c \in wreg /\ cq[c] = <<>> /\ ~Alive(c)
W_Idle_Gone(c) ==
    /\ G_W_Idle_Gone(c)
    /\ wreg' = wreg \ {c}
    /\ IF wreg = {c}
         THEN IF DirectPath THEN flushed' = FlushedAfter /\ fstart' = FALSE /\ UNCHANGED ws
                            ELSE ws' = "wflush" /\ UNCHANGED <<flushed, fstart>>
         ELSE UNCHANGED <<ws, flushed, fstart>>
    /\ UNCHANGED <<envVars, attVars, readVars, needsSync, bp, done>> /\ Silent

Writing == ws \in {"wsync", "wflush"}
NeedsSyncNow == IF wreg = {} THEN FALSE ELSE needsSync

\* SuspendedCompleted: the pending send_sync / flush has completed
G_W_Wr_Done == WriteTurn /\ Writing /\ FlushDone
W_Wr_Done ==
    /\ G_W_Wr_Done
    /\ IF NeedsSyncNow
         THEN /\ wire' = Append(wire, SyncF) /\ ws' = "wsync" /\ flushed' = FALSE /\ needsSync' = FALSE
              /\ UNCHANGED <<bp, fstart>>
         ELSE IF bp # <<>>
         THEN \* prepare_write + feed_command for every buffered record (each completes at once)
              /\ wire' = wire \o [i \in 1..Len(bp) |-> Cmd(bp[i])] /\ bp' = <<>>
              /\ flushed' = FALSE /\ ws' = "idle" /\ fstart' = FALSE /\ needsSync' = FALSE
         ELSE /\ ws' = "idle" /\ fstart' = FALSE /\ needsSync' = FALSE
              /\ UNCHANGED <<wire, bp, flushed>>
    /\ UNCHANGED <<lane, rlinked, outbox, down, aq, cq, cstate, copt, ncmd, nset, stopped, closing,
                   attVars, readVars, wreg, done>> /\ Silent

\* NextRecord while writing is blocked: relieve backpressure
G_W_Wr_Rec(c) == WriteTurn /\ Writing /\ ~FlushDone /\ c \in wreg /\ cq[c] # <<>>
W_Wr_Rec(c) ==
    /\ G_W_Wr_Rec(c)
    /\ IF NotCmd(Head(cq[c]))
         THEN /\ cq' = [cq EXCEPT ![c] = <<Term>>] /\ wreg' = wreg \ {c} /\ UNCHANGED bp
              /\ needsSync' = IF wreg = {c} THEN FALSE ELSE needsSync
         ELSE /\ cq' = [cq EXCEPT ![c] = Tail(@)] /\ bp' = Push(bp, Head(cq[c]))
              /\ UNCHANGED <<wreg, needsSync>>
    /\ UNCHANGED <<lane, rlinked, outbox, down, wire, aq, cstate, copt, ncmd, nset, stopped, closing,
                   attVars, readVars, ws, flushed, fstart, done>> /\ Silent

G_W_Wr_Gone(c) == WriteTurn /\ Writing /\ ~FlushDone /\ c \in wreg /\ cq[c] = <<>> /\ ~Alive(c)
W_Wr_Gone(c) ==
    /\ G_W_Wr_Gone(c)
    /\ wreg' = wreg \ {c}
    /\ needsSync' = IF wreg = {c} THEN FALSE ELSE needsSync
    /\ UNCHANGED <<envVars, attVars, readVars, ws, flushed, fstart, bp, done>> /\ Silent

\* NewRegistration while writing is blocked: NEEDS_SYNC is remembered
G_W_Wr_Reg == WriteTurn /\ Writing /\ ~FlushDone /\ ~AnyRec /\ RegReady
W_Wr_Reg ==
    /\ G_W_Wr_Reg
    /\ LET c == Head(wq) IN
       /\ wq' = Tail(wq) /\ wreg' = wreg \cup {c}
       /\ needsSync' = (NeedsSyncNow \/ copt[c].sync)
    /\ UNCHANGED <<lane, rlinked, outbox, down, wire, aq, cq, cstate, copt, ncmd, nset, stopped, closing,
                   rq, attDone, readVars, ws, flushed, fstart, bp, done>> /\ Silent

\* reg_requests.next() = None: "Instructed to stop".  What was written but not yet flushed into
\* the socket is lost with the writer.
G_W_Stop == /\ WriteTurn /\ StopReady
            /\ \/ ws = "idle" /\ (wreg # {} \/ flushed \/ FlushDone)
               \/ Writing /\ ~FlushDone /\ ~AnyRec
\* a write / flush into a socket that has gone fails: "Flushing the output failed", the task ends
G_W_SockFail == /\ WriteTurn /\ p.closed = "rclose" /\ ~FlushDone
                /\ (ws \in {"start", "wsync", "wflush"} \/ (ws = "idle" /\ ~flushed))
W_SockFail ==
    /\ G_W_SockFail
    /\ ws' = "stopped"
    /\ UNCHANGED <<envVars, attVars, readVars, flushed, needsSync, fstart, bp, wreg, done>> /\ Silent

W_Stop ==
    /\ G_W_Stop
    /\ ws' = "stopped"
    /\ wire' = IF Len(wire) <= SockCap THEN wire ELSE SubSeq(wire, 1, SockCap)
    /\ UNCHANGED <<lane, rlinked, outbox, down, aq, cq, cstate, copt, ncmd, nset, stopped, closing,
                   attVars, readVars, flushed, needsSync, fstart, bp, wreg, done>> /\ Silent

Quiescent ==
    ~(\/ G_A_Fwd \/ G_A_Stop
      \/ G_R_NewConsumer \/ G_R_Message \/ G_R_Stop
      \/ G_W_LinkDone \/ G_W_IdleEmpty_Reg \/ G_W_Idle_Block \/ G_W_Idle_Reg \/ G_W_Wr_Done \/ G_W_Wr_Reg
      \/ G_W_Stop \/ G_W_SockFail
      \/ \E c \in Consumers : G_W_Idle_Rec(c) \/ G_W_Idle_Gone(c) \/ G_W_Wr_Rec(c) \/ G_W_Wr_Gone(c))

-----------------------------------------------------------------------------
(* environment: the harness script                                         *)

\* The environment (the harness driver) runs between polls of the runtime: when everything is
\* idle, or - unless Settled - in a burst of several actions before the runtime is polled again.
First == CHOOSE c \in Consumers : \A d \in Consumers : c <= d
MayEnv == ~done /\ (Quiescent \/ (~Settled /\ burst)) /\ (Placement => cstate[First] # "new")
MayAct == MayEnv /\ Len(hist) < MaxSteps
\* once the script has MaxSteps actions, the remote only drains (deterministically), then Finish
Draining == Len(hist) >= MaxSteps
MayDrain == MayEnv /\ (~Draining \/ Quiescent)
Open == ~closing                 \* neither stop nor unlink has been issued
Pre == IF Quiescent THEN <<[k |-> "settle"]>> ELSE <<>>
\* frames read from the socket since the runtime's writer last ran
Reads0 == IF Quiescent THEN 0 ELSE breads

\* an environment action: its events go to P (after the settle barrier if the system was
\* quiescent), its record (inputs + the outputs M expects) starts a new script entry
Act(rec, events) ==
    /\ UNCHANGED strat
    /\ p' = PSteps(p, Pre \o events)
    /\ hist' = Append(hist, rec @@ [pre |-> Quiescent, del |-> <<>>])
NoRead == burst' = TRUE /\ breads' = Reads0 /\ UNCHANGED nbad

Attach(c, o) ==
    /\ cstate[c] = "new" /\ Open
    /\ IF Placement /\ c = First THEN ~done /\ Quiescent /\ hist = <<>> /\ o.sync ELSE MayAct
    /\ cstate' = [cstate EXCEPT ![c] = "att"] /\ copt' = [copt EXCEPT ![c] = o]
    /\ aq' = Append(aq, c)
    /\ Act([k |-> "attach", c |-> c, sync |-> o.sync, keep |-> o.keep, attached |-> TRUE],
           <<[k |-> "attach", c |-> c, sync |-> o.sync, keep |-> o.keep]>>)
    /\ NoRead
    /\ UNCHANGED <<lane, rlinked, outbox, down, wire, cq, ncmd, nset, stopped, closing,
                   attVars, readVars, writeVars, done>>

\* the command consumer c writes: kind o on key k (o, k range over constants so that TLC reports
\* CSend as one action); bodies are unique per (consumer, sequence number)
CmdKinds == IF Kind = "value" THEN {"set"} \cup (IF AllowEmpty THEN {"empty"} ELSE {})
            ELSE {"upd", "rem", "clr"} \cup (IF AllowBadCmd THEN {"badcmd", "badkey"} ELSE {})
KeyChoice(o) == IF o \in {"upd", "rem", "badkey"} THEN Keys ELSE {"*"}
MkOp(o, k, v) ==
    IF o = "set" THEN [o |-> "set", v |-> v]
    ELSE IF o = "empty" THEN [o |-> "set", v |-> ""]
    ELSE IF o = "upd" THEN [o |-> "upd", k |-> k, v |-> v]
    ELSE IF o = "rem" THEN [o |-> "rem", k |-> k]
    ELSE IF o = "badkey" THEN [o |-> "upd", k |-> k, v |-> v, badkey |-> TRUE]   \* key bytes not UTF-8
    ELSE IF o = "badcmd" THEN [o |-> "badcmd"]                                   \* no map operation at all
    ELSE IF o \in {"take", "drop"} THEN [o |-> o, n |-> 1]
    ELSE [o |-> "clr"]

CSend(c, o, k) ==
    /\ o \in CmdKinds /\ k \in KeyChoice(o)          \* (cheap filters first: TLC evaluates in order)
    /\ Alive(c) /\ ~Terminated(c) /\ ncmd[c] < MaxCmd /\ Open /\ MayAct
    /\ LET op == MkOp(o, k, Val(c, ncmd[c] + 1)) IN
       /\ ncmd' = [ncmd EXCEPT ![c] = @ + 1]
       /\ cq' = [cq EXCEPT ![c] = Append(@, op)]
       /\ Act([k |-> "csend", c |-> c, op |-> op, sent |-> TRUE], <<[k |-> "csend", c |-> c, op |-> op]>>)
    /\ NoRead
    /\ UNCHANGED <<lane, rlinked, outbox, down, wire, aq, cstate, copt, nset, stopped, closing,
                   attVars, readVars, writeVars, done>>

CDrop(c) ==
    /\ ~Placement /\ Alive(c) /\ Open /\ MayAct
    /\ cstate' = [cstate EXCEPT ![c] = "dropped"]
    /\ awL' = Filter(awL, c) /\ awS' = Filter(awS, c) /\ reg' = Filter(reg, c)
    /\ Act([k |-> "cdrop", c |-> c], <<[k |-> "cdrop", c |-> c]>>)
    /\ NoRead
    /\ UNCHANGED <<lane, rlinked, outbox, down, wire, aq, cq, copt, ncmd, nset, stopped, closing,
                   attVars, rs, dl, cur, syncEv, timer, writeVars, done>>

\* the remote lane
\* the target of an EVENT downlink: a value-kind lane without state (a sync is answered by a bare synced)
Stateless == Kind = "value" /\ InitLane = {}
Snapshot ==
    IF Kind = "value"
      THEN LET S == LookUp(lane, "*") IN IF S = {} THEN <<>> ELSE <<Ev([o |-> "set", v |-> CHOOSE x \in S : TRUE])>>
      ELSE LET ks == SelectSeq(KeySeq, LAMBDA k : LookUp(lane, k) # {}) IN
           [i \in 1..Len(ks) |-> Ev([o |-> "upd", k |-> ks[i], v |-> CHOOSE x \in LookUp(lane, ks[i]) : TRUE])]

\* a command whose key is not valid UTF-8 is no command of the lane: ignored
Valid(op) == "badkey" \notin DOMAIN op
Answer(f) ==
    IF f.t = "link" THEN <<Lk>>
    ELSE IF f.t = "sync" THEN (IF rlinked THEN <<>> ELSE <<Lk>>) \o Snapshot \o <<Sy>>
    ELSE IF rlinked /\ Valid(f.op) THEN <<Ev(f.op)>> ELSE <<>>

RSends(ns) == [i \in 1..Len(ns) |-> [k |-> "rsend", n |-> ns[i]]]

\* the frame at the head of the wire can be read: its flush is being driven
SockOpen == p.closed # "rclose"
Readable == SockOpen /\ wire # <<>> /\ ~(ws = "idle" /\ wreg # {} /\ ~flushed /\ ~fstart)

\* Without a poll of the runtime in between, only the frames that are wholly inside the socket
\* can be read (the first SockCap ones); otherwise the read completes with the writer's help,
\* i.e. the runtime runs: the burst is over.
RRead(hold) ==
    /\ Readable /\ MayDrain /\ (Quiescent \/ Reads0 < SockCap)
    /\ Draining => (~hold /\ outbox = <<>>)
    /\ (Placement /\ ~Draining) => hold
    /\ breads' = Reads0 + 1 /\ burst' = (Reads0 < SockCap) /\ UNCHANGED nbad
    /\ LET f == Head(wire)
           ans == Answer(f)
           out == IF hold THEN <<>> ELSE outbox \o ans IN
       /\ wire' = Tail(wire)
       /\ rlinked' = (rlinked \/ f.t \in {"link", "sync"})
       /\ lane' = IF f.t = "cmd" /\ Valid(f.op) /\ ~Stateless THEN ApplyOp(lane, f.op) ELSE lane
       /\ outbox' = IF hold THEN outbox \o ans ELSE <<>>
       /\ down' = down \o out
       /\ Act([k |-> "rread", hold |-> hold, frame |-> f, resp |-> out],
              <<[k |-> "rrecv", f |-> f]>> \o RSends(out))
    /\ UNCHANGED <<aq, cq, cstate, copt, ncmd, nset, stopped, closing, attVars, readVars, writeVars, done>>

RPush ==
    /\ outbox # <<>> /\ MayDrain
    /\ outbox' = Tail(outbox) /\ down' = Append(down, Head(outbox))
    /\ Act([k |-> "rpush", resp |-> <<Head(outbox)>>], RSends(<<Head(outbox)>>))
    /\ NoRead
    /\ UNCHANGED <<lane, rlinked, wire, aq, cq, cstate, copt, ncmd, nset, stopped, closing,
                   attVars, readVars, writeVars, done>>

\* a change of the lane made by somebody else
RSet(o, k) ==
    /\ o \in (IF Kind = "value" THEN {"set"}
              ELSE {"upd", "rem"} \cup (IF AllowTakeDrop THEN {"take", "drop"} ELSE {})) /\ k \in KeyChoice(o)
    /\ nset < MaxSet /\ Open /\ MayAct
    \* take / drop mean something only relative to the whole map: the lane emits them on a link that has
    \* seen a complete snapshot (what the link has carried so far folds to the lane's state)
    /\ (o \in {"take", "drop"}) => (rlinked /\ LastView(p) = lane)
    /\ LET op == MkOp(o, k, RVal(nset + 1))
           out == IF rlinked THEN outbox \o <<Ev(op)>> ELSE outbox IN
       /\ nset' = nset + 1 /\ lane' = IF Stateless THEN lane ELSE ApplyOp(lane, op)
       /\ outbox' = <<>> /\ down' = down \o out
       /\ Act([k |-> "rset", op |-> op, resp |-> out], RSends(out))
    /\ NoRead
    /\ UNCHANGED <<rlinked, wire, aq, cq, cstate, copt, ncmd, stopped, closing,
                   attVars, readVars, writeVars, done>>

\* garbage on the socket: an event envelope whose body is not a map message, at any point of the
\* session (the link state of the lane plays no part).  With the Abort strategy the link will close.
BadOp == [o |-> "bad", b |-> 0]
RBad ==
    /\ IsMapKind /\ nbad < MaxBad /\ Open /\ MayAct
    \* (without interpretation the body is just an event: the lane's side sends events only once linked)
    /\ (Kind = "mapevent") => rlinked
    /\ nbad' = nbad + 1 /\ burst' = TRUE /\ breads' = Reads0
    /\ closing' = (Kind = "map" /\ strat = "abort")
    /\ LET out == outbox \o <<Ev(BadOp)>>
           marked == [i \in 1..Len(out) |-> IF i = Len(out) /\ Kind = "map"
                                              THEN [k |-> "rsend", n |-> out[i], bad |-> TRUE]
                                              ELSE [k |-> "rsend", n |-> out[i]]] IN
       /\ outbox' = <<>> /\ down' = down \o out
       /\ Act([k |-> "rbad", op |-> BadOp, resp |-> out], marked)
    /\ UNCHANGED <<lane, rlinked, wire, aq, cq, cstate, copt, ncmd, nset, stopped, attVars, readVars, writeVars, done>>

\* a consumer attaches after the runtime has stopped: the request is refused
AttachLate(c, o) ==
    /\ cstate[c] = "new" /\ closing /\ attDone /\ MayAct
    /\ cstate' = [cstate EXCEPT ![c] = "dropped"]
    /\ Act([k |-> "attach", c |-> c, sync |-> o.sync, keep |-> o.keep, attached |-> FALSE],
           <<[k |-> "attach", c |-> c, sync |-> o.sync, keep |-> o.keep], [k |-> "attachfail", c |-> c]>>)
    /\ NoRead
    /\ UNCHANGED <<lane, rlinked, outbox, down, wire, aq, cq, copt, ncmd, nset, stopped, closing,
                   attVars, readVars, writeVars, done>>

\* the connection goes away (dropped, or bytes that are no envelope): what the remote had not yet
\* delivered is lost, nothing can be read from the socket any more
RClose ==
    /\ AllowStop /\ Open /\ MayAct
    /\ closing' = TRUE /\ outbox' = <<>> /\ down' = Append(down, [t |-> "closed"])
    /\ Act([k |-> "rclose"], <<[k |-> "rclose"]>>)
    /\ NoRead
    /\ UNCHANGED <<lane, rlinked, wire, aq, cq, cstate, copt, ncmd, nset, stopped, attVars, readVars, writeVars, done>>

RUnlink ==
    /\ AllowStop /\ rlinked /\ Open /\ MayAct
    /\ rlinked' = FALSE /\ closing' = TRUE
    /\ LET out == outbox \o <<Ul>> IN
       /\ outbox' = <<>> /\ down' = down \o out
       /\ Act([k |-> "runlink", resp |-> out], RSends(out))
    /\ NoRead
    /\ UNCHANGED <<lane, wire, aq, cq, cstate, copt, ncmd, nset, stopped, attVars, readVars, writeVars, done>>

Stop ==
    /\ AllowStop /\ Open /\ MayAct
    /\ stopped' = TRUE /\ closing' = TRUE
    /\ Act([k |-> "stop"], <<[k |-> "stop"]>>)
    /\ NoRead
    /\ UNCHANGED <<lane, rlinked, outbox, down, wire, aq, cq, cstate, copt, ncmd, nset,
                   attVars, readVars, writeVars, done>>

Running == ~(rs = "done" /\ ws = "stopped" /\ attDone)

\* end of the script: everything has been read and answered, all is idle
Finish ==
    /\ ~done /\ ~Readable /\ outbox = <<>> /\ Quiescent
    /\ done' = TRUE
    /\ p' = PSteps(p, <<[k |-> "settle"], [k |-> "finish", running |-> Running]>>)
    /\ hist' = Append(hist, [k |-> "finish", pre |-> TRUE, del |-> <<>>, running |-> Running])
    /\ UNCHANGED <<envVars, strat, nbad, attVars, readVars, writeVars, burst, breads>>

Next ==
    \/ A_Fwd \/ A_Stop
    \/ R_NewConsumer \/ R_Linked \/ R_Synced \/ R_Event \/ R_BadIgnore \/ R_BadAbort \/ R_Unlinked \/ R_SockClosed \/ R_Stop
    \/ W_LinkDone \/ W_IdleEmpty_Reg \/ W_Idle_Block \/ W_Idle_Reg \/ W_Wr_Done \/ W_Wr_Reg \/ W_Stop \/ W_SockFail
    \/ \E c \in Consumers : W_Idle_Rec(c) \/ W_Idle_Gone(c) \/ W_Wr_Rec(c) \/ W_Wr_Gone(c)
    \/ \E c \in Consumers : \E o \in OptSet : Attach(c, o)
    \/ \E c \in Consumers : \E o \in OptSet : AttachLate(c, o)
    \/ \E c \in Consumers : \E o \in {"set", "empty", "upd", "rem", "clr", "badcmd", "badkey"} : \E k \in Keys \cup {"*"} : CSend(c, o, k)
    \/ \E c \in Consumers : CDrop(c)
    \/ RRead(FALSE) \/ (AllowHold /\ RRead(TRUE)) \/ RPush
    \/ \E o \in {"set", "upd", "rem", "take", "drop"} : \E k \in Keys \cup {"*"} : RSet(o, k)
    \/ RBad \/ RClose \/ RUnlink \/ Stop \/ Finish

Spec == Init /\ [][Next]_vars

-----------------------------------------------------------------------------
(* what TLC checks                                                         *)

\* M |= P : the monitor never rejects (deviations only for the open findings in Enabled)
PropertyHolds == PHolds(p)

TypeOK ==
    /\ dl \in {"init", "linked", "synced"} /\ rs \in {"run", "done"}
    /\ ws \in {"start", "idle", "wsync", "wflush", "stopped"}
    /\ wreg \subseteq Consumers
    /\ SeqToSet(awL) \cup SeqToSet(awS) \cup SeqToSet(reg) \subseteq Consumers

\* a consumer is owed exactly one thing
ListsDisjoint ==
    /\ SeqToSet(awL) \cap SeqToSet(awS) = {} /\ SeqToSet(awL) \cap SeqToSet(reg) = {}
    /\ SeqToSet(awS) \cap SeqToSet(reg) = {}
    /\ Len(awL) = Cardinality(SeqToSet(awL)) /\ Len(awS) = Cardinality(SeqToSet(awS))
    /\ Len(reg) = Cardinality(SeqToSet(reg))
    /\ (dl # "init") => awL = <<>>

\* backpressure (and NEEDS_SYNC) are used only while a write is pending
BackpressureOnlyWhileWriting == (bp # <<>> \/ needsSync) => (Writing \/ ws = "stopped")

\* the buffer never holds two records for one key, nor anything before a clear
BpWellFormed ==
    /\ (Kind = "value") => Len(bp) <= 1
    /\ \A i, j \in 1..Len(bp) : (i < j) => /\ bp[j].o # "clr"
                                           /\ (bp[i].o # "clr" => bp[i].k # bp[j].k)

\* vacuity guards (expected to be VIOLATED when given as invariants): reachability of the
\* interesting corners
NeverNeedsSync == ~needsSync
NeverBackpressure == bp = <<>>
NeverKf == p.kf = {}
=============================================================================

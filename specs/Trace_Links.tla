----------------------------- MODULE Trace_Links -----------------------------
(***************************************************************************)
(* P for C20 as a trace specification: it accepts exactly the recorded     *)
(* histories (operations on the link registry / the write task, with the   *)
(* snapshots the introspection readers returned) in which                  *)
(*   - every snapshot of a lane with a registered reporter reports the     *)
(*     number of remotes really linked to that lane, the aggregate the     *)
(*     number of links of the agent,                                       *)
(*   - the event counts of the snapshots add up to the number of           *)
(*     addressees of the events sent since the reader's previous snapshot, *)
(*     the command counts to the commands received.                        *)
(* It knows nothing of forward / backwards / total_count: `linked` is kept *)
(* by the rules of the statement only (Links.tla states the same rules as  *)
(* its P part).  Snapshots may be taken at arbitrary points ("sn").        *)
(*                                                                         *)
(* Events (ndjson):                                                        *)
(*  {"k":"reset","lv":"K"|"W","nl":n,"nr":n,"agg":0|1}   a fresh registry  *)
(*  level K (Links called directly):                                       *)
(*    reg l | ins l r | rem l r | remr r | reml l | remall | cs l | cb l   *)
(*  level W (write task):                                                  *)
(*    lane l | att r | link r l | unlink r l | unk r | ev l t (t = 0:      *)
(*    broadcast) | cmd l | close r | fail l | prune r | stop               *)
(*    + "att": bit mask of the remotes attached after the step             *)
(*  the same vocabulary describes runs of the whole agent runtime (level   *)
(*    R of the harness: requests sent as envelopes, "att" = remotes whose  *)
(*    completion promise is unresolved), plus sync r l (a sync request:    *)
(*    nothing by itself) and tick (the prune delay passes)                 *)
(*  every event: "sn" bit mask of the readers snapshotted after the step   *)
(*    (bit l-1 = lane l, bit nl = aggregate) and "s": their snapshots in   *)
(*    that order, [st, link_count, event_count, command_count] with st     *)
(*    0 = no reader was ever handed out, 1 = alive, 2 = dead.              *)
(*                                                                         *)
(* Known findings (CONSTANT Enabled, the open entries of                   *)
(* known_findings/C20.json) are *deviation rules* with exact guards; a     *)
(* deviation that is taken is recorded (TLCSet(2)) and reported.           *)
(***************************************************************************)
EXTENDS Naturals, FiniteSets, Sequences, TLC, Json, IOUtils

CONSTANT Enabled        \* subset of {"F3a", "F3b"}

Rec == ndJsonDeserialize(IOEnv.TRACE)

VARIABLES i,        \* next event
          cs,       \* number of the current history (count of resets)
          lv, nl, nr, agg,
          reg,      \* lanes for which a reader exists
          known,    \* level W: lanes the lane registry knows
          gone,     \* lanes removed (remove_lane / lane failure): P is silent about their reporter
          att,      \* attached remotes
          linked,   \* the links that really exist
          ph,       \* F3b: pairs (l, t) for which a response was addressed to t while t was not attached
          lost,     \* F3a: lanes whose set of remotes was emptied by the removal of a remote
          oe, oet, oph, oc,        \* per lane: events owed / tolerance / phantom extra / commands owed  (since its last snapshot)
          ae, aet, aph, amiss, ac  \* the same for the aggregate; amiss: events it may have missed (F3a)
vars == <<i, cs, lv, nl, nr, agg, reg, known, gone, att, linked, ph, lost, oe, oet, oph, oc, ae, aet, aph, amiss, ac>>

Has(e, f) == f \in DOMAIN e
Max(a, b) == IF a > b THEN a ELSE b
Bits(m, n) == {j \in 1..n : (m \div (2 ^ (j - 1))) % 2 = 1}
Of(S, l) == {p[2] : p \in {q \in S : q[1] = l}}
Zero(n) == [l \in 1..n |-> 0]

TraceInit == /\ i = 1 /\ cs = 0 /\ lv = "K" /\ nl = 1 /\ nr = 1 /\ agg = 1
             /\ reg = {} /\ known = {} /\ gone = {} /\ att = {} /\ linked = {} /\ ph = {} /\ lost = {}
             /\ oe = Zero(1) /\ oet = Zero(1) /\ oph = Zero(1) /\ oc = Zero(1)
             /\ ae = 0 /\ aet = 0 /\ aph = 0 /\ amiss = 0 /\ ac = 0
             /\ TLCSet(1, 1) /\ TLCSet(2, {})

Reset(e) ==
    /\ lv' = e.lv /\ nl' = e.nl /\ nr' = e.nr /\ agg' = e.agg /\ cs' = cs + 1
    /\ reg' = {} /\ known' = {} /\ gone' = {} /\ linked' = {} /\ ph' = {} /\ lost' = {}
    /\ att' = IF e.lv = "K" THEN 1..e.nr ELSE {}
    /\ oe' = Zero(e.nl) /\ oet' = Zero(e.nl) /\ oph' = Zero(e.nl) /\ oc' = Zero(e.nl)
    /\ ae' = 0 /\ aet' = 0 /\ aph' = 0 /\ amiss' = 0 /\ ac' = 0

\* ---- the effect of one operation on the abstract state: a record
\*   L, P: linked / ph after the operation itself
\*   reg, known, gone: after
\*   att0: the remotes that could be attached after it (before removals)
\*   send: [lane, n, tol, phx]  an event of `lane` went to n addressees (tol: one more may be counted; phx: phantoms counted)
\*   cmd: lane that received a command (0 = none);  heal: lanes whose reporter was (re)registered
\*   miss: the aggregate may miss this event (F3a)
Eff(e) ==
    LET k == e.k
        l == IF Has(e, "l") THEN e.l ELSE 0
        r == IF Has(e, "r") THEN e.r ELSE 0
        t == IF Has(e, "t") THEN e.t ELSE 0
        base == [L |-> linked, P |-> ph, reg |-> reg, known |-> known, gone |-> gone, att0 |-> att,
                 send |-> [lane |-> 0, n |-> 0, tol |-> 0, phx |-> 0], cmd |-> 0, heal |-> {}, miss |-> 0, rm |-> {}]
        drop(S, p) == S \ {p}
    IN
    CASE k \in {"reg", "lane"} ->
             [base EXCEPT !.reg = @ \cup {l}, !.known = @ \cup {l}, !.gone = @ \ {l}, !.heal = {l}]
      [] k = "ins" -> [base EXCEPT !.L = @ \cup {<<l, r>>}]
      [] k = "rem" -> [base EXCEPT !.L = drop(@, <<l, r>>)]
      [] k = "remr" -> [base EXCEPT !.rm = {r}]
      [] k \in {"reml", "fail"} ->
             [base EXCEPT !.L = {p \in @ : p[1] # l}, !.P = {p \in @ : p[1] # l}, !.gone = @ \cup {l}]
      [] k \in {"remall", "stop"} -> [base EXCEPT !.L = {}, !.P = {}]
      [] k = "cs" -> [base EXCEPT !.send = [lane |-> l, n |-> 1, tol |-> 0, phx |-> 0]]
      [] k = "cb" -> [base EXCEPT !.send = [lane |-> l, n |-> Cardinality(Of(linked, l)), tol |-> 0, phx |-> 0]]
      [] k = "att" -> [base EXCEPT !.att0 = @ \cup {r}]
      [] k = "link" ->
             IF l \in known /\ r \in att
               THEN [base EXCEPT !.L = @ \cup {<<l, r>>}, !.P = drop(@, <<l, r>>)]   \* the remote is told `linked`
               ELSE base
      [] k = "unlink" -> [base EXCEPT !.L = drop(@, <<l, r>>), !.P = drop(@, <<l, r>>)]
      [] k = "ev" /\ t # 0 ->
             IF t \in att
               THEN \* the response reaches its addressee: an (implicit) link and one event
                    [base EXCEPT !.L = @ \cup {<<l, t>>}, !.P = drop(@, <<l, t>>),
                                 !.send = [lane |-> l, n |-> 1, tol |-> 0, phx |-> 0],
                                 !.miss = IF l \in lost THEN 1 ELSE 0]
               ELSE \* nobody to receive it: no link; whether the dispatched response counts is left open
                    [base EXCEPT !.P = IF <<l, t>> \in linked THEN @ ELSE @ \cup {<<l, t>>},
                                 !.send = [lane |-> l, n |-> 0, tol |-> 1, phx |-> 0]]
      [] k = "ev" /\ t = 0 ->
             [base EXCEPT !.send = [lane |-> l, n |-> Cardinality(Of(linked, l)), tol |-> 0,
                                    phx |-> Cardinality(Of(ph, l))]]
      [] k = "cmd" -> [base EXCEPT !.cmd = l]
      [] OTHER -> base        \* unk, close, prune, nop: nothing by themselves

\* position of reader x (lanes 1..nl, aggregate nl+1) in the list of snapshots
Pos(SN, x) == Cardinality({j \in SN : j <= x})

Step(e) ==
    LET f == Eff(e)
        SN == Bits(IF Has(e, "sn") THEN e.sn ELSE (2 ^ (nl + 1)) - 1, nl + 1)
        att1 == IF lv = "W" THEN Bits(e.att, nr) ELSE att
        removed == IF lv = "W" THEN f.att0 \ att1 ELSE f.rm       \* remotes removed during the step
        \* F3a's circumstances: the removal of a remote empties the set of a lane that has a reporter
        emptied == {l \in (f.reg \ f.gone) :
                       LET B == Of(f.L \cup f.P, l) IN B \cap removed # {} /\ B \ removed = {}}
        L2 == {p \in f.L : p[2] \notin removed}
        P2 == {p \in f.P : p[2] \notin removed}
        lost2 == ((lost \ f.heal) \cup emptied) \ f.gone
        \* what is owed after the step
        oe1 == [l \in 1..nl |-> IF l \in f.heal THEN 0 ELSE oe[l] + (IF l = f.send.lane THEN f.send.n ELSE 0)]
        oet1 == [l \in 1..nl |-> IF l \in f.heal THEN 0 ELSE oet[l] + (IF l = f.send.lane THEN f.send.tol ELSE 0)]
        oph1 == [l \in 1..nl |-> IF l \in f.heal THEN 0 ELSE oph[l] + (IF l = f.send.lane THEN f.send.phx ELSE 0)]
        oc1 == [l \in 1..nl |-> IF l \in f.heal THEN 0 ELSE oc[l] + (IF l = f.cmd THEN 1 ELSE 0)]
        ae1 == ae + f.send.n
        aet1 == aet + f.send.tol
        aph1 == aph + f.send.phx
        amiss1 == amiss + f.miss
        ac1 == ac + (IF f.cmd # 0 THEN 1 ELSE 0)
        o(x) == e.s[Pos(SN, x)]
        n(l) == Cardinality(Of(L2, l))
        p(l) == Cardinality(Of(P2, l))
        \* ---- the property for one lane snapshot
        LaneOK(l) == LET s == o(l) IN
                     /\ s[1] = 1 /\ s[2] = n(l) /\ s[3] >= oe1[l] /\ s[3] <= oe1[l] + oet1[l] /\ s[4] = oc1[l]
        \* ---- deviation rules of the open findings
        LaneA(l) == LET s == o(l) IN
                    /\ "F3a" \in Enabled /\ l \in lost2
                    /\ \/ s = <<2, 0, 0, 0>>                     \* reader dead
                       \* or frozen: no links, and of the events owed at most those counted before the loss
                       \/ s[1] = 1 /\ s[2] = 0 /\ s[3] <= oe1[l] + oet1[l] /\ s[4] = oc1[l]
        LaneB(l) == LET s == o(l) IN
                    /\ "F3b" \in Enabled /\ (p(l) > 0 \/ oph1[l] > 0)
                    /\ s[1] = 1 /\ s[2] = n(l) + p(l) /\ s[4] = oc1[l]
                    /\ s[3] >= oe1[l] /\ s[3] <= oe1[l] + oet1[l] + oph1[l]
        AggOK == LET s == o(nl + 1) IN
                 /\ s[1] = 1 /\ s[2] = Cardinality(L2) /\ s[3] >= ae1 /\ s[3] <= ae1 + aet1 /\ s[4] = ac1
        AggDev == LET s == o(nl + 1)
                      px == IF "F3b" \in Enabled THEN Cardinality(P2) ELSE 0
                      ex == IF "F3b" \in Enabled THEN aph1 ELSE 0
                      mx == IF "F3a" \in Enabled THEN amiss1 ELSE 0
                  IN /\ s[1] = 1 /\ s[2] = Cardinality(L2) + px /\ s[4] = ac1
                     /\ s[3] + mx >= ae1 /\ s[3] <= ae1 + aet1 + ex
        checked == {l \in SN \cap (1..nl) : l \in f.reg /\ l \notin f.gone}
        aggChecked == (nl + 1) \in SN /\ agg = 1
        devs == {<<"F3a", cs>> : l \in {x \in checked : ~LaneOK(x) /\ LaneA(x)}}
                \cup {<<"F3b", cs>> : l \in {x \in checked : ~LaneOK(x) /\ ~LaneA(x) /\ LaneB(x)}}
                \cup (IF aggChecked /\ ~AggOK
                        THEN (IF o(nl + 1)[3] < ae1 THEN {<<"F3a", cs>>} ELSE {})
                             \cup (IF o(nl + 1)[3] > ae1 + aet1 \/ o(nl + 1)[2] # Cardinality(L2) THEN {<<"F3b", cs>>} ELSE {})
                        ELSE {})
    IN
    /\ Len(e.s) = Cardinality(SN)
    /\ (lv = "W") => att1 \subseteq f.att0          \* a remote is only ever attached by `att`
    /\ \A l \in checked : LaneOK(l) \/ LaneA(l) \/ LaneB(l)
    /\ aggChecked => (AggOK \/ AggDev)
    /\ TLCSet(2, TLCGet(2) \cup devs)
    /\ linked' = L2 /\ ph' = P2 /\ lost' = lost2 /\ att' = att1
    /\ reg' = f.reg /\ known' = f.known /\ gone' = f.gone
    /\ oe'  = [l \in 1..nl |-> IF l \in SN THEN 0 ELSE oe1[l]]
    /\ oet' = [l \in 1..nl |-> IF l \in SN THEN 0 ELSE oet1[l]]
    /\ oph' = [l \in 1..nl |-> IF l \in SN THEN 0 ELSE oph1[l]]
    /\ oc'  = [l \in 1..nl |-> IF l \in SN THEN 0 ELSE oc1[l]]
    /\ ae' = IF (nl + 1) \in SN THEN 0 ELSE ae1
    /\ aet' = IF (nl + 1) \in SN THEN 0 ELSE aet1
    /\ aph' = IF (nl + 1) \in SN THEN 0 ELSE aph1
    /\ amiss' = IF (nl + 1) \in SN THEN 0 ELSE amiss1
    /\ ac' = IF (nl + 1) \in SN THEN 0 ELSE ac1
    /\ UNCHANGED <<cs, lv, nl, nr, agg>>

TraceNext == /\ i <= Len(Rec)
             /\ IF Rec[i].k = "reset" THEN Reset(Rec[i]) ELSE Step(Rec[i])
             /\ i' = i + 1
             /\ TLCSet(1, Max(TLCGet(1), i + 1))

TraceSpec == TraceInit /\ [][TraceNext]_vars

TraceAccepted ==
    LET m == TLCGet(1) IN
    \* kf: the deviations taken, as pairs <<finding, number of the history>>
    /\ PrintT(<<"TRACE_RESULT", ToJson([accepted |-> (m = Len(Rec) + 1), matched |-> m - 1, total |-> Len(Rec),
                                        kf |-> TLCGet(2)])>>)
    /\ m = Len(Rec) + 1
=============================================================================

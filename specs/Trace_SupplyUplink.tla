-------------------------- MODULE Trace_SupplyUplink --------------------------
(***************************************************************************)
(* P for C14 / supply lanes (NoCoalesce) as a trace specification: a       *)
(* deterministic monitor over what was pushed to the supply lanes of one   *)
(* remote and the frames that remote received.  It knows nothing of the    *)
(* mechanism (FIFO buffers, write queue, special queue, lent writer).      *)
(*                                                                         *)
(* Events (ndjson):                                                        *)
(*  {"k":"reset","id":s}            a fresh remote; starts case s          *)
(*  {"k":"push","l":l,"n":n}        the n-th item was pushed to supply     *)
(*                                   lane l while the remote was linked    *)
(*  {"k":"unlink","l":l}            the remote's link to l was ended (an   *)
(*                                   unlinked frame was queued for it):    *)
(*                                   items pushed before need not arrive   *)
(*  {"k":"frames","fr":[[kind,l,n],..]}  frames read by the remote, in     *)
(*                                   order: kind "e" = event of supply     *)
(*                                   lane l carrying exactly item n; other *)
(*                                   kinds (linked, synced, unlinked,      *)
(*                                   value-lane events) are not C14's      *)
(*                                   business; a frame that is not the     *)
(*                                   exact bytes of something pushed has a *)
(*                                   4th element (why)                     *)
(*  {"k":"idle"} {"k":"end","idle":b} {"k":"panic"}   as Trace_CommandOutput *)
(*                                                                         *)
(* Laws (per supply lane l):                                               *)
(*  L1 every event frame carries an item that was pushed to l              *)
(*  L2 items arrive in push order, none twice                              *)
(*  L3 an item is skipped only if the link was ended after it was pushed   *)
(*     and before the item that overtook it was pushed                     *)
(*  L4 when the writer is idle every item pushed since the link was last   *)
(*     ended has arrived; the writer becomes idle once its writes complete *)
(***************************************************************************)
EXTENDS Naturals, Sequences, TLC, Json, IOUtils

Rec == ndJsonDeserialize(IOEnv.TRACE)

MaxL == 8
LIds == 1..MaxL

VARIABLES i, ep, cur, last, ok, caseId, fails
vars == <<i, ep, cur, last, ok, caseId, fails>>

Has(e, f) == f \in DOMAIN e

TraceInit == /\ i = 1 /\ ep = [l \in LIds |-> <<>>] /\ cur = [l \in LIds |-> 0] /\ last = [l \in LIds |-> 0]
             /\ ok = TRUE /\ caseId = "" /\ fails = <<>>
             /\ TLCSet(1, 1) /\ TLCSet(2, <<>>)

RECURSIVE Fold(_, _, _)
Fold(fr, j, la) ==
    IF j > Len(fr) THEN [last |-> la, err |-> ""]
    ELSE LET f == fr[j] IN
         IF Len(f) # 3 THEN [last |-> la, err |-> "L1: a frame on the channel is not the exact encoding of something that was pushed"]
         ELSE IF f[1] # "e" THEN Fold(fr, j + 1, la)
         ELSE LET l == f[2]
                  n == f[3] IN
              IF ~(l \in LIds) \/ n < 1 THEN [last |-> la, err |-> "L1: unknown event frame"]
              ELSE IF n > Len(ep[l]) THEN [last |-> la, err |-> "L1: event for an item that was never pushed"]
              ELSE IF n <= la[l] THEN [last |-> la, err |-> "L2: item delivered twice or out of order"]
              ELSE IF \E m \in (la[l] + 1)..(n - 1) : ep[l][m] >= ep[l][n]
                   THEN [last |-> la, err |-> "L3: an item was dropped although the link was not ended after it"]
              ELSE Fold(fr, j + 1, [la EXCEPT ![l] = n])

Complete == \A l \in LIds : \A m \in (last[l] + 1)..Len(ep[l]) : ep[l][m] < cur[l]

Same == UNCHANGED <<ep, cur, last, ok, caseId, fails>>
Fail(why) == /\ ok' = FALSE
             /\ fails' = Append(fails, [id |-> caseId, at |-> i, why |-> why])
             /\ UNCHANGED <<ep, cur, last, caseId>>

Step(e) ==
    IF e.k = "reset" THEN
        /\ ep' = [l \in LIds |-> <<>>] /\ cur' = [l \in LIds |-> 0] /\ last' = [l \in LIds |-> 0] /\ ok' = TRUE
        /\ caseId' = (IF Has(e, "id") THEN e.id ELSE "?") /\ fails' = fails
    ELSE IF ~ok THEN Same
    ELSE IF e.k = "push" THEN
        IF e.l \in LIds /\ e.n = Len(ep[e.l]) + 1
        THEN /\ ep' = [ep EXCEPT ![e.l] = Append(@, cur[e.l])] /\ UNCHANGED <<cur, last, ok, caseId, fails>>
        ELSE Fail("malformed trace: push out of sequence")
    ELSE IF e.k = "unlink" THEN
        /\ cur' = [cur EXCEPT ![e.l] = @ + 1] /\ UNCHANGED <<ep, last, ok, caseId, fails>>
    ELSE IF e.k = "frames" THEN
        LET r == Fold(e.fr, 1, last) IN
        IF r.err # "" THEN Fail(r.err)
        ELSE IF Has(e, "trail") /\ e.trail > 0 THEN Fail("L1: part of a frame was written to the channel")
        ELSE /\ last' = r.last /\ UNCHANGED <<ep, cur, ok, caseId, fails>>
    ELSE IF e.k = "idle" THEN
        IF Complete THEN Same
        ELSE Fail("L4: the writer is idle although an item pushed since the link was established has not arrived (item lost)")
    ELSE IF e.k = "end" THEN
        IF ~e.idle THEN Fail("L4: the writer never becomes idle although all its writes completed (stuck)")
        ELSE IF ~Complete THEN Fail("L4: drained and idle although an item pushed since the link was established has not arrived (item lost)")
        ELSE Same
    ELSE IF e.k = "panic" THEN Fail("panic / hang in the code under test")
    ELSE Fail("malformed trace: unknown event")

TraceNext == /\ i <= Len(Rec)
             /\ Step(Rec[i])
             /\ i' = i + 1
             /\ TLCSet(1, i + 1)
             /\ TLCSet(2, fails')

TraceSpec == TraceInit /\ [][TraceNext]_vars

TraceAccepted ==
    LET m == TLCGet(1)
        f == TLCGet(2) IN
    /\ PrintT(<<"TRACE_RESULT", ToJson([accepted |-> (m = Len(Rec) + 1 /\ f = <<>>), matched |-> m - 1,
                                         total |-> Len(Rec), kf |-> <<>>, failed |-> f])>>)
    /\ m = Len(Rec) + 1 /\ f = <<>>
=============================================================================

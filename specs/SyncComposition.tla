---------------------------- MODULE SyncComposition ----------------------------
(***************************************************************************)
(* Mechanism specification (M) of the COMPOSITION that answers a sync on a *)
(* map lane, from the lane's queues to the remote's replica:               *)
(*   agent side   server/swimos_agent/src/lanes/queues/mod.rs WriteQueues  *)
(*                (coalescing event queue, per-remote sync queues with     *)
(*                their key snapshot, alternating pop, pruning of the      *)
(*                snapshots by every emitted event, clear empties them),   *)
(*                the lane's bounded output channel (Cap responses);       *)
(*   runtime side write task handle_event: a standard event is broadcast   *)
(*                to the remotes linked at that moment, a response         *)
(*                addressed to one remote links it implicitly.             *)
(* Frames are delivered to the remotes at once (slow remotes are the       *)
(* subject of WriteTask.tla).  P is C03 (at synced every key of the        *)
(* replica is admissible in the sync window) and C02 (convergence, clear   *)
(* not overtaken), stated over ghost variables.                            *)
(*                                                                         *)
(* TLC finds the two open findings at this level:                          *)
(*   F5  (LinkFirst = FALSE): a key updated inside the window is pruned    *)
(*        from the snapshot by an event the not-yet-linked remote misses;  *)
(*   F12 (backlog): events still queued when the sync starts are older     *)
(*        than its snapshot but are treated as newer: a queued clear /     *)
(*        remove / update empties or prunes the snapshot, or reaches the   *)
(*        remote after newer values delivered by the sync.                 *)
(* With Excuse = TRUE the invariants are weakened by exactly the           *)
(* signatures of those findings and hold; with Excuse = FALSE TLC must     *)
(* produce the counterexamples (otherwise the finding has disappeared).    *)
(***************************************************************************)
EXTENDS Naturals, Integers, Sequences, FiniteSets, TLC

CONSTANTS Keys, Remotes, MaxOps, Cap, LinkFirst, Excuse

VARIABLES content,   \* [Keys -> value | -1]      the lane's map
          evq,       \* Seq of [m, k]             EventQueue (value read at pop time)
          syq,       \* Seq of [r, keys]          sync_queues
          sidx, flip,\* NextWrite {sync_index, next}
          out,       \* Seq of responses          lane -> runtime channel
          linked,    \* SUBSET Remotes            Links
          nops,
          \* ghost ----------------------------------------------------------------
          replica,   \* [Remotes -> [Keys -> value | -1]]
          win,       \* [Remotes -> BOOLEAN]      sync outstanding
          adm,       \* [Remotes -> [Keys -> SUBSET values]]
          synced,    \* [Remotes -> BOOLEAN]
          wupd,      \* [Remotes -> SUBSET Keys]  keys updated inside the window
          fresh,     \* [Remotes -> BOOLEAN]      the sync was requested without a link
          late,      \* [Remotes -> BOOLEAN]      the lane had a backlog of events (queued, or on their way to the runtime) when the sync was requested
          ahead,     \* [Remotes -> SUBSET Keys]  keys whose delivered value is newer than a clear not yet delivered
          bad        \* "" or the clause that was broken
vars == <<content, evq, syq, sidx, flip, out, linked, nops, replica, win, adm, synced, wupd, fresh, late, ahead, bad>>

Empty == [k \in Keys |-> -1]
Init == /\ content = Empty /\ evq = <<>> /\ syq = <<>> /\ sidx = 1 /\ flip = "event" /\ out = <<>>
        /\ linked = {} /\ nops = 0
        /\ replica = [r \in Remotes |-> Empty] /\ win = [r \in Remotes |-> FALSE]
        /\ adm = [r \in Remotes |-> [k \in Keys |-> {}]] /\ synced = [r \in Remotes |-> FALSE]
        /\ wupd = [r \in Remotes |-> {}] /\ fresh = [r \in Remotes |-> FALSE]
        /\ late = [r \in Remotes |-> FALSE] /\ ahead = [r \in Remotes |-> {}] /\ bad = ""

\* EventQueue::push: replace in place per key, a clear resets the queue
EvPush(q, op) ==
    IF op.m = "clr" THEN <<op>>
    ELSE LET S == {j \in 1..Len(q) : q[j].m # "clr" /\ q[j].k = op.k} IN
         IF S = {} THEN Append(q, op) ELSE [q EXCEPT ![CHOOSE j \in S : TRUE] = op]

\* the lane's map changes: ghost windows widen
Widen(k, v) == adm' = [r \in Remotes |-> IF win[r] THEN [adm[r] EXCEPT ![k] = @ \cup {v}] ELSE adm[r]]

Update(k) ==
    /\ nops < MaxOps /\ nops' = nops + 1
    /\ content' = [content EXCEPT ![k] = nops + 1]
    /\ evq' = EvPush(evq, [m |-> "upd", k |-> k])
    /\ Widen(k, nops + 1)
    /\ wupd' = [r \in Remotes |-> IF win[r] THEN wupd[r] \cup {k} ELSE wupd[r]]
    /\ UNCHANGED <<syq, sidx, flip, out, linked, replica, win, synced, fresh, late, ahead, bad>>

Remove(k) ==
    /\ nops < MaxOps /\ content[k] # -1 /\ nops' = nops + 1
    /\ content' = [content EXCEPT ![k] = -1]
    /\ evq' = EvPush(evq, [m |-> "rem", k |-> k])
    /\ Widen(k, -1)
    /\ UNCHANGED <<syq, sidx, flip, out, linked, replica, win, synced, wupd, fresh, late, ahead, bad>>

Clear ==
    /\ nops < MaxOps /\ nops' = nops + 1
    /\ content' = Empty
    /\ evq' = <<[m |-> "clr", k |-> 0]>>
    /\ adm' = [r \in Remotes |-> IF win[r] THEN [k \in Keys |-> adm[r][k] \cup {-1}] ELSE adm[r]]
    /\ UNCHANGED <<syq, sidx, flip, out, linked, replica, win, synced, wupd, fresh, late, ahead, bad>>

\* a link request (Link coordination message handled by the write task)
Link(r) == /\ r \notin linked /\ linked' = linked \cup {r}
           /\ replica' = [replica EXCEPT ![r] = Empty]
           /\ UNCHANGED <<content, evq, syq, sidx, flip, out, nops, win, adm, synced, wupd, fresh, late, ahead, bad>>

\* a sync request reaches the lane: snapshot of the keys present now
SetToSeq(S) == CHOOSE s \in [1..Cardinality(S) -> S] : \A a, b \in 1..Cardinality(S) : a # b => s[a] # s[b]
SyncReq(r) ==
    /\ ~win[r] /\ (LinkFirst => r \in linked)
    /\ syq' = Append(syq, [r |-> r, keys |-> SetToSeq({k \in Keys : content[k] # -1})])
    /\ win' = [win EXCEPT ![r] = TRUE]
    /\ adm' = [adm EXCEPT ![r] = [k \in Keys |-> {content[k]}]]
    /\ wupd' = [wupd EXCEPT ![r] = {}]
    /\ fresh' = [fresh EXCEPT ![r] = r \notin linked]
    /\ late' = [late EXCEPT ![r] = evq # <<>> \/ (\E j \in 1..Len(out) : out[j].t = "event")]
    /\ UNCHANGED <<content, evq, sidx, flip, out, linked, nops, replica, synced, ahead, bad>>

\* update_sync_queues
Prune(q, op) == IF op.m = "clr" THEN [j \in 1..Len(q) |-> [q[j] EXCEPT !.keys = <<>>]]
                ELSE [j \in 1..Len(q) |-> [q[j] EXCEPT !.keys = SelectSeq(@, LAMBDA x : x # op.k)]]

\* WriteQueues::pop + MapEventQueue::pop (one response into the lane's output channel)
LanePop ==
    /\ Len(out) < Cap /\ (evq # <<>> \/ syq # <<>>)
    /\ flip' = IF flip = "event" THEN "sync" ELSE "event"
    /\ IF (flip = "event" /\ evq # <<>>) \/ syq = <<>>
         THEN LET op == Head(evq) IN
              /\ evq' = Tail(evq)
              /\ syq' = Prune(syq, op)
              /\ out' = IF op.m = "upd" /\ content[op.k] = -1 THEN out       \* to_operation: key gone, nothing to send
                        ELSE Append(out, [t |-> "event", m |-> op.m, k |-> op.k, v |-> IF op.m = "upd" THEN content[op.k] ELSE -1])
              /\ UNCHANGED sidx
         ELSE LET i == IF sidx > Len(syq) THEN 1 ELSE sidx
                  q == syq[i] IN
              IF q.keys # <<>>
                THEN /\ syq' = [syq EXCEPT ![i].keys = Tail(@)]
                     /\ sidx' = (i % Len(syq)) + 1
                     /\ out' = IF content[Head(q.keys)] = -1 THEN out
                               ELSE Append(out, [t |-> "sync", r |-> q.r, m |-> "upd", k |-> Head(q.keys), v |-> content[Head(q.keys)],
                                                 \* ghost: the value is newer than a clear that is still queued behind it
                                                 nwr |-> (\E j \in 1..Len(evq) : evq[j].m = "clr")])
                     /\ UNCHANGED evq
                ELSE /\ syq' = SelectSeq([j \in 1..Len(syq) |-> IF j = i THEN [r |-> 0, keys |-> <<>>] ELSE syq[j]], LAMBDA x : x.r # 0)
                     /\ sidx' = IF i >= Len(syq) THEN 1 ELSE i
                     /\ out' = Append(out, [t |-> "synced", r |-> q.r])
                     /\ UNCHANGED evq
    /\ UNCHANGED <<content, linked, nops, replica, win, adm, synced, wupd, fresh, late, ahead, bad>>

Apply(m, resp) == IF resp.m = "clr" THEN Empty ELSE [m EXCEPT ![resp.k] = resp.v]

\* the write task takes the next response from the lane and writes the frames (delivered at once)
Deliver ==
    /\ out # <<>> /\ out' = Tail(out)
    /\ LET resp == Head(out) IN
       CASE resp.t = "event" ->
              /\ replica' = [r \in Remotes |-> IF r \in linked THEN Apply(replica[r], resp) ELSE replica[r]]
              \* C02: a clear must not arrive after a newer value of a key (it would wipe it)
              /\ bad' = IF bad = "" /\ resp.m = "clr" /\ \E r \in linked : ahead[r] # {} /\ ~(Excuse /\ win[r])
                          THEN "clear overtaken" ELSE bad
              /\ ahead' = [r \in Remotes |-> IF r \in linked /\ resp.m = "clr" THEN {} ELSE ahead[r]]
              /\ UNCHANGED <<linked, win, synced>>
         [] resp.t = "sync" ->
              /\ linked' = linked \cup {resp.r}
              /\ replica' = [replica EXCEPT ![resp.r] = Apply(IF resp.r \in linked THEN @ ELSE Empty, resp)]
              \* the value is newer than a clear that is still queued in front of it ?
              /\ ahead' = [ahead EXCEPT ![resp.r] = IF resp.nwr THEN @ \cup {resp.k} ELSE @]
              /\ UNCHANGED <<win, synced, bad>>
         [] resp.t = "synced" ->
              /\ linked' = linked \cup {resp.r}
              /\ replica' = IF resp.r \in linked THEN replica ELSE [replica EXCEPT ![resp.r] = Empty]
              /\ LET rep == IF resp.r \in linked THEN replica[resp.r] ELSE Empty
                     Bad == {k \in Keys : rep[k] \notin adm[resp.r][k]}
                     Exc == {k \in Bad : Excuse /\ ((fresh[resp.r] /\ rep[k] = -1 /\ k \in wupd[resp.r]) \/ late[resp.r])} IN
                 bad' = IF bad = "" /\ Bad # Exc THEN "not a snapshot at synced" ELSE bad
              /\ win' = [win EXCEPT ![resp.r] = FALSE]
              /\ synced' = [synced EXCEPT ![resp.r] = TRUE]
              /\ UNCHANGED ahead
    /\ UNCHANGED <<content, evq, syq, sidx, flip, nops, adm, wupd, fresh, late>>

Next == \/ \E k \in Keys : Update(k) \/ Remove(k)
        \/ Clear \/ LanePop \/ Deliver
        \/ \E r \in Remotes : Link(r) \/ SyncReq(r)

Spec == Init /\ [][Next]_vars

\* P -----------------------------------------------------------------------
SnapshotAtSynced == bad = ""
Quiet == evq = <<>> /\ syq = <<>> /\ out = <<>>
\* C02 / C03: once everything has been delivered a synced remote holds the lane's map
\* (F5: a key updated inside the window of a sync made without a link may be missing)
Converged == Quiet => \A r \in Remotes : (r \in linked /\ synced[r]) =>
                \A k \in Keys : \/ replica[r][k] = content[k]
                                \/ (Excuse /\ fresh[r] /\ replica[r][k] = -1 /\ (k \in wupd[r] \/ late[r]))
=============================================================================

--------------------------- MODULE MC_CommandOutput ---------------------------
EXTENDS CommandOutput, Json
\* State-graph dump (see CONVENTIONS.md): every transition once, lastAct hidden by the VIEW.
EdgeDump == PrintT(<<"EDGE", ToJson([s |-> View, a |-> lastAct', t |-> View'])>>)
InitDump == (lastAct.k = "init") => PrintT(<<"INIT", ToJson(View)>>)
=============================================================================

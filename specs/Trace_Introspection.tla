------------------------- MODULE Trace_Introspection -------------------------
(***************************************************************************)
(* P for the reporting layer of C20 (server/swimos_introspection) as a     *)
(* trace specification.  It accepts exactly the recorded runs of the       *)
(* harness's level I (real introspection task, real node / lane meta       *)
(* agents on the real agent runtime, observers reading their `pulse` and   *)
(* `lanes` lanes) in which                                                 *)
(*  - every pulse record published for a lane carries the number of        *)
(*    remotes linked to the lane when its snapshot was taken, every node   *)
(*    pulse the number of links of the agent (= the sum over its lanes);   *)
(*  - the event / command counts of the pulses of a reader are what was    *)
(*    counted since its previous pulse: nothing lost, nothing twice; the   *)
(*    rates are the counts over the time since the previous snapshot       *)
(*    (UplinkSnapshot::make_pulse); a sync is answered with the last pulse *)
(*    again, not with new counts;                                          *)
(*  - every running meta agent publishes one pulse per interval while its  *)
(*    lane / agent exists, and nothing once it has gone;                   *)
(*  - what a running agent has registered can be introspected: a meta      *)
(*    agent asked for after the registrations were processed comes up and  *)
(*    hands out its first pulse; the node meta agent lists those lanes     *)
(*    (and never a lane that does not exist).                              *)
(* It knows nothing of channels, epochs or caches.                         *)
(*                                                                         *)
(* Events: {"k":"reset","nl":n,"nr":n,"mul":RateMul} then one per action   *)
(* (see harness/h_runtime/src/bin/introspect.rs) with the observations     *)
(*   px: [[m, "E"|"S", linkCount, eventRate, eventCount, cmdRate, cmdCount]]*)
(*   ls: lanes listed ([-1]: no listing), ms: state per meta agent 0..nl,  *)
(*   why: [[m, "ok"|"nolane"|"noagent"|"other"]] how meta agents ended.    *)
(* Deviation rules of the open findings (CONSTANT Enabled):                *)
(*   F3d  a lane added before the agent's own registration was processed   *)
(*        is unknown to introspection (meta agent: `no lane`, not listed)  *)
(*   F3e  a lane meta agent that started successfully ends at once, and    *)
(*        with it the counts its first snapshot had consumed               *)
(***************************************************************************)
EXTENDS Integers, FiniteSets, Sequences, TLC, Json, IOUtils

CONSTANT Enabled
Rec == ndJsonDeserialize(IOEnv.TRACE)

VARIABLES i, cs, nl, nr, mul,
          ag, added, failed, att, linked,
          oE, oC,          \* per reader (0 = node, l = lane): counted and not yet reported by a pulse
          loose,           \* lanes whose counts may have been eaten (F3e taken): pulses may report less
          agentSettled,    \* an ipoll has happened since the agent was registered
          settled,         \* lanes whose registration has been processed
          racy,            \* lanes added before agentSettled (F3d's circumstances)
          asked, askedOk,  \* meta agents being started; was their target introspectable when they were asked for
          on,              \* meta agents running
          lastP,           \* their last pulse
          mustList         \* lanes the running node meta agent must list
vars == <<i, cs, nl, nr, mul, ag, added, failed, att, linked, oE, oC, loose, agentSettled, settled, racy,
          asked, askedOk, on, lastP, mustList>>

Has(e, f) == f \in DOMAIN e
Max(a, b) == IF a > b THEN a ELSE b
Of(S, l) == {p[2] : p \in {q \in S : q[1] = l}}
ToSet(s) == {s[j] : j \in 1..Len(s)}
Z(n) == [m \in 0..n |-> 0]

TraceInit == /\ i = 1 /\ cs = 0 /\ nl = 1 /\ nr = 1 /\ mul = 2
             /\ ag = "none" /\ added = {} /\ failed = {} /\ att = {} /\ linked = {}
             /\ oE = Z(1) /\ oC = Z(1) /\ loose = {} /\ agentSettled = FALSE /\ settled = {} /\ racy = {}
             /\ asked = {} /\ askedOk = {} /\ on = {} /\ lastP = [m \in 0..1 |-> <<>>] /\ mustList = {}
             /\ TLCSet(1, 1) /\ TLCSet(2, {})

Reset(e) ==
    /\ cs' = cs + 1 /\ nl' = e.nl /\ nr' = e.nr /\ mul' = e.mul
    /\ ag' = "none" /\ added' = {} /\ failed' = {} /\ att' = {} /\ linked' = {}
    /\ oE' = Z(e.nl) /\ oC' = Z(e.nl) /\ loose' = {} /\ agentSettled' = FALSE /\ settled' = {} /\ racy' = {}
    /\ asked' = {} /\ askedOk' = {} /\ on' = {} /\ lastP' = [m \in 0..e.nl |-> <<>>] /\ mustList' = {}

Alive(m, a, f) == a = "up" /\ (m = 0 \/ (m \in added /\ m \notin f))       \* the reader of meta agent m exists
Links(m, L) == IF m = 0 THEN Cardinality(L) ELSE Cardinality(Of(L, m))
PulsesOf(e, m) == SelectSeq(e.px, LAMBDA x : x[1] = m)
Why(e, m) == IF Has(e, "why") /\ \E j \in 1..Len(e.why) : e.why[j][1] = m
               THEN (CHOOSE w \in {e.why[j] : j \in 1..Len(e.why)} : w[1] = m)[2] ELSE "none"

\* a rate is the count over the elapsed time; the elapsed time is a pulse interval give or take a microsecond
RateOK(rate, count) == IF count = 0 THEN rate = 0 ELSE rate \in {count * mul - 1, count * mul}

Step(e) ==
    LET k == e.k
        l == IF Has(e, "l") THEN e.l ELSE 0
        r == IF Has(e, "r") THEN e.r ELSE 0
        lact == ag = "up" /\ l \in added /\ l \notin failed
        n == Cardinality(Of(linked, l))
        \* ---- the truth after the action
        ag1 == IF k = "reg" THEN "up" ELSE IF k = "stop" THEN "stopped" ELSE ag
        added1 == IF k = "addlane" THEN added \cup {l} ELSE added
        failed1 == IF k = "fail" /\ lact THEN failed \cup {l} ELSE failed
        att1 == IF k = "att" THEN att \cup {r} ELSE IF k = "stop" THEN {} ELSE att
        linked1 == CASE k = "link" /\ lact /\ r \in att -> linked \cup {<<l, r>>}
                     [] k = "unlink" -> linked \ {<<l, r>>}
                     [] k = "fail" /\ lact -> {p \in linked : p[1] # l}
                     [] k = "stop" -> {}
                     [] OTHER -> linked
        incE(m) == IF k = "ev" /\ lact /\ (m = 0 \/ m = l) THEN n ELSE 0
        incC(m) == IF (k = "cmd" /\ lact /\ (m = 0 \/ m = l)) \/ (k = "fail" /\ lact /\ m = 0) THEN 1 ELSE 0
        oE1 == [m \in 0..nl |-> oE[m] + incE(m)]
        oC1 == [m \in 0..nl |-> oC[m] + incC(m)]
        racy1 == IF k = "addlane" /\ ~agentSettled THEN racy \cup {l} ELSE racy
        agentSettled1 == IF k = "reg" THEN FALSE ELSE IF k = "ipoll" /\ ag # "none" THEN TRUE ELSE agentSettled
        settled1 == IF k = "ipoll" /\ ag # "none" THEN settled \cup added ELSE settled
        \* ---- meta agents asked for
        m0 == IF k = "mnode" THEN 0 ELSE IF k = "mlane" THEN l ELSE IF Has(e, "m") THEN e.m ELSE -1
        asked1 == IF k \in {"mnode", "mlane"} THEN asked \cup {m0} ELSE asked
        okNow == IF k = "mnode" THEN agentSettled /\ ag = "up"
                 ELSE agentSettled /\ ag = "up" /\ l \in settled /\ l \notin failed
        askedOk1 == IF k \in {"mnode", "mlane"} THEN (IF okNow THEN askedOk \cup {m0} ELSE askedOk \ {m0}) ELSE askedOk
        mustList1 == IF k = "mnode" THEN settled ELSE mustList
        \* ---- ipoll: the meta agents that were asked for are decided
        came == IF k = "ipoll" THEN {m \in asked : e.ms[m + 1] = 2} ELSE {}
        went == IF k = "ipoll" THEN {m \in asked : e.ms[m + 1] = 3} ELSE {}
        required(m) == m \in askedOk /\ Alive(m, ag, failed)
        devD(m) == /\ "F3d" \in Enabled /\ m # 0 /\ m \in racy /\ Why(e, m) = "nolane"
        devE(m) == /\ "F3e" \in Enabled /\ m # 0 /\ Why(e, m) = "ok"
        \* ---- tick: who publishes
        pub == IF k = "tick" THEN {m \in on : Alive(m, ag, failed)} ELSE {}
        gone == IF k = "tick" THEN on \ pub
                ELSE IF k = "synclanes" /\ 0 \in on /\ ag # "up" THEN {0} ELSE {}
        on1 == CASE k = "ipoll" -> on \cup came
                 [] k = "stopmeta" -> on \ {m0}
                 [] OTHER -> on \ gone
        \* ---- pulses
        one(m) == Len(PulsesOf(e, m)) = 1
        px(m) == PulsesOf(e, m)[1]
        countsOK(m, x) == IF m \in loose /\ "F3e" \in Enabled
                            THEN x[5] <= oE1[m] /\ x[7] <= oC1[m]
                            ELSE x[5] = oE1[m] /\ x[7] = oC1[m]
        first(m) == /\ one(m) /\ px(m)[2] = "S" /\ px(m)[3] = Links(m, linked1) /\ countsOK(m, px(m))
        timed(m) == /\ one(m) /\ px(m)[2] = "E" /\ px(m)[3] = Links(m, linked1) /\ countsOK(m, px(m))
                    /\ RateOK(px(m)[4], px(m)[5]) /\ RateOK(px(m)[6], px(m)[7])
        again(m) == one(m) /\ px(m)[2] = "S" /\ Tail(Tail(px(m))) = lastP[m]
        speakers == CASE k = "ipoll" -> came [] k = "tick" -> pub
                      [] k = "syncp" /\ m0 \in on -> {m0} [] OTHER -> {}
        reported == came \cup pub
        listed == ToSet(e.ls)
        devs == {<<"F3d", cs>> : m \in {x \in went : required(x) /\ devD(x)}}
                \cup {<<"F3e", cs>> : m \in {x \in went : required(x) /\ ~devD(x) /\ devE(x)}}
                \cup {<<"F3d", cs>> : m \in {x \in (IF k = "synclanes" /\ 0 \in on /\ ag = "up" THEN (mustList \ failed) \ listed ELSE {}) : TRUE}}
    IN
    \* nobody speaks out of turn: no pulse from a meta agent that is not running, none after its lane / agent has gone
    /\ \A j \in 1..Len(e.px) : e.px[j][1] \in speakers
    /\ \A m \in came : first(m)
    /\ \A m \in pub : timed(m)
    /\ (k = "syncp" /\ m0 \in on) => again(m0)
    \* availability: what is registered can be introspected
    /\ (k = "ipoll") => \A m \in asked : /\ e.ms[m + 1] \in {2, 3}
                                         /\ (m \in went /\ required(m)) => (devD(m) \/ devE(m))
    \* the listing: only lanes that exist; all the lanes that were known when the node meta agent was asked for
    /\ (k = "synclanes" /\ 0 \in on /\ ag = "up") =>
           /\ e.ls # <<-1>> /\ listed \subseteq added
           /\ \A x \in (mustList \ failed) \ listed : "F3d" \in Enabled /\ x \in racy
    /\ (e.ls # <<-1>>) => (k = "synclanes" /\ listed \subseteq added)
    \* the meta agents that run are exactly those that should
    /\ \A m \in 0..nl : (e.ms[m + 1] = 2) <=> (m \in on1)
    /\ \A m \in 0..nl : (e.ms[m + 1] = 1) <=> (m \in asked1 /\ k # "ipoll")
    /\ TLCSet(2, TLCGet(2) \cup devs)
    /\ ag' = ag1 /\ added' = added1 /\ failed' = failed1 /\ att' = att1 /\ linked' = linked1
    /\ oE' = [m \in 0..nl |-> IF m \in reported THEN 0 ELSE oE1[m]]
    /\ oC' = [m \in 0..nl |-> IF m \in reported THEN 0 ELSE oC1[m]]
    /\ loose' = loose \cup {m \in went : required(m) /\ ~devD(m) /\ devE(m)}
    /\ agentSettled' = agentSettled1 /\ settled' = settled1 /\ racy' = racy1
    /\ asked' = IF k = "ipoll" THEN {} ELSE asked1
    /\ askedOk' = IF k = "ipoll" THEN {} ELSE askedOk1
    /\ on' = on1
    /\ lastP' = [m \in 0..nl |-> IF m \in reported THEN Tail(Tail(px(m))) ELSE lastP[m]]
    /\ mustList' = mustList1
    /\ UNCHANGED <<cs, nl, nr, mul>>

TraceNext == /\ i <= Len(Rec)
             /\ IF Rec[i].k = "reset" THEN Reset(Rec[i]) ELSE Step(Rec[i])
             /\ i' = i + 1
             /\ TLCSet(1, Max(TLCGet(1), i + 1))

TraceSpec == TraceInit /\ [][TraceNext]_vars

TraceAccepted ==
    LET m == TLCGet(1) IN
    /\ PrintT(<<"TRACE_RESULT", ToJson([accepted |-> (m = Len(Rec) + 1), matched |-> m - 1, total |-> Len(Rec),
                                        kf |-> TLCGet(2)])>>)
    /\ m = Len(Rec) + 1
=============================================================================

------------------------------- MODULE WriteTask -------------------------------
(***************************************************************************)
(* Mechanism specification (M) of the synchronous core of the agent        *)
(* runtime's write task: runtime/swimos_runtime/src/agent/task/mod.rs      *)
(* (WriteTaskState: handle_task_message / handle_event / replace /         *)
(* remove_remote / remove_lane / unlink_all), links.rs (Links) and         *)
(* remotes/uplink/mod.rs (Uplinks: the per-remote scheduler with a writer  *)
(* that is lent out to one write at a time, a special queue that pre-empts *)
(* data, a write queue of lanes and per-lane backpressure relief).         *)
(*                                                                         *)
(* One action per call the write task makes; the data written by a         *)
(* WriteTask reaches the remote when the environment lets the write        *)
(* complete (WriteDone), which also returns the writer.  The observable    *)
(* projection (lastAct) is what the real code must reproduce when the      *)
(* state graph is replayed on swimos_runtime::verif_hooks::WriteTaskHarness*)
(*                                                                         *)
(* P (C01, C03, C04, C14 at this level) is stated as invariants over ghost *)
(* variables that only record what was pushed and what was emitted.        *)
(***************************************************************************)
EXTENDS Naturals, Integers, Sequences, FiniteSets, TLC

CONSTANTS Remotes,      \* e.g. {1, 2}
          Lanes,        \* e.g. {"v", "s", "m"}
          KindOf,       \* [Lanes -> {"value", "supply", "map"}]
          Keys,         \* map keys
          MaxPush,      \* bound on lane events (also the largest value)
          MaxSpecial    \* bound on link / unlink / unknown-lane requests

VARIABLES att,      \* [Remotes -> BOOLEAN]             remote registered in the RemoteTracker
          linked,   \* SUBSET (Lanes \X Remotes)        Links (forward / backwards kept consistent by the code)
          alive,    \* [Lanes -> BOOLEAN]               lane not failed
          wr,       \* [Remotes -> "present" | "lent"]  Uplinks.writer
          infl,     \* [Remotes -> write task in flight | NoTask]
          spq,      \* [Remotes -> Seq(special)]        Uplinks.special_queue
          wq,       \* [Remotes -> Seq(Lanes)]          Uplinks.write_queue (may hold stale entries)
          up,       \* [Remotes -> [Lanes -> uplink]]   value/supply/map uplinks
          npush, nspec,
          \* ghost (P) ---------------------------------------------------------------------------------
          gopen,    \* [Remotes -> [Lanes -> BOOLEAN]]  r received linked and no unlinked since
          gval,     \* [Remotes -> [Lanes -> Nat]]      last value emitted to r (0: none)
          gdue,     \* [Remotes -> [Lanes -> Nat]]      last value pushed for r since its uplink was last reset (0: none)
          gsup,     \* [Remotes -> [Lanes -> Seq]]      supply items pushed for r and not yet emitted
          gref,     \* [Remotes -> [Lanes -> [Keys -> Int]]] fold of the map operations pushed for r
          grep,     \* [Remotes -> [Lanes -> [Keys -> Int]]] fold of the map operations emitted to r
          gsyn,     \* [Remotes -> [Lanes -> Nat]]      synced markers pushed for r minus synced frames emitted
          gowed,    \* [Remotes -> [Lanes -> BOOLEAN]]  a synced was pushed and no synced frame was emitted since (several may share one)
          ok,       \* FALSE as soon as an emitted frame breaks P
          lastAct

mvars == <<att, linked, alive, wr, infl, spq, wq, up, npush, nspec>>
gvars == <<gopen, gval, gdue, gsup, gref, grep, gsyn, gowed, ok>>
vars == <<mvars, gvars, lastAct>>
View == <<att, linked, alive, wr, infl, spq, wq, up, npush, nspec, gopen, gval, gdue, gsup, gref, grep, gsyn, gowed, ok>>

NoTask == [a |-> "none"]
NoUplink == [ex |-> FALSE, queued |-> FALSE, ss |-> FALSE, pend |-> FALSE, val |-> 0, fifo |-> <<>>, mq |-> <<>>]
EmptyMap == [k \in Keys |-> -1]
RL(x) == [r \in Remotes |-> [l \in Lanes |-> x]]

Init ==
    /\ att = [r \in Remotes |-> FALSE] /\ linked = {} /\ alive = [l \in Lanes |-> TRUE]
    /\ wr = [r \in Remotes |-> "present"] /\ infl = [r \in Remotes |-> NoTask]
    /\ spq = [r \in Remotes |-> <<>>] /\ wq = [r \in Remotes |-> <<>>] /\ up = RL(NoUplink)
    /\ npush = 0 /\ nspec = 0
    /\ gopen = RL(FALSE) /\ gval = RL(0) /\ gdue = RL(0) /\ gsup = RL(<<>>)
    /\ gref = RL(EmptyMap) /\ grep = RL(EmptyMap) /\ gsyn = RL(0) /\ gowed = RL(FALSE) /\ ok = TRUE
    /\ lastAct = [k |-> "init"]

-----------------------------------------------------------------------------
(* MapOperationQueue: replace in place per key, clear empties the queue.    *)
IdxOf(q, key) == LET S == {j \in 1..Len(q) : q[j].m # "clr" /\ q[j].key = key} IN
                 IF S = {} THEN 0 ELSE CHOOSE j \in S : TRUE
MqPush(q, op) == IF op.m = "clr" THEN <<op>>
                 ELSE LET j == IdxOf(q, op.key) IN
                      IF j = 0 THEN Append(q, op) ELSE [q EXCEPT ![j] = op]

ApplyOp(m, op) == IF op.m = "clr" THEN EmptyMap
                  ELSE IF op.m = "upd" THEN [m EXCEPT ![op.key] = op.v] ELSE [m EXCEPT ![op.key] = -1]

RECURSIVE FoldOps(_, _)
FoldOps(m, q) == IF q = <<>> THEN m ELSE FoldOps(ApplyOp(m, Head(q)), Tail(q))

-----------------------------------------------------------------------------
(* Uplinks for one remote, as pure functions on the tuple                   *)
(*   u = [wr, infl, spq, wq, up]  (up : [Lanes -> uplink]).                 *)

U(r) == [wr |-> wr[r], infl |-> infl[r], spq |-> spq[r], wq |-> wq[r], up |-> up[r]]

\* Uplinks::push_special
PushSpecial(u, sp) ==
    IF u.wr = "present"
      THEN [u EXCEPT !.wr = "lent", !.infl = [a |-> "special", sp |-> sp]]
      ELSE [u EXCEPT !.spq = Append(@, sp),
                     !.up = IF sp.kind = "unlinked" THEN [@ EXCEPT ![sp.lane] = NoUplink] ELSE @]

Enq(u, l) == IF u.up[l].queued THEN u
             ELSE [u EXCEPT !.wq = Append(@, l), !.up[l].queued = TRUE]

\* Uplinks::push   (resp = [t |-> "value"|"supply"|"map"|"synced", ...])
Push(u, l, resp) ==
    IF u.wr = "present"
      THEN [u EXCEPT !.wr = "lent",
                     !.infl = IF resp.t = "synced"
                                THEN (IF KindOf[l] = "map" THEN [a |-> "msynced", lane |-> l, q |-> <<>>]
                                                            ELSE [a |-> "vsynced", lane |-> l, send |-> FALSE, body |-> 0])
                                ELSE [a |-> "event", lane |-> l, body |-> resp.body]]
      ELSE LET u1 == [u EXCEPT !.up[l].ex = TRUE] IN
           CASE resp.t = "value"  -> Enq([u1 EXCEPT !.up[l].val = resp.body, !.up[l].pend = TRUE], l)
             [] resp.t = "supply" -> Enq([u1 EXCEPT !.up[l].fifo = Append(@, resp.body)], l)
             [] resp.t = "map"    -> Enq([u1 EXCEPT !.up[l].mq = MqPush(@, resp.body)], l)
             [] resp.t = "synced" -> Enq([u1 EXCEPT !.up[l].ss = TRUE], l)

\* the data part of Uplinks::replace_and_pop: walk the write queue, skipping entries with nothing to send
RECURSIVE PopData(_)
PopData(u) ==
    IF u.wq = <<>> THEN [u EXCEPT !.wr = "present", !.infl = NoTask]
    ELSE LET l == Head(u.wq)
             u0 == [u EXCEPT !.wq = Tail(@)]
             x == u.up[l] IN
         IF ~x.ex THEN PopData(u0)                     \* stale entry: the uplink was removed by an unlink
         ELSE CASE KindOf[l] = "value" ->
                     LET u1 == [u0 EXCEPT !.up[l].queued = FALSE, !.up[l].ss = FALSE, !.up[l].pend = FALSE] IN
                     IF x.ss THEN [u1 EXCEPT !.wr = "lent", !.infl = [a |-> "vsynced", lane |-> l, send |-> x.pend, body |-> IF x.pend THEN x.val ELSE 0]]
                     ELSE IF x.pend THEN [u1 EXCEPT !.wr = "lent", !.infl = [a |-> "event", lane |-> l, body |-> x.val]]
                     ELSE PopData(u1)
                [] KindOf[l] = "supply" ->
                     LET had == x.fifo # <<>>
                         rest == IF had THEN Tail(x.fifo) ELSE <<>>
                         u1 == [u0 EXCEPT !.up[l].ss = FALSE, !.up[l].fifo = rest,
                                          !.up[l].queued = (rest # <<>>),
                                          !.wq = IF rest # <<>> THEN Append(@, l) ELSE @] IN
                     IF x.ss THEN [u1 EXCEPT !.wr = "lent", !.infl = [a |-> "vsynced", lane |-> l, send |-> had, body |-> IF had THEN Head(x.fifo) ELSE 0]]
                     ELSE IF had THEN [u1 EXCEPT !.wr = "lent", !.infl = [a |-> "event", lane |-> l, body |-> Head(x.fifo)]]
                     ELSE PopData(u1)
                [] KindOf[l] = "map" ->
                     IF ~x.ss /\ x.mq = <<>> THEN PopData([u0 EXCEPT !.up[l].queued = FALSE])
                     ELSE IF x.ss
                       THEN [u0 EXCEPT !.up[l].queued = FALSE, !.up[l].ss = FALSE, !.up[l].mq = <<>>,
                                       !.wr = "lent", !.infl = [a |-> "msynced", lane |-> l, q |-> x.mq]]
                       ELSE LET rest == Tail(x.mq) IN
                            [u0 EXCEPT !.up[l].mq = rest, !.up[l].queued = (rest # <<>>),
                                       !.wq = IF rest # <<>> THEN Append(@, l) ELSE @,
                                       !.wr = "lent", !.infl = [a |-> "event", lane |-> l, body |-> Head(x.mq)]]

\* Uplinks::replace_and_pop
ReplaceAndPop(u) ==
    IF u.spq # <<>>
      THEN [u EXCEPT !.spq = Tail(@), !.wr = "lent", !.infl = [a |-> "special", sp |-> Head(u.spq)]]
      ELSE PopData(u)

SetU(r, u) == /\ wr' = [wr EXCEPT ![r] = u.wr] /\ infl' = [infl EXCEPT ![r] = u.infl]
              /\ spq' = [spq EXCEPT ![r] = u.spq] /\ wq' = [wq EXCEPT ![r] = u.wq]
              /\ up' = [up EXCEPT ![r] = u.up]

\* a function [Remotes -> u] installed at once
SetAll(f) == /\ wr' = [r \in Remotes |-> f[r].wr] /\ infl' = [r \in Remotes |-> f[r].infl]
             /\ spq' = [r \in Remotes |-> f[r].spq] /\ wq' = [r \in Remotes |-> f[r].wq]
             /\ up' = [r \in Remotes |-> f[r].up]

\* did the call hand out a write task for remote r ?  (the observable result of every call)
Sched(f) == {r \in Remotes : wr[r] = "present" /\ f[r].wr = "lent"}

-----------------------------------------------------------------------------
(* The frames a write task puts on the wire, in order.                      *)
RECURSIVE EventsOf(_, _)
EventsOf(l, q) == IF q = <<>> THEN <<>>
                  ELSE <<[f |-> "event", lane |-> l, body |-> Head(q)]>> \o EventsOf(l, Tail(q))

Frames(t) ==
    CASE t.a = "special" ->
           IF t.sp.kind = "linked" THEN <<[f |-> "linked", lane |-> t.sp.lane]>>
           ELSE IF t.sp.kind = "unlinked" THEN <<[f |-> "unlinked", lane |-> t.sp.lane, why |-> t.sp.why]>>
           ELSE <<[f |-> "unlinked", lane |-> "?", why |-> "notfound"]>>
      [] t.a = "event" -> <<[f |-> "event", lane |-> t.lane, body |-> t.body]>>
      [] t.a = "vsynced" -> (IF t.send THEN <<[f |-> "event", lane |-> t.lane, body |-> t.body]>> ELSE <<>>)
                            \o <<[f |-> "synced", lane |-> t.lane]>>
      [] t.a = "msynced" -> EventsOf(t.lane, t.q) \o <<[f |-> "synced", lane |-> t.lane]>>

-----------------------------------------------------------------------------
(* Ghost bookkeeping: what was pushed for a remote (P's view of the input). *)
GhostPush(r, l, resp, g) ==
    \* g = [due, sup, ref, syn] for (r, l)
    CASE resp.t = "value"  -> [g EXCEPT !.due = resp.body]
      [] resp.t = "supply" -> [g EXCEPT !.sup = Append(@, resp.body)]
      [] resp.t = "map"    -> [g EXCEPT !.ref = ApplyOp(@, resp.body)]
      [] resp.t = "synced" -> [g EXCEPT !.syn = @ + 1, !.owed = TRUE]

G(r, l) == [due |-> gdue[r][l], sup |-> gsup[r][l], ref |-> gref[r][l], syn |-> gsyn[r][l], owed |-> gowed[r][l]]

\* An unlinked that has to queue behind a lent writer discards that lane's *queued* data: the obligations
\* go with it.  What is already in flight is still written.
InFl(r, l) == SelectSeq(Frames(infl[r]), LAMBDA fr : fr.lane = l)
RECURSIVE Bodies(_)
Bodies(frs) == IF frs = <<>> THEN <<>>
               ELSE (IF Head(frs).f = "event" THEN <<Head(frs).body>> ELSE <<>>) \o Bodies(Tail(frs))
GhostResetF(r, l, frs) ==
    LET b == Bodies(frs) IN
    [due |-> IF KindOf[l] = "value" /\ b # <<>> THEN b[Len(b)] ELSE 0,
     sup |-> IF KindOf[l] = "supply" THEN b ELSE <<>>,
     ref |-> IF KindOf[l] = "map" THEN FoldOps(grep[r][l], b) ELSE grep[r][l],
     syn |-> Len(SelectSeq(frs, LAMBDA fr : fr.f = "synced")),
     owed |-> Len(SelectSeq(frs, LAMBDA fr : fr.f = "synced")) > 0]
GhostReset(r, l) == GhostResetF(r, l, InFl(r, l))

\* P evaluated on one emitted frame, with the ghost state before it; returns the new ghost record and verdict
EmitOne(r, fr, st) ==
    \* st = [open, val, due, sup, ref, rep, syn, ok] : functions over Lanes
    IF fr.lane \notin Lanes THEN st       \* lane-not-found answer
    ELSE LET l == fr.lane IN
    CASE fr.f = "linked" -> [st EXCEPT !.open[l] = TRUE]
      [] fr.f = "unlinked" -> [st EXCEPT !.ok = @ /\ st.open[l], !.open[l] = FALSE]
      [] fr.f = "synced" -> [st EXCEPT !.ok = @ /\ st.open[l] /\ st.syn[l] > 0,
                                       !.syn[l] = IF @ > 0 THEN @ - 1 ELSE 0, !.owed[l] = FALSE]
      [] fr.f = "event" ->
           CASE KindOf[l] = "value" ->
                  \* never invented, never reordered: a value pushed for r, not older than the previous one
                  [st EXCEPT !.ok = @ /\ st.open[l] /\ fr.body >= st.val[l] /\ fr.body <= st.due[l] /\ fr.body > 0,
                             !.val[l] = fr.body]
             [] KindOf[l] = "supply" ->
                  \* exactly once, in push order
                  [st EXCEPT !.ok = @ /\ st.open[l] /\ st.sup[l] # <<>> /\ Head(st.sup[l]) = fr.body,
                             !.sup[l] = IF @ # <<>> THEN Tail(@) ELSE @]
             [] KindOf[l] = "map" ->
                  [st EXCEPT !.ok = @ /\ st.open[l], !.rep[l] = ApplyOp(@, fr.body)]

RECURSIVE EmitAll(_, _, _)
EmitAll(r, frs, st) == IF frs = <<>> THEN st ELSE EmitAll(r, Tail(frs), EmitOne(r, Head(frs), st))

GState(r) == [open |-> gopen[r], val |-> gval[r], due |-> gdue[r], sup |-> gsup[r], ref |-> gref[r],
              rep |-> grep[r], syn |-> gsyn[r], owed |-> gowed[r], ok |-> ok]

-----------------------------------------------------------------------------
(* The calls of the write task.                                             *)

Attach(r) ==
    /\ ~att[r]
    /\ att' = [att EXCEPT ![r] = TRUE]
    /\ SetU(r, [wr |-> "present", infl |-> NoTask, spq |-> <<>>, wq |-> <<>>, up |-> [l \in Lanes |-> NoUplink]])
    /\ gopen' = [gopen EXCEPT ![r] = [l \in Lanes |-> FALSE]]
    /\ gval' = [gval EXCEPT ![r] = [l \in Lanes |-> 0]] /\ gdue' = [gdue EXCEPT ![r] = [l \in Lanes |-> 0]]
    /\ gsup' = [gsup EXCEPT ![r] = [l \in Lanes |-> <<>>]] /\ gsyn' = [gsyn EXCEPT ![r] = [l \in Lanes |-> 0]]
    /\ gowed' = [gowed EXCEPT ![r] = [l \in Lanes |-> FALSE]]
    /\ gref' = [gref EXCEPT ![r] = [l \in Lanes |-> EmptyMap]] /\ grep' = [grep EXCEPT ![r] = [l \in Lanes |-> EmptyMap]]
    /\ lastAct' = [k |-> "attach", r |-> r, sched |-> {}]
    /\ UNCHANGED <<linked, alive, npush, nspec, ok>>

\* WriteTaskMessage::Coord(Link)
Link(r, l) ==
    /\ nspec < MaxSpecial /\ alive[l]
    /\ nspec' = nspec + 1
    /\ IF att[r]
         THEN /\ linked' = linked \cup {<<l, r>>}
              /\ LET u == PushSpecial(U(r), [kind |-> "linked", lane |-> l]) IN
                 /\ SetU(r, u)
                 /\ lastAct' = [k |-> "link", r |-> r, lane |-> l, sched |-> IF wr[r] = "present" THEN {r} ELSE {}]
         ELSE /\ UNCHANGED <<linked, wr, infl, spq, wq, up>>
              /\ lastAct' = [k |-> "link", r |-> r, lane |-> l, sched |-> {}]
    /\ UNCHANGED <<att, alive, npush, gvars>>

\* WriteTaskMessage::Coord(Unlink)
Unlink(r, l) ==
    /\ nspec < MaxSpecial /\ alive[l]
    /\ nspec' = nspec + 1
    /\ IF <<l, r>> \in linked
         THEN /\ linked' = linked \ {<<l, r>>}
              /\ LET u == PushSpecial(U(r), [kind |-> "unlinked", lane |-> l, why |-> "closed"]) IN
                 /\ SetU(r, u)
                 /\ lastAct' = [k |-> "unlink", r |-> r, lane |-> l, sched |-> IF wr[r] = "present" THEN {r} ELSE {}]
              \* pending data of that lane is discarded when the unlinked has to queue
              /\ IF wr[r] = "lent"
                   THEN LET g == GhostReset(r, l) IN
                        /\ gdue' = [gdue EXCEPT ![r][l] = g.due] /\ gsup' = [gsup EXCEPT ![r][l] = g.sup]
                        /\ gref' = [gref EXCEPT ![r][l] = g.ref] /\ gsyn' = [gsyn EXCEPT ![r][l] = g.syn]
                        /\ gowed' = [gowed EXCEPT ![r][l] = g.owed]
                   ELSE UNCHANGED <<gdue, gsup, gref, gsyn, gowed>>
         ELSE /\ UNCHANGED <<linked, wr, infl, spq, wq, up, gdue, gsup, gref, gsyn, gowed>>
              /\ lastAct' = [k |-> "unlink", r |-> r, lane |-> l, sched |-> {}]
    /\ UNCHANGED <<att, alive, npush, gopen, gval, grep, ok>>

\* WriteTaskMessage::Coord(UnknownLane)
UnknownLane(r) ==
    /\ nspec < MaxSpecial /\ att[r]
    /\ nspec' = nspec + 1
    /\ SetU(r, PushSpecial(U(r), [kind |-> "notfound", lane |-> "?"]))
    /\ lastAct' = [k |-> "unknown", r |-> r, sched |-> IF wr[r] = "present" THEN {r} ELSE {}]
    /\ UNCHANGED <<att, linked, alive, npush, gvars>>

\* WriteTaskState::handle_event for a response addressed to one remote (sync events, synced)
Targeted(l, r, resp) ==
    /\ npush < MaxPush /\ alive[l] /\ att[r]
    /\ npush' = npush + 1
    /\ LET implicit == <<l, r>> \notin linked
           u1 == IF implicit THEN PushSpecial(U(r), [kind |-> "linked", lane |-> l]) ELSE U(r)
           u2 == Push(u1, l, resp)
           g == GhostPush(r, l, resp, G(r, l)) IN
       /\ linked' = linked \cup {<<l, r>>}
       /\ SetU(r, u2)
       /\ gdue' = [gdue EXCEPT ![r][l] = g.due] /\ gsup' = [gsup EXCEPT ![r][l] = g.sup]
       /\ gref' = [gref EXCEPT ![r][l] = g.ref] /\ gsyn' = [gsyn EXCEPT ![r][l] = g.syn]
       /\ gowed' = [gowed EXCEPT ![r][l] = g.owed]
       /\ lastAct' = [k |-> "event", lane |-> l, target |-> r, resp |-> resp,
                      sched |-> IF wr[r] = "present" THEN {r} ELSE {}]
    /\ UNCHANGED <<att, alive, nspec, gopen, gval, grep, ok>>

\* WriteTaskState::handle_event for a broadcast response
Broadcast(l, resp) ==
    /\ npush < MaxPush /\ alive[l]
    /\ npush' = npush + 1
    /\ LET T == {r \in Remotes : <<l, r>> \in linked}
           f == [r \in Remotes |-> IF r \in T /\ att[r] THEN Push(U(r), l, resp) ELSE U(r)] IN
       /\ SetAll(f)
       /\ gdue' = [r \in Remotes |-> IF r \in T /\ att[r] /\ resp.t = "value" THEN [gdue[r] EXCEPT ![l] = resp.body] ELSE gdue[r]]
       /\ gsup' = [r \in Remotes |-> IF r \in T /\ att[r] /\ resp.t = "supply" THEN [gsup[r] EXCEPT ![l] = Append(@, resp.body)] ELSE gsup[r]]
       /\ gref' = [r \in Remotes |-> IF r \in T /\ att[r] /\ resp.t = "map" THEN [gref[r] EXCEPT ![l] = ApplyOp(@, resp.body)] ELSE gref[r]]
       /\ lastAct' = [k |-> "event", lane |-> l, target |-> 0, resp |-> resp, sched |-> {r \in T : att[r] /\ wr[r] = "present"}]
    /\ UNCHANGED <<att, linked, alive, nspec, gopen, gval, grep, gsyn, gowed, ok>>

\* the environment lets the write in flight for r complete: its frames are on the wire, the writer comes back
WriteDone(r) ==
    /\ att[r] /\ wr[r] = "lent"
    /\ LET frs == Frames(infl[r])
           st == EmitAll(r, frs, GState(r))
           u == ReplaceAndPop(U(r)) IN
       /\ SetU(r, u)
       /\ gopen' = [gopen EXCEPT ![r] = st.open] /\ gval' = [gval EXCEPT ![r] = st.val]
       /\ gsup' = [gsup EXCEPT ![r] = st.sup] /\ grep' = [grep EXCEPT ![r] = st.rep]
       /\ gsyn' = [gsyn EXCEPT ![r] = st.syn] /\ gowed' = [gowed EXCEPT ![r] = st.owed] /\ ok' = st.ok
       /\ lastAct' = [k |-> "done", r |-> r, frames |-> frs, sched |-> IF u.wr = "lent" THEN {r} ELSE {}]
    /\ UNCHANGED <<att, linked, alive, npush, nspec, gdue, gref>>

\* the write in flight fails (the remote stopped listening): WriteTaskState::remove_remote
WriteFail(r) ==
    /\ att[r] /\ wr[r] = "lent"
    /\ att' = [att EXCEPT ![r] = FALSE]
    /\ linked' = {p \in linked : p[2] # r}
    /\ SetU(r, [wr |-> "present", infl |-> NoTask, spq |-> <<>>, wq |-> <<>>, up |-> [l \in Lanes |-> NoUplink]])
    /\ lastAct' = [k |-> "fail", r |-> r, sched |-> {}]
    /\ UNCHANGED <<alive, npush, nspec, gvars>>

\* WriteTaskState::remove_lane
LaneFailed(l) ==
    /\ alive[l]
    /\ alive' = [alive EXCEPT ![l] = FALSE]
    /\ LET T == {r \in Remotes : <<l, r>> \in linked}
           f == [r \in Remotes |-> IF r \in T /\ att[r] THEN PushSpecial(U(r), [kind |-> "unlinked", lane |-> l, why |-> ""]) ELSE U(r)] IN
       /\ SetAll(f)
       /\ linked' = {p \in linked : p[1] # l}
       /\ gdue' = [r \in Remotes |-> IF r \in T /\ att[r] /\ wr[r] = "lent" THEN [gdue[r] EXCEPT ![l] = GhostReset(r, l).due] ELSE gdue[r]]
       /\ gsup' = [r \in Remotes |-> IF r \in T /\ att[r] /\ wr[r] = "lent" THEN [gsup[r] EXCEPT ![l] = GhostReset(r, l).sup] ELSE gsup[r]]
       /\ gref' = [r \in Remotes |-> IF r \in T /\ att[r] /\ wr[r] = "lent" THEN [gref[r] EXCEPT ![l] = GhostReset(r, l).ref] ELSE gref[r]]
       /\ gsyn' = [r \in Remotes |-> IF r \in T /\ att[r] /\ wr[r] = "lent" THEN [gsyn[r] EXCEPT ![l] = GhostReset(r, l).syn] ELSE gsyn[r]]
       /\ gowed' = [r \in Remotes |-> IF r \in T /\ att[r] /\ wr[r] = "lent" THEN [gowed[r] EXCEPT ![l] = GhostReset(r, l).owed] ELSE gowed[r]]
       /\ lastAct' = [k |-> "lanefail", lane |-> l, sched |-> {r \in T : att[r] /\ wr[r] = "present"}]
    /\ UNCHANGED <<att, npush, nspec, gopen, gval, grep, ok>>

\* WriteTaskState::remove_remote_if_idle
Prune(r) ==
    /\ att[r] /\ wr[r] = "present" /\ ~\E p \in linked : p[2] = r
    /\ att' = [att EXCEPT ![r] = FALSE]
    /\ SetU(r, [wr |-> "present", infl |-> NoTask, spq |-> <<>>, wq |-> <<>>, up |-> [l \in Lanes |-> NoUplink]])
    /\ lastAct' = [k |-> "prune", r |-> r, sched |-> {}]
    /\ UNCHANGED <<linked, alive, npush, nspec, gvars>>

Values == 1..MaxPush
Ops == [m : {"upd"}, key : Keys, v : {npush + 1}] \cup [m : {"rem"}, key : Keys, v : {-1}] \cup {[m |-> "clr", key |-> 0, v |-> -1]}

RespFor(l) ==
    CASE KindOf[l] = "value"  -> {[t |-> "value", body |-> npush + 1]}
      [] KindOf[l] = "supply" -> {[t |-> "supply", body |-> npush + 1]}
      [] KindOf[l] = "map"    -> {[t |-> "map", body |-> o] : o \in Ops}

Next ==
    \/ \E r \in Remotes : Attach(r) \/ UnknownLane(r) \/ WriteDone(r) \/ WriteFail(r) \/ Prune(r)
    \/ \E r \in Remotes, l \in Lanes : Link(r, l) \/ Unlink(r, l)
    \/ \E l \in Lanes : \E resp \in RespFor(l) : Broadcast(l, resp)
    \/ \E l \in Lanes, r \in Remotes : \E resp \in RespFor(l) \cup {[t |-> "synced"]} : Targeted(l, r, resp)
    \/ \E l \in Lanes : LaneFailed(l)

Spec == Init /\ [][Next]_vars /\ \A r \in Remotes : WF_vars(WriteDone(r))

-----------------------------------------------------------------------------
(* P at this level.                                                         *)

\* every frame that was emitted was allowed (link state machine, nothing fabricated, order, exactly-once)
FramesOk == ok

\* a remote whose writer is back (nothing in flight, nothing queued) has been sent everything it was owed
Drained(r) == att[r] /\ wr[r] = "present"
CaughtUp == \A r \in Remotes : Drained(r) =>
              \A l \in Lanes :
                 /\ (KindOf[l] = "value" /\ gdue[r][l] > 0) => gval[r][l] = gdue[r][l]    \* never stale
                 /\ (KindOf[l] = "supply") => gsup[r][l] = <<>>                            \* nothing lost
                 /\ (KindOf[l] = "map") => grep[r][l] = gref[r][l]                         \* replica converges
                 /\ ~gowed[r][l]                                                           \* the last synced was delivered

\* mechanism sanity: the writer being present means nothing is waiting
NothingWaiting == \A r \in Remotes : wr[r] = "present" =>
                     /\ spq[r] = <<>> /\ infl[r] = NoTask
                     /\ \A l \in Lanes : ~(up[r][l].ex /\ (up[r][l].pend \/ up[r][l].ss \/ up[r][l].fifo # <<>> \/ up[r][l].mq # <<>>))

\* links only for registered remotes (this is what the introspection counts rely on)
LinksRegistered == \A p \in linked : att[p[2]]

\* liveness (under fair write completion): a lent writer eventually comes back
WriterReturns == \A r \in Remotes : (wr[r] = "lent") ~> (wr[r] = "present" \/ ~att[r])
=============================================================================

----------------------------- MODULE MC_FormDoc -----------------------------
(***************************************************************************)
(* Law evaluation for C16: the observation table recorded from the real    *)
(* code (one ndjson row per typed instance / per Recon text, see FormDoc   *)
(* section 7 for the columns) is read from IOEnv.TABLE; TLC steps through  *)
(* the rows, one action per kind of row, and evaluates the laws of the     *)
(* property on each.  Rows that break a law are collected (the check maps  *)
(* them back to the failing input; a broken law is reported by the driver, *)
(* not as a TLC error, so that every broken row of a run is seen).         *)
(***************************************************************************)
EXTENDS FormDoc, Json, IOUtils

Rows == ndJsonDeserialize(IOEnv.TABLE)
N == Len(Rows)

VARIABLE i
vars == <<i>>

Init == i = 1 /\ TLCSet(1, <<>>)

Record(r) == IF LawsHold(r) THEN TRUE
             ELSE TLCSet(1, Append(TLCGet(1), [id |-> r.id, laws |-> Broken(r)]))

\* a typed value: model round trip (as_value / try_from_value, into_value / try_convert), MessagePack round trip
CheckInstance == /\ i <= N /\ Rows[i].kind = "inst"
                 /\ Record(Rows[i])
                 /\ i' = i + 1
\* a text printed from a typed value by one of the Recon printers: both paths return the value
CheckPrinted  == /\ i <= N /\ Rows[i].kind = "doc" /\ Rows[i].isx
                 /\ Record(Rows[i])
                 /\ i' = i + 1
\* any other text (rendered instance or schema-violating mutant): the two reading paths agree
CheckDocument == /\ i <= N /\ Rows[i].kind = "doc" /\ ~Rows[i].isx
                 /\ Record(Rows[i])
                 /\ i' = i + 1

Next == CheckInstance \/ CheckPrinted \/ CheckDocument
Spec == Init /\ [][Next]_vars

TypeOK == i \in 1..(N + 1)

Count(Pred(_)) == Cardinality({j \in 1..N : Pred(Rows[j])})
Report ==
    PrintT(<<"LAW_RESULT", ToJson([
        rows   |-> N,
        failed |-> TLCGet(1),
        inst   |-> Count(LAMBDA r : r.kind = "inst"),
        doc    |-> Count(LAMBDA r : r.kind = "doc"),
        unparsed    |-> Count(LAMBDA r : r.kind = "doc" /\ ~r.p),
        both_accept |-> Count(LAMBDA r : r.kind = "doc" /\ r.p /\ r.d /\ r.m),
        both_reject |-> Count(LAMBDA r : r.kind = "doc" /\ r.p /\ ~r.d /\ ~r.m) ])>>)
=============================================================================

----------------------------- MODULE Trace_Remote -----------------------------
(***************************************************************************)
(* P for the routing part of C11 as a trace specification: the recorded    *)
(* history of a real swimos_remote::RemoteTask (config T: ratchet web      *)
(* socket on tokio::io::duplex, scripted downlinks / agents / peer) must   *)
(* be a behaviour of Remote.tla in which the steps the harness cannot see  *)
(* (registration by the two halves, routing of a frame, end of a drained   *)
(* source) happen whenever they like.  TLC searches for such a behaviour.  *)
(*                                                                         *)
(* Events (ndjson; strings are the abstract ids of the script, a concrete  *)
(* string the script does not know is rendered "?<string>" and matches     *)
(* nothing):                                                               *)
(*   {"k":"reset"}                                                         *)
(*   {"k":"attach_req","d":d,"node":n,"lane":l}   {"k":"attach_done","d":d}*)
(*   {"k":"attach_oneway","d":d}                  send-only client         *)
(*   {"k":"dl_send","d":d,"msg":m}  {"k":"dl_detach","d":d}                *)
(*   {"k":"agent_send","node":n,"msg":m}  {"k":"agent_stop","node":n}      *)
(*   {"k":"peer_send","msg":m}       m = {"kind":"invalid"} for a bad frame*)
(*   {"k":"peer_frag","msg":m,"part":j,"of":n}  fragment j of n of message m*)
(*   {"k":"peer_ctl","c":"ping"|"pong"|"close"} control frame, at any point*)
(*   {"k":"find","node":n,"lane":l,"found":b}     FindNode seen by the plane*)
(*   {"k":"recv","to":[type,node,num],"msg":m}    read by a downlink/agent *)
(*   {"k":"wire_out","msg":m}                     text frame read by peer  *)
(*   {"k":"settle"}                               nothing left to do       *)
(*   {"k":"ws_closed"}                            close frame read by peer *)
(*   {"k":"task_end","panic":b}  {"k":"attach_failed","d":d}               *)
(* anything else (task_end, panic, bad_frame ...) matches no action.       *)
(*                                                                         *)
(* What P demands: a frame is read by a downlink / agent only if Route put *)
(* it into that reader's channel - i.e. it was sent by the peer for        *)
(* exactly that node and lane (agent: node), arrives unchanged, in order,  *)
(* once; a frame on the wire is the next unsent message of some source     *)
(* (or a not-found reply); at a settle point every frame has been routed   *)
(* and read and every source's messages have left, unless an invalid frame *)
(* terminated the task - after which nothing is delivered any more.        *)
(* Not-found replies are allowed, not demanded.                            *)
(***************************************************************************)
EXTENDS Remote, Json, IOUtils

CONSTANTS EnabledFindings      \* ids of the open known findings (deviation actions below)

Rec == ndJsonDeserialize(IOEnv.TRACE)
VARIABLE i
tvars == <<vars, i>>

Has(e, f) == f \in DOMAIN e
Max(a, b) == IF a > b THEN a ELSE b

TraceInit == Init /\ i = 1 /\ TLCSet(1, 1) /\ TLCSet(2, {})

Reset ==
    /\ subs' = [p \in Nodes \X Lanes |-> <<>>]
    /\ routes' = [n \in Nodes |-> 0] /\ inst' = [n \in Nodes |-> 0] /\ alive' = [n \in Nodes |-> FALSE]
    /\ dl' = [d \in Dls |-> NoDl]
    /\ pendIn' = <<>> /\ pendOut' = <<>> /\ inDone' = {} /\ outDone' = {} /\ regOut' = {}
    /\ out' = [s \in Srcs |-> <<>>] /\ inbox' = [s \in Srcs |-> <<>>]
    /\ sys' = <<>> /\ wireIn' = <<>> /\ resolving' = NoMsg /\ closed' = FALSE
    /\ cnt' = [send |-> 0, peer |-> 0, ctl |-> 0]
    /\ wsIn' = <<>> /\ sending' = NoMsg /\ asm' = 0
    /\ lastAct' = [k |-> "init"]

SettleOK == closed \/ /\ wsIn = <<>> /\ wireIn = <<>> /\ resolving = NoMsg /\ pendIn = <<>> /\ pendOut = <<>>
                      /\ \A s \in Srcs : out[s] = <<>> /\ (inbox[s] = <<>> \/ SrcGone(s))

\* deviation action of known finding F7 (interpret_envelope dropped the body of @unlinked):
\* only if listed as open; fixed in /repo by 8500a7b, so EnabledFindings = {} and this never fires
KF_F7_UnlinkedBodyDropped(e) ==
    /\ "F7" \in EnabledFindings
    /\ LET s == e.to IN
       /\ s \in Srcs /\ inbox[s] # <<>> /\ ~SrcGone(s)
       /\ Head(inbox[s]).kind = "unlinked" /\ Head(inbox[s]).body # ""
       /\ e.msg = [Head(inbox[s]) EXCEPT !.body = ""]
       /\ inbox' = [inbox EXCEPT ![s] = Tail(@)]
       /\ lastAct' = [k |-> "recv", to |-> s, msg |-> e.msg]
       /\ TLCSet(2, TLCGet(2) \cup {"F7"})
    /\ UNCHANGED <<subs, routes, inst, alive, dl, pendIn, pendOut, inDone, outDone, regOut, out, sys, wireIn, resolving, closed, cnt>>
    /\ UNCHANGED ws

Event(e) ==
    \/ e.k = "reset" /\ Reset
    \/ e.k = "attach_req" /\ e.d \in Dls /\ e.node \in Nodes /\ e.lane \in Lanes /\ AttachReq(e.d, e.node, e.lane)
    \/ e.k = "attach_oneway" /\ e.d \in Dls /\ AttachOneWay(e.d)
    \/ e.k = "attach_done" /\ AttachDone(e.d)
    \/ e.k = "dl_send" /\ DlSend(e.d, e.msg)
    \/ e.k = "dl_detach" /\ DlDetach(e.d)
    \/ e.k = "agent_send" /\ AgentSend(e.node, e.msg)
    \/ e.k = "agent_stop" /\ AgentStop(e.node)
    \/ e.k = "peer_send" /\ PeerSend(e.msg)
    \/ e.k = "peer_frag" /\ PeerFrag(e.msg, e.part, e.of)
    \/ e.k = "peer_ctl" /\ PeerCtl(e.c)
    \/ e.k = "find" /\ resolving # NoMsg /\ resolving.node = e.node /\ resolving.lane = e.lane
                    /\ e.found = (e.node \in Exists /\ inst[e.node] < MaxInst) /\ Resolve
    \/ e.k = "recv" /\ e.to \in Srcs /\ inbox[e.to] # <<>> /\ Head(inbox[e.to]) = e.msg /\ Recv(e.to)
    \/ e.k = "recv" /\ KF_F7_UnlinkedBodyDropped(e)
    \/ e.k = "wire_out" /\ \/ \E s \in Srcs : out[s] # <<>> /\ Head(out[s]) = e.msg /\ Mux(s)
                           \/ sys # <<>> /\ Head(sys) = e.msg /\ MuxSys
    \* (IF: the guard is evaluated as a plain expression - as an action conjunct TLC would branch on
    \*  every disjunction under the quantifier and produce 2^n copies of the same successor)
    \/ e.k = "settle" /\ (IF SettleOK THEN UNCHANGED vars ELSE FALSE)
    \/ e.k = "ws_closed" /\ closed /\ UNCHANGED vars
    \* the task ends / an attachment is refused only because an invalid frame terminated the task
    \/ e.k = "task_end" /\ e.panic = FALSE /\ closed /\ UNCHANGED vars
    \/ e.k = "attach_failed" /\ closed /\ dl[e.d].st = "req" /\ UNCHANGED vars

\* Steps the harness cannot observe.  The search is kept polynomial by fixing the order of hidden
\* steps that commute with everything observable: the outgoing half registers a reader at once
\* (RegOut only enables Mux / AttachDone, and a downlink writes only after AttachDone), and the
\* removal of a drained source from the multiplexer (MuxEnd) is not tracked at all.  What remains
\* free is what matters: when a frame is routed relative to registrations, detachments, stops.
Hidden == RegIn \/ Route \/ WsRead

TraceNext ==
    IF ~closed /\ pendOut # <<>> THEN RegOut /\ i' = i
    \* reassembly commutes with everything observable too (reading a close frame does not: it is a hidden step)
    ELSE IF CanWsRead /\ Head(wsIn).ws # "close" THEN WsRead /\ i' = i
    ELSE \/ /\ i <= Len(Rec) /\ Event(Rec[i]) /\ i' = i + 1 /\ TLCSet(1, Max(TLCGet(1), i + 1))
         \/ /\ i <= Len(Rec) /\ Hidden /\ i' = i

TraceSpec == TraceInit /\ [][TraceNext]_tvars

\* the state invariants of Remote.tla are checked on every state of the search as well
TraceInv == OnlyAddressee /\ TablesSound

TraceAccepted ==
    LET m == TLCGet(1) IN
    /\ PrintT(<<"TRACE_RESULT", ToJson([accepted |-> (m = Len(Rec) + 1), matched |-> m - 1, total |-> Len(Rec),
                                        kf |-> TLCGet(2)])>>)
    /\ m = Len(Rec) + 1
=============================================================================

-------------------------- MODULE MC_TimeoutCoordSim --------------------------
\* Behaviour generation by TLC simulation (tlc -simulate): every generated behaviour of M is printed
\* once, as the sequence of its steps (lastAct records: inputs and the outputs M expects), when it has
\* reached Depth steps or a terminal state (all voters dropped, receiver completed).
EXTENDS TimeoutCoord, Sequences, Json
CONSTANT Depth
VARIABLE hist
SimInit == Init /\ hist = <<>>
SimNext == Next /\ hist' = Append(hist, lastAct')
Terminal == (\A i \in Party : ~alive[i]) /\ rdone
Dump == (Len(hist) = Depth \/ (Terminal /\ Len(hist) < Depth)) => PrintT(<<"REPLAY", ToJson(hist)>>)
=============================================================================

--------------------------- MODULE Sim_CommandOutput ---------------------------
(* Behaviour generation at the full scope: TLC -simulate walks CommandOutput.tla at random; the
   calls made (with the results M expects) are accumulated in `hist` and printed when the
   behaviour has used all its appends and drained.  The P invariants are checked on the way. *)
EXTENDS CommandOutput, Json
VARIABLE hist
SimInit == Init /\ hist = <<>>
Final == NApp = MaxAppends /\ Quiescent
SimNext == ~Final /\ Next /\ hist' = Append(hist, lastAct')
HistDump == Final => PrintT(<<"REPLAY", ToJson(hist)>>)
=============================================================================

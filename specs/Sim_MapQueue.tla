----------------------------- MODULE Sim_MapQueue -----------------------------
\* Random behaviours of MapQueue (tlc -simulate) with the call sequence recorded, for the
\* configurations whose state graph is too large to dump (the composition of both layers).
\* The ghost P state rides along (Ghost = TRUE), so PAccepts / Converged are also checked on
\* every state of these long behaviours, without the lag bound of the exhaustive runs.
EXTENDS MapQueue, Json
CONSTANT SimDepth
VARIABLE trail
SimInit == Init /\ trail = << >>
SimNext == Next /\ trail' = Append(trail, lastAct')
SimDump == (Len(trail) = SimDepth) => PrintT(<<"REPLAY", ToJson(trail)>>)
=============================================================================

------------------------------- MODULE Trigger -------------------------------
(***************************************************************************)
(* Mechanism specification (M) of the one-shot trigger of swimos_trigger   *)
(* (swimos_utilities/swimos_trigger/src/trigger/mod.rs) and of the promise *)
(* built on it (.../promise/mod.rs: the value is written before the        *)
(* trigger fires and read only after a receiver saw it fired, so a promise *)
(* is a trigger whose Ok carries the value provided).  They carry the stop *)
(* signal of every agent / runtime task.                                   *)
(*                                                                         *)
(* The implementation keeps a flag (0 waiting, 1 triggered, 2 sender       *)
(* dropped) and a slab of wakers under a mutex; a receiver remembers the   *)
(* slab slot of its waker.  Every call holds the mutex for its decision:   *)
(* one action per public call                                              *)
(*   Poll(r, w)   one poll of receiver r with waker w                      *)
(*   Clone(r)     Receiver::clone - a derived Clone: the copy keeps the    *)
(*                SLOT of the original                                     *)
(*   DropR(r)     (the waker stays in the slab)                            *)
(*   Check(r)     check_state / is_terminated                              *)
(*   Trigger      Sender::trigger / promise Sender::provide                *)
(*   DropS        drop of the sender                                       *)
(*                                                                         *)
(* Fix = FALSE is the code as it is (finding KTRIG-F1: a clone made after  *)
(* the original was polled shares its slot, the later poll of either       *)
(* replaces the other's waker).  Fix = TRUE: a clone starts without slot.  *)
(***************************************************************************)
EXTENDS Naturals, Sequences, FiniteSets, TLC

CONSTANTS NR,        \* receivers that may exist over a run (the original + clones)
          NW,        \* distinct wakers
          HasCheck,  \* the receiver has check_state / is_terminated (trigger: TRUE, promise: FALSE)
          Fix

VARIABLES flag,      \* 0 | 1 | 2
          sAlive,    \* the sender has not been used / dropped
          st,        \* receiver id -> "none" | "alive" | "dropped"
          slot,      \* receiver id -> slab slot it remembers (0 = None)
          slab,      \* slot -> waker held (0 = vacant); slots are handed out in order and never reused before the trigger fires
          freed,     \* the shared state is gone (every receiver was dropped): the sender's Weak cannot be upgraded
          rWait,     \* P: receiver id -> waker of its latest pending poll that has not fired since (0 = not waiting)
          seen,      \* P: receiver id -> the answer it has been given ("none" | "ok" | "err")
          lastAct

vars == <<flag, sAlive, st, slot, slab, freed, rWait, seen, lastAct>>
View == <<flag, sAlive, st, slot, slab, freed, rWait, seen>>
Rs == 1..NR
Wakers == 1..NW
Alive(r) == st[r] = "alive"
NoWoke == [w \in Wakers |-> 0]

Init == /\ flag = 0 /\ sAlive = TRUE
        /\ st = [r \in Rs |-> IF r = 1 THEN "alive" ELSE "none"]
        /\ slot = [r \in Rs |-> 0] /\ slab = [s \in Rs |-> 0] /\ freed = FALSE
        /\ rWait = [r \in Rs |-> 0] /\ seen = [r \in Rs |-> "none"]
        /\ lastAct = [k |-> "init"]

NextSlot == CHOOSE s \in Rs : slab[s] = 0 /\ \A t \in Rs : t < s => slab[t] # 0
Answer == IF flag = 1 THEN "ok" ELSE "err"

Poll(r, w) ==
    /\ Alive(r)
    /\ IF flag = 0 THEN
            LET s == IF slot[r] # 0 THEN slot[r] ELSE NextSlot IN
            /\ slab' = [slab EXCEPT ![s] = w] /\ slot' = [slot EXCEPT ![r] = s]
            /\ rWait' = [rWait EXCEPT ![r] = w]
            /\ lastAct' = [k |-> "poll", r |-> r, w |-> w, res |-> "pending", woke |-> NoWoke]
            /\ UNCHANGED <<flag, sAlive, st, freed, seen>>
       ELSE /\ rWait' = [rWait EXCEPT ![r] = 0] /\ seen' = [seen EXCEPT ![r] = Answer]
            /\ lastAct' = [k |-> "poll", r |-> r, w |-> w, res |-> Answer, woke |-> NoWoke]
            /\ UNCHANGED <<flag, sAlive, st, slot, slab, freed>>

Clone(r) ==
    /\ Alive(r) /\ \E n \in Rs : st[n] = "none"
    /\ LET n == CHOOSE m \in Rs : st[m] = "none" /\ \A t \in Rs : t < m => st[t] # "none" IN
       /\ st' = [st EXCEPT ![n] = "alive"]
       /\ slot' = [slot EXCEPT ![n] = IF Fix THEN 0 ELSE slot[r]]
       /\ lastAct' = [k |-> "clone", r |-> r, res |-> "done", id |-> n, woke |-> NoWoke]
       /\ UNCHANGED <<flag, sAlive, slab, freed, rWait, seen>>

DropR(r) ==
    /\ Alive(r)
    /\ st' = [st EXCEPT ![r] = "dropped"] /\ rWait' = [rWait EXCEPT ![r] = 0]
    /\ freed' = (\A o \in Rs : o # r => ~Alive(o))
    /\ lastAct' = [k |-> "dropR", r |-> r, res |-> "done", woke |-> NoWoke]
    /\ UNCHANGED <<flag, sAlive, slot, slab, seen>>

Check(r) ==
    /\ HasCheck /\ Alive(r)
    /\ lastAct' = [k |-> "check", r |-> r, res |-> IF flag = 0 THEN "none" ELSE Answer, term |-> (flag # 0), woke |-> NoWoke]
    /\ UNCHANGED <<flag, sAlive, st, slot, slab, freed, rWait, seen>>

\* every waker in the slab is woken (also those of receivers that are gone, or that a later poll replaced)
WokeAll == [w \in Wakers |-> Cardinality({s \in Rs : slab[s] = w})]
Fire(f, kind, result) ==
    LET left == {r \in Rs : Alive(r) /\ rWait[r] # 0 /\ WokeAll[rWait[r]] = 0} IN
    /\ flag' = f /\ slab' = [s \in Rs |-> 0]
    /\ rWait' = [r \in Rs |-> IF r \in left THEN rWait[r] ELSE 0]
    \* lost: receivers left waiting although the event has happened (an input key of the replay: not an observation)
    /\ lastAct' = [k |-> kind, res |-> result, woke |-> WokeAll, lost |-> Cardinality(left)]

Trigger ==
    /\ sAlive /\ sAlive' = FALSE
    /\ IF freed THEN /\ lastAct' = [k |-> "trigger", res |-> "false", woke |-> NoWoke, lost |-> 0]
                     /\ UNCHANGED <<flag, slab, rWait>>
       ELSE Fire(1, "trigger", "true")
    /\ UNCHANGED <<st, slot, freed, seen>>

DropS ==
    /\ sAlive /\ sAlive' = FALSE
    /\ IF freed THEN /\ lastAct' = [k |-> "dropS", res |-> "done", woke |-> NoWoke, lost |-> 0]
                     /\ UNCHANGED <<flag, slab, rWait>>
       ELSE Fire(2, "dropS", "done")
    /\ UNCHANGED <<st, slot, freed, seen>>

Next == \/ Trigger \/ DropS
        \/ \E r \in Rs : Clone(r) \/ DropR(r) \/ Check(r) \/ \E w \in Wakers : Poll(r, w)

Spec == Init /\ [][Next]_vars

-----------------------------------------------------------------------------
(* P *)

TypeOK == /\ flag \in 0..2 /\ sAlive \in BOOLEAN /\ freed \in BOOLEAN
          /\ \A r \in Rs : /\ st[r] \in {"none", "alive", "dropped"} /\ slot[r] \in 0..NR /\ slab[r] \in 0..NW
                           /\ rWait[r] \in 0..NW /\ seen[r] \in {"none", "ok", "err"}

\* No lost wake-up, for every receiver: told to wait and not woken since => the event has not happened.
NoLostWakeup == \A r \in Rs : (Alive(r) /\ rWait[r] # 0) => flag = 0
\* ... and the slab holds the waker of ITS latest poll.  (Refuted for Fix = FALSE: KTRIG-F1.)
SlotHoldsWaiter == \A r \in Rs : (Alive(r) /\ rWait[r] # 0) => (slot[r] # 0 /\ slab[slot[r]] = rWait[r])

\* Ok iff triggered, Err iff the sender was dropped without triggering; the flag only leaves 0 through the sender.
ResultSound ==
    /\ (lastAct.k = "poll" /\ lastAct.res = "pending") => (flag = 0)
    /\ (lastAct.k = "poll" /\ lastAct.res = "ok") => (flag = 1)
    /\ (lastAct.k = "poll" /\ lastAct.res = "err") => (flag = 2)
    /\ (lastAct.k = "trigger" /\ lastAct.res = "true") => (flag = 1)
    /\ (flag # 0) => ~sAlive
    /\ \A r \in Rs : (seen[r] = "ok" => flag = 1) /\ (seen[r] = "err" => flag = 2)

\* The result never changes afterwards.
Stable == [][/\ (flag # 0 => flag' = flag)
             /\ \A r \in Rs : seen[r] # "none" => seen'[r] = seen[r]]_vars

\* Clones made before or after the first poll behave the same: what a receiver is told depends on the flag only
\* (ResultSound) and every one of them is woken (NoLostWakeup).

-----------------------------------------------------------------------------
(* Liveness: every receiver that behaves like a task (polls again only     *)
(* after its waker fired) learns of the event once it has happened.        *)

PollTask(r) == rWait[r] = 0 /\ \E w \in Wakers : Poll(r, w)
NextTask == Trigger \/ DropS \/ \E r \in Rs : Clone(r) \/ DropR(r) \/ PollTask(r)
LiveSpec == Init /\ [][NextTask]_vars /\ \A r \in Rs : WF_vars(PollTask(r))
AllLearn == \A r \in Rs : [](flag # 0 => <>(~Alive(r) \/ seen[r] # "none"))

=============================================================================

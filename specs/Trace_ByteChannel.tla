--------------------------- MODULE Trace_ByteChannel ---------------------------
(***************************************************************************)
(* P for C12, as a trace specification: it accepts exactly the recorded    *)
(* call/return/wake histories of a byte channel that is a lossless bounded *)
(* FIFO with no lost wake-ups.  It is deliberately more permissive than    *)
(* ByteChannel.tla (the mechanism): it does not fix how many bytes a call  *)
(* moves, when cooperative yields happen, or how wakers are stored.        *)
(*                                                                         *)
(* Events (ndjson, one per call, logged at the call's return):             *)
(*   {"k":"reset","cap":c}                       a fresh channel           *)
(*   {"k":"read","n":n,"r":"ready|pending|yield|err","c":c,"wake":w}       *)
(*   {"k":"write","n":n,"r":..,"c":c,"wake":w}                             *)
(*   {"k":"flush"|"shutdown"|"dropR"|"dropW"|"newpoll", "r":.., "wake":w}  *)
(* "content":"corrupt" marks a read whose bytes were not the next bytes    *)
(* of the written stream; wake is the set of wakers woken during the call. *)
(***************************************************************************)
EXTENDS Naturals, Sequences, TLC, Json, IOUtils

Rec == ndJsonDeserialize(IOEnv.TRACE)

VARIABLES i, cap, len, closed, rAlive, wAlive, rWait, wWait
vars == <<i, cap, len, closed, rAlive, wAlive, rWait, wWait>>

Has(e, f) == f \in DOMAIN e
Min(a, b) == IF a < b THEN a ELSE b
Max(a, b) == IF a > b THEN a ELSE b

TraceInit == /\ i = 1 /\ cap = 1 /\ len = 0 /\ closed = FALSE
             /\ rAlive = TRUE /\ wAlive = TRUE /\ rWait = FALSE /\ wWait = FALSE
             /\ TLCSet(1, 1)

WokeR(e) == Has(e, "wake") /\ e.wake \in {"R", "both"}
WokeW(e) == Has(e, "wake") /\ e.wake \in {"W", "both"}

\* the property, evaluated on the state after every event
NoLostWakeup(l, cl, ra, wa, rw, ww) ==
    /\ (ra /\ rw) => (l = 0 /\ ~cl)
    /\ (wa /\ ww) => (l = cap /\ ~cl)

Step(e) ==
    LET r == IF Has(e, "r") THEN e.r ELSE "ready"
        c == IF Has(e, "c") THEN e.c ELSE 0
        n == IF Has(e, "n") THEN e.n ELSE 0
    IN
    \/ /\ e.k = "reset"
       /\ cap' = e.cap /\ len' = 0 /\ closed' = FALSE /\ rAlive' = TRUE /\ wAlive' = TRUE
       /\ rWait' = FALSE /\ wWait' = FALSE
    \/ /\ e.k = "read" /\ rAlive /\ ~Has(e, "content")
       /\ \/ r = "yield" /\ WokeR(e) /\ len' = len
          \/ r = "pending" /\ len = 0 /\ ~closed /\ len' = len
          \/ r = "ready" /\ c > 0 /\ c <= len /\ c <= n /\ len' = len - c
          \/ r = "ready" /\ c = 0 /\ (n = 0 \/ (closed /\ len = 0)) /\ len' = len
       /\ rWait' = IF WokeR(e) THEN FALSE ELSE IF r = "pending" THEN TRUE ELSE rWait
       /\ wWait' = IF WokeW(e) THEN FALSE ELSE wWait
       /\ UNCHANGED <<cap, closed, rAlive, wAlive>>
    \/ /\ e.k = "write" /\ wAlive
       /\ \/ r = "yield" /\ WokeW(e) /\ len' = len
          \/ r = "pending" /\ len = cap /\ ~closed /\ n > 0 /\ len' = len
          \/ r = "ready" /\ ~closed /\ c = 0 /\ n = 0 /\ len' = len
          \/ r = "ready" /\ ~closed /\ c > 0 /\ c <= n /\ c <= cap - len /\ len' = len + c
          \/ r = "err" /\ closed /\ len' = len
       /\ wWait' = IF WokeW(e) THEN FALSE ELSE IF r = "pending" THEN TRUE ELSE wWait
       /\ rWait' = IF WokeR(e) THEN FALSE ELSE rWait
       /\ UNCHANGED <<cap, closed, rAlive, wAlive>>
    \/ /\ e.k = "flush" /\ wAlive /\ r \in {"ready", "yield"} /\ (r = "yield" => WokeW(e))
       /\ rWait' = IF WokeR(e) THEN FALSE ELSE rWait
       /\ wWait' = IF WokeW(e) THEN FALSE ELSE wWait
       /\ UNCHANGED <<cap, len, closed, rAlive, wAlive>>
    \/ /\ e.k = "shutdown" /\ wAlive
       /\ \/ r = "yield" /\ WokeW(e) /\ closed' = closed
          \/ r = "ready" /\ closed' = TRUE
       /\ rWait' = IF WokeR(e) THEN FALSE ELSE rWait
       /\ wWait' = IF WokeW(e) THEN FALSE ELSE wWait
       /\ UNCHANGED <<cap, len, rAlive, wAlive>>
    \/ /\ e.k = "dropR" /\ rAlive /\ rAlive' = FALSE /\ closed' = TRUE
       /\ rWait' = FALSE
       /\ wWait' = IF WokeW(e) THEN FALSE ELSE wWait
       /\ UNCHANGED <<cap, len, wAlive>>
    \/ /\ e.k = "dropW" /\ wAlive /\ wAlive' = FALSE /\ closed' = TRUE
       /\ wWait' = FALSE
       /\ rWait' = IF WokeR(e) THEN FALSE ELSE rWait
       /\ UNCHANGED <<cap, len, rAlive>>
    \/ /\ e.k = "newpoll" /\ UNCHANGED <<cap, len, closed, rAlive, wAlive, rWait, wWait>>

TraceNext == /\ i <= Len(Rec)
             /\ Step(Rec[i])
             /\ NoLostWakeup(len', closed', rAlive', wAlive', rWait', wWait')
             /\ len' <= cap'
             /\ i' = i + 1
             /\ TLCSet(1, Max(TLCGet(1), i + 1))

TraceSpec == TraceInit /\ [][TraceNext]_vars

TraceAccepted ==
    LET m == TLCGet(1) IN
    /\ PrintT(<<"TRACE_RESULT", ToJson([accepted |-> (m = Len(Rec) + 1), matched |-> m - 1, total |-> Len(Rec), kf |-> <<>>])>>)
    /\ m = Len(Rec) + 1
=============================================================================

--------------------------- MODULE Trace_ByteChannel ---------------------------
(***************************************************************************)
(* P for C12, as a trace specification: it accepts exactly the recorded    *)
(* call/return/wake histories of a byte channel that is a lossless bounded *)
(* FIFO with no lost wake-ups.  It is deliberately more permissive than    *)
(* ByteChannel.tla (the mechanism): it does not fix how many bytes a call  *)
(* moves, when cooperative yields happen, or how wakers are stored.        *)
(*                                                                         *)
(* Events (ndjson, one per call, logged at the call's return):             *)
(*   {"k":"reset","cap":c}                       a fresh channel           *)
(*   {"k":"read","n":n,"r":"ready|pending|yield|err","c":c,"wake":w}       *)
(*   {"k":"write","n":n,"r":..,"c":c,"wake":w}                             *)
(*   {"k":"flush"|"shutdown"|"dropR"|"dropW"|"newpoll", "r":.., "wake":w}  *)
(* "content":"corrupt" marks a read whose bytes were not the next bytes    *)
(* of the written stream; wake is the set of sides woken during the call;   *)
(* w is the waker the caller presented (a half may be polled with another  *)
(* waker each time), wokeR / wokeW the wakers of each side that were woken. *)
(* rWait / wWait hold the waker of the side's LATEST pending poll (0 = not  *)
(* waiting): only waking THAT waker ends the wait - waking an older one is  *)
(* a lost wake-up.                                                          *)
(***************************************************************************)
EXTENDS Naturals, Sequences, TLC, Json, IOUtils

Rec == ndJsonDeserialize(IOEnv.TRACE)

VARIABLES i, cap, len, closed, rAlive, wAlive, rWait, wWait
vars == <<i, cap, len, closed, rAlive, wAlive, rWait, wWait>>

Has(e, f) == f \in DOMAIN e
Min(a, b) == IF a < b THEN a ELSE b
Max(a, b) == IF a > b THEN a ELSE b

TraceInit == /\ i = 1 /\ cap = 1 /\ len = 0 /\ closed = FALSE
             /\ rAlive = TRUE /\ wAlive = TRUE /\ rWait = 0 /\ wWait = 0
             /\ TLCSet(1, 1)

W(e) == IF Has(e, "w") THEN e.w ELSE 1
InSeq(x, q) == \E j \in 1..Len(q) : q[j] = x
\* the given waker of that side was woken during the call
WokeRw(e, x) == IF Has(e, "wokeR") THEN InSeq(x, e.wokeR) ELSE (Has(e, "wake") /\ e.wake \in {"R", "both"})
WokeWw(e, x) == IF Has(e, "wokeW") THEN InSeq(x, e.wokeW) ELSE (Has(e, "wake") /\ e.wake \in {"W", "both"})

\* the property, evaluated on the state after every event
NoLostWakeup(l, cl, ra, wa, rw, ww) ==
    /\ (ra /\ rw # 0) => (l = 0 /\ ~cl)
    /\ (wa /\ ww # 0) => (l = cap /\ ~cl)

Step(e) ==
    LET r == IF Has(e, "r") THEN e.r ELSE "ready"
        c == IF Has(e, "c") THEN e.c ELSE 0
        n == IF Has(e, "n") THEN e.n ELSE 0
    IN
    \/ /\ e.k = "reset"
       /\ cap' = e.cap /\ len' = 0 /\ closed' = FALSE /\ rAlive' = TRUE /\ wAlive' = TRUE
       /\ rWait' = 0 /\ wWait' = 0
    \/ /\ e.k = "read" /\ rAlive /\ ~Has(e, "content")
       /\ \/ r = "yield" /\ WokeRw(e, W(e)) /\ len' = len
          \/ r = "pending" /\ len = 0 /\ ~closed /\ len' = len
          \/ r = "ready" /\ c > 0 /\ c <= len /\ c <= n /\ len' = len - c
          \/ r = "ready" /\ c = 0 /\ (n = 0 \/ (closed /\ len = 0)) /\ len' = len
       /\ rWait' = IF r = "pending" THEN W(e) ELSE IF rWait # 0 /\ WokeRw(e, rWait) THEN 0 ELSE rWait
       /\ wWait' = IF wWait # 0 /\ WokeWw(e, wWait) THEN 0 ELSE wWait
       /\ UNCHANGED <<cap, closed, rAlive, wAlive>>
    \/ /\ e.k = "write" /\ wAlive
       /\ \/ r = "yield" /\ WokeWw(e, W(e)) /\ len' = len
          \/ r = "pending" /\ len = cap /\ ~closed /\ n > 0 /\ len' = len
          \/ r = "ready" /\ ~closed /\ c = 0 /\ n = 0 /\ len' = len
          \/ r = "ready" /\ ~closed /\ c > 0 /\ c <= n /\ c <= cap - len /\ len' = len + c
          \/ r = "err" /\ closed /\ len' = len
       /\ wWait' = IF r = "pending" THEN W(e) ELSE IF wWait # 0 /\ WokeWw(e, wWait) THEN 0 ELSE wWait
       /\ rWait' = IF rWait # 0 /\ WokeRw(e, rWait) THEN 0 ELSE rWait
       /\ UNCHANGED <<cap, closed, rAlive, wAlive>>
    \/ /\ e.k = "flush" /\ wAlive /\ r \in {"ready", "yield"} /\ (r = "yield" => WokeWw(e, W(e)))
       /\ rWait' = IF rWait # 0 /\ WokeRw(e, rWait) THEN 0 ELSE rWait
       /\ wWait' = IF wWait # 0 /\ WokeWw(e, wWait) THEN 0 ELSE wWait
       /\ UNCHANGED <<cap, len, closed, rAlive, wAlive>>
    \/ /\ e.k = "shutdown" /\ wAlive
       /\ \/ r = "yield" /\ WokeWw(e, W(e)) /\ closed' = closed
          \/ r = "ready" /\ closed' = TRUE
       /\ rWait' = IF rWait # 0 /\ WokeRw(e, rWait) THEN 0 ELSE rWait
       /\ wWait' = IF wWait # 0 /\ WokeWw(e, wWait) THEN 0 ELSE wWait
       /\ UNCHANGED <<cap, len, rAlive, wAlive>>
    \/ /\ e.k = "dropR" /\ rAlive /\ rAlive' = FALSE /\ closed' = TRUE
       /\ rWait' = 0
       /\ wWait' = IF wWait # 0 /\ WokeWw(e, wWait) THEN 0 ELSE wWait
       /\ UNCHANGED <<cap, len, wAlive>>
    \/ /\ e.k = "dropW" /\ wAlive /\ wAlive' = FALSE /\ closed' = TRUE
       /\ wWait' = 0
       /\ rWait' = IF rWait # 0 /\ WokeRw(e, rWait) THEN 0 ELSE rWait
       /\ UNCHANGED <<cap, len, rAlive>>
    \/ /\ e.k = "newpoll" /\ UNCHANGED <<cap, len, closed, rAlive, wAlive, rWait, wWait>>

TraceNext == /\ i <= Len(Rec)
             /\ Step(Rec[i])
             /\ NoLostWakeup(len', closed', rAlive', wAlive', rWait', wWait')
             /\ len' <= cap'
             /\ i' = i + 1
             /\ TLCSet(1, Max(TLCGet(1), i + 1))

TraceSpec == TraceInit /\ [][TraceNext]_vars

TraceAccepted ==
    LET m == TLCGet(1) IN
    /\ PrintT(<<"TRACE_RESULT", ToJson([accepted |-> (m = Len(Rec) + 1), matched |-> m - 1, total |-> Len(Rec), kf |-> <<>>])>>)
    /\ m = Len(Rec) + 1
=============================================================================

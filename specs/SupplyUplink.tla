------------------------------ MODULE SupplyUplink ------------------------------
(***************************************************************************)
(* C14 (supply lanes), configuration K.                                    *)
(*                                                                         *)
(* M: mechanism specification of `Uplinks` for ONE remote                  *)
(*    (runtime/swimos_runtime/src/agent/task/remotes/uplink/mod.rs)        *)
(*    restricted to supply lanes - `SupplyBackpressure`, the unbounded     *)
(*    length-prefixed FIFO of runtime/swimos_runtime/src/backpressure -    *)
(*    plus what shares the queue and the single writer with them: the      *)
(*    special queue (linked / unlinked) and, optionally, one value lane    *)
(*    (`ValueBackpressure`, an overwrite slot).  One action per call:      *)
(*       PushSupply / PushSynced / PushValue   Uplinks::push               *)
(*       PushLinked / PushUnlinked             Uplinks::push_special       *)
(*       Complete   the WriteTask in flight is performed (its frames are   *)
(*                  on the channel) and Uplinks::replace_and_pop is called *)
(*                  with the returned sender, as the write task does       *)
(*                                                                         *)
(* Data model: the n-th item pushed to supply lane l is <<l, n>>; the      *)
(* harness concretises it to a body from boundary pools (including the     *)
(* empty body) and checks the bytes.  Lane NS+1 is the value lane.         *)
(*                                                                         *)
(* P (below the line): NoCoalesce for supply lanes over the history        *)
(* variables only.                                                         *)
(***************************************************************************)
EXTENDS Naturals, Sequences, FiniteSets, TLC

CONSTANTS NS,        \* number of supply lanes
          MaxPush,   \* bound on supply pushes (all lanes)
          MaxSpec,   \* bound on linked / unlinked pushes
          MaxSync,   \* bound on synced pushes
          MaxVal     \* bound on value pushes (0 = no value lane)

SLanes == 1..NS
VLane == NS + 1

VARIABLES writer,   \* "present" | "absent"      Uplinks.writer is Some / None
          sup,      \* [SLanes -> [ex, q, ss, buf]]  supply_uplinks: entry exists, queued, send_synced, FIFO of item numbers
          val,      \* [ex, q, ss, cur, pend]        value_uplinks[VLane]: overwrite slot
          wq,       \* Seq(lane)                     write_queue
          sq,       \* Seq([a, l])                   special_queue
          task,     \* the WriteTask in flight, [k |-> "none"] if there is none
          \* driver + history
          linked,   \* [SLanes -> BOOLEAN]  the driver has pushed Linked(l) and no Unlinked(l) since
          nspec, nsync, nval,
          ep,       \* [SLanes -> Seq(Nat)]  ep[l][n] = link epoch in which item n was pushed
          cur,      \* [SLanes -> Nat]       current link epoch of l (incremented by every Unlinked(l))
          got,      \* [SLanes -> Seq(Nat)]  item numbers seen in event frames of lane l, in channel order
          lastAct

vars == <<writer, sup, val, wq, sq, task, linked, nspec, nsync, nval, ep, cur, got, lastAct>>
View == <<writer, sup, val, wq, sq, task, linked, nspec, nsync, nval, ep, cur, got>>

Range(s) == {s[i] : i \in DOMAIN s}
RECURSIVE SumLen(_, _)
SumLen(f, S) == IF S = {} THEN 0 ELSE LET x == CHOOSE y \in S : TRUE IN Len(f[x]) + SumLen(f, S \ {x})
NPush == SumLen(ep, SLanes)

NoTask == [k |-> "none"]
NoSup == [ex |-> FALSE, q |-> FALSE, ss |-> FALSE, buf |-> <<>>]       \* Uplink::default() / no entry
NoVal == [ex |-> FALSE, q |-> FALSE, ss |-> FALSE, cur |-> 0, pend |-> FALSE]

St == [w |-> writer, sup |-> sup, val |-> val, wq |-> wq, sq |-> sq, task |-> task]

Init == /\ writer = "present" /\ sup = [l \in SLanes |-> NoSup] /\ val = NoVal
        /\ wq = <<>> /\ sq = <<>> /\ task = NoTask
        /\ linked = [l \in SLanes |-> FALSE] /\ nspec = 0 /\ nsync = 0 /\ nval = 0
        /\ ep = [l \in SLanes |-> <<>>] /\ cur = [l \in SLanes |-> 0] /\ got = [l \in SLanes |-> <<>>]
        /\ lastAct = [k |-> "init"]

\* ---- Uplinks::push -------------------------------------------------------------------------
\* writer present: write_to_buffer + WriteTask at once.  writer lent: into the backpressure
\* mechanism of the lane; the lane is put on the write queue unless it is already there.
Enq(s, l, isq) == IF isq THEN s.wq ELSE Append(s.wq, l)

PushSupplyF(s, l, n) ==
    IF s.w = "present" THEN [s EXCEPT !.w = "absent", !.task = [k |-> "event", l |-> l, n |-> n]]
    ELSE [s EXCEPT !.sup[l] = [@ EXCEPT !.ex = TRUE, !.q = TRUE, !.buf = Append(@, n)],     \* push_bytes: u64 length + body
                   !.wq = Enq(s, l, s.sup[l].q)]

PushSyncedF(s, l) ==
    IF s.w = "present" THEN [s EXCEPT !.w = "absent", !.task = [k |-> "synced", l |-> l, ev |-> FALSE, n |-> 0]]
    ELSE [s EXCEPT !.sup[l] = [@ EXCEPT !.ex = TRUE, !.q = TRUE, !.ss = TRUE],
                   !.wq = Enq(s, l, s.sup[l].q)]

PushValueF(s, n) ==
    IF s.w = "present" THEN [s EXCEPT !.w = "absent", !.task = [k |-> "event", l |-> VLane, n |-> n]]
    ELSE [s EXCEPT !.val = [@ EXCEPT !.ex = TRUE, !.q = TRUE, !.cur = n, !.pend = TRUE],     \* overwrite
                   !.wq = Enq(s, VLane, s.val.q)]

\* ---- Uplinks::push_special -----------------------------------------------------------------
\* writer lent + Unlinked: the lane's uplink entries are removed (pending items for this remote
\* are discarded; its write-queue entry, if any, stays behind)
PushSpecialF(s, a, l) ==
    IF s.w = "present" THEN [s EXCEPT !.w = "absent", !.task = [k |-> a, l |-> l]]
    ELSE [s EXCEPT !.sup[l] = IF a = "unlinked" THEN NoSup ELSE @,
                   !.sq = Append(@, [a |-> a, l |-> l])]

\* ---- Uplinks::replace_and_pop --------------------------------------------------------------
RECURSIVE PopLoop(_)
PopLoop(s) ==
    IF s.wq = <<>> THEN [s EXCEPT !.w = "present", !.task = NoTask]          \* *writer = Some(..); None
    ELSE LET l == Head(s.wq)
             s1 == [s EXCEPT !.wq = Tail(@)] IN
         IF l = VLane THEN
            IF ~s.val.ex THEN PopLoop(s1)
            ELSE LET had == s.val.pend
                     syn == s.val.ss
                     v1  == [s.val EXCEPT !.q = FALSE, !.ss = FALSE] IN
                 IF syn THEN [s1 EXCEPT !.val = IF had THEN [v1 EXCEPT !.pend = FALSE, !.cur = 0] ELSE v1,
                                        !.task = [k |-> "synced", l |-> l, ev |-> had, n |-> s.val.cur]]
                 ELSE IF had THEN [s1 EXCEPT !.val = [v1 EXCEPT !.pend = FALSE, !.cur = 0],
                                             !.task = [k |-> "event", l |-> l, n |-> s.val.cur]]
                 ELSE PopLoop([s1 EXCEPT !.val = v1])
         ELSE
            IF ~s.sup[l].ex THEN PopLoop(s1)                                  \* stale entry of a removed uplink
            ELSE LET u    == s.sup[l]
                     had  == u.buf # <<>>
                     n    == IF had THEN Head(u.buf) ELSE 0
                     rest == IF had THEN Tail(u.buf) ELSE <<>>              \* prepare_write pops one record
                     more == rest # <<>>
                     u1   == [u EXCEPT !.ss = FALSE, !.buf = rest, !.q = more]
                     s2   == [s1 EXCEPT !.sup[l] = u1, !.wq = IF more THEN Append(@, l) ELSE @] IN  \* re-queues itself while has_data()
                 IF u.ss THEN [s2 EXCEPT !.task = [k |-> "synced", l |-> l, ev |-> had, n |-> n]]
                 ELSE IF had THEN [s2 EXCEPT !.task = [k |-> "event", l |-> l, n |-> n]]
                 ELSE PopLoop(s2)

PopF(s) == IF s.sq # <<>> THEN [s EXCEPT !.sq = Tail(@), !.task = [k |-> Head(s.sq).a, l |-> Head(s.sq).l]]
           ELSE PopLoop(s)

\* the frames a WriteTask puts on the channel (perform_write)
FramesOf(t) == IF t.k = "event" THEN << <<"e", t.l, t.n>> >>
               ELSE IF t.k = "synced" THEN (IF t.ev THEN << <<"e", t.l, t.n>> >> ELSE <<>>) \o << <<"s", t.l, 0>> >>
               ELSE IF t.k = "linked" THEN << <<"l", t.l, 0>> >>
               ELSE IF t.k = "unlinked" THEN << <<"u", t.l, 0>> >>
               ELSE <<>>

Install(s) == /\ writer' = s.w /\ sup' = s.sup /\ val' = s.val /\ wq' = s.wq /\ sq' = s.sq /\ task' = s.task

\* what the caller sees: did push / push_special / replace_and_pop return a WriteTask
Res(s) == [some |-> (St.w = "present" /\ s.task.k # "none")]

PushSupply(l) ==
    /\ linked[l] /\ NPush < MaxPush
    /\ LET n == Len(ep[l]) + 1
           s == PushSupplyF(St, l, n) IN
       /\ Install(s)
       /\ ep' = [ep EXCEPT ![l] = Append(@, cur[l])]
       /\ lastAct' = [k |-> "supply", l |-> l, n |-> n] @@ Res(s)
    /\ UNCHANGED <<linked, nspec, nsync, nval, cur, got>>

PushSynced(l) ==
    /\ linked[l] /\ nsync < MaxSync
    /\ LET s == PushSyncedF(St, l) IN
       /\ Install(s) /\ lastAct' = [k |-> "synced", l |-> l] @@ Res(s)
    /\ nsync' = nsync + 1
    /\ UNCHANGED <<linked, nspec, nval, ep, cur, got>>

PushValue ==
    /\ nval < MaxVal
    /\ LET s == PushValueF(St, nval + 1) IN
       /\ Install(s) /\ lastAct' = [k |-> "value", l |-> VLane, n |-> nval + 1] @@ Res(s)
    /\ nval' = nval + 1
    /\ UNCHANGED <<linked, nspec, nsync, ep, cur, got>>

PushLinked(l) ==
    /\ ~linked[l] /\ nspec < MaxSpec
    /\ LET s == PushSpecialF(St, "linked", l) IN
       /\ Install(s) /\ lastAct' = [k |-> "linked", l |-> l] @@ Res(s)
    /\ linked' = [linked EXCEPT ![l] = TRUE] /\ nspec' = nspec + 1
    /\ UNCHANGED <<nsync, nval, ep, cur, got>>

PushUnlinked(l) ==
    /\ linked[l] /\ nspec < MaxSpec
    /\ LET s == PushSpecialF(St, "unlinked", l) IN
       /\ Install(s) /\ lastAct' = [k |-> "unlinked", l |-> l] @@ Res(s)
    /\ linked' = [linked EXCEPT ![l] = FALSE] /\ nspec' = nspec + 1
    /\ cur' = [cur EXCEPT ![l] = @ + 1]
    /\ UNCHANGED <<nsync, nval, ep, got>>

EvOf(fr, l) == LET f == SelectSeq(fr, LAMBDA x : x[1] = "e" /\ x[2] = l) IN [i \in DOMAIN f |-> f[i][3]]

Complete ==
    /\ task.k # "none"
    /\ LET fr == FramesOf(task)
           s  == PopF([St EXCEPT !.task = NoTask]) IN
       /\ Install(s)
       /\ got' = [l \in SLanes |-> got[l] \o EvOf(fr, l)]
       /\ lastAct' = [k |-> "complete", fr |-> fr, some |-> s.task.k # "none"]
    /\ UNCHANGED <<linked, nspec, nsync, nval, ep, cur>>

Next == \/ \E l \in SLanes : PushSupply(l) \/ PushSynced(l) \/ PushLinked(l) \/ PushUnlinked(l)
        \/ PushValue \/ Complete

Spec == Init /\ [][Next]_vars
FairSpec == Spec /\ WF_vars(Complete)

-----------------------------------------------------------------------------
(* M-level invariants *)
TypeOK == /\ writer \in {"present", "absent"}
          /\ \A i \in DOMAIN wq : wq[i] \in 1..VLane
WriterPlace == (writer = "present") <=> (task.k = "none")
HomeMeansEmpty == writer = "present" => (sq = <<>> /\ wq = <<>>)
\* a supply uplink holding items is on the write queue (else nothing would ever send them)
QueuedIfData == \A l \in SLanes : sup[l].buf # <<>> => (sup[l].q /\ l \in Range(wq))

-----------------------------------------------------------------------------
(* P: NoCoalesce for supply lanes *)

\* event frames of a lane are pushed items, in push order, none twice
InOrderOnce == \A l \in SLanes :
    /\ \A i \in DOMAIN got[l] : got[l][i] \in 1..Len(ep[l])
    /\ \A i, j \in DOMAIN got[l] : i < j => got[l][i] < got[l][j]

\* an item is skipped only because the remote was unlinked after it was pushed: an item
\* overtaken on the channel belongs to an earlier link epoch than the item that overtook it
NoSkipWithinEpoch == \A l \in SLanes : \A i \in DOMAIN got[l] :
    \A m \in 1..(got[l][i] - 1) : m \in Range(got[l]) \/ ep[l][m] < ep[l][got[l][i]]

\* nothing lost: an item of the current link epoch has been delivered, is being written,
\* or sits in the lane's FIFO with the lane on the write queue
Held(l, m) == \/ task.k \in {"event", "synced"} /\ task.l = l /\ task.n = m
              \/ m \in Range(sup[l].buf) /\ l \in Range(wq)
NothingLost == \A l \in SLanes : \A m \in 1..Len(ep[l]) :
    ep[l][m] = cur[l] => (m \in Range(got[l]) \/ Held(l, m))

Quiescent == writer = "present"
AllDelivered == \A l \in SLanes : \A m \in 1..Len(ep[l]) : ep[l][m] = cur[l] => m \in Range(got[l])
QuiescentComplete == Quiescent => AllDelivered

GotOnlyGrows == [][\A l \in SLanes : Len(got'[l]) >= Len(got[l]) /\ SubSeq(got'[l], 1, Len(got[l])) = got[l]]_vars

Drains == <>[](Quiescent /\ AllDelivered)
=============================================================================

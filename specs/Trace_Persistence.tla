--------------------------- MODULE Trace_Persistence ---------------------------
(***************************************************************************)
(* P for C05: persisted state is never older than what was published, and  *)
(* a restart restores it.  Trace specification over the log of             *)
(* configuration E with a recording store.  ABSENT = -1.                   *)
(*   reset                                                                 *)
(*   sput item v | sdel item                 store calls for value items   *)
(*   supd item k v | srem item k | sclr item store calls for map items     *)
(*   sbad item                               a store call whose payload is *)
(*                                           not what any lane produced    *)
(*   vframe lane v  | mframe lane m k v      an event frame of a persistent*)
(*                                           lane was received by a remote *)
(*   start first vals maps                   on_start observed this state  *)
(***************************************************************************)
EXTENDS Naturals, Integers, Sequences, FiniteSets, TLC, Json, IOUtils

CONSTANTS PVals,     \* persistent value items (lanes and stores)
          PMaps,     \* persistent map items
          TVals, TMaps,   \* transient items
          Keys

Rec == ndJsonDeserialize(IOEnv.TRACE)

VARIABLES i,
          sv,     \* [PVals -> value | -1]           what the store holds for value items (-1: nothing)
          sm,     \* [PMaps -> [Keys -> value | -1]] what the store holds for map items
          putV,   \* [PVals -> set of values ever handed to the store]
          putM    \* [PMaps -> set of <<m, k, v>> ever handed to the store]
vars == <<i, sv, sm, putV, putM>>

Max(a, b) == IF a > b THEN a ELSE b
Empty == [k \in Keys |-> -1]

Fresh(a, b, c, d) == /\ a = [x \in PVals |-> -1] /\ b = [x \in PMaps |-> Empty]
                     /\ c = [x \in PVals |-> {}] /\ d = [x \in PMaps |-> {}]

TraceInit == i = 1 /\ Fresh(sv, sm, putV, putM) /\ TLCSet(1, 1)

Step(e) ==
    \/ /\ e.e = "reset" /\ Fresh(sv', sm', putV', putM')
    \/ /\ e.e = "sput" /\ e.item \in PVals          \* transient items are never handed to the store
       /\ sv' = [sv EXCEPT ![e.item] = e.v]
       /\ putV' = [putV EXCEPT ![e.item] = @ \cup {e.v}]
       /\ UNCHANGED <<sm, putM>>
    \/ /\ e.e = "sdel" /\ e.item \in PVals
       /\ sv' = [sv EXCEPT ![e.item] = -1]
       /\ UNCHANGED <<sm, putV, putM>>
    \/ /\ e.e = "supd" /\ e.item \in PMaps /\ e.k \in Keys
       /\ sm' = [sm EXCEPT ![e.item][e.k] = e.v]
       /\ putM' = [putM EXCEPT ![e.item] = @ \cup {<<"upd", e.k, e.v>>}]
       /\ UNCHANGED <<sv, putV>>
    \/ /\ e.e = "srem" /\ e.item \in PMaps /\ e.k \in Keys
       /\ sm' = [sm EXCEPT ![e.item][e.k] = -1]
       /\ putM' = [putM EXCEPT ![e.item] = @ \cup {<<"rem", e.k, -1>>}]
       /\ UNCHANGED <<sv, putV>>
    \/ /\ e.e = "sclr" /\ e.item \in PMaps
       /\ sm' = [sm EXCEPT ![e.item] = Empty]
       /\ putM' = [putM EXCEPT ![e.item] = @ \cup {<<"clr", -1, -1>>}]
       /\ UNCHANGED <<sv, putV>>
    \/ /\ e.e = "vframe"
       \* store before send: the published value was handed to the store earlier (the default value of a lane
       \* for which nothing was ever stored is what a restart would restore anyway, so publishing it is fine)
       /\ e.lane \in PVals => (e.v \in putV[e.lane] \/ (putV[e.lane] = {} /\ sv[e.lane] = -1 /\ e.v = 0))
       /\ UNCHANGED <<sv, sm, putV, putM>>
    \/ /\ e.e = "mframe"
       /\ e.lane \in PMaps => <<e.m, e.k, e.v>> \in putM[e.lane]
       /\ UNCHANGED <<sv, sm, putV, putM>>
    \/ /\ e.e = "start"
       \* restart restores exactly what the store holds; transient items come back at their defaults
       /\ ~e.first =>
            /\ \A x \in PVals : e.vals[x] = (IF sv[x] = -1 THEN 0 ELSE sv[x])
            /\ \A x \in PMaps : \A k \in Keys : e.maps[x][k] = sm[x][k]
       /\ \A x \in TVals : e.vals[x] = 0
       /\ \A x \in TMaps : \A k \in Keys : e.maps[x][k] = -1
       /\ UNCHANGED <<sv, sm, putV, putM>>

TraceNext == /\ i <= Len(Rec)
             /\ Step(Rec[i])
             /\ i' = i + 1
             /\ TLCSet(1, Max(TLCGet(1), i + 1))

TraceSpec == TraceInit /\ [][TraceNext]_vars

TraceAccepted ==
    LET m == TLCGet(1) IN
    /\ PrintT(<<"TRACE_RESULT", ToJson([accepted |-> (m = Len(Rec) + 1), matched |-> m - 1, total |-> Len(Rec), kf |-> <<>>])>>)
    /\ m = Len(Rec) + 1
=============================================================================

---------------------------- MODULE FramingData ----------------------------
(***************************************************************************)
(* Default data for MC_Framing / Gen_Framing (overwritten per run by        *)
(* checks/c10.py with the layouts of all codec pairs and their message      *)
(* pools).  An atom is [n |-> bytes, s |-> streamed, need |-> bytes that    *)
(* must be buffered before a fixed atom is consumed].                       *)
(*   lane_req_raw_value: Command(b"ab\0") = tag | u64 len + body (all or    *)
(*   nothing);  Sync(id) = tag + u128;  InitComplete = tag                  *)
(*   lane_req_value: Command("name") = tag | u64 len | Recon body streamed  *)
(***************************************************************************)
EXTENDS Naturals, Sequences

DataLayouts == <<
  [id |-> "lane_req_raw_value/0", codec |-> "lane_req_raw_value", rep |-> TRUE, bad |-> "ok", at |-> 0,
   atoms |-> << [n |-> 1, s |-> FALSE, need |-> 1], [n |-> 11, s |-> FALSE, need |-> 11] >>],
  [id |-> "lane_req_raw_value/1", codec |-> "lane_req_raw_value", rep |-> TRUE, bad |-> "ok", at |-> 0,
   atoms |-> << [n |-> 17, s |-> FALSE, need |-> 17] >>],
  [id |-> "lane_req_raw_value/2", codec |-> "lane_req_raw_value", rep |-> TRUE, bad |-> "ok", at |-> 0,
   atoms |-> << [n |-> 1, s |-> FALSE, need |-> 1] >>],
  [id |-> "lane_req_raw_value/0#tag", codec |-> "lane_req_raw_value", rep |-> TRUE, bad |-> "tag", at |-> 1,
   atoms |-> << [n |-> 1, s |-> FALSE, need |-> 1], [n |-> 11, s |-> FALSE, need |-> 11] >>],
  [id |-> "lane_req_raw_value/0#len", codec |-> "lane_req_raw_value", rep |-> TRUE, bad |-> "len", at |-> 2,
   atoms |-> << [n |-> 1, s |-> FALSE, need |-> 1], [n |-> 11, s |-> FALSE, need |-> 1] >>],
  [id |-> "lane_req_value/0", codec |-> "lane_req_value", rep |-> TRUE, bad |-> "ok", at |-> 0,
   atoms |-> << [n |-> 1, s |-> FALSE, need |-> 1], [n |-> 8, s |-> FALSE, need |-> 8], [n |-> 4, s |-> TRUE, need |-> 0] >>],
  [id |-> "lane_req_value/1", codec |-> "lane_req_value", rep |-> TRUE, bad |-> "ok", at |-> 0,
   atoms |-> << [n |-> 17, s |-> FALSE, need |-> 17] >>]
>>

\* explicit sequences for MC_Framing ({} = all singles and all sequences of representatives)
DataSeqs == {}

\* frames for Gen_Framing: [codec, len, rep, fields = << [role, vals] >>]
GenFrames == <<
  [codec |-> "lane_req_raw_value", len |-> 12, rep |-> TRUE, fields |-> << [role |-> "tag", vals |-> 2], [role |-> "len", vals |-> 3] >>],
  [codec |-> "lane_req_raw_value", len |-> 17, rep |-> TRUE, fields |-> << [role |-> "tag", vals |-> 2] >>],
  [codec |-> "lane_req_raw_value", len |-> 1, rep |-> FALSE, fields |-> << [role |-> "tag", vals |-> 2] >>]
>>
=============================================================================

------------------------ MODULE Trace_DownlinkSession ------------------------
(***************************************************************************)
(* P for C07 as a trace specification: the events recorded from the REAL   *)
(* downlink runtime (harness/h_runtime/src/bin/dlruntime.rs) are folded    *)
(* through the monitor of DownlinkSession.tla.  Many recorded cases share  *)
(* one TLC run: a "reset" event starts a fresh monitor.  The monitor is    *)
(* deterministic, so the behaviour is a single line; every rejection is    *)
(* recorded with its case, position and reason, and the deviations taken   *)
(* for OPEN known findings (EnabledFindings) are reported per case.        *)
(***************************************************************************)
EXTENDS Naturals, Sequences, FiniteSets, TLC, Json, IOUtils, DownlinkSession

CONSTANT EnabledFindings

Rec == ndJsonDeserialize(IOEnv.TRACE)

VARIABLES i, p, case, fails, kfs, ncases
vars == <<i, p, case, fails, kfs, ncases>>

TraceInit == /\ i = 1 /\ p = PInit("value", EnabledFindings, "abort") /\ case = "" /\ fails = <<>> /\ kfs = <<>>
             /\ ncases = 0

Close(q, id) ==   \* the verdict of the case that just ended
    [f |-> IF q.st = "ok" THEN <<>> ELSE <<[case |-> id, why |-> q.why]>>,
     k |-> IF q.st = "ok" /\ q.kf # {} THEN <<[case |-> id, kf |-> q.kf]>> ELSE <<>>]

TraceNext ==
    /\ i <= Len(Rec)
    /\ LET e == Rec[i] IN
       IF e.k = "reset"
         THEN LET cl == Close(p, case) IN
              /\ p' = PInit(e.kind, EnabledFindings, IF Has(e, "strategy") THEN e.strategy ELSE "abort")
              /\ case' = e.id /\ ncases' = ncases + 1
              /\ fails' = IF ncases = 0 THEN fails ELSE fails \o cl.f
              /\ kfs' = IF ncases = 0 THEN kfs ELSE kfs \o cl.k
         ELSE /\ p' = PStep(p, e)
              /\ UNCHANGED <<case, ncases, fails, kfs>>
    /\ i' = i + 1

\* the last case is closed when the trace is exhausted
TraceEnd ==
    /\ i = Len(Rec) + 1
    /\ LET cl == Close(p, case)
           fl == IF ncases = 0 THEN fails ELSE fails \o cl.f
           kl == IF ncases = 0 THEN kfs ELSE kfs \o cl.k IN
       /\ PrintT(<<"TRACE_RESULT", ToJson([accepted |-> fl = <<>>, matched |-> i - 1, total |-> Len(Rec),
                                            cases |-> ncases, fails |-> fl, kf |-> kl])>>)
       /\ TLCSet(1, IF fl = <<>> THEN 1 ELSE 2)
    /\ i' = i + 1
    /\ UNCHANGED <<p, case, fails, kfs, ncases>>

TraceSpec == (TraceInit /\ TLCSet(1, 0)) /\ [][TraceNext \/ TraceEnd]_vars

TraceAccepted == TLCGet(1) = 1
=============================================================================

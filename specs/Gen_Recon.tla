----------------------------- MODULE Gen_Recon -----------------------------
(***************************************************************************)
(* Generator of abstract model values for C09: the structural-writer       *)
(* protocol of swimos_form (the interface through which *every* value      *)
(* reaches the three Recon printers) as a state machine.  One action per   *)
(* writer call:                                                            *)
(*     WriteLeaf(c)       PrimitiveWriter::write_{extant,i32,..,text,blob} *)
(*     BeginRecord        StructuralWriter::record                         *)
(*     WriteAttr(n)       HeaderWriter::write_attr                         *)
(*     CompleteHeader(k)  HeaderWriter::complete_header(_, num_items = k)  *)
(*     WriteValue         BodyWriter::write_value                          *)
(*     WriteSlot          BodyWriter::write_slot  (key, then value)        *)
(*     Done               BodyWriter::done                                 *)
(* Exhaustive search visits every value with at most MaxNodes nodes,       *)
(* MaxDepth nesting, MaxAttrs attributes and MaxItems items per record;    *)
(* `-simulate` produces deep / large ones.  Every finished document is     *)
(* printed once (VALUE) for the harness to concretise and run.             *)
(* The typed cases (type catalogue of the harness x symbol vectors) and    *)
(* the deep chains are printed from the initial state.                     *)
(***************************************************************************)
EXTENDS Recon, Json

CONSTANTS LeafClasses,   \* subset of AllLeafClasses
          NameClasses,   \* subset of AllNameClasses
          MaxNodes, MaxDepth, MaxAttrs, MaxItems,
          MinNodes,      \* the root is only finished once it has this many nodes (1 = no restriction; > 1 steers
                         \* simulation walks towards large documents)
          TypedArity,    \* symbols enumerated per typed case
          TypedSyms      \* symbol values 0..TypedSyms-1

VARIABLES stack,     \* frames of the records under construction (innermost last)
          doc,       \* the finished document, or Nil
          size,      \* nodes created so far
          lastAct

vars == <<stack, doc, size, lastAct>>
View == <<stack, doc>>

ASSUME LeafClasses \subseteq AllLeafClasses /\ NameClasses \subseteq AllNameClasses

\* --- the typed catalogue: names understood by the harness, and how many symbols each consumes
TypeCatalogue ==
    <<[ty |-> "unit", ar |-> 0], [ty |-> "i32", ar |-> 1], [ty |-> "i64", ar |-> 1], [ty |-> "u32", ar |-> 1],
      [ty |-> "u64", ar |-> 1], [ty |-> "f64", ar |-> 1], [ty |-> "bool", ar |-> 1], [ty |-> "string", ar |-> 1],
      [ty |-> "text", ar |-> 1], [ty |-> "bytes", ar |-> 1], [ty |-> "blob", ar |-> 1], [ty |-> "bigint", ar |-> 1],
      [ty |-> "biguint", ar |-> 1], [ty |-> "opt_i32", ar |-> 2], [ty |-> "opt_string", ar |-> 2],
      [ty |-> "vec_i32", ar |-> 4], [ty |-> "vec_string", ar |-> 4], [ty |-> "vec_f64", ar |-> 4],
      [ty |-> "vec_vec_i32", ar |-> 5], [ty |-> "vec_opt_i32", ar |-> 5], [ty |-> "map_string_i32", ar |-> 5],
      [ty |-> "map_i32_string", ar |-> 5], [ty |-> "hashmap_i32_vec", ar |-> 5], [ty |-> "value", ar |-> 2],
      [ty |-> "s_unit", ar |-> 0], [ty |-> "s_point", ar |-> 2], [ty |-> "s_person", ar |-> 6],
      [ty |-> "s_wrapper", ar |-> 3], [ty |-> "s_tup", ar |-> 3], [ty |-> "s_newtype", ar |-> 1],
      [ty |-> "s_generic", ar |-> 4], [ty |-> "e_shape", ar |-> 5]>>

Min(a, b) == IF a < b THEN a ELSE b
SymVectors(n) == [1..n -> 0..(TypedSyms - 1)]
TypedCases == UNION {{[ty |-> TypeCatalogue[j].ty, syms |-> s] : s \in SymVectors(Min(TypeCatalogue[j].ar, TypedArity))}
                     : j \in 1..Len(TypeCatalogue)}

\* --- deep nestings (depth 64 and beyond the parser's first buffer) as parametrised shapes
ChainKinds  == {"item", "only", "attr", "attri", "sval", "skey", "mixed"}
ChainDepths == {2, 8, 33, 64}
Chains == {[t |-> "chain", via |-> v, depth |-> d, leaf |-> Leaf(c)] : v \in ChainKinds, d \in ChainDepths, c \in LeafClasses}

Init == /\ stack = <<>> /\ doc = Nil /\ size = 0
        /\ lastAct = [k |-> "init"]

Budget(extra) == size + Owed(stack, doc) + extra <= MaxNodes

\* deliver a finished value v to whoever waits for it
Deliver(stk, v) == IF stk = <<>> THEN <<stk, v>> ELSE <<SetTop(stk, Accept(Top(stk), v)), Nil>>

WriteLeaf(c) ==
    /\ Expecting(stack, doc)
    /\ stack # <<>> \/ MinNodes <= 1
    /\ LET d == Deliver(stack, Leaf(c)) IN stack' = d[1] /\ doc' = d[2]
    /\ size' = size + 1
    /\ lastAct' = [k |-> "leaf", c |-> c]

BeginRecord ==
    /\ Expecting(stack, doc)
    /\ Len(stack) < MaxDepth
    /\ stack' = Append(stack, NewFrame)
    /\ size' = size + 1
    /\ UNCHANGED doc
    /\ lastAct' = [k |-> "record"]

WriteAttr(n) ==
    /\ stack # <<>>
    /\ LET f == Top(stack) IN
       /\ f.hdr /\ f.exp = "open" /\ Len(f.attrs) < MaxAttrs
       /\ Budget(1)
       /\ stack' = SetTop(stack, [f EXCEPT !.exp = "attr", !.nm = n])
    /\ UNCHANGED <<doc, size>>
    /\ lastAct' = [k |-> "attr", n |-> n]

CompleteHeader(k) ==
    /\ stack # <<>>
    /\ LET f == Top(stack) IN
       /\ f.hdr /\ f.exp = "open"
       /\ Budget(k)
       /\ stack' = SetTop(stack, [f EXCEPT !.hdr = FALSE, !.decl = k])
    /\ UNCHANGED <<doc, size>>
    /\ lastAct' = [k |-> "header", items |-> k]

WriteValue ==
    /\ stack # <<>>
    /\ LET f == Top(stack) IN
       /\ ~f.hdr /\ f.exp = "open" /\ Len(f.items) < f.decl
       /\ stack' = SetTop(stack, [f EXCEPT !.exp = "item"])
    /\ UNCHANGED <<doc, size>>
    /\ lastAct' = [k |-> "value"]

WriteSlot ==
    /\ stack # <<>>
    /\ LET f == Top(stack) IN
       /\ ~f.hdr /\ f.exp = "open" /\ Len(f.items) < f.decl
       /\ Budget(1)
       /\ stack' = SetTop(stack, [f EXCEPT !.exp = "key"])
    /\ UNCHANGED <<doc, size>>
    /\ lastAct' = [k |-> "slot"]

Done ==
    /\ stack # <<>>
    /\ LET f == Top(stack) IN
       /\ ~f.hdr /\ f.exp = "open" /\ Len(f.items) = f.decl
       /\ Len(stack) > 1 \/ size >= MinNodes
       /\ LET d == Deliver(Pop(stack), Rec(f.attrs, f.items)) IN stack' = d[1] /\ doc' = d[2]
    /\ UNCHANGED size
    /\ lastAct' = [k |-> "done"]

Next == \/ \E c \in LeafClasses : WriteLeaf(c)
        \/ BeginRecord
        \/ \E n \in NameClasses : WriteAttr(n)
        \/ \E k \in 0..MaxItems : CompleteHeader(k)
        \/ WriteValue
        \/ WriteSlot
        \/ Done

Spec == Init /\ [][Next]_vars

\* ---- invariants of the protocol model (sanity: the generator never leaves the data model)
TypeOK ==
    /\ size <= MaxNodes
    /\ Len(stack) <= MaxDepth
    /\ \A j \in 1..Len(stack) :
          /\ Len(stack[j].attrs) <= MaxAttrs
          /\ Len(stack[j].items) <= MaxItems
          /\ stack[j].exp \in {"open", "attr", "item", "key", "val"}
          /\ (j < Len(stack)) => stack[j].exp # "open"      \* an inner frame is always somebody's pending value
    /\ (doc # Nil) => stack = <<>>

\* everything that was promised can still be delivered within the node budget
Completable == size + Owed(stack, doc) <= MaxNodes

\* ---- dumps
EmitValue == (doc # Nil) => PrintT(<<"VALUE", ToJson(doc)>>)
EmitStatic == (lastAct.k = "init") =>
                 /\ \A c \in TypedCases : PrintT(<<"TYPED", ToJson(c)>>)
                 /\ \A c \in Chains : PrintT(<<"VALUE", ToJson(c)>>)
=============================================================================

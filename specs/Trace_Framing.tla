---------------------------- MODULE Trace_Framing ----------------------------
(***************************************************************************)
(* C10 - validation of executions recorded from the real tokio_util        *)
(* Encoder / Decoder pairs (harness/h_core/src/bin/framing.rs) against      *)
(*   P : the property (what any correct decoder may do), and                *)
(*   M : the mechanism of Framing.tla (what these decoders do: the atoms    *)
(*       of the frame layouts are their commit points).                     *)
(* Only a P rejection is a violation; an execution that P accepts but that  *)
(* is not a behaviour of M is reported as DRIFT (a note).                   *)
(*                                                                         *)
(* The trace (ndjson) is a concatenation of runs.  A run is                 *)
(*   {"k":"reset","id":s,"ends":[e1..eN],"atoms":[[[n,s,need]..]..],        *)
(*    "bad":f,"bk":"ok"|"tag"|"len","at":a}                                  *)
(*        one encoded stream of N frames ending at offsets e1 < .. < eN     *)
(*        (measured on the output of the real encoder), their layouts, and  *)
(*        which frame (0 = none) had its tag / a length field overwritten   *)
(*   {"k":"r","n":n}                 the reader delivers the next n bytes   *)
(*   {"k":"d","r":res,"c":c,"m":m}   Decoder::decode was called: res is     *)
(*        "none" | "some" | "err" | "panic" | "hang" | "abort", c the bytes *)
(*        it consumed, m the index of the encoded message the decoded one   *)
(*        is equal to (0 = equal to none of them at that position)          *)
(*   {"k":"e","r":res,"c":c,"m":m}   Decoder::decode_eof, same fields       *)
(* A rejected run is reported (REJECT line with the reason) and skipped;    *)
(* the next reset starts afresh, so one TLC run validates many executions.  *)
(***************************************************************************)
EXTENDS Integers, Sequences, TLC, Json, IOUtils, FramingCore

Rec == ndJsonDeserialize(IOEnv.TRACE)

VARIABLES i,          \* next event
          r0,         \* index of the reset event of the current run
          st,         \* "run" | "dead" (the decoder answered Err: no further call) | "skip" (rejected)
          delivered, consumed, emitted,     \* P: what the statement talks about
          errd,       \* P: the decoder has answered Err in this run
          fi, ai, ao, mok, msync            \* M: decoder position; still a behaviour of M; not desynchronised

vars == <<i, r0, st, delivered, consumed, emitted, errd, fi, ai, ao, mok, msync>>

Has(e, f) == f \in DOMAIN e
Max(a, b) == IF a > b THEN a ELSE b

R == Rec[r0]
NFrames == Len(R.ends)
EndAt(k) == IF k = 0 THEN 0 ELSE IF k > NFrames THEN R.ends[NFrames] ELSE R.ends[k]
TotalLen == EndAt(NFrames)
\* frames before the corrupted one (all of them if none is corrupted) must be decoded exactly
NClean == IF R.bad = 0 THEN NFrames ELSE R.bad - 1

Atoms(f) == LET a == R.atoms[f] IN [j \in 1..Len(a) |-> [n |-> a[j][1], s |-> a[j][2] = 1, need |-> a[j][3]]]

TraceInit == /\ i = 1 /\ r0 = 1 /\ st = "skip"
             /\ delivered = 0 /\ consumed = 0 /\ emitted = 0 /\ errd = FALSE
             /\ fi = 1 /\ ai = 1 /\ ao = 0 /\ mok = TRUE /\ msync = TRUE
             /\ TLCSet(1, 0) /\ TLCSet(2, 0) /\ TLCSet(3, 0) /\ TLCSet(4, 0)

-----------------------------------------------------------------------------
(* P.  Verdict(e) = "ok" or the clause of the statement the call violates.  *)

Verdict(e) ==
    LET c   == e.c
        con == consumed + c
        em  == IF e.r = "some" THEN emitted + 1 ELSE emitted
    IN
    \* "... an error rather than a panic, a hang ..." - and never on a well formed stream either
    IF e.r \in {"panic", "hang", "abort"} THEN "the call did not return: " \o e.r
    ELSE IF st = "dead" THEN "call after the decoder had failed"
    ELSE IF con > delivered THEN "consumed more than was delivered"
    ELSE IF c < 0 THEN "the buffer grew during the call"
    ELSE IF e.r = "err" THEN
        IF R.bad = 0 THEN "error on a well formed stream"
        ELSE IF emitted < NClean THEN "error while well formed frames were still undecoded"
        ELSE IF delivered <= EndAt(NClean) THEN "error although no byte of the corrupted frame had been delivered"
        ELSE "ok"
    ELSE IF e.r = "some" THEN
        IF em <= NClean THEN
             \* "decodes to exactly what was encoded", in order
             IF e.m # em THEN "message differs from the one encoded at this position"
             \* "a decoder never consumes bytes belonging to the next frame"
             ELSE IF con > EndAt(em) THEN "message emitted and bytes of the next frame consumed"
             ELSE "ok"
        ELSE IF R.bad = 0 THEN "more messages decoded than were encoded"
        \* "corrupt tags ... produce an error rather than ... a silently wrong message"
        ELSE IF R.bk = "tag" /\ em = R.bad THEN "a message was produced for a frame whose tag is not one of the codec"
        ELSE "ok"
    ELSE \* e.r = "none"
        \* never into the next frame while the current one is well formed
        IF emitted < NClean /\ con > EndAt(emitted + 1) THEN "consumed bytes of the next frame"
        \* "for any way the byte stream is split between reads": the decoder asks for more although a
        \* complete well formed frame is buffered
        ELSE IF emitted < NClean /\ EndAt(emitted + 1) <= delivered
             THEN "None although the whole frame has been delivered (frame is never decoded unless more bytes arrive)"
        ELSE IF e.k = "e" /\ R.bad = 0 /\ (emitted # NFrames \/ con # TotalLen)
             THEN "end of stream reached with undecoded bytes"
        ELSE IF e.k = "e" /\ R.bk = "tag" /\ ~errd /\ emitted < R.bad
             THEN "a frame whose tag is not one of the codec was silently dropped"
        ELSE "ok"

-----------------------------------------------------------------------------
(* M.  Is the call a step of Framing.tla from the tracked decoder position? *)

MStep(e) ==
    IF ~msync THEN [ok |-> TRUE, fi |-> fi, ai |-> ai, ao |-> ao, sync |-> FALSE]
    ELSE IF fi > NFrames THEN
        [ok |-> (e.r = "none" /\ e.c = 0), fi |-> fi, ai |-> ai, ao |-> ao, sync |-> TRUE]
    ELSE LET bad == IF R.bad = fi THEN R.bk ELSE "ok"
             r   == Run(Atoms(fi), ai, ao, delivered - consumed, 0, bad, R.at)
         IN
         IF r.r = "lost" THEN [ok |-> TRUE, fi |-> fi, ai |-> ai, ao |-> ao, sync |-> FALSE]
         ELSE IF r.r = "some" THEN
             [ok |-> (e.r = "some" /\ e.c = r.c), fi |-> fi + 1, ai |-> 1, ao |-> 0, sync |-> TRUE]
         ELSE IF r.r = "err" THEN
             [ok |-> (e.r = "err"), fi |-> fi, ai |-> ai, ao |-> ao, sync |-> TRUE]
         ELSE \* none: a streamed atom may have been consumed partially
             LET x == IF e.c >= r.c THEN e.c - r.c ELSE 0 IN
             [ok |-> (e.r = "none" /\ e.c >= r.c /\ (IF r.ux THEN x <= r.avs ELSE x = 0)),
              fi |-> fi, ai |-> r.ai, ao |-> r.ao + x, sync |-> TRUE]

-----------------------------------------------------------------------------
Reset(e) ==
    /\ r0' = i /\ st' = "run"
    /\ delivered' = 0 /\ consumed' = 0 /\ emitted' = 0 /\ errd' = FALSE
    /\ fi' = 1 /\ ai' = 1 /\ ao' = 0 /\ mok' = TRUE /\ msync' = TRUE
    /\ TLCSet(1, TLCGet(1) + 1)

Skip == UNCHANGED <<r0, st, delivered, consumed, emitted, errd, fi, ai, ao, mok, msync>>

ReadEv(e) ==
    /\ delivered' = delivered + e.n
    /\ UNCHANGED <<r0, st, consumed, emitted, errd, fi, ai, ao, mok, msync>>

Call(e) ==
    LET v == Verdict(e) IN
    IF v # "ok" THEN
        /\ PrintT(<<"REJECT", ToJson([ev |-> i, reset |-> r0, id |-> R.id, why |-> v])>>)
        /\ TLCSet(2, TLCGet(2) + 1)
        /\ st' = "skip"
        /\ UNCHANGED <<r0, delivered, consumed, emitted, errd, fi, ai, ao, mok, msync>>
    ELSE
        LET m == MStep(e) IN
        /\ consumed' = consumed + e.c
        /\ emitted' = IF e.r = "some" THEN emitted + 1 ELSE emitted
        /\ errd' = (errd \/ e.r = "err")
        /\ st' = IF e.r = "err" THEN "dead" ELSE "run"
        /\ IF mok /\ m.ok
             THEN fi' = m.fi /\ ai' = m.ai /\ ao' = m.ao /\ msync' = m.sync /\ mok' = TRUE
             ELSE /\ mok' = FALSE /\ UNCHANGED <<fi, ai, ao, msync>>
                  /\ (mok => /\ PrintT(<<"DRIFT", ToJson([ev |-> i, reset |-> r0, id |-> R.id])>>)
                             /\ TLCSet(3, TLCGet(3) + 1))
        /\ UNCHANGED <<r0, delivered>>

TraceNext ==
    /\ i <= Len(Rec)
    /\ LET e == Rec[i] IN
       IF e.k = "reset" THEN Reset(e)
       ELSE IF st = "skip" THEN Skip
       ELSE IF e.k = "r" THEN ReadEv(e)
       ELSE Call(e)
    /\ i' = i + 1
    /\ TLCSet(4, i)

TraceSpec == TraceInit /\ [][TraceNext]_vars

\* every event was processed; rejected runs have been printed
TraceAccepted ==
    LET done == TLCGet(4) IN
    /\ PrintT(<<"TRACE_RESULT", ToJson([accepted |-> (done = Len(Rec) /\ TLCGet(2) = 0), matched |-> done, total |-> Len(Rec),
                                        runs |-> TLCGet(1), rejected |-> TLCGet(2), drift |-> TLCGet(3), kf |-> <<>>])>>)
    /\ done = Len(Rec)
=============================================================================

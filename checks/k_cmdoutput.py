"""C14, configuration K (component level): agent-sent commands through `CommandOutput`
(runtime/swimos_runtime/src/agent/task/external_links/mod.rs).

B3  TLC checks specs/CommandOutput.tla (M: writer present/lent, writer buffer, per-target
    LaneBuffer{buffer, offset}, dirty list; append / write / replace_writer, composed as in
    external_links_task [TaskMode] and in any order [free mode]) against P = NoCoalesce
    (InOrderOnce, OnlyOverwritableSuperseded, NothingLost, QuiescentComplete, GotOnlyGrows,
    liveness Drains) up to 3 targets / 7 appends.  A negative control (ClearBatch = FALSE, the code
    before fix 1d26ec2) must make TLC find the F2 duplicate - P is not vacuous.
B1  the complete state graph at a smaller scope is dumped; a transition cover plus random walks,
    each extended by the model's drain steps, and TLC -simulate behaviours at the full scope are
    replayed on the real CommandOutput (harness h_runtime/cmdoutput: real encoder, real write
    future into a real byte channel of 8..64K bytes, real decoder); every call's result (write()
    returned a future?, writer at home?, the frames on the channel in order) is compared with M.
B2  EVERY recorded execution (conforming or not) is validated by TLC against the property monitor
    specs/Trace_CommandOutput.tla (laws L1-L4, knows nothing of the mechanism).  Verdict: P rejects
    => VIOLATION; differs from M but P accepts => MODEL-DRIFT note.

The same three bindings are applied to the supply-lane path: specs/SupplyUplink.tla (M: `Uplinks` for
one remote - supply branch of replace_and_pop re-queuing itself while has_data(), SupplyBackpressure
FIFO, special queue, a value lane sharing the queue and the single writer; P: InOrderOnce,
NoSkipWithinEpoch, NothingLost, QuiescentComplete, Drains), harness `cmdoutput supply` (real Uplinks,
real WriteTask futures into a real byte channel, RawResponseMessageDecoder), monitor
specs/Trace_SupplyUplink.tla.

Entry points: run_k(tier, out, wd) -> stats (adds states / transitions / traces_validated_against_impl to
`out`, details under out.cov["k_cmdoutput"], out.cov["k_supply"]); replay_k(replay_obj, wd, prop, path).
"""
import json, os, random
from vlib import core
from vlib import replay as rp

MEMBER, COMPONENT = "h_runtime", "cmdoutput"
INPUT_KEYS = {"k", "t", "n", "ow", "wr"}
M_INVS = ["TypeOK", "WriterPlace", "OffsetShape", "PendingIsDirty", "TaskLeavesNothing"]
P_INVS = ["InOrderOnce", "OnlyOverwritableSuperseded", "NothingLost", "QuiescentComplete"]
P_PROPS = ["GotOnlyGrows"]
CAPS = [8, 40, 300, 65536]
END_EXPECTED = {"fr": [], "idle": True}


def consts(nt, ma, task, clear=True):
    return dict(NT=nt, MaxAppends=ma, TaskMode=task, ClearBatch=clear)


def plan(tier):
    if tier == "quick":
        return dict(
            b3=[consts(3, 5, True), consts(2, 5, False)],
            dump=[consts(2, 4, True), consts(2, 3, False), consts(3, 3, True)],
            live=[consts(2, 3, True), consts(2, 3, False)],
            sim=[(consts(3, 7, True), 250), (consts(3, 7, False), 250)],
            walks=(300, 24), extend=3)
    return dict(
        b3=[consts(3, 7, True), consts(3, 6, False), consts(2, 7, False)],
        dump=[consts(2, 5, True), consts(2, 4, False), consts(3, 4, True), consts(3, 3, False)],
        live=[consts(2, 4, True), consts(2, 4, False), consts(3, 3, False)],
        sim=[(consts(3, 7, True), 3000), (consts(3, 7, False), 3000), (consts(3, 10, True), 1500)],
        walks=(3000, 40), extend=6)


# ----------------------------------------------------------------------------- graph helpers

def _index(g):
    if not hasattr(g, "_kidx"):
        g._kidx = {s: {core.canon(a): t for (a, t) in lst} for s, lst in g.succ.items()}
    return g._kidx


def end_node(g, acts):
    idx = _index(g)
    cur = g.inits[0]
    for a in acts:
        cur = idx[cur][core.canon(a)]
    return cur


def drain_steps(g, node, kinds=("connect", "complete", "write"), limit=60):
    """Follow the model from `node` with connect / complete / write steps until it is quiescent."""
    acts = []
    for _ in range(limit):
        nxt = g.succ.get(node, ())
        pick = None
        for want in kinds:
            for (a, t) in nxt:
                if a["k"] == want and not (want == "write" and not a.get("w")):
                    pick = (a, t)
                    break
            if pick:
                break
        if not pick:
            break
        acts.append(pick[0])
        node = pick[1]
    return acts


# ----------------------------------------------------------------------------- traces for P

def to_trace(case, result):
    ev = [{"k": "reset", "id": str(case["id"])}]
    if result.get("panic") is not None:
        ev.append({"k": "panic"})
        return ev
    obs = result.get("obs", [])
    for i, a in enumerate(case["acts"]):
        if i >= len(obs):
            break
        o = obs[i]
        if a["k"] == "append":
            ev.append({"k": "append", "t": a["t"], "n": a["n"], "ow": a["ow"]})
        if "fr" in o:
            e = {"k": "frames", "fr": o["fr"]}
            if o.get("trail"):
                e["trail"] = o["trail"]
            ev.append(e)
        if o.get("w") is False and o.get("hw") is True:
            ev.append({"k": "idle"})
    end = result.get("end")
    if end is not None:
        e = {"k": "frames", "fr": end.get("fr", [])}
        if end.get("trail"):
            e["trail"] = end["trail"]
        ev.append(e)
        ev.append({"k": "end", "idle": bool(end.get("idle"))})
    return ev


def to_trace_supply(case, result):
    """Trace_SupplyUplink events.  The value lane (ns + 1) is not C14's business: kind "v"."""
    vl = case["cfg"]["ns"] + 1

    def conv(fr):
        return [(["v"] + f[1:]) if (len(f) == 3 and f[0] == "e" and f[1] == vl) else f for f in fr]
    ev = [{"k": "reset", "id": str(case["id"])}]
    if result.get("panic") is not None:
        ev.append({"k": "panic"})
        return ev
    obs = result.get("obs", [])
    for i, a in enumerate(case["acts"]):
        if i >= len(obs):
            break
        o = obs[i]
        if a["k"] == "supply":
            ev.append({"k": "push", "l": a["l"], "n": a["n"]})
        elif a["k"] == "unlinked":
            ev.append({"k": "unlink", "l": a["l"]})
        if "fr" in o:
            e = {"k": "frames", "fr": conv(o["fr"])}
            if o.get("trail"):
                e["trail"] = o["trail"]
            ev.append(e)
        if a["k"] == "complete" and o.get("some") is False:
            ev.append({"k": "idle"})
    end = result.get("end")
    if end is not None:
        e = {"k": "frames", "fr": conv(end.get("fr", []))}
        if end.get("trail"):
            e["trail"] = end["trail"]
        ev.append(e)
        ev.append({"k": "end", "idle": bool(end.get("idle"))})
    return ev


class Comp:
    def __init__(self, name, trace_module, input_keys, to_trace, args, drain_kinds):
        self.name, self.trace_module, self.input_keys = name, trace_module, input_keys
        self.to_trace, self.args, self.drain_kinds = to_trace, args, drain_kinds


CMD = Comp("CommandOutput", "Trace_CommandOutput", INPUT_KEYS, to_trace, (), ("connect", "complete", "write"))
SUP = Comp("SupplyUplink", "Trace_SupplyUplink", {"k", "l", "n"}, to_trace_supply, ("supply",), ("complete",))


def p_validate_all(comp, cases, results, wd, tag, chunk=1500):
    """One TLC run per chunk over the concatenated traces.  Returns {case id: why} for the rejected."""
    rejected = {}
    n_events = 0
    for ci in range(0, len(cases), chunk):
        ev = []
        for c, r in zip(cases[ci:ci + chunk], results[ci:ci + chunk]):
            ev += comp.to_trace(c, r)
        n_events += len(ev)
        res = core.trace_validate(comp.trace_module, ev, os.path.join(wd, "tv_%s_%d" % (tag, ci)), timeout=900)
        if res.get("matched") != res.get("total"):
            raise core.ToolError("%s stopped at event %s of %s (%s)" % (
                comp.trace_module, res.get("matched"), res.get("total"), res.get("status")))
        for f in res.get("failed", []):
            rejected[f["id"]] = "%s (event %d of the concatenated trace)" % (f["why"], f["at"])
        if not res["accepted"] and not res.get("failed"):
            raise core.ToolError("%s rejected without a failure record: %s" % (comp.trace_module, res))
    return rejected, n_events


def diff_case(comp, case, result):
    """index of the first step whose observation differs from M (len(acts) = the epilogue), or None."""
    if result.get("panic") is not None:
        return 0
    d = rp.first_diff(case["acts"], result.get("obs", []), comp.input_keys)
    if d is not None:
        return d
    if result.get("end") != END_EXPECTED:
        return len(case["acts"])
    return None


def evaluate(comp, out, cases, results, wd, tag, what, st):
    rejected, n_ev = p_validate_all(comp, cases, results, wd, tag)
    st["p_events"] += n_ev
    for c, r in zip(cases, results):
        st["cases"] += 1
        st["steps"] += len(c["acts"])
        d = diff_case(comp, c, r)
        why = rejected.get(str(c["id"]))
        if why is not None:
            st["rejected"] += 1
            exp = c["acts"][d] if d is not None and d < len(c["acts"]) else (END_EXPECTED if d is not None else None)
            got = (r.get("obs", []) + [r.get("end")])[d] if d is not None and r.get("panic") is None and d < len(r.get("obs", [])) + 1 else None
            msg = "%s: case %s: P rejects the recorded execution: %s; first divergence from M at step %s: expected %s, real code gave %s%s" % (
                what, c["id"], why, d, json.dumps(exp), json.dumps(got),
                (" PANIC " + str(r.get("panic"))) if r.get("panic") else "")
            if st["rejected"] <= 10:
                out.violation(msg, {"component": comp.name, "case": c, "observed": r})
            continue
        if d is None:
            st["conform"] += 1
        else:
            st["drift"] += 1
            if st["drift"] <= 3:
                out.notes.append("MODEL-DRIFT %s: case %s step %s expected %s observed %s" % (
                    what, c["id"], d,
                    json.dumps(c["acts"][d]) if d < len(c["acts"]) else json.dumps(END_EXPECTED),
                    json.dumps((r.get("obs", []) + [r.get("end")])[d]) if d < len(r.get("obs", [])) + 1 else None))


def run_cases_safe(comp, cases, wd, tag, budget=None):
    """rp.run_cases, but a harness process killed by the code under test (abort on allocation failure,
    stack overflow, ...) is data, not a tool error: the batch is bisected down to the aborting case,
    which gets a {"panic": ...} result (P rejects it).  After 3 such cases the rest of the batch is skipped."""
    budget = budget if budget is not None else [3]
    if budget[0] <= 0:
        return [{"id": c["id"], "skipped": True} for c in cases]
    try:
        return rp.run_cases(MEMBER, COMPONENT, cases, wd, tag=tag, input_keys=comp.input_keys, args=comp.args)
    except core.ToolError as ex:
        if " exited " not in str(ex):
            raise
        if len(cases) == 1:
            budget[0] -= 1
            return [{"id": cases[0]["id"], "panic": "the harness process was killed while running this case (%s)" % str(ex).strip()[:160]}]
        h = len(cases) // 2
        return run_cases_safe(comp, cases[:h], wd, tag, budget) + run_cases_safe(comp, cases[h:], wd, tag, budget)


def mk_cases(paths, prefix, rng, extra_cfg=None):
    cases = []
    for i, p in enumerate(paths):
        cfg = {"cap": CAPS[rng.randrange(len(CAPS))], "seed": rng.randrange(8)}
        cfg.update(extra_cfg or {})
        cases.append({"id": "%s.%d" % (prefix, i), "cfg": cfg, "acts": p})
    return cases


def interesting_cmd(acts):
    """a behaviour that exercises the multi-target batch after the writer has been lent before."""
    completes = [a for a in acts if a["k"] == "complete"]
    return len(completes) >= 2 and any(len({f[0] for f in a["fr"]}) >= 2 for a in completes[1:])


def interesting_sup(acts):
    """a behaviour in which a supply uplink re-queues itself (>= 2 items of one lane drained back to back)
    or items are discarded by an unlink while the writer is lent."""
    pend = {}
    for a in acts:
        if a["k"] == "supply" and not a.get("some"):
            pend[a["l"]] = pend.get(a["l"], 0) + 1
            if pend[a["l"]] >= 2:
                return True
        elif a["k"] == "complete":
            for f in a["fr"]:
                if f[0] == "e" and pend.get(f[1]):
                    pend[f[1]] -= 1
    return False


# ----------------------------------------------------------------------------- the check

class Run:
    """TLC runs + replay for one component specification."""

    def __init__(self, comp, module, m_invs, p_invs, p_props, out, wd, rng, interesting, extra_cfg):
        self.comp, self.module, self.m_invs, self.p_invs, self.p_props = comp, module, m_invs, p_invs, p_props
        self.out, self.wd, self.rng, self.interesting, self.extra_cfg = out, wd, rng, interesting, extra_cfg
        self.st = dict(cases=0, steps=0, conform=0, drift=0, rejected=0, p_events=0)
        self.tot = dict(states=0, transitions=0)
        self.cov = {}
        self.tlc_runs = []
        self.n_interesting = 0
        self.tag = comp.name[:3].lower()

    def add_cov(self, r):
        for a, (d, t) in r.coverage.items():
            if a in ("EdgeDump", "Action"):
                continue
            o = self.cov.get(a, (0, 0))
            self.cov[a] = (o[0] + d, o[1] + t)

    def b3(self, i, k):
        c = core.cfg(constants=k, invariants=self.m_invs + self.p_invs, properties=self.p_props, view="View")
        r = core.run_tlc("MC_" + self.module, c, os.path.join(self.wd, "%s_b3_%d" % (self.tag, i)), workers=4, timeout=1500, xmx="6g")
        if not r.ok:
            raise core.ToolError("M violates P in TLC (%s %s) for %s %s - the model says the design is broken; reproduce on "
                                 "the real code before calling it a violation:\n%s" % (r.status, r.violated, self.module, k, r.counterexample[:3000]))
        self.add_cov(r)
        self.tot["states"] += r.distinct
        self.tot["transitions"] += r.generated
        self.tlc_runs.append({"spec": self.module, "cfg": k, "distinct": r.distinct, "generated": r.generated, "depth": r.depth,
                              "wall_s": round(r.wall, 1)})
        core.log("[KCMD] %s B3 %s: %d distinct states, %d transitions, depth %d, %.1fs" % (
            self.module, k, r.distinct, r.generated, r.depth, r.wall))

    def live(self, i, k):
        c = core.cfg(spec="FairSpec", constants=k, properties=["Drains"])
        r = core.run_tlc("MC_" + self.module, c, os.path.join(self.wd, "%s_live_%d" % (self.tag, i)), workers=2, timeout=900)
        if not r.ok:
            raise core.ToolError("M violates the liveness property Drains (%s) for %s %s:\n%s" % (r.status, self.module, k, r.counterexample[:3000]))
        self.tlc_runs.append({"spec": self.module, "cfg": k, "property": "Drains", "distinct": r.distinct, "wall_s": round(r.wall, 1)})
        core.log("[KCMD] %s liveness Drains %s: %d distinct states, %.1fs" % (self.module, k, r.distinct, r.wall))

    def replay_paths(self, paths, prefix, what, k):
        self.n_interesting += sum(1 for p in paths if self.interesting(p))
        cases = mk_cases(paths, prefix, self.rng, self.extra_cfg(k))
        results = run_cases_safe(self.comp, cases, self.wd, prefix)
        keep = [j for j, r_ in enumerate(results) if not r_.get("skipped")]
        cases, results = [cases[j] for j in keep], [results[j] for j in keep]
        before = dict(self.st)
        evaluate(self.comp, self.out, cases, results, self.wd, prefix, what, self.st)
        return len(cases), tuple(self.st[x] - before[x] for x in ("conform", "drift", "rejected"))

    def dump(self, i, k, walks, extend):
        c = core.cfg(constants=k, invariants=self.m_invs + self.p_invs + ["InitDump"], view="View", action_constraints=["EdgeDump"])
        r = core.run_tlc("MC_" + self.module, c, os.path.join(self.wd, "%s_dump_%d" % (self.tag, i)), workers=1, timeout=1500, xmx="6g")
        if not r.ok:
            raise core.ToolError("M violates P in TLC (%s %s) for %s %s:\n%s" % (r.status, r.violated, self.module, k, r.counterexample[:3000]))
        g = core.Graph(r.tagged["EDGE"], init_views=r.tagged["INIT"])
        self.add_cov(r)
        self.tot["states"] += r.distinct
        self.tot["transitions"] += g.n_edges
        paths = g.covering_paths(extend=extend, rng=self.rng)
        paths += g.random_walks(walks[0], walks[1], self.rng)
        paths = [p + drain_steps(g, end_node(g, p), self.comp.drain_kinds) for p in paths]
        n, (cf, dr, rj) = self.replay_paths(paths, "%sg%d" % (self.tag, i), "%s%s" % (self.module, json.dumps(k)), k)
        self.tlc_runs.append({"spec": self.module, "cfg": k, "graph": True, "distinct": r.distinct, "edges": g.n_edges, "wall_s": round(r.wall, 1)})
        core.log("[KCMD] %s graph %s: %d states %d edges; %d paths: conform=%d drift=%d rejected=%d" % (
            self.module, k, r.distinct, g.n_edges, n, cf, dr, rj))
        if i == 0 and paths:
            best = max(paths, key=lambda p: (self.interesting(p), -abs(len(p) - 12)))
            self.out.sample({"component": self.module, "cfg": k, "calls_with_expected_results": best[:16]})

    def sim(self, i, k, num):
        c = core.cfg(init="SimInit", next_="SimNext", constants=k, invariants=self.p_invs + ["HistDump"])
        r = core.run_tlc("Sim_" + self.module, c, os.path.join(self.wd, "%s_sim_%d" % (self.tag, i)), workers=1, timeout=1500,
                         simulate="num=%d" % num, extra=["-depth", "100", "-seed", str(core.seed() + i)], coverage=False)
        if not r.ok:
            raise core.ToolError("simulation of M violates P (%s %s) for %s %s:\n%s" % (r.status, r.violated, self.module, k, r.counterexample[:3000]))
        seen, paths = set(), []
        for h in r.tagged["REPLAY"]:
            key = core.canon(h)
            if key not in seen:
                seen.add(key)
                paths.append(h)
        n, (cf, dr, rj) = self.replay_paths(paths, "%ss%d" % (self.tag, i), "%s(sim)%s" % (self.module, json.dumps(k)), k)
        core.log("[KCMD] %s simulate %s: %d distinct complete behaviours: conform=%d drift=%d rejected=%d" % (
            self.module, k, n, cf, dr, rj))
        if i == 0 and paths:
            self.out.sample({"component": self.module, "cfg": k, "simulated_behaviour": max(paths, key=self.interesting)[:20]})

    def stats(self):
        never = sorted(a for a, (d, t) in self.cov.items() if t == 0)
        if never:
            raise core.ToolError("actions of %s.tla never taken (vacuous model): %s" % (self.module, never))
        st = self.st
        return dict(states=self.tot["states"], transitions=self.tot["transitions"],
                    traces_validated_against_impl=st["conform"] + st["drift"],
                    replayed_cases=st["cases"], replayed_calls=st["steps"], model_drift=st["drift"], rejected=st["rejected"],
                    p_trace_events_validated=st["p_events"], interesting_cases=self.n_interesting,
                    action_coverage={a: {"distinct": d, "taken": t} for a, (d, t) in sorted(self.cov.items())},
                    actions_never_taken=never, tlc_runs=self.tlc_runs)


SUP_M_INVS = ["TypeOK", "WriterPlace", "HomeMeansEmpty", "QueuedIfData"]
SUP_P_INVS = ["InOrderOnce", "NoSkipWithinEpoch", "NothingLost", "QuiescentComplete"]


def sconsts(ns, push, spec, sync, val):
    return dict(NS=ns, MaxPush=push, MaxSpec=spec, MaxSync=sync, MaxVal=val)


def plan_supply(tier):
    if tier == "quick":
        return dict(b3=[sconsts(2, 3, 3, 1, 1), sconsts(1, 4, 3, 1, 2)],
                    dump=[sconsts(2, 2, 2, 1, 1), sconsts(1, 3, 3, 1, 1)],
                    live=[sconsts(1, 3, 2, 1, 1)],
                    sim=[(sconsts(2, 8, 6, 2, 3), 500)],
                    walks=(200, 24), extend=3)
    return dict(b3=[sconsts(2, 4, 4, 1, 2), sconsts(2, 5, 3, 1, 1), sconsts(1, 6, 4, 2, 2)],
                dump=[sconsts(2, 3, 3, 1, 1), sconsts(1, 4, 3, 1, 2), sconsts(2, 2, 4, 1, 0)],
                live=[sconsts(2, 2, 3, 1, 1), sconsts(1, 4, 3, 1, 1)],
                sim=[(sconsts(2, 8, 6, 2, 3), 3000), (sconsts(3, 12, 8, 3, 4), 2000)],
                walks=(2000, 40), extend=6)


def run_k(tier, out, wd, prop="C14"):
    rng = random.Random(core.seed() * 7919 + 14)
    os.makedirs(wd, exist_ok=True)
    core.build_harness(MEMBER, COMPONENT)

    # ======== agent-sent commands: CommandOutput
    pl = plan(tier)
    rc = Run(CMD, "CommandOutput", M_INVS, P_INVS, P_PROPS, out, wd, rng, interesting_cmd, lambda k: {})
    for i, k in enumerate(pl["b3"]):
        rc.b3(i, k)
    # negative control: the code before the fix must violate P in the model (P is not vacuous)
    k = consts(2, 3, True, clear=False)
    r = core.run_tlc("MC_CommandOutput", core.cfg(constants=k, invariants=M_INVS + P_INVS, view="View"),
                     os.path.join(wd, "neg"), workers=1, timeout=300)
    if r.ok or r.violated != "InOrderOnce":
        raise core.ToolError("negative control: with ClearBatch = FALSE (pre-fix code) TLC must report InOrderOnce; got %s %s" % (r.status, r.violated))
    core.log("[KCMD] negative control: ClearBatch=FALSE -> TLC reports %s (F2 duplicate) as expected" % r.violated)
    for i, k in enumerate(pl["live"]):
        rc.live(i, k)
    for i, k in enumerate(pl["dump"]):
        rc.dump(i, k, pl["walks"], pl["extend"])
    for i, (k, num) in enumerate(pl["sim"]):
        rc.sim(i, k, num)
    cstats = rc.stats()
    cstats["checker_cmd"] = ("tlc MC_CommandOutput (INVARIANTS %s; PROPERTIES %s; FairSpec |= Drains) + tlc -simulate Sim_CommandOutput + "
                             "h_runtime cmdoutput + tlc Trace_CommandOutput" % (" ".join(M_INVS + P_INVS), " ".join(P_PROPS)))

    # ======== supply lanes: Uplinks (supply branch) + SupplyBackpressure
    ps = plan_supply(tier)
    rs = Run(SUP, "SupplyUplink", SUP_M_INVS, SUP_P_INVS, P_PROPS, out, wd, rng, interesting_sup, lambda k: {"ns": k["NS"]})
    for i, k in enumerate(ps["b3"]):
        rs.b3(i, k)
    for i, k in enumerate(ps["live"]):
        rs.live(i, k)
    for i, k in enumerate(ps["dump"]):
        rs.dump(i, k, ps["walks"], ps["extend"])
    for i, (k, num) in enumerate(ps["sim"]):
        rs.sim(i, k, num)
    sstats = rs.stats()
    sstats["checker_cmd"] = ("tlc MC_SupplyUplink (INVARIANTS %s; PROPERTIES %s; FairSpec |= Drains) + tlc -simulate Sim_SupplyUplink + "
                             "h_runtime cmdoutput supply + tlc Trace_SupplyUplink" % (" ".join(SUP_M_INVS + SUP_P_INVS), " ".join(P_PROPS)))

    ints = ("states", "transitions", "traces_validated_against_impl")
    stats = {x: cstats[x] + sstats[x] for x in ints}
    stats["command_output"] = {k_: v for k_, v in cstats.items()}
    stats["supply_uplink"] = {k_: v for k_, v in sstats.items()}
    out.add(**{x: stats[x] for x in ints})
    out.add(k_cmdoutput=stats["command_output"], k_supply=stats["supply_uplink"])
    out.assumptions += [
        "CommandOutput: one target endpoint (one CommandOutput); the id map / lane-buffer map are abstracted to a total function over targets",
        "CommandOutput / Uplinks: the write future owns the writer and its buffer, so a write is atomic with respect to the component's "
        "state; its progress against a full channel is exercised by the harness (8..64K byte channels) but not modelled",
        "CommandOutput: failure of the channel (write error, connection never established / into_pending) is outside the property and not modelled",
        "Uplinks (supply): one remote; the driver pushes supply items / synced only for lanes it has pushed Linked for (what Links guarantees); "
        "items pending for a lane when Unlinked is queued for it may be discarded (the remote is no longer linked)",
    ]
    return stats


# ----------------------------------------------------------------------------- replay of one file

def replay_k(obj, wd, prop="C14", path="?"):
    case = obj["case"]
    comp = SUP if obj.get("component") == SUP.name else CMD
    os.makedirs(wd, exist_ok=True)
    res = run_cases_safe(comp, [case], wd, "replay")[0]
    d = diff_case(comp, case, res)
    print("component:", comp.name)
    print("first divergence from M at step:", d)
    if d is not None and res.get("panic") is None:
        exp = case["acts"][d] if d < len(case["acts"]) else END_EXPECTED
        got = (res.get("obs", []) + [res.get("end")])[d]
        print("  expected:", json.dumps(exp))
        print("  observed:", json.dumps(got))
    if res.get("panic") is not None:
        print("  PANIC:", res["panic"])
    rejected, _ = p_validate_all(comp, [case], [res], wd, "replay")
    why = rejected.get(str(case["id"]))
    print("P verdict:", "REJECTED - " + why if why else "accepted")
    if why:
        print("VIOLATION property=%s replay=%s" % (prop, path))
        return 1
    return 0

"""C14, configuration K (component level): agent-sent commands through `CommandOutput`
(runtime/swimos_runtime/src/agent/task/external_links/mod.rs).

B3  TLC checks specs/CommandOutput.tla (M: writer present/lent, writer buffer, per-target
    LaneBuffer{buffer, offset}, dirty list; append / write / replace_writer, composed as in
    external_links_task [TaskMode] and in any order [free mode]) against P = NoCoalesce
    (InOrderOnce, OnlyOverwritableSuperseded, NothingLost, QuiescentComplete, GotOnlyGrows,
    liveness Drains) up to 3 targets / 7 appends.  A negative control (ClearBatch = FALSE, the code
    before fix 1d26ec2) must make TLC find the F2 duplicate - P is not vacuous.
B1  the complete state graph at a smaller scope is dumped; a transition cover plus random walks,
    each extended by the model's drain steps, and TLC -simulate behaviours at the full scope are
    replayed on the real CommandOutput (harness h_runtime/cmdoutput: real encoder, real write
    future into a real byte channel of 8..64K bytes, real decoder); every call's result (write()
    returned a future?, writer at home?, the frames on the channel in order) is compared with M.
B2  EVERY recorded execution (conforming or not) is validated by TLC against the property monitor
    specs/Trace_CommandOutput.tla (laws L1-L4, knows nothing of the mechanism).  Verdict: P rejects
    => VIOLATION; differs from M but P accepts => MODEL-DRIFT note.
"""
import json, os, random
from vlib import core
from vlib import replay as rp

MEMBER, COMPONENT = "h_runtime", "cmdoutput"
INPUT_KEYS = {"k", "t", "n", "ow", "wr"}
M_INVS = ["TypeOK", "WriterPlace", "OffsetShape", "PendingIsDirty", "TaskLeavesNothing"]
P_INVS = ["InOrderOnce", "OnlyOverwritableSuperseded", "NothingLost", "QuiescentComplete"]
P_PROPS = ["GotOnlyGrows"]
CAPS = [8, 40, 300, 65536]
END_EXPECTED = {"fr": [], "idle": True}


def consts(nt, ma, task, clear=True):
    return dict(NT=nt, MaxAppends=ma, TaskMode=task, ClearBatch=clear)


def plan(tier):
    if tier == "quick":
        return dict(
            b3=[consts(3, 5, True), consts(3, 5, False), consts(2, 6, True)],
            dump=[consts(2, 4, True), consts(2, 3, False), consts(3, 3, True)],
            live=[consts(2, 3, True), consts(2, 3, False)],
            sim=[(consts(3, 7, True), 250), (consts(3, 7, False), 250)],
            walks=(300, 24), extend=3)
    return dict(
        b3=[consts(3, 7, True), consts(3, 7, False), consts(2, 8, True)],
        dump=[consts(2, 5, True), consts(2, 4, False), consts(3, 4, True), consts(3, 3, False)],
        live=[consts(2, 4, True), consts(2, 4, False), consts(3, 3, False)],
        sim=[(consts(3, 7, True), 3000), (consts(3, 7, False), 3000), (consts(3, 10, True), 1500)],
        walks=(3000, 40), extend=6)


# ----------------------------------------------------------------------------- graph helpers

def _index(g):
    if not hasattr(g, "_kidx"):
        g._kidx = {s: {core.canon(a): t for (a, t) in lst} for s, lst in g.succ.items()}
    return g._kidx


def end_node(g, acts):
    idx = _index(g)
    cur = g.inits[0]
    for a in acts:
        cur = idx[cur][core.canon(a)]
    return cur


def drain_steps(g, node, limit=40):
    """Follow the model from `node` with connect / complete / write steps until it is quiescent."""
    acts = []
    for _ in range(limit):
        nxt = g.succ.get(node, ())
        pick = None
        for want in ("connect", "complete", "write"):
            for (a, t) in nxt:
                if a["k"] == want and not (want == "write" and not a.get("w")):
                    pick = (a, t)
                    break
            if pick:
                break
        if not pick:
            break
        acts.append(pick[0])
        node = pick[1]
    return acts


# ----------------------------------------------------------------------------- traces for P

def to_trace(case, result):
    ev = [{"k": "reset", "id": str(case["id"])}]
    if result.get("panic") is not None:
        ev.append({"k": "panic"})
        return ev
    obs = result.get("obs", [])
    for i, a in enumerate(case["acts"]):
        if i >= len(obs):
            break
        o = obs[i]
        if a["k"] == "append":
            ev.append({"k": "append", "t": a["t"], "n": a["n"], "ow": a["ow"]})
        if "fr" in o:
            e = {"k": "frames", "fr": o["fr"]}
            if o.get("trail"):
                e["trail"] = o["trail"]
            ev.append(e)
        if o.get("w") is False and o.get("hw") is True:
            ev.append({"k": "idle"})
    end = result.get("end")
    if end is not None:
        e = {"k": "frames", "fr": end.get("fr", [])}
        if end.get("trail"):
            e["trail"] = end["trail"]
        ev.append(e)
        ev.append({"k": "end", "idle": bool(end.get("idle"))})
    return ev


def p_validate_all(cases, results, wd, tag, chunk=1500):
    """One TLC run per chunk over the concatenated traces.  Returns {case id: why} for the rejected."""
    rejected = {}
    n_events = 0
    for ci in range(0, len(cases), chunk):
        ev = []
        for c, r in zip(cases[ci:ci + chunk], results[ci:ci + chunk]):
            ev += to_trace(c, r)
        n_events += len(ev)
        res = core.trace_validate("Trace_CommandOutput", ev, os.path.join(wd, "tv_%s_%d" % (tag, ci)), timeout=900)
        if res.get("matched") != res.get("total"):
            raise core.ToolError("Trace_CommandOutput stopped at event %s of %s (%s)" % (
                res.get("matched"), res.get("total"), res.get("status")))
        for f in res.get("failed", []):
            rejected[f["id"]] = "%s (event %d of the concatenated trace)" % (f["why"], f["at"])
        if not res["accepted"] and not res.get("failed"):
            raise core.ToolError("Trace_CommandOutput rejected without a failure record: %s" % res)
    return rejected, n_events


def diff_case(case, result):
    """index of the first step whose observation differs from M (len(acts) = the epilogue), or None."""
    if result.get("panic") is not None:
        return 0
    d = rp.first_diff(case["acts"], result.get("obs", []), INPUT_KEYS)
    if d is not None:
        return d
    if result.get("end") != END_EXPECTED:
        return len(case["acts"])
    return None


def evaluate(out, cases, results, wd, tag, what, st):
    rejected, n_ev = p_validate_all(cases, results, wd, tag)
    st["p_events"] += n_ev
    for c, r in zip(cases, results):
        st["cases"] += 1
        st["steps"] += len(c["acts"])
        d = diff_case(c, r)
        why = rejected.get(str(c["id"]))
        if why is not None:
            st["rejected"] += 1
            exp = c["acts"][d] if d is not None and d < len(c["acts"]) else (END_EXPECTED if d is not None else None)
            got = (r.get("obs", []) + [r.get("end")])[d] if d is not None and r.get("panic") is None and d < len(r.get("obs", [])) + 1 else None
            msg = "%s: case %s: P rejects the recorded execution: %s; first divergence from M at step %s: expected %s, real code gave %s%s" % (
                what, c["id"], why, d, json.dumps(exp), json.dumps(got),
                (" PANIC " + str(r.get("panic"))) if r.get("panic") else "")
            if st["rejected"] <= 10:
                out.violation(msg, {"component": "CommandOutput", "case": c, "observed": r})
            continue
        if d is None:
            st["conform"] += 1
        else:
            st["drift"] += 1
            if st["drift"] <= 3:
                out.notes.append("MODEL-DRIFT %s: case %s step %s expected %s observed %s" % (
                    what, c["id"], d,
                    json.dumps(c["acts"][d]) if d < len(c["acts"]) else json.dumps(END_EXPECTED),
                    json.dumps((r.get("obs", []) + [r.get("end")])[d]) if d < len(r.get("obs", [])) + 1 else None))


def mk_cases(paths, prefix, rng):
    cases = []
    for i, p in enumerate(paths):
        cases.append({"id": "%s.%d" % (prefix, i),
                      "cfg": {"cap": CAPS[rng.randrange(len(CAPS))], "seed": rng.randrange(8)},
                      "acts": p})
    return cases


def interesting(acts):
    """a behaviour that exercises the multi-target batch while the writer was lent before."""
    completes = [a for a in acts if a["k"] == "complete"]
    return len(completes) >= 2 and any(len({f[0] for f in a["fr"]}) >= 2 for a in completes[1:])


# ----------------------------------------------------------------------------- the check

def run_k(tier, out, wd, prop="C14"):
    rng = random.Random(core.seed() * 7919 + 14)
    os.makedirs(wd, exist_ok=True)
    core.build_harness(MEMBER, COMPONENT)
    pl = plan(tier)
    st = dict(cases=0, steps=0, conform=0, drift=0, rejected=0, p_events=0)
    tot = dict(states=0, transitions=0)
    cov = {}
    tlc_runs = []

    def add_cov(r):
        for a, (d, t) in r.coverage.items():
            o = cov.get(a, (0, 0))
            cov[a] = (o[0] + d, o[1] + t)

    # ---- B3: M |= P, exhaustively
    for i, k in enumerate(pl["b3"]):
        c = core.cfg(constants=k, invariants=M_INVS + P_INVS, properties=P_PROPS, view="View")
        r = core.run_tlc("MC_CommandOutput", c, os.path.join(wd, "b3_%d" % i), workers=4, timeout=1500, xmx="6g")
        if not r.ok:
            raise core.ToolError("M violates P in TLC (%s %s) for %s - the model says the design is broken; reproduce on the "
                                 "real code before calling it a violation:\n%s" % (r.status, r.violated, k, r.counterexample[:3000]))
        add_cov(r)
        tot["states"] += r.distinct
        tot["transitions"] += r.generated
        tlc_runs.append({"cfg": k, "distinct": r.distinct, "generated": r.generated, "depth": r.depth, "wall_s": round(r.wall, 1)})
        core.log("[KCMD] B3 %s: %d distinct states, %d transitions, depth %d, %.1fs" % (k, r.distinct, r.generated, r.depth, r.wall))

    # ---- negative control: the code before the fix must violate P in the model (P is not vacuous)
    k = consts(2, 3, True, clear=False)
    r = core.run_tlc("MC_CommandOutput", core.cfg(constants=k, invariants=M_INVS + P_INVS, view="View"),
                     os.path.join(wd, "neg"), workers=1, timeout=300)
    if r.ok or r.violated != "InOrderOnce":
        raise core.ToolError("negative control: with ClearBatch = FALSE (pre-fix code) TLC must report InOrderOnce; got %s %s" % (r.status, r.violated))
    core.log("[KCMD] negative control: ClearBatch=FALSE -> TLC reports %s (F2 duplicate) as expected" % r.violated)

    # ---- liveness at small scope: the component drains
    for i, k in enumerate(pl["live"]):
        c = core.cfg(spec="FairSpec", constants=k, properties=["Drains"])
        r = core.run_tlc("MC_CommandOutput", c, os.path.join(wd, "live_%d" % i), workers=2, timeout=900)
        if not r.ok:
            raise core.ToolError("M violates the liveness property Drains (%s) for %s:\n%s" % (r.status, k, r.counterexample[:3000]))
        tlc_runs.append({"cfg": k, "property": "Drains", "distinct": r.distinct, "wall_s": round(r.wall, 1)})
        core.log("[KCMD] liveness Drains %s: %d distinct states, %.1fs" % (k, r.distinct, r.wall))

    # ---- B1/B2: state-graph replay
    n_interesting = 0
    for i, k in enumerate(pl["dump"]):
        c = core.cfg(constants=k, invariants=M_INVS + P_INVS + ["InitDump"], view="View", action_constraints=["EdgeDump"])
        r = core.run_tlc("MC_CommandOutput", c, os.path.join(wd, "dump_%d" % i), workers=1, timeout=1500, xmx="6g")
        if not r.ok:
            raise core.ToolError("M violates P in TLC (%s %s) for %s:\n%s" % (r.status, r.violated, k, r.counterexample[:3000]))
        g = core.Graph(r.tagged["EDGE"], init_views=r.tagged["INIT"])
        add_cov(r)
        tot["states"] += r.distinct
        tot["transitions"] += g.n_edges
        paths = g.covering_paths(extend=pl["extend"], rng=rng)
        paths += g.random_walks(pl["walks"][0], pl["walks"][1], rng)
        paths = [p + drain_steps(g, end_node(g, p)) for p in paths]
        n_interesting += sum(1 for p in paths if interesting(p))
        cases = mk_cases(paths, "g%d" % i, rng)
        results = rp.run_cases(MEMBER, COMPONENT, cases, wd, tag="g%d" % i, input_keys=INPUT_KEYS)
        before = dict(st)
        evaluate(out, cases, results, wd, "g%d" % i, "CommandOutput%s" % json.dumps(k), st)
        tlc_runs.append({"cfg": k, "graph": True, "distinct": r.distinct, "edges": g.n_edges, "wall_s": round(r.wall, 1)})
        core.log("[KCMD] graph %s: %d states %d edges; %d paths: conform=%d drift=%d rejected=%d" % (
            k, r.distinct, g.n_edges, len(cases), st["conform"] - before["conform"], st["drift"] - before["drift"],
            st["rejected"] - before["rejected"]))
        if i == 0 and paths:
            best = max(paths, key=lambda p: (interesting(p), -abs(len(p) - 12)))
            out.sample({"component": "CommandOutput", "cfg": k, "calls_with_expected_results": best[:16]})

    # ---- B1/B2: simulated behaviours at the full scope
    for i, (k, num) in enumerate(pl["sim"]):
        c = core.cfg(init="SimInit", next_="SimNext", constants=k, invariants=P_INVS + ["HistDump"])
        r = core.run_tlc("Sim_CommandOutput", c, os.path.join(wd, "sim_%d" % i), workers=1, timeout=1500,
                         simulate="num=%d" % num, extra=["-depth", "80", "-seed", str(core.seed() + i)], coverage=False)
        if not r.ok:
            raise core.ToolError("simulation of M violates P (%s %s) for %s:\n%s" % (r.status, r.violated, k, r.counterexample[:3000]))
        seen, paths = set(), []
        for h in r.tagged["REPLAY"]:
            key = core.canon(h)
            if key not in seen:
                seen.add(key)
                paths.append(h)
        n_interesting += sum(1 for p in paths if interesting(p))
        cases = mk_cases(paths, "s%d" % i, rng)
        results = rp.run_cases(MEMBER, COMPONENT, cases, wd, tag="s%d" % i, input_keys=INPUT_KEYS)
        before = dict(st)
        evaluate(out, cases, results, wd, "s%d" % i, "CommandOutput(sim)%s" % json.dumps(k), st)
        core.log("[KCMD] simulate %s: %d distinct complete behaviours: conform=%d drift=%d rejected=%d" % (
            k, len(cases), st["conform"] - before["conform"], st["drift"] - before["drift"], st["rejected"] - before["rejected"]))
        if i == 0 and paths:
            out.sample({"component": "CommandOutput", "cfg": k, "simulated_behaviour": max(paths, key=interesting)[:20]})

    never = sorted(a for a, (d, t) in cov.items() if t == 0)
    stats = dict(
        states=tot["states"], transitions=tot["transitions"],
        traces_validated_against_impl=st["conform"] + st["drift"],
        replayed_cases=st["cases"], replayed_calls=st["steps"], model_drift=st["drift"], rejected=st["rejected"],
        p_trace_events_validated=st["p_events"], multi_target_batch_after_lent_writer_cases=n_interesting,
        action_coverage={a: {"distinct": d, "taken": t} for a, (d, t) in sorted(cov.items())},
        actions_never_taken=never, tlc_runs=tlc_runs,
        checker_cmd="tlc MC_CommandOutput (INVARIANTS %s; PROPERTIES %s; FairSpec |= Drains) + tlc -simulate Sim_CommandOutput + "
                    "h_runtime cmdoutput + tlc Trace_CommandOutput" % (" ".join(M_INVS + P_INVS), " ".join(P_PROPS)))
    if never:
        raise core.ToolError("actions of CommandOutput.tla never taken (vacuous model): %s" % never)
    out.add(states=stats["states"], transitions=stats["transitions"],
            traces_validated_against_impl=stats["traces_validated_against_impl"])
    out.add(k_cmdoutput={k_: v for k_, v in stats.items() if k_ not in ("states", "transitions", "traces_validated_against_impl")})
    out.assumptions += [
        "CommandOutput: one target endpoint (one CommandOutput); the id map / lane-buffer map are abstracted to a total function over targets",
        "CommandOutput: the write future owns the writer and its buffer, so a write is atomic with respect to the component's state; "
        "its progress against a full channel is exercised by the harness (8..64K byte channels) but not modelled",
        "CommandOutput: failure of the channel (write error, connection never established / into_pending) is outside the property and not modelled",
    ]
    return stats


# ----------------------------------------------------------------------------- replay of one file

def replay_k(obj, wd, prop="C14", path="?"):
    case = obj["case"]
    os.makedirs(wd, exist_ok=True)
    res = rp.run_cases(MEMBER, COMPONENT, [case], wd, tag="replay", input_keys=INPUT_KEYS)[0]
    d = diff_case(case, res)
    print("first divergence from M at step:", d)
    if d is not None and res.get("panic") is None:
        exp = case["acts"][d] if d < len(case["acts"]) else END_EXPECTED
        got = (res.get("obs", []) + [res.get("end")])[d]
        print("  expected:", json.dumps(exp))
        print("  observed:", json.dumps(got))
    if res.get("panic") is not None:
        print("  PANIC:", res["panic"])
    rejected, _ = p_validate_all([case], [res], wd, "replay")
    why = rejected.get(str(case["id"]))
    print("P verdict:", "REJECTED - " + why if why else "accepted")
    if why:
        print("VIOLATION property=%s replay=%s" % (prop, path))
        return 1
    return 0

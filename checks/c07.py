"""C07 - a shared downlink serves every consumer a complete, ordered session.

P  = specs/DownlinkSession.tla   (deterministic monitor over the observable events of one downlink
                                  connection; the only thing that can raise an alarm)
M  = specs/DownlinkRuntime.tla   (attach_task / read_task / write_task of runtime/swimos_runtime/src/
                                  downlink/mod.rs + backpressure, one action per real operation, with P
                                  composed in as a monitor)

B3: TLC checks M |= P (invariant PropertyHolds + M sanity invariants) for value and map downlinks,
    environment bursts included (several environment actions before the runtime is polled).
B1: TLC enumerates EVERY environment script up to a bound (exhaustive) and simulates longer ones
    (consumer attach times x options x remote notifications x command streams x socket capacities x
    drops x stop/unlink); each script carries the outputs M expects after every action.  The scripts
    are run on the REAL {Value,Map}DownlinkRuntime (harness h_runtime/dlruntime, paused single-threaded
    tokio, scripted remote lane and consumers) and compared step by step.
    Scripts include malformed event bodies at any point of a session under both BadFrameStrategy configurations the
    callers use (ReportStrategy(AlwaysAbort | AlwaysIgnore).boxed(); map-event downlinks with NoInterpretation), consumers
    writing garbage / non-UTF-8 keys on their command channel, take/drop events, stop requests and a vanishing socket.
    Inactivity (empty_timeout, the read / write halves' stop votes): specs/Gen_DownlinkInactivity.tla enumerates every
    order of clock advances, remote reads, lane events, attach / drop / a consumer breaking its command stream; these
    executions are judged by P alone (S9: the runtime stops by itself only for inactivity and cuts no served session).
B2: every recorded execution (conforming or not) is validated by TLC against P
    (specs/Trace_DownlinkSession.tla); rejection => VIOLATION, unless it is the deviation action of an
    OPEN known finding (known_findings/C07.json), which prints KNOWN-FINDING.
"""
import json, os, random, time
from vlib import core
from vlib import replay as rp

PROP = "C07"
INVS = ["TypeOK", "ListsDisjoint", "BackpressureOnlyWhileWriting", "BpWellFormed", "PropertyHolds"]
ALL_FINDINGS = ["F10a", "F10b", "F10c"]
MODEL_FIXABLE = ["F10a", "F10b"]
N_BAD_BODIES = 7                          # harness BAD_BODIES: the pool the abstract malformed frame is drawn from          # findings whose repaired behaviour M can model (CONSTANT Fixed)

LANES = {  # MC_DownlinkRuntime operator -> harness cfg "init"
    "LaneV": "i0", "LaneNone": None, "LaneM0": {}, "LaneM1": {"k1": "i1"}, "LaneM2": {"k1": "i1", "k2": "i2"},
}


# ----------------------------------------------------------------------------- TLC configuration

def cfgtext(consts, invariants=(), view=None, action_constraints=()):
    lines = ["INIT Init", "NEXT Next", "CONSTANTS"]
    for k, v in consts.items():
        if isinstance(v, str) and v.startswith("<-"):
            lines.append("  %s %s" % (k, v))
        else:
            lines.append("  %s = %s" % (k, core.tla_value(v)))
    for i in invariants:
        lines.append("INVARIANT %s" % i)
    if view:
        lines.append("VIEW %s" % view)
    for a in action_constraints:
        lines.append("ACTION_CONSTRAINT %s" % a)
    lines.append("CHECK_DEADLOCK FALSE")
    return "\n".join(lines) + "\n"


def strset(xs):
    return core.Raw("{" + ", ".join('"%s"' % x for x in sorted(xs)) + "}")


def consts(kind, fixed, **kw):
    c = dict(Kind=kind, Consumers=core.Raw("{1, 2}"), SockCap=1, MaxCmd=2, MaxSet=1,
             KeySeq="<- Keys2" if kind != "value" else "<- Keys1",
             InitLane="<- LaneM1" if kind != "value" else "<- LaneV",
             OptSet="<- OptNoKeep", AllowEmpty=False, AllowHold=False, AllowStop=False,
             Strategies=strset(["abort"]), MaxBad=0, AllowBadCmd=False, AllowTakeDrop=False,
             Placement=False, Settled=True, MaxSteps=4, Fixed=strset(fixed), Enabled=strset(ALL_FINDINGS))
    for k, v in kw.items():
        c[k] = v
    return c


BOTH = strset(["abort", "ignore"])


# ----------------------------------------------------------------------------- scripts <-> cases

INPUT = {"k", "c", "sync", "keep", "op", "hold", "settle", "how", "ms"}


def concretise(x, b):
    """the abstract malformed body of the specification -> one of the harness's pool"""
    if isinstance(x, dict):
        if x.get("o") == "bad":
            return dict(x, b=b)
        return {k: concretise(v, b) for k, v in x.items()}
    if isinstance(x, list):
        return [concretise(v, b) for v in x]
    return x


def to_case(cid, c, replay, nth=0):
    """A finished script printed by TLC (hist) -> harness case with the outputs M expects."""
    acts = []
    h = concretise(replay["acts"], nth % N_BAD_BODIES)
    for i, a in enumerate(h):
        act = {k: v for k, v in a.items() if k in INPUT}
        act["settle"] = bool(h[i + 1]["pre"]) if i + 1 < len(h) else True
        if act["k"] == "rclose":           # how the connection goes away: dropped / bytes that are no envelope
            act["how"] = ("drop", "corrupt")[nth % 2]
        exp = {}
        dl = {}
        for d in a.get("del", []):
            dl.setdefault(str(d["c"]), []).append(d["n"])
        if dl:
            exp["del"] = dl
        for k in ("frame", "resp", "attached", "sent", "running"):
            if k in a and a[k] != []:
                exp[k] = a[k]
        act["exp"] = exp
        acts.append(act)
    lane = c["InitLane"][3:]
    return {"id": cid, "cfg": {"kind": c["Kind"], "cap": c["SockCap"], "init": LANES[lane],
                               "strategy": replay.get("strategy", "abort")},
            "acts": acts, "m_verdict": {"ok": replay.get("ok"), "kf": replay.get("kf"), "why": replay.get("why")}}


def strip(case):
    return {"id": case["id"], "cfg": case["cfg"],
            "acts": [{k: v for k, v in a.items() if k != "exp"} for a in case["acts"]]}


def first_diff(case, res):
    """index of the first action whose observation differs from what M expects, else None"""
    obs = res.get("obs", [])
    for i, a in enumerate(case["acts"]):
        if i >= len(obs):
            return i
        o = dict(obs[i])
        if a["k"] == "finish":
            o.pop("lane", None)
        o = {k: v for k, v in o.items() if v != []}
        if o != a["exp"]:
            return i
    return None


def trace_of(case, res):
    t = list(res.get("trace", []))
    if t:
        t[0] = dict(t[0], id=case["id"])
    return t


# ----------------------------------------------------------------------------- P

def p_validate(cases, results, wd, enabled, tag):
    """One TLC run over the concatenated traces.  Returns {case id: ("fail", why) | ("kf", [ids])}."""
    ev = []
    for c, r in zip(cases, results):
        if r.get("panic") is None and r.get("trace"):
            ev += trace_of(c, r)
    if not ev:
        return {}, 0
    r = core.trace_validate("Trace_DownlinkSession", ev, os.path.join(wd, tag), timeout=1200,
                            constants={"EnabledFindings": core.Raw("{" + ", ".join('"%s"' % e for e in sorted(enabled)) + "}")})
    if "fails" not in r:
        raise core.ToolError("trace validation gave no verdicts: %s" % json.dumps(r)[:2000])
    if r.get("matched") != r.get("total"):
        raise core.ToolError("trace validation did not consume the whole trace: %s" % json.dumps(r)[:500])
    out = {}
    for f in r["fails"]:
        out[f["case"]] = ("fail", f["why"])
    for k in r["kf"]:
        out.setdefault(k["case"], ("kf", sorted(k["kf"])))
    return out, len(ev)


class Ctx:
    def __init__(self, out, wd, tier):
        self.out, self.wd, self.tier = out, wd, tier
        self.open = {f["id"]: f for f in core.open_findings(PROP)}
        self.enabled = [f for f in ALL_FINDINGS if f in self.open]
        self.stats = dict(cases=0, steps=0, conform=0, drift=0, rejected=0, known=0, panics=0, trace_events=0)
        self.kf_cases = {}
        self.n = 0
        self.drifts = 0

    def judge(self, groups, results=None):
        """groups: [(name, cases, compare)].  Runs all cases on the real runtime (one harness process), validates
        every trace against P (one TLC run), compares with M.  Returns per-group stats."""
        cases = [c for (_, cs, _) in groups for c in cs]
        if not cases:
            return {}
        self.n += 1
        if results is None:
            results = rp.run_cases("h_runtime", "dlruntime", [strip(c) for c in cases], self.wd,
                                   tag="run%d" % self.n, strip=False)
        verdicts, nev = p_validate(cases, results, self.wd, self.enabled, "tv%d" % self.n)
        self.stats["trace_events"] += nev
        per = {}
        it = iter(zip(cases, results))
        for what, cs, compare in groups:
            g = per.setdefault(what, dict(cases=0, steps=0, conform=0, drift=0, rejected=0, known=0, panics=0))
            for _ in cs:
                c, r = next(it)
                g["cases"] += 1
                g["steps"] += len(c["acts"])
                v = verdicts.get(c["id"])
                if r.get("panic") is not None:
                    g["panics"] += 1
                    g["rejected"] += 1
                    self.out.violation("%s: case %s: panic in the downlink runtime: %s" % (what, c["id"], r["panic"]),
                                       {"component": what, "case": c, "observed": r})
                    continue
                d = first_diff(c, r) if compare else None
                if v and v[0] == "fail":
                    g["rejected"] += 1
                    self.out.violation("%s: case %s: P (DownlinkSession) rejects the recorded execution: %s%s" % (
                        what, c["id"], v[1], "" if d is None else " [first divergence from M at action %d]" % d),
                        {"component": what, "case": c, "observed": r, "why": v[1]})
                    continue
                if v and v[0] == "kf":
                    g["known"] += 1
                    for k in v[1]:
                        self.kf_cases.setdefault(k, c)
                        self.out.known_finding("%s: %s" % (k, self.open[k]["what"]))
                if d is None:
                    g["conform"] += 1
                else:
                    g["drift"] += 1
                    self.drifts += 1
                    if self.drifts <= 3:
                        exp = c["acts"][d]["exp"] if d < len(c["acts"]) else None
                        got = r.get("obs", [])[d] if d < len(r.get("obs", [])) else None
                        self.out.notes.append("MODEL-DRIFT %s case %s action %d (%s): M expects %s, real runtime gave %s" % (
                            what, c["id"], d, c["acts"][d]["k"] if d < len(c["acts"]) else "-", json.dumps(exp), json.dumps(got)))
            for k, v_ in g.items():
                self.stats[k] = self.stats.get(k, 0) + v_
        return per


# ----------------------------------------------------------------------------- probes

def probes():
    """Minimal reproductions of the listed findings: tells which of them the tree under test has,
    so that M models the code as it is (CONSTANT Fixed) and KNOWN-FINDING is keyed on observation."""
    def a(k, **kw):
        return dict(k=k, exp={}, **kw)
    v = lambda s: {"o": "set", "v": s}
    return [
        {"id": "probe-F10a", "cfg": {"kind": "value", "cap": 0, "init": "i0"}, "acts": [
            a("attach", c=1, sync=False, keep=False), a("rread"), a("csend", c=1, op=v("w1n1")),
            a("csend", c=1, op=v("w1n2")), a("csend", c=1, op=v("")), a("finish")]},
        {"id": "probe-F10b", "cfg": {"kind": "value", "cap": 1, "init": "i0"}, "acts": [
            a("attach", c=1, sync=True, keep=False), a("rread"), a("rread"),
            a("attach", c=2, sync=False, keep=False), a("rset", op=v("r1")), a("rset", op=v("r2")), a("finish")]},
        {"id": "probe-F10c", "cfg": {"kind": "map", "cap": 2, "init": {"k1": "i1", "k2": "i2"}}, "acts": [
            a("attach", c=1, sync=True, keep=False), a("rread"), a("rread", hold=True), a("rpush"),
            a("attach", c=2, sync=True, keep=False), a("rpush"), a("rpush"), a("finish")]},
    ]


def run_probes(ctx):
    cs = probes()
    res = rp.run_cases("h_runtime", "dlruntime", [strip(c) for c in cs], ctx.wd, tag="probe", strip=False)
    for r in res:
        if r.get("panic") is not None:
            raise core.ToolError("probe panicked: %s" % r["panic"])
    # with every deviation enabled P takes one only where the execution is otherwise rejected
    lenient, _ = p_validate(cs, res, ctx.wd, ALL_FINDINGS, "tv_probe")
    present = set()
    for f in ALL_FINDINGS:
        v = lenient.get("probe-" + f)
        # a probe that P rejects outright is not one of the listed findings: it is judged (and reported)
        # with the other cases below
        if v is not None and v[0] == "kf" and f in v[1]:
            present.add(f)
    return present, cs, res


# ----------------------------------------------------------------------------- the check

def b3_configs(tier, fixed):
    if tier == "quick":
        return [
            ("value bursts", consts("value", fixed, Settled=False, AllowEmpty=True, AllowStop=True, MaxCmd=1, MaxSet=1,
                                     MaxSteps=4, SockCap=1)),
            ("map bursts hold bad-frames", consts("map", fixed, Settled=False, AllowHold=True, MaxCmd=1, MaxSet=1, MaxSteps=3, SockCap=1,
                                                   Strategies=BOTH, MaxBad=1)),
            ("map settled hold bad-frames", consts("map", fixed, Settled=True, AllowHold=True, AllowStop=True, MaxCmd=1, MaxSet=1,
                                                    MaxSteps=4, SockCap=1, KeySeq="<- Keys1", Strategies=BOTH, MaxBad=1,
                                                    OptSet="<- OptSyncOnly")),
        ]
    return [
        ("value bursts", consts("value", fixed, Settled=False, AllowEmpty=True, AllowStop=True, MaxCmd=2, MaxSet=1,
                                 MaxSteps=5, SockCap=1)),
        ("map bursts hold", consts("map", fixed, Settled=False, AllowHold=True, MaxCmd=2, MaxSet=1, MaxSteps=4, SockCap=1,
                                    InitLane="<- LaneM2")),
        ("map bursts bad-frames", consts("map", fixed, Settled=False, AllowHold=True, MaxCmd=0, MaxSet=1, MaxSteps=4, SockCap=1,
                                          KeySeq="<- Keys1", Strategies=BOTH, MaxBad=2, AllowTakeDrop=True)),
        ("mapevent bursts", consts("mapevent", fixed, Settled=False, AllowHold=True, MaxCmd=1, MaxSet=1, MaxSteps=4, SockCap=1,
                                    KeySeq="<- Keys1", MaxBad=1, AllowTakeDrop=True)),
        ("value cap0 settled", consts("value", fixed, Settled=True, AllowEmpty=True, AllowStop=True, MaxCmd=3, MaxSet=1,
                                       MaxSteps=5, SockCap=0)),
        ("map settled hold bad-frames", consts("map", fixed, Settled=True, AllowHold=True, AllowStop=True, MaxCmd=1, MaxSet=1, MaxSteps=5,
                                                SockCap=1, KeySeq="<- Keys1", Strategies=BOTH, MaxBad=1, OptSet="<- OptSyncOnly")),
    ]


def gen_configs(tier, fixed):
    """(name, constants, mode, n): exhaustive script enumeration (bfs) and seeded simulation"""
    q = tier == "quick"
    out = []
    for cap in ((0, 1) if q else (0, 1, 2)):
        out.append(("value cap%d exhaustive" % cap,
                    consts("value", fixed, SockCap=cap, AllowEmpty=True, AllowStop=(cap == 1), MaxCmd=2, MaxSet=1,
                           MaxSteps=3 if (q or cap == 2) else 4), "bfs", 0))
    out.append(("map cap1 exhaustive", consts("map", fixed, SockCap=1, AllowHold=True, MaxCmd=2, MaxSet=1, KeySeq="<- Keys1",
                                               MaxSteps=3 if q else 4, InitLane="<- LaneM1"), "bfs", 0))
    # a malformed frame at every position of a session (before linked, inside the sync, after synced), both strategies
    out.append(("map bad-frame placement exhaustive",
                consts("map", fixed, SockCap=1, AllowHold=True, MaxCmd=0, MaxSet=0 if q else 1, KeySeq="<- Keys1", Strategies=BOTH, MaxBad=1,
                       MaxSteps=4, InitLane="<- LaneM1", OptSet="<- OptSyncOnly" if q else "<- OptNoKeep"), "bfs", 0))
    # ONE (thorough: two) later attach(es), with and without SYNC, at every position of the remote's notification
    # sequence (linked | sync event(s) | synced | later events, each delivered separately), first consumer waiting for synced
    place = dict(Placement=True, AllowHold=True, MaxCmd=0, MaxSet=1, MaxSteps=8, SockCap=1)
    three = {} if q else dict(Consumers=core.Raw("{1, 2, 3}"))
    out.append(("value late-attach placement", consts("value", fixed, **place, **three), "bfs", 0))
    out.append(("event late-attach placement", consts("value", fixed, InitLane="<- LaneNone", **place, **three), "bfs", 0))
    out.append(("map late-attach placement", consts("map", fixed, KeySeq="<- Keys1", **place), "bfs", 0))
    out.append(("mapevent late-attach placement", consts("mapevent", fixed, KeySeq="<- Keys1", **place), "bfs", 0))
    n = 300 if q else 1000
    bad = dict(Strategies=BOTH, MaxBad=2, AllowBadCmd=True, AllowTakeDrop=True)
    out.append(("value deep sim", consts("value", fixed, SockCap=1, AllowEmpty=True, AllowStop=True, AllowHold=True, OptSet="<- OptAll",
                                          MaxCmd=3, MaxSet=3, MaxSteps=14), "sim", n))
    out.append(("value cap0 deep sim", consts("value", fixed, SockCap=0, AllowEmpty=True, MaxCmd=4, MaxSet=2, MaxSteps=14), "sim", n))
    out.append(("map deep sim", consts("map", fixed, SockCap=1, AllowHold=True, AllowStop=True, MaxCmd=4, MaxSet=2, MaxSteps=16,
                                        InitLane="<- LaneM2", **bad), "sim", n))
    out.append(("map cap0 deep sim", consts("map", fixed, SockCap=0, AllowHold=True, MaxCmd=4, MaxSet=2, MaxSteps=16,
                                             InitLane="<- LaneM1", **bad), "sim", n))
    out.append(("mapevent sim", consts("mapevent", fixed, SockCap=1, AllowHold=True, AllowStop=True, MaxCmd=3, MaxSet=2, MaxSteps=14,
                                        InitLane="<- LaneM2", MaxBad=2, AllowBadCmd=True, AllowTakeDrop=True), "sim", n // 2))
    out.append(("value bursts sim", consts("value", fixed, Settled=False, SockCap=1, AllowEmpty=True, AllowStop=True, MaxCmd=3, MaxSet=2,
                                            MaxSteps=12), "sim", n))
    out.append(("map bursts sim", consts("map", fixed, Settled=False, SockCap=1, AllowHold=True, MaxCmd=3, MaxSet=2, MaxSteps=12,
                                          InitLane="<- LaneM2", **bad), "sim", n))
    m = 150 if q else 1000
    out.append(("value 3 consumers sim", consts("value", fixed, Consumers=core.Raw("{1, 2, 3}"), SockCap=2, AllowEmpty=True,
                                                 AllowStop=True, OptSet="<- OptAll", MaxCmd=2, MaxSet=3, MaxSteps=16), "sim", m))
    out.append(("map 3 consumers sim", consts("map", fixed, Consumers=core.Raw("{1, 2, 3}"), SockCap=2, AllowHold=True,
                                               AllowStop=True, MaxCmd=2, MaxSet=2, MaxSteps=16, InitLane="<- LaneM2", **bad), "sim", m))
    return out


def merge_cov(total, r):
    for a, (d, t) in r.coverage.items():
        o = total.get(a, (0, 0))
        total[a] = (o[0] + d, o[1] + t)


ACTIONS = ["A_Fwd", "A_Stop", "R_NewConsumer", "R_Linked", "R_Synced", "R_Event", "R_BadIgnore", "R_BadAbort", "R_Unlinked", "R_SockClosed", "R_Stop",
           "W_LinkDone", "W_IdleEmpty_Reg", "W_Idle_Block", "W_Idle_Reg", "W_Idle_Rec", "W_Idle_Gone",
           "W_Wr_Done", "W_Wr_Rec", "W_Wr_Gone", "W_Wr_Reg", "W_Stop", "W_SockFail",
           "Attach", "AttachLate", "CSend", "CDrop", "RRead", "RPush", "RSet", "RBad", "RClose", "RUnlink", "Stop", "Finish"]


def run(tier, out):
    rng = random.Random(core.seed())
    wd = core.workdir(PROP)
    core.build_harness("h_runtime", "dlruntime")
    # component level: the per-key relief queue behind MapBackpressure (MapQueue.tla replayed on the real MapOperationQueue);
    # the runtime-level scripts rarely build the backlogs (clear + several keys behind a stalled socket) that exercise it
    from checks import k_mapqueue
    k_mapqueue.run_k(tier, out, os.path.join(wd, "kmapq"))
    ctx = Ctx(out, wd, tier)

    # 0. which listed findings does this tree have?
    present, pcases, pres = run_probes(ctx)
    fixed = [f for f in MODEL_FIXABLE if f not in present]
    core.log("[C07] findings exhibited by the tree under test: %s ; M models as repaired: %s ; open in known_findings: %s" % (
        sorted(present), fixed, sorted(ctx.open)))
    groups = [("probe", pcases, False)]
    presults = list(pres)

    # 1. B3: M |= P
    states = transitions = 0
    cov = {}
    b3 = []
    model_failures = []
    for name, c in b3_configs(tier, fixed):
        r = core.run_tlc("MC_DownlinkRuntime", cfgtext(c, INVS, view="MView"), os.path.join(wd, "b3_" + name.replace(" ", "_")),
                         workers=4, timeout=2400)
        if not r.ok:
            # A counterexample on the model alone is never a verdict about the code: go on, the scripts below show
            # whether the real runtime misbehaves (VIOLATION) or only M is out of date (tool error at the end).
            model_failures.append("M violates P in TLC (%s %s) for %s:\n%s" % (r.status, r.violated, name, r.counterexample[:3000]))
            core.log("[C07] B3 %s: TLC reports %s %s on the MODEL (deferred)" % (name, r.status, r.violated))
            continue
        states += r.distinct
        transitions += r.generated
        merge_cov(cov, r)
        b3.append({"config": name, "distinct": r.distinct, "generated": r.generated, "depth": r.depth, "wall_s": round(r.wall, 1)})
        core.log("[C07] B3 %s: %d distinct / %d generated states, depth %d, %.1fs" % (name, r.distinct, r.generated, r.depth, r.wall))

    # 2. B1 + B2: scripts from TLC on the real runtime
    gen = []
    for gi, (name, c, mode, n) in enumerate(gen_configs(tier, fixed)):
        gwd = os.path.join(wd, "gen%d" % gi)
        if mode == "bfs":
            r = core.run_tlc("MC_DownlinkRuntime", cfgtext(c, INVS, action_constraints=["DumpOnFinish"]), gwd, workers=1, timeout=2400,
                             coverage="late-attach" not in name)
        else:
            r = core.run_tlc("MC_DownlinkRuntime", cfgtext(c, INVS, action_constraints=["DumpOnFinish"]), gwd, workers=1, timeout=2400,
                             simulate="num=%d" % n, extra=["-depth", "150", "-seed", str(core.seed() + gi)], coverage=False)
        if not r.ok:
            model_failures.append("M violates P in TLC (%s %s) for %s:\n%s" % (r.status, r.violated, name, r.counterexample[:3000]))
            core.log("[C07] generation %s: TLC reports %s %s on the MODEL (scripts printed so far are still run)" % (
                name, r.status, r.violated))
        merge_cov(cov, r)
        reps = r.tagged.get("REPLAY", [])
        seen, cases = set(), []
        for rep in reps:
            key = core.canon([rep.get("strategy")] + [{k: v for k, v in a.items() if k in INPUT or k == "pre"} for a in rep["acts"]])
            if key in seen:
                continue
            seen.add(key)
            cases.append(to_case("g%d.%d" % (gi, len(cases)), c, rep, len(cases)))
        if mode == "bfs":
            states += r.distinct
            transitions += r.generated
        groups.append((name, cases, True))
        gen.append({"config": name, "mode": mode, "scripts": len(cases), "tlc_states": r.distinct, "wall_s": round(r.wall, 1)})
        core.log("[C07] generated %s (%s): %d scripts (TLC %.1fs)" % (name, mode, len(cases), r.wall))
        if cases and len(out.cov["samples"]) < 4:
            s = cases[len(cases) // 2]
            out.sample({"config": name, "cfg": s["cfg"], "script_with_expected_outputs": s["acts"][:10]})
    # the same scripts with consumer notification channels of a few bytes (the read task's sends complete piecemeal)
    base = [c for (_, cs, _) in groups[1:] for c in cs]
    small = [dict(c, id=c["id"] + "s", cfg=dict(c["cfg"], ccap=7)) for c in base[::(3 if tier == "quick" else 1)]]
    groups.append(("small consumer channels", small, True))
    gen.append({"config": "small consumer channels", "mode": "rerun", "scripts": len(small), "tlc_states": 0, "wall_s": 0})
    # inactivity: every order of clock advances (empty_timeout), remote reads, lane events with and without a consumer,
    # attach / drop and a consumer breaking its command stream (the write half idle while the read half serves it);
    # no mechanism model for this dimension - P (S9) alone judges the recorded executions
    q = tier == "quick"
    r = core.run_tlc("Gen_DownlinkInactivity",
                     core.cfg(constants=dict(MaxLen=7 if q else 8, MaxAdv=3, MaxRead=1 if q else 2, MaxSet=1, MaxUpd=0 if q else 1,
                                             Halves=not q), invariants=["Dump"]),
                     os.path.join(wd, "gen_inactivity"), workers=1, timeout=1200, coverage=False)
    if not r.ok:
        raise core.ToolError("Gen_DownlinkInactivity failed: %s" % r.status)
    idle = []
    all_scripts = r.tagged.get("SCRIPT", [])
    IDLE_CAP = 30000            # executions per channel capacity: the thorough enumeration (224 k scripts) is sampled
    if len(all_scripts) > IDLE_CAP:
        rs = random.Random(core.seed() + 77)
        picked = sorted(rs.sample(range(len(all_scripts)), IDLE_CAP))
        core.log("[C07] inactivity scripts: %d enumerated by TLC, a seeded sample of %d is executed" % (len(all_scripts), IDLE_CAP))
    else:
        picked = range(len(all_scripts))
    for cap in (0, 1):
        for i in picked:
            sc = all_scripts[i]
            acts = [dict(a, settle=True, exp={}) for a in sc] + [{"k": "finish", "settle": True, "exp": {}}]
            idle.append({"id": "i%d.%d" % (cap, i), "cfg": {"kind": "map", "cap": cap, "init": {"k1": "i1"}, "timeout_ms": 1000},
                         "acts": acts})
    groups.append(("inactivity scripts", idle, False))
    gen.append({"config": "inactivity scripts", "mode": "bfs", "scripts": len(idle), "tlc_states": r.distinct, "wall_s": round(r.wall, 1)})
    core.log("[C07] generated inactivity scripts (bfs): %d scripts (TLC %.1fs)" % (len(idle), r.wall))
    states += r.distinct
    transitions += r.generated
    allc = [c for (_, cs, _) in groups[1:] for c in cs]
    t0 = time.time()
    res = rp.run_cases("h_runtime", "dlruntime", [strip(c) for c in allc], wd, tag="all", strip=False)
    t1 = time.time()
    per = ctx.judge(groups, presults + res)
    core.log("[C07] real runtime: %d scripts in %.1fs; P validation of %d events in %.1fs" % (
        len(allc), t1 - t0, ctx.stats["trace_events"], time.time() - t1))
    for g in gen:
        d = per.get(g["config"], {})
        g.update({k: d.get(k, 0) for k in ("conform", "drift", "rejected", "known")})
        core.log("[C07] %s: %d scripts / %d actions; conform=%d drift=%d known=%d rejected=%d" % (
            g["config"], d.get("cases", 0), d.get("steps", 0), d.get("conform", 0), d.get("drift", 0), d.get("known", 0),
            d.get("rejected", 0)))

    st = ctx.stats
    never = [a for a in ACTIONS if cov.get(a, (0, 0))[1] == 0]
    for f, c in ctx.kf_cases.items():
        out.sample({"known_finding": f, "cfg": c["cfg"], "script": [{k: v for k, v in a.items() if k != "exp"} for a in c["acts"]]}, cap=9)
    out.add(states=states, transitions=transitions,
            traces_validated_against_impl=st["cases"], replayed_actions=st["steps"],
            conform_to_M=st["conform"], model_drift=st["drift"], rejected_by_P=st["rejected"],
            cases_hitting_known_findings=st["known"], p_trace_events_validated=st["trace_events"],
            findings_exhibited_by_tree=sorted(present), model_constant_Fixed=fixed,
            b3_runs=b3, generation_runs=gen,
            action_coverage={a: {"distinct": cov[a][0], "taken": cov[a][1]} for a in ACTIONS if a in cov},
            actions_never_taken=never, exhaustive=False,
            rule="B3: TLC BFS of DownlinkRuntime.tla (M with P as monitor) incl. environment bursts; B1/B2: every environment "
                 "script up to the bfs bound + seeded TLC simulations, each run on the real runtime, compared with M per action "
                 "and validated against P by TLC",
            checker_cmd="tlc MC_DownlinkRuntime (INVARIANTS %s) + h_runtime dlruntime + tlc Trace_DownlinkSession" % " ".join(INVS))
    out.assumptions += [
        "consumers drain their notification channel continuously (channel sizes: 64 KiB and 7 bytes); a consumer that stops reading without dropping is not explored",
        "the remote lane behaves by the WARP protocol (linked before events, a snapshot then synced per sync request); the only "
        "deviations explored are event bodies that are no map message (at any point, also before linked) and a vanishing socket",
        "SupplyBackpressure and MapBackpressure::push are not reachable from the downlink runtime (agent uplinks only)",
        "the socket towards the remote holds a whole number of request frames (long node uri; see harness socket_capacity)",
        "environment interleavings are those the driver can induce between polls of the runtime task (bursts + quiescence); "
        "timeouts (empty_timeout) never fire",
    ]
    if never:
        out.notes.append("M actions never taken in this run: %s" % never)
    if model_failures and not out.violations:
        out.finish()
        raise core.ToolError("the mechanism model M is out of date or wrong (the real runtime was accepted by P on every "
                             "script):\n" + model_failures[0])
    for m in model_failures[:2]:
        out.notes.append("B3 counterexample on M (the real runtime is judged by the scripts): " + m[:600])


def replay(path, out):
    wd = core.workdir(PROP + "_replay")
    core.build_harness("h_runtime", "dlruntime")
    obj = json.load(open(path))["replay"]
    if str(obj.get("component", "")).lower().startswith(("mapq", "takedrop")):
        from checks import k_mapqueue
        return k_mapqueue.replay(path, out)
    case = obj["case"]
    res = rp.run_cases("h_runtime", "dlruntime", [strip(case)], wd, tag="replay", strip=False)[0]
    if res.get("panic") is not None:
        print("panic in the downlink runtime:", res["panic"])
        print("VIOLATION property=%s replay=%s" % (PROP, path))
        return 1
    d = first_diff(case, res) if any(a.get("exp") for a in case["acts"]) else None
    print("first divergence from M at action:", d)
    enabled = [f["id"] for f in core.open_findings(PROP)]
    v, _ = p_validate([case], [res], wd, enabled, "tv")
    for e in res.get("trace", []):
        print("   ", json.dumps(e))
    verdict = v.get(case["id"])
    print("P verdict:", verdict or "accepted")
    if verdict and verdict[0] == "fail":
        print("VIOLATION property=%s replay=%s" % (PROP, path))
        return 1
    return 0

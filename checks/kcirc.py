"""./check KCIRC - the component-level check of the circular buffer channel of swimos_sync (the channel behind the
value a hosted value downlink is set to) on its own.  See checks/k_circbuf.py (the C08 check can call run_k from there).

Verdict lines carry the property id C08; the evidence of a stand-alone run goes to evidence/KCIRC.json so that it
does not overwrite the evidence of the full C08 check."""
import os, shutil
from vlib import core
from checks import k_circbuf

PROP = "C08"


def run(tier, out):
    wd = core.workdir("KCIRC")
    out.prop = PROP                      # VIOLATION / KNOWN-FINDING lines and replays/ directory
    k_circbuf.run_k(tier, out, wd, prop=PROP)
    orig_finish = out.finish

    def finish():
        real = core.EVIDENCE
        tmp = os.path.join(wd, "evidence")
        core.EVIDENCE = tmp
        try:
            rc = orig_finish()
        finally:
            core.EVIDENCE = real
        os.makedirs(real, exist_ok=True)
        ev = os.path.join(tmp, "%s.json" % PROP)
        shutil.copy(ev, os.path.join(real, "KCIRC.json"))
        return rc
    out.finish = finish


def replay(path, out):
    out.prop = PROP
    return k_circbuf.replay(path, out)

"""C19 - model values: equality, ordering and hashing are mutually coherent.

Exploration level with exhaustive law evaluation over a TLC-enumerated boundary pool.

 1. Gen_ValueOrder (TLC) enumerates the abstract pool of specs/ValueOrder.tla: every numeric kind at
    its limits, the same number in different kinds, +-0.0, NaN, infinities, fractions next to integers
    and to big integers, the EPSILON neighbourhood, texts, blobs, nested records differing in one leaf.
 2. Every abstract value is concretised exactly (python Fractions -> decimal string / IEEE-754 bits; a
    value the data model claims to be a float but that is not exactly representable is a tool error).
 3. harness h_core/valueorder builds the real swimos_model::Value's and records eq / cmp / hash for ALL
    pairs (plus sort / BTreeMap / HashMap runs on chosen tuples).
 4. MC_ValueOrder (TLC) evaluates the laws (P) over the observed table for all pairs and all triples,
    evaluates the same laws on the implementation-shaped model M (names the inconsistent cell), and
    compares M with the observed table cell by cell (MODEL-DRIFT only).
 5. Every failing law instance must be covered by an open entry of known_findings/C19.json whose
    signature (law + cell + relation between the operands) matches it AND whose enumerated tuples contain
    it; anything else is a VIOLATION.
"""
import json, os, struct, fractions, itertools, collections
from vlib import core

LEVEL = "exploration"
PROP = "C19"
F = fractions.Fraction
BASE_EXP = [31, 32, 53, 63, 64, 127, 128, 1023, 1024]
FMAX = int(F(struct.unpack(">d", bytes.fromhex("7fefffffffffffff"))[0]))


# ----------------------------------------------------------------------------- concretisation

def big(g):
    if g == 0:
        return 0
    e = BASE_EXP[abs(g) - 1]
    m = FMAX if e == 1023 else 2 ** e
    return m if g > 0 else -m


def tiny(u, t):
    if t == 0:
        return F(0)
    if u == 0:
        return F(1 if t > 0 else -1) * (F(1, 2 ** 1074) if abs(t) == 1 else F(1, 2 ** 1022))
    if u == 2:
        return F(t, 2 ** 53)
    raise core.ToolError("no tiny tier at u=%s" % u)


def exact(v):
    return F(big(v["g"])) + F(v["u"], 2) + tiny(v["u"], v["t"])


def base_name(g):
    if g == 0:
        return ""
    e = BASE_EXP[abs(g) - 1]
    return ("-" if g < 0 else "") + ("fmax" if e == 1023 else "2^%d" % e)


def num_label(v):
    g, u, t = v["g"], v["u"], v["t"]
    s = base_name(g)
    off = F(u, 2)
    if g == 0:
        s = str(float(off)) if off.denominator != 1 else str(int(off))
    elif off != 0:
        o = str(float(off)) if off.denominator != 1 else str(int(off))
        s += ("+" if off > 0 else "") + o
    if t != 0:
        ti = tiny(u, t)
        e = ti.denominator.bit_length() - 1
        k = abs(ti.numerator)
        s += ("+" if ti > 0 else "-") + ("" if k == 1 else "%d*" % k) + "2^-%d" % e
    return s


def label(v):
    k = v["k"]
    if k == "extant":
        return "extant"
    if k == "bool":
        return "true" if v["b"] else "false"
    if k == "text":
        return "'" + "".join(chr(96 + c) for c in v["s"]) + "'"
    if k == "data":
        return "blob[" + " ".join("%02x" % (c - 1) for c in v["d"]) + "]"
    if k == "f64":
        sp = v["sp"]
        if sp != "fin":
            return {"nan": "NaN", "pinf": "+inf", "ninf": "-inf", "negz": "-0.0"}[sp] + "_f64"
        s = num_label(v)
        if v["g"] == 0 and v["t"] == 0 and "." not in s:
            s += ".0"
        return s + "_f64"
    if k == "record":
        a = "".join("@%s(%s)" % ("".join(chr(96 + c) for c in at["name"]), label(at["value"])) for at in v["attrs"])
        i = ",".join((label(it["key"]) + ":" if it["slot"] else "") + label(it["value"]) for it in v["items"])
        return a + "{" + i + "}"
    return num_label(v) + "_" + k


def f64_bits(v):
    sp = v["sp"]
    if sp == "nan":
        return "7ff8000000000000"
    if sp == "pinf":
        return "7ff0000000000000"
    if sp == "ninf":
        return "fff0000000000000"
    if sp == "negz":
        return "8000000000000000"
    x = exact(v)
    try:
        f = float(x)
    except OverflowError:
        raise core.ToolError("data model: %s is not a finite float" % label(v))
    if F(f) != x:
        raise core.ToolError("data model claims %s is exactly representable in binary64, it is not" % label(v))
    return struct.pack(">d", f).hex()


RANGES = {"i32": (-2 ** 31, 2 ** 31 - 1), "i64": (-2 ** 63, 2 ** 63 - 1), "u32": (0, 2 ** 32 - 1), "u64": (0, 2 ** 64 - 1)}


def descriptor(v):
    k = v["k"]
    if k == "extant":
        return {"k": "extant"}
    if k == "bool":
        return {"k": "bool", "v": v["b"]}
    if k == "text":
        return {"k": "text", "v": "".join(chr(96 + c) for c in v["s"])}
    if k == "data":
        return {"k": "data", "v": [c - 1 for c in v["d"]]}
    if k == "f64":
        return {"k": "f64", "bits": f64_bits(v)}
    if k == "record":
        return {"k": "record",
                "attrs": [{"name": "".join(chr(96 + c) for c in a["name"]), "value": descriptor(a["value"])} for a in v["attrs"]],
                "items": [dict(([("key", descriptor(i["key"]))] if i["slot"] else []) + [("value", descriptor(i["value"]))])
                          for i in v["items"]]}
    x = exact(v)
    if x.denominator != 1:
        raise core.ToolError("data model: %s is not a whole number" % label(v))
    n = int(x)
    if k in RANGES and not (RANGES[k][0] <= n <= RANGES[k][1]):
        raise core.ToolError("data model: %s is outside the range of %s" % (n, k))
    if k == "biguint" and n < 0:
        raise core.ToolError("data model: negative biguint")
    return {"k": k, "v": str(n)}


KIND_ORDER = ["extant", "bool", "i32", "i64", "u32", "u64", "bigint", "biguint", "f64", "text", "data", "record"]


def sort_key(v):
    k = v["k"]
    if k in ("i32", "i64", "u32", "u64", "bigint", "biguint"):
        return (KIND_ORDER.index(k), exact(v), "")
    if k == "f64":
        sp = v["sp"]
        return (KIND_ORDER.index(k), {"nan": -2, "ninf": -1, "fin": 0, "negz": 0, "pinf": 1}[sp],
                float(exact(v)) if sp == "fin" else 0.0, sp)
    return (KIND_ORDER.index(k), 0, core.canon(v))


# ----------------------------------------------------------------------------- scope

def scope(tier):
    if tier == "quick":
        return dict(MaxBase=6, RecDepth=1)
    return dict(MaxBase=9, RecDepth=1)


def enumerate_pool(tier, wd):
    c = core.cfg(constants=scope(tier), invariants=["Dump"])
    r = core.run_tlc("Gen_ValueOrder", c, os.path.join(wd, "gen"), workers=1)
    if not r.ok:
        raise core.ToolError("Gen_ValueOrder: %s" % r.status)
    pool = sorted(r.tagged["VAL"], key=sort_key)
    labels = [label(v) for v in pool]
    if len(set(labels)) != len(labels):
        dup = [l for l, n in collections.Counter(labels).items() if n > 1]
        raise core.ToolError("pool labels are not unique: %s" % dup[:5])
    return pool, labels, r


def observe(pool, ops, wd, tag="obs"):
    case = {"id": tag, "pool": [descriptor(v) for v in pool], "ops": ops}
    inp, outp = os.path.join(wd, tag + ".in.ndjson"), os.path.join(wd, tag + ".out.ndjson")
    core.write_ndjson(inp, [case])
    core.run_harness("h_core", ["valueorder"], stdin_path=inp, stdout_path=outp)
    res = core.read_ndjson(outp)[0]
    if res.get("panic"):
        raise core.ToolError("harness panicked outside the code under test: %s" % res["panic"])
    return res


def table_of(pool, res):
    classes = {}
    hs = [classes.setdefault(h, len(classes) + 1) for h in res["hash"]]
    eq = [[(1 if x is True else 0 if x is False else 9) for x in row] for row in res["eq"]]
    return {"pool": pool, "eq": eq, "cmp": res["cmp"], "hash": hs}


def evaluate(table, wd, triples=True, tag="mc", workers=1):
    tp = os.path.join(wd, tag + ".table.ndjson")
    core.write_ndjson(tp, [table])
    c = core.cfg(constants=dict(MaxBase=9, RecDepth=1, Triples=triples), invariants=["Report"])
    r = core.run_tlc("MC_ValueOrder", c, os.path.join(wd, tag), workers=workers, env={"TABLE": tp}, timeout=1500, xmx="8g")
    if not r.ok:
        raise core.ToolError("MC_ValueOrder: %s %s\n%s" % (r.status, r.violated, r.counterexample[:2000]))
    return r


def run(tier, out):
    wd = core.workdir("C19")
    core.build_harness("h_core", "valueorder")
    pool, labels, gen = enumerate_pool(tier, wd)
    res = observe(pool, [], wd)
    table = table_of(pool, res)
    r = evaluate(table, wd)
    core.log("pool %d  states %d  wall %.1f  fails %d drift %d monly %d" % (
        len(pool), r.distinct, r.wall, len(r.tagged["FAIL"]), len(r.tagged["DRIFT"]), len(r.tagged["MONLY"])))
    json.dump({"labels": labels, "fail": r.tagged["FAIL"], "drift": r.tagged["DRIFT"], "monly": r.tagged["MONLY"],
               "disp": res["disp"], "cov": r.coverage}, open(os.path.join(wd, "result.json"), "w"))
    out.add(evaluations=r.distinct, distinct_nontrivial=r.distinct, rule="proto")
    out.sample({"x": 1})


def replay(path, out):
    return 0

"""C19 - model values: equality, ordering and hashing are mutually coherent.

Exploration level with exhaustive law evaluation over a TLC-enumerated boundary pool.

 1. Gen_ValueOrder (TLC) enumerates the abstract pool of specs/ValueOrder.tla: every numeric kind at
    its limits, the same number in different kinds, +-0.0, NaN, infinities, fractions next to integers
    and to big integers, the EPSILON neighbourhood, texts, blobs, nested records differing in one leaf.
 2. Every abstract value is concretised exactly (python Fractions -> decimal string / IEEE-754 bits; a
    value the data model claims to be a float but that is not exactly representable is a tool error).
 3. harness h_core/valueorder builds the real swimos_model::Value's and records eq / cmp / hash for ALL
    pairs (plus sort / BTreeMap / HashMap runs on chosen tuples).
 4. MC_ValueOrder (TLC) evaluates the laws (P) over the observed table for all pairs and all triples,
    evaluates the same laws on the implementation-shaped model M (names the inconsistent cell), and
    compares M with the observed table cell by cell (MODEL-DRIFT only).
 5. Every failing law instance must be covered by an open entry of known_findings/C19.json whose
    signature (law + cell + relation between the operands) matches it AND whose enumerated tuples contain
    it; anything else is a VIOLATION.
"""
import json, os, struct, fractions, itertools, collections
from vlib import core

LEVEL = "exploration"
PROP = "C19"
F = fractions.Fraction
BASE_EXP = [31, 32, 53, 63, 64, 127, 128, 1023, 1024]
FMAX = int(F(struct.unpack(">d", bytes.fromhex("7fefffffffffffff"))[0]))


# ----------------------------------------------------------------------------- concretisation

# the alphabet of ValueOrder.tla (texts, attribute names): code -> character.  Ascending code points = ascending UTF-8 bytes.
CHARS = {1: "\u0000", 2: "A", 3: "a", 4: "b", 5: "\u00e9", 6: "\uff5e", 7: "\U00010000"}
_cs = [CHARS[c] for c in sorted(CHARS)]
assert all(ord(x) < ord(y) for x, y in zip(_cs, _cs[1:])) and all(x.encode() < y.encode() for x, y in zip(_cs, _cs[1:]))
CHAR_NAMES = {1: "\\0", 2: "A", 3: "a", 4: "b", 5: "\\u00e9", 6: "\\uff5e", 7: "\\U10000"}


def text_of(codes):
    return "".join(CHARS[c] for c in codes)


def text_label(codes):
    out, i = [], 0
    while i < len(codes):
        j = i
        while j < len(codes) and codes[j] == codes[i]:
            j += 1
        out.append(CHAR_NAMES[codes[i]] * (j - i) if j - i < 4 else "%s^%d" % (CHAR_NAMES[codes[i]], j - i))
        i = j
    return "".join(out)


def big(g):
    if g == 0:
        return 0
    e = BASE_EXP[abs(g) - 1]
    m = FMAX if e == 1023 else 2 ** e
    return m if g > 0 else -m


def tiny(u, t):
    if t == 0:
        return F(0)
    if u == 0:
        return F(1 if t > 0 else -1) * (F(1, 2 ** 1074) if abs(t) == 1 else F(1, 2 ** 1022))
    if u == 2:
        return F(t, 2 ** 53)
    raise core.ToolError("no tiny tier at u=%s" % u)


def exact(v):
    return F(big(v["g"])) + F(v["u"], 2) + tiny(v["u"], v["t"])


def base_name(g):
    if g == 0:
        return ""
    e = BASE_EXP[abs(g) - 1]
    return ("-" if g < 0 else "") + ("fmax" if e == 1023 else "2^%d" % e)


def num_label(v):
    g, u, t = v["g"], v["u"], v["t"]
    s = base_name(g)
    off = F(u, 2)
    if g == 0:
        s = str(float(off)) if off.denominator != 1 else str(int(off))
    elif off != 0:
        o = str(float(off)) if off.denominator != 1 else str(int(off))
        s += ("+" if off > 0 else "") + o
    if t != 0:
        ti = tiny(u, t)
        e = ti.denominator.bit_length() - 1
        k = abs(ti.numerator)
        s += ("+" if ti > 0 else "-") + ("" if k == 1 else "%d*" % k) + "2^-%d" % e
    return s


def label(v):
    k = v["k"]
    if k == "extant":
        return "extant"
    if k == "bool":
        return "true" if v["b"] else "false"
    if k == "text":
        return "'" + text_label(v["s"]) + "'"
    if k == "data":
        return "blob[" + " ".join("%02x" % (c - 1) for c in v["d"]) + "]"
    if k == "f64":
        sp = v["sp"]
        if sp != "fin":
            return {"nan": "NaN", "pinf": "+inf", "ninf": "-inf", "negz": "-0.0"}[sp] + "_f64"
        s = num_label(v)
        if v["g"] == 0 and v["t"] == 0 and "." not in s:
            s += ".0"
        return s + "_f64"
    if k == "record":
        a = "".join("@%s(%s)" % (text_label(at["name"]) or "''", label(at["value"])) for at in v["attrs"])
        i = ",".join((label(it["key"]) + ":" if it["slot"] else "") + label(it["value"]) for it in v["items"])
        return a + "{" + i + "}"
    return num_label(v) + "_" + k


def f64_bits(v):
    sp = v["sp"]
    if sp == "nan":
        return "7ff8000000000000"
    if sp == "pinf":
        return "7ff0000000000000"
    if sp == "ninf":
        return "fff0000000000000"
    if sp == "negz":
        return "8000000000000000"
    x = exact(v)
    try:
        f = float(x)
    except OverflowError:
        raise core.ToolError("data model: %s is not a finite float" % label(v))
    if F(f) != x:
        raise core.ToolError("data model claims %s is exactly representable in binary64, it is not" % label(v))
    return struct.pack(">d", f).hex()


RANGES = {"i32": (-2 ** 31, 2 ** 31 - 1), "i64": (-2 ** 63, 2 ** 63 - 1), "u32": (0, 2 ** 32 - 1), "u64": (0, 2 ** 64 - 1)}


def descriptor(v):
    k = v["k"]
    if k == "extant":
        return {"k": "extant"}
    if k == "bool":
        return {"k": "bool", "v": v["b"]}
    if k == "text":
        return {"k": "text", "v": text_of(v["s"])}
    if k == "data":
        return {"k": "data", "v": [c - 1 for c in v["d"]]}
    if k == "f64":
        return {"k": "f64", "bits": f64_bits(v)}
    if k == "record":
        return {"k": "record",
                "attrs": [{"name": text_of(a["name"]), "value": descriptor(a["value"])} for a in v["attrs"]],
                "items": [dict(([("key", descriptor(i["key"]))] if i["slot"] else []) + [("value", descriptor(i["value"]))])
                          for i in v["items"]]}
    x = exact(v)
    if x.denominator != 1:
        raise core.ToolError("data model: %s is not a whole number" % label(v))
    n = int(x)
    if k in RANGES and not (RANGES[k][0] <= n <= RANGES[k][1]):
        raise core.ToolError("data model: %s is outside the range of %s" % (n, k))
    if k == "biguint" and n < 0:
        raise core.ToolError("data model: negative biguint")
    return {"k": k, "v": str(n)}


KIND_ORDER = ["extant", "bool", "i32", "i64", "u32", "u64", "bigint", "biguint", "f64", "text", "data", "record"]


def sort_key(v):
    k = v["k"]
    if k in ("i32", "i64", "u32", "u64", "bigint", "biguint"):
        return (KIND_ORDER.index(k), exact(v), "")
    if k == "f64":
        sp = v["sp"]
        return (KIND_ORDER.index(k), {"nan": -2, "ninf": -1, "fin": 0, "negz": 0, "pinf": 1}[sp],
                float(exact(v)) if sp == "fin" else 0.0, sp)
    return (KIND_ORDER.index(k), 0, core.canon(v))


# ----------------------------------------------------------------------------- scope

def scope(tier):
    if tier == "quick":
        return dict(MaxBase=6, MaxOff=1, RecDepth=1)
    return dict(MaxBase=9, MaxOff=2, RecDepth=2)


def enumerate_pool(tier, wd):
    c = core.cfg(constants=scope(tier), invariants=["Dump"])
    r = core.run_tlc("Gen_ValueOrder", c, os.path.join(wd, "gen"), workers=1)
    if not r.ok:
        raise core.ToolError("Gen_ValueOrder: %s" % r.status)
    core_keys = {core.canon(x["val"]) for x in r.tagged["VAL"] if x["core"]}
    pool = sorted((x["val"] for x in r.tagged["VAL"]), key=sort_key)
    for v in pool:
        IN_CORE[core.canon(v)] = core.canon(v) in core_keys
    labels = [label(v) for v in pool]
    if len(set(labels)) != len(labels):
        dup = [l for l, n in collections.Counter(labels).items() if n > 1]
        raise core.ToolError("pool labels are not unique: %s" % dup[:5])
    return pool, labels, r


def observe(pool, ops, wd, tag="obs"):
    case = {"id": tag, "pool": [descriptor(v) for v in pool], "ops": ops}
    inp, outp = os.path.join(wd, tag + ".in.ndjson"), os.path.join(wd, tag + ".out.ndjson")
    core.write_ndjson(inp, [case])
    core.run_harness("h_core", ["valueorder"], stdin_path=inp, stdout_path=outp)
    res = core.read_ndjson(outp)[0]
    if res.get("panic"):
        raise core.ToolError("harness panicked outside the code under test: %s" % res["panic"])
    return res


IN_CORE = {}


def in_triples(v, tier):
    """quick: the triple laws range over ValueOrder!CorePool (the pool without the records that only put a boundary text or
    an item / attribute structure into a position); all PAIRS are always evaluated"""
    return 1 if tier != "quick" or IN_CORE.get(core.canon(v), True) else 0


def table_of(pool, res, tier="thorough"):
    classes = {}
    hs = [classes.setdefault(h, len(classes) + 1) for h in res["hash"]]
    eq = [[(1 if x is True else 0 if x is False else 9) for x in row] for row in res["eq"]]
    return {"pool": pool, "eq": eq, "cmp": res["cmp"], "hash": hs, "tri": [in_triples(v, tier) for v in pool]}


def evaluate(table, wd, triples=True, tag="mc", workers=4):
    """TLC evaluates P (and M) over the observed table; returns the TlcResult with FAIL / DRIFT / MONLY lines."""
    tp = os.path.join(wd, tag + ".table.ndjson")
    core.write_ndjson(tp, [table])
    c = core.cfg(constants=dict(MaxBase=9, MaxOff=2, RecDepth=1, Triples=triples), invariants=["Report"])
    r = core.run_tlc("MC_ValueOrder", c, os.path.join(wd, tag), workers=workers, env={"TABLE": tp}, timeout=2400, xmx="8g")
    if not r.ok:
        raise core.ToolError("MC_ValueOrder: %s %s\n%s" % (r.status, r.violated, r.counterexample[:2000]))
    for tag_ in ("FAIL", "DRIFT", "MONLY"):
        for x in r.tagged.get(tag_, []):
            if not isinstance(x, dict):
                raise core.ToolError("unparsable %s line from TLC: %r" % (tag_, x))
    return r


# ----------------------------------------------------------------------------- known findings

WHOLE = {"i32", "i64", "u32", "u64", "bigint", "biguint"}
BIG = {"bigint", "biguint"}


def is_zero(v):
    return v["sp"] == "negz" or (v["sp"] == "fin" and v["g"] == 0 and v["u"] == 0 and v["t"] == 0)


def leaf_pairs(x, y):
    """corresponding leaves of two records of the same shape"""
    if x["k"] == "record" and y["k"] == "record":
        if len(x["attrs"]) == len(y["attrs"]) and len(x["items"]) == len(y["items"]):
            for p, q in zip(x["attrs"], y["attrs"]):
                yield from leaf_pairs(p["value"], q["value"])
            for p, q in zip(x["items"], y["items"]):
                if p["slot"] and q["slot"]:
                    yield from leaf_pairs(p["key"], q["key"])
                yield from leaf_pairs(p["value"], q["value"])
    else:
        yield (x, y)


def pair_classes(a, b):
    """The defect classes (the `class` of a known_findings signature) an unordered pair of values falls into:
    which cell of the compare / eq / hash tables the pair goes through, and the relation between the operands."""
    ka, kb = a["k"], b["k"]
    if ka == "f64" and kb != "f64":
        a, b, ka, kb = b, a, kb, ka
    s = set()
    if "data" in (ka, kb) and ka != kb and {ka, kb} <= {"data", "text", "record"}:
        s.add("data-vs-text-or-record")
    if ka == "f64" and kb == "f64":
        if is_zero(a) and is_zero(b) and a["sp"] != b["sp"]:
            s.add("negative-zero-hash")
        elif a["sp"] == b["sp"] and a["sp"] in ("pinf", "ninf"):
            s.add("infinity-vs-itself")
        elif a["sp"] in ("fin", "negz") and b["sp"] in ("fin", "negz") and a != b:
            s.add("float-epsilon")
    if ka in WHOLE and kb == "f64":
        if b["sp"] == "nan":
            if ka in BIG:
                s.add("big-vs-nan")                     # C19-F9c (fixed)
        else:
            s.add("int-vs-float")                       # C19-F9e: all six whole kinds (the big rows delegate to the Float64 row)
    if ka == "record" and kb == "record":
        for x, y in leaf_pairs(a, b):
            if not (x["k"] == "record" and y["k"] == "record"):
                s |= pair_classes(x, y)
    return s


def tuple_classes(vals):
    s = set()
    if len(vals) == 1:
        return s
    for i in range(len(vals)):
        for j in range(i + 1, len(vals)):
            s |= pair_classes(vals[i], vals[j])
    return s


def open_classes():
    """class -> (finding, laws) for the open findings of C19"""
    m = {}
    for f in core.open_findings(PROP):
        sig = f.get("signature", {})
        if isinstance(sig, dict) and "class" in sig:
            m[sig["class"]] = (f, set(sig.get("laws", [])))
    return m


def triage(pool, labels, fails, out, table, res, scope_note):
    """Every law instance the real code breaks is either covered by an open known finding
    (its operands fall into the finding's class, the finding lists the law, and the transcription M of the
    unchanged case table breaks the law on the very same tuple) or it is a VIOLATION."""
    oc = open_classes()
    hits = collections.defaultdict(lambda: collections.Counter())
    examples = {}
    viol = []
    for f in fails:
        vals = [pool[i - 1] for i in f["tup"]]
        cls = tuple_classes(vals)
        predicted = (f["m"] is False)
        matched = sorted(c for c in cls if c in oc and f["law"] in oc[c][1])
        if predicted and matched:
            for c in matched:
                hits[c][f["law"]] += 1
                examples.setdefault((c, f["law"]), f)
        else:
            viol.append((f, cls, predicted))
    for c in sorted(hits):
        fnd = oc[c][0]
        parts = []
        for law, n in sorted(hits[c].items()):
            e = examples[(c, law)]
            parts.append("%s x%d e.g. (%s)" % (law, n, ", ".join(labels[i - 1] for i in e["tup"])))
        out.known_finding("%s [%s] %s -- %s" % (fnd["id"], scope_note, fnd["what"], "; ".join(parts)))
    # violations: group by (law, kinds) so that a broken cell gives a handful of replay files, not thousands
    groups = collections.OrderedDict()
    for f, cls, predicted in viol:
        key = (f["law"], tuple(pool[i - 1]["k"] for i in f["tup"]))
        groups.setdefault(key, []).append((f, cls, predicted))
    for (law, kinds), items in list(groups.items())[:40]:
        f, cls, predicted = items[0]
        idx = f["tup"]
        obs = {"cmp": [[table["cmp"][i - 1][j - 1] for j in idx] for i in idx],
               "eq": [[table["eq"][i - 1][j - 1] for j in idx] for i in idx],
               "hash": [res["hash"][i - 1] for i in idx]}
        why = ("not covered by any open known finding" if not cls else
               "touches the known-finding classes %s but %s" % (sorted(cls), "the unchanged case table (M) does not break the law on this tuple"
                                                                  if not predicted else "none of them lists this law"))
        out.violation("law %s broken by the real Value::{eq,cmp,hash} on (%s) [cell %s]: observed %s; %s; %d tuples in this cell" % (
            law, ", ".join(labels[i - 1] for i in idx), " x ".join(kinds), json.dumps(obs), why, len(items)),
            {"component": "valueorder", "law": law, "labels": [labels[i - 1] for i in idx],
             "values": [pool[i - 1] for i in idx], "observed": obs})
    return hits, viol


# ----------------------------------------------------------------------------- statistics

def pair_stats(table):
    """non-trivial instances of the element / pair laws, counted from the observed table: operands are two
    different pool elements and the law's premise holds (EqImpliesHashEq: eq(a,b))."""
    n = len(table["pool"])
    nt = collections.Counter()
    for a in range(n):
        for b in range(n):
            if a == b:
                continue
            for law in ("NoPanic", "EqSymmetric", "CmpAntisymmetric", "CmpEqualIffEq"):
                nt[law] += 1
            if table["eq"][a][b] == 1:
                nt["EqImpliesHashEq"] += 1
    return nt


def impact_ops(pool, labels, hits_examples, wd):
    """The collections the statement mentions, run by the harness on one example tuple per known finding."""
    ops, meta = [{"op": "sort", "xs": list(range(len(pool)))}], [("whole-pool", "-", "sort", ["<all %d values>" % len(pool)])]
    for (cls, law), f in sorted(hits_examples.items()):
        for op in ("sort", "btree", "hashmap"):
            ops.append({"op": op, "xs": [i - 1 for i in f["tup"]]})
            meta.append((cls, law, op, [labels[i - 1] for i in f["tup"]]))
    return ops, meta


def run(tier, out):
    wd = core.workdir("C19")
    core.build_harness("h_core", "valueorder")
    pool, labels, gen = enumerate_pool(tier, wd)
    res = observe(pool, [], wd)
    table = table_of(pool, res, tier)
    r = evaluate(table, wd)
    fails, drift, monly = r.tagged.get("FAIL", []), r.tagged.get("DRIFT", []), r.tagged.get("MONLY", [])
    hits, viol = triage(pool, labels, fails, out, table, res, "pool of %d" % len(pool))

    cov = {a: {"distinct": d, "taken": t} for a, (d, t) in r.coverage.items()}
    never = [a for a, (d, t) in r.coverage.items() if t == 0 and a.startswith("Eval")]
    laws_eval = sum(t for a, (d, t) in r.coverage.items() if a.startswith("Eval") and a != "EvalConform")
    nt = pair_stats(table)
    nt["EqTransitive"] = r.coverage.get("EvalEqTransitive", (0, 0))[0]
    nt["CmpTransitive"] = r.coverage.get("EvalCmpTransitive", (0, 0))[0]
    n = len(pool)
    for d in drift[:3]:
        a, b = d["tup"]
        out.notes.append("MODEL-DRIFT ValueOrder cell (%s, %s): M says cmp=%s eq=%s hash-equal=%s, the code says cmp=%s eq=%s hash-equal=%s" % (
            labels[a - 1], labels[b - 1], d["cmp"], d["eq"], d["heq"], table["cmp"][a - 1][b - 1], table["eq"][a - 1][b - 1],
            table["hash"][a - 1] == table["hash"][b - 1]))
    # impact of the findings on sorted / keyed collections (information, no verdict)
    examples = {}
    oc = open_classes()
    for f in fails:
        if f["m"] is False:
            for c in tuple_classes([pool[i - 1] for i in f["tup"]]):
                if c in oc and f["law"] in oc[c][1]:
                    examples.setdefault((c, f["law"]), f)
    ops, meta = impact_ops(pool, labels, examples, wd)
    ores = observe(pool, ops, wd, tag="ops")["ops"]
    impact = []
    for (cls, law, op, labs), o in zip(meta, ores):
        o = dict(o)
        for k in ("order", "keys"):
            if k in o and len(o[k]) <= 6:
                o[k] = [labels[i] for i in o[k]]
            elif k in o:
                o[k] = "<%d>" % len(o[k])
        impact.append({"class": cls, "law": law, "op": op, "on": labs, "observed": o})
    by_law = collections.Counter(f["law"] for f in fails)
    out.add(evaluations=laws_eval, distinct_nontrivial=sum(nt.values()),
            rule="pool enumerated by TLC from the data model of ValueOrder.tla (scope %s), concretised exactly; one evaluation = one law "
                 "instance (law, tuple of pool elements) evaluated by TLC over the table observed on the real Value::{eq,cmp,hash}: "
                 "%d elements, %d ordered pairs x 5 pair laws, %d ordered triples (instances with a true premise are states); "
                 "non-trivial = operands pairwise different pool elements and the premise of the law holds "
                 "(eq(a,b) for EqImpliesHashEq; the two premises for the transitivity laws)" % (json.dumps(scope(tier)), n, n * n, n ** 3),
            nontrivial_by_law=dict(nt), pool_size=n, pool_by_kind=dict(collections.Counter(v["k"] for v in pool)),
            states=r.distinct, transitions=r.generated, gen_states=gen.distinct,
            action_coverage=cov, actions_never_taken=never,
            law_instances_broken_by_code=len(fails), broken_by_law=dict(by_law),
            broken_and_covered_by_known_findings=len(fails) - len(viol), unexcused=len(viol),
            model_drift_cells=len(drift), cells_compared_with_M=n * n, broken_only_in_M=len(monly),
            impact_on_collections=impact[:64], exhaustive=True, tlc_wall_s=round(r.wall, 1),
            checker_cmd="tlc Gen_ValueOrder (pool) ; h_core valueorder (observe) ; tlc MC_ValueOrder INVARIANT Report (laws P, model M, Conform)")
    rnd = __import__("random").Random(core.seed())
    for _ in range(3):
        i, j = rnd.randrange(n), rnd.randrange(n)
        out.sample({"a": labels[i], "b": labels[j], "descriptor_a": descriptor(pool[i]), "descriptor_b": descriptor(pool[j]),
                    "eq": table["eq"][i][j], "cmp": table["cmp"][i][j], "hash_equal": table["hash"][i] == table["hash"][j]})
    for f in fails[:: max(1, len(fails) // 3)][:3]:
        out.sample({"law": f["law"], "broken_on": [labels[i - 1] for i in f["tup"]], "also_broken_in_M": f["m"] is False})
    out.assumptions += ["hash equality is observed through std DefaultHasher (SipHash-1-3, fixed keys): a 64-bit collision would hide a hash difference",
                        "the laws are evaluated on the pool only (all pairs, all triples); values outside the pool are not covered",
                        "a broken law instance is excused only if an open known finding lists its law and class AND the transcription "
                        "of the unchanged compare/eq/hash tables (M in ValueOrder.tla) breaks the same law on the same tuple"]
    core.log("[C19] pool %d: %d law instances evaluated by TLC (%d states, %.1fs); broken %d (excused %d, unexcused %d); drift cells %d" % (
        n, laws_eval, r.distinct, r.wall, len(fails), len(fails) - len(viol), len(viol), len(drift)))
    if never:
        out.notes.append("actions never taken: %s" % never)


def replay(path, out):
    wd = core.workdir("C19_replay")
    obj = json.load(open(path))["replay"]
    vals = []
    for v in obj["values"]:
        if v not in vals:
            vals.append(v)
    pool = sorted(vals, key=sort_key)
    labels = [label(v) for v in pool]
    core.build_harness("h_core", "valueorder")
    res = observe(pool, [], wd)
    table = table_of(pool, res)
    print("values:", labels)
    print("observed eq :", table["eq"])
    print("observed cmp:", table["cmp"])
    print("observed hash classes:", table["hash"])
    r = evaluate(table, wd, workers=1)
    fails = r.tagged.get("FAIL", [])
    for f in fails:
        print("law %s broken on (%s)%s" % (f["law"], ", ".join(labels[i - 1] for i in f["tup"]),
                                          "  [also broken by the unchanged case table M]" if f["m"] is False else ""))
    hits, viol = triage(pool, labels, fails, out, table, res, "replay")
    for k in out.known:
        print("KNOWN-FINDING: property=%s %s" % (PROP, k))
    if viol:
        print("VIOLATION property=%s replay=%s" % (PROP, path))
        return 1
    print("no unexcused law violation on this tuple")
    return 0

"""C13 - both stores behave as isolated per-agent, per-item value/map storage.

P = M = specs/Store.tla (an exact functional contract: store[agent][item] in Empty | Value | Map, a stable
injective identifier per (agent, name), Restart / Reopen keep the state, Crash keeps every acknowledged call).

B3: TLC checks Store.tla exhaustively at small scope: the transition relation against the independently
    stated laws (Isolation, ReadsPure, IdStable, IdInjective, IdReported, CrashBounded as invariants / action
    properties; ReadImplied / ReadResult = "every read returns what the preceding writes to that item imply"
    as a last-writer characterisation over a ghost write history).
B1: TLC dumps the complete state graph of several scopes (MC_Store: one EDGE per transition with the call
    and the result the stores must give); a transition cover of every graph plus random walks, and
    fixed-length behaviours of larger scopes produced by TLC's simulation mode (Sim_Store), are executed on
    BOTH real stores through swimos_api::persistence (harness h_store/store).  Abstract agents / items / keys /
    values are concretised per case from boundary pools (adversarial URIs and names, keys that are empty,
    share prefixes, contain 0x00 / 0xFF, have lengths around the 8-byte prefix extractor and the 18-byte
    StoreKey prefix, look like encoded store keys ...).  Every observed result is compared with the
    specification's; because P = M a difference is a violation.
B2: the recorded executions (with the raw identifiers) are validated by TLC against Trace_Store.tla, which
    evaluates the identifier laws on the raw ids.
S : a child process performs a TLC-generated sequence on RocksDB, appending an fsynced line per completed
    call; the parent SIGKILLs it at a random instant, reopens the database, reads everything back (twice,
    with another reopen in between) and TLC validates  acknowledged calls ++ crash(call in flight) ++ reads
    against Trace_Store.tla (the call in flight may or may not have taken effect).
S/alloc: the same with kills inside the allocation of an identifier: Steps_Store.tla models every operation as
    its persistent writes (id_for of a first-seen name = counter merge + record put) with a kill between any
    two of them (B3: the code's order satisfies IdsDistinct / AckedStable / Refines / Isolation, the swapped
    order is refuted).  A writer child runs a TLC-generated sequence over 32 names without fsyncs, started by the
    parent and killed after a random fraction of the ~0.5 ms it takes (some while the database is being
    created); after reopening, NEW names are registered and written, the interrupted item is read, and after
    another reopen everything is read back; TLC (Trace_Store.tla) decides each history.
"""
import json, os, random, shutil, signal, subprocess, time
from vlib import core
from vlib import replay as rp

PROP = "C13"
INPUT_KEYS = {"k", "a", "i", "key", "v", "mode"}
IGNORE_OBS = ("rid",)
MODES3 = core.Raw('{"idle", "handover", "abandon"}')
MODES1 = core.Raw('{"idle"}')
INVS = ["TypeOK", "IdInjective", "StoredHasId", "ReadImplied"]
PROPS = ["Isolation", "ReadsPure", "IdStable", "CrashBounded", "ReadResult", "IdReported", "AllOk"]
KF_ALIAS = "C13-F1"
MAX_REPLAYS = 12

# ------------------------------------------------------------------------------------------ boundary pools

PFX = 18          # StoreKey::MAP_KEY_PREFIX_SIZE = tag + lane id + tag + length
EXT = 8           # fixed prefix extractor of the map keyspace


def _le(n):
    return n.to_bytes(8, "little")


KEY_GROUPS = {
    "tiny": [b"", b"\x00", b"\xff", b"\x01", b"\x02", b"\x00\x00", b"\xff\xff", b"\x00\xff", b"\xff\x00", b"\x00\x00\x00"],
    "prefix": [b"a", b"ab", b"abc", b"ab\x00", b"ab\xff", b"a\x00", b"a\xff", b"b", b"aa", b"abd"],
    "ext": [b"\xff" * (EXT - 1), b"\xff" * EXT, b"\xff" * (EXT + 1), b"\x00" * (EXT - 1), b"\x00" * EXT, b"\x00" * (EXT + 1),
            b"abcdefg", b"abcdefgh", b"abcdefghi"],
    "pfx": [b"\xff" * (PFX - 1), b"\xff" * PFX, b"\xff" * (PFX + 1), b"\x00" * (PFX - 1), b"\x00" * PFX, b"\x00" * (PFX + 1),
            bytes(range(PFX - 1)), bytes(range(PFX)), bytes(range(PFX + 1))],
    # keys that look like (pieces of) encoded store keys of lanes 1, 2, 256
    "encoded": [b"\x01" + _le(1), b"\x01" + _le(2), b"\x01" + _le(1) + b"\x01", b"\x01" + _le(1) + b"\x02",
                b"\x01" + _le(1) + b"\x01" + _le(0), b"\x01" + _le(2) + b"\x01" + _le(1) + b"a", b"\x00" + _le(1),
                b"\x01" + _le(256) + b"\x02", _le(1), _le(0)],
    "long": [b"k" * 255, b"k" * 256, b"k" * 257, b"k" * 256 + b"\x00", b"\xff" * 300],
}
HUGE_KEY = bytes((i * 7 + 1) % 256 for i in range(65536))
VALUES = [b"", b"\x00", b"\xff\xff\xff", b"v", b"w", b"\x00" * 8, bytes(range(PFX)), b"\x01" + _le(1), b"x" * 1000,
          bytes((i * 13 + 5) % 256 for i in range(4096))]
HUGE_VALUE = bytes((i * 31 + 7) % 256 for i in range(1 << 16))

# naming schemes: node URIs per agent, names per agent per item (no scheme but "slash_alias" makes two
# (URI, name) pairs coincide under any reasonable joining)
NAMINGS = {
    "plain": (["/a1", "/a2", "/a3"], ["i1", "i2", "i3"]),
    "prefix": (["/unit/1", "/unit/10", "/unit/1x"], ["lane", "lane2", "lan"]),
    "empty": (["/a", "/a/", "/"], ["", "x", " "]),
    "keywords": (["/lane", "/counter", "/default"], ["counter", "lane", "map_lanes"]),
    "unicode": (["/\u00fc/\u20ac", "/\u00fc", "/\u00fc/"], ["\u5024", "\u0000", "a\u0000b"]),
    "nested": (["/a/b", "/a", "/a/b/c"], ["b", "c", "b c"]),
}
# "/a" + "b/c"  and  "/a/b" + "c": the same string when joined with "/"
ALIAS = (["/a", "/a/b", "/z"], [["b/c", "x", "y"], ["c", "x2", "y2"], ["c", "x3", "y3"]])


def concretise(rng, scope, store, db, caseno, tier, force_naming=None):
    na, ni, nk, nv = scope
    naming = force_naming or rng.choice(list(NAMINGS))
    def grow(lst, n, fmt):
        # larger scopes than the hand-written pools: further members derived from them (names stay free of '/')
        return [lst[x] if x < len(lst) else fmt % (lst[x % len(lst)], x) for x in range(n)]
    if naming == "slash_alias":
        uris, names = ALIAS[0][:na], [grow(n, ni, "%s_%d") for n in ALIAS[1][:na]]
    else:
        u, n = NAMINGS[naming]
        uris, names = grow(u, na, "%s/u%d"), [grow(n, ni, "%s_%d") for _ in range(na)]
    if db == "shared":
        uris = ["/c%d%s" % (caseno, u) for u in uris]
    if rng.random() < 0.7:
        pool = list(KEY_GROUPS[rng.choice(list(KEY_GROUPS))])
    else:
        pool = [k for g in KEY_GROUPS.values() for k in g]
    if tier == "thorough" and rng.random() < 0.02:
        pool.append(HUGE_KEY)
    pool = sorted(set(pool))
    keys = rng.sample(pool, nk)
    vpool = list(VALUES) + ([HUGE_VALUE] if rng.random() < (0.05 if tier == "thorough" else 0.01) else [])
    vals = rng.sample(vpool, nv)
    cfg = {"store": store, "db": db, "naming": naming, "uris": uris, "names": names,
           "keys": [k.hex() for k in keys], "vals": [v.hex() for v in vals], "scope": list(scope)}
    if store == "rocks" and db == "fresh":
        cfg["prealloc"] = rng.choice([0, 0, 254, 255] + ([65534] if tier == "thorough" and rng.random() < 0.1 else []))
    return cfg


# ------------------------------------------------------------------------------------------ TLC

def consts(scope, modes=MODES3, crash=False, hist=0, **kw):
    k = dict(NA=scope[0], NI=scope[1], NK=scope[2], NV=scope[3], Modes=modes, WithCrash=crash, MaxHist=hist)
    k.update(kw)
    return k


class Tlc:
    """accumulates TLC statistics over all runs of the check"""

    def __init__(self):
        self.states = 0
        self.transitions = 0
        self.cov = {}
        self.runs = []

    def account(self, what, k, r):
        self.states += r.distinct
        self.transitions += max(0, r.generated - 1)
        for a, (d, t) in r.coverage.items():
            if a in ("Init", "EdgeDump", "InitDump", "HistBound"):
                continue
            o = self.cov.get(a, (0, 0))
            self.cov[a] = (o[0] + d, o[1] + t)
        self.runs.append({"run": what, "scope": "NA=%s NI=%s NK=%s NV=%s crash=%s hist=%s" % (
            k["NA"], k["NI"], k["NK"], k["NV"], k["WithCrash"], k["MaxHist"]),
            "distinct": r.distinct, "generated": r.generated, "depth": r.depth, "wall_s": round(r.wall, 1)})


def must_hold(r, what, k):
    if not r.ok:
        # the specification contradicts its own laws: our error, never a verdict on the code
        raise core.ToolError("Store.tla violates %s in TLC (%s) for %s:\n%s" % (r.violated, what, k, r.counterexample[:3000]))


def b3(tl, wd, scope, modes, hist, tag):
    k = consts(scope, modes=modes, crash=True, hist=hist)
    c = core.cfg(constants=k, invariants=INVS, properties=PROPS, constraints=["HistBound"], view="HView")
    r = core.run_tlc("Store", c, os.path.join(wd, "b3_" + tag), workers=4)
    must_hold(r, "B3 " + tag, k)
    tl.account("B3 " + tag, k, r)
    core.log("[C13] B3 %s scope=%s hist=%s: %d states, %d transitions, depth %d, %.1fs" % (
        tag, scope, hist, r.distinct, r.generated, r.depth, r.wall))
    return r


STEPS_INVS = ["TypeOK", "IdsDistinct", "AckedStable", "CounterCovers", "Refines"]
STEPS_PROPS = ["AckedNeverChanges", "AckFresh", "Isolation", "ReadResult", "ReadMapResult"]
OPS_ALL = core.Raw('{"idfor", "put", "delete", "get", "update", "remove", "clear", "read"}')
OPS_VAL = core.Raw('{"idfor", "put", "get"}')
OPS_MAP = core.Raw('{"idfor", "update", "clear", "read"}')
OPS_IDP = core.Raw('{"idfor", "put"}')


def steps_consts(scope, maxid, ops, nt=1, order="counter_first", cw="merge", crash=True):
    return dict(NA=scope[0], NI=scope[1], NK=scope[2], NV=scope[3], MaxId=maxid, NT=nt, AllocOrder=order,
                CounterWrite=cw, WithCrash=crash, OpSet=ops)


def b3_steps(tl, wd, quick):
    """Steps_Store.tla: every operation as its persistent writes (identifier allocation = counter advance +
    record write), a kill between any two of them; two concurrent callers with a clean reopen.  The code's
    design (counter first, atomic merge) must satisfy the laws; the unsafe variants must be refuted by TLC
    (negative controls: the laws are not vacuous)."""
    runs = [((2, 1, 1, 1), 3, OPS_ALL, "all", {}), ((3, 1, 1, 1), 4, OPS_VAL, "values3", {}),
            # one caller: read-modify-write of the counter is equivalent to the merge
            ((2, 1, 1, 1), 3, OPS_ALL, "all_rmw_sequential", dict(cw="rmw")),
            # two callers registering names of different agents at the same time, clean reopen
            ((2, 2, 1, 1), 4, OPS_IDP, "concurrent_merge", dict(nt=2, crash=False))]
    if not quick:
        runs += [((2, 2, 1, 1), 5, OPS_VAL, "values2x2", {}), ((2, 1, 2, 2), 3, OPS_ALL, "all_k2v2", {}),
                 ((3, 1, 1, 1), 4, OPS_MAP, "maps3", {}), ((2, 2, 1, 1), 4, OPS_VAL, "concurrent_merge_values", dict(nt=2, crash=False))]
    info = []
    for scope, maxid, ops, tag, kw in runs:
        k = steps_consts(scope, maxid, ops, **kw)
        c = core.cfg(constants=k, invariants=STEPS_INVS, properties=STEPS_PROPS, constraints=["Bound"], view="View")
        r = core.run_tlc("Steps_Store", c, os.path.join(wd, "steps_" + tag), workers=4)
        if not r.ok:
            raise core.ToolError("Steps_Store.tla (the code's design) violates %s in TLC for %s:\n%s" % (r.violated, k, r.counterexample[:3000]))
        tl.states += r.distinct
        tl.transitions += max(0, r.generated - 1)
        for a, (d, t) in r.coverage.items():
            if a not in ("Init", "Bound"):
                o = tl.cov.get("Steps." + a, (0, 0))
                tl.cov["Steps." + a] = (o[0] + d, o[1] + t)
        tl.runs.append({"run": "B3 steps " + tag, "scope": "NA=%s NI=%s NK=%s NV=%s MaxId=%s NT=%s order=%s counter=%s crash=%s" % (
            scope + (maxid, k["NT"], k["AllocOrder"], k["CounterWrite"], k["WithCrash"])),
                        "distinct": r.distinct, "generated": r.generated, "depth": r.depth, "wall_s": round(r.wall, 1)})
        core.log("[C13] B3 steps %s scope=%s: %d states, %d transitions, depth %d, %.1fs" % (tag, scope, r.distinct, r.generated, r.depth, r.wall))
        info.append({"run": tag, "scope": list(scope), "threads": k["NT"], "order": k["AllocOrder"], "counter": k["CounterWrite"],
                     "crash": k["WithCrash"], "holds": True, "states": r.distinct})
    controls = [("record_before_counter", steps_consts((2, 1, 1, 1), 3, OPS_ALL, order="record_first")),
                ("counter_read_modify_write_two_callers", steps_consts((2, 2, 1, 1), 4, OPS_IDP, nt=2, cw="rmw", crash=False))]
    for tag, k in controls:
        for invs in ((["IdsDistinct"],) if quick else (["IdsDistinct"], ["Refines"])):
            c = core.cfg(constants=k, invariants=invs, constraints=["Bound"], view="View")
            r = core.run_tlc("Steps_Store", c, os.path.join(wd, "steps_unsafe"), workers=1, coverage=False)
            if r.status != "invariant":
                raise core.ToolError("Steps_Store.tla: the unsafe variant %s is not refuted (%s): %s is vacuous" % (tag, r.status, invs))
            info.append({"run": "negative control " + tag, "refuted": r.violated, "counterexample_depth": r.depth})
    core.log("[C13] B3 steps: negative controls refuted by TLC: record before counter; "
             "read-modify-write of the counter with two callers")
    # observation on the design itself (not a verdict: concurrent callers AND a kill are outside C13's
    # sequential histories, and it was not reproduced on the code): see the report / evidence
    if quick:
        return info
    k = steps_consts((2, 2, 1, 1), 4, OPS_IDP, nt=2, crash=True)
    r = core.run_tlc("Steps_Store", core.cfg(constants=k, invariants=["IdsDistinct"], constraints=["Bound"], view="View"),
                     os.path.join(wd, "steps_obs"), workers=1, coverage=False)
    info.append({"run": "observation: two concurrent callers AND SIGKILL, the code's design",
                 "result": ("IdsDistinct refuted at depth %d (caller A takes id n from the in-memory counter; caller B takes n+1, "
                            "merges the counter to n and records n+1; kill; after reopen the counter is n and the next new name "
                            "gets n+1 again)" % r.depth) if r.status == "invariant" else r.status,
                 "status": "model only; not reproduced on the code (concurrent_kill_runs: 112 kills of 32..128 registering threads, "
                           "~110k registrations, nothing rejected); concurrent callers are outside the property's sequential histories"})
    # a repair of that observation, checked at the same scope: the merge operator keeps max(stored, id)
    k = steps_consts((2, 2, 1, 1), 4, OPS_IDP, nt=2, cw="max", crash=True)
    c = core.cfg(constants=k, invariants=STEPS_INVS, properties=STEPS_PROPS, constraints=["Bound"], view="View")
    r = core.run_tlc("Steps_Store", c, os.path.join(wd, "steps_max"), workers=4)
    info.append({"run": "proposed repair: counter := max(counter, id) as merge operator, two callers AND SIGKILL",
                 "holds": r.ok, "states": r.distinct})
    return info


def dump_graph(tl, wd, scope, tag):
    k = consts(scope)
    c = core.cfg(constants=k, invariants=["TypeOK", "IdInjective", "StoredHasId", "InitDump"],
                 properties=["Isolation", "ReadsPure", "IdStable", "IdReported", "AllOk"],
                 view="View", action_constraints=["EdgeDump"])
    r = core.run_tlc("MC_Store", c, os.path.join(wd, "mc_" + tag), workers=1)
    must_hold(r, "dump " + tag, k)
    tl.account("graph " + tag, k, r)
    g = core.Graph(r.tagged["EDGE"], init_views=r.tagged["INIT"])
    core.log("[C13] graph %s scope=%s: %d states, %d edges, %.1fs" % (tag, scope, r.distinct, g.n_edges, r.wall))
    return g


def simulate(wd, scope, length, want, tag, seed):
    k = consts(scope, PathLen=length)
    c = core.cfg(init="SimInit", next_="SimNext", constants=k, invariants=["TypeOK", "IdInjective", "PathDump"])
    r = core.run_tlc("Sim_Store", c, os.path.join(wd, "sim_" + tag), workers=1, simulate="num=%d" % want,
                     extra=["-depth", str(length + 2), "-seed", str(seed)], coverage=False)
    if r.status != "ok":
        raise core.ToolError("simulation of Sim_Store failed: %s %s" % (r.status, r.violated))
    paths, seen = [], set()
    for p in r.tagged["REPLAY"]:
        key = core.canon(p)
        if key not in seen:
            seen.add(key)
            paths.append(p)
        if len(paths) >= want:
            break
    core.log("[C13] simulation %s scope=%s: %d behaviours of %d calls, %.1fs" % (tag, scope, len(paths), length, r.wall))
    return paths


# ------------------------------------------------------------------------------------------ B1

def harness(cases, wd, tag):
    """all cases through one harness process (so that "shared" cases really share one database)"""
    return rp.run_cases("h_store", "store", cases, wd, tag=tag, input_keys=INPUT_KEYS,
                        args=[os.path.join(wd, "db_" + tag)])


def harness_parallel(groups, wd, tag):
    from concurrent.futures import ThreadPoolExecutor
    with ThreadPoolExecutor(max(1, len(groups))) as ex:
        futs = [ex.submit(harness, g, wd, "%s_%d" % (tag, n)) for n, g in enumerate(groups)]
        return [f.result() for f in futs]


def alias_observed(case, res):
    """the two aliased (URI, name) pairs were given the same raw identifier by the store"""
    rid = {}
    for a, o in zip(case["acts"], res.get("obs", [])):
        if "i" in a and "rid" in o:
            rid.setdefault((a["a"], a["i"]), o["rid"])
    return (1, 1) in rid and (2, 1) in rid and rid[(1, 1)] == rid[(2, 1)]


def kf_open(fid):
    return any(f["id"] == fid for f in core.open_findings(PROP))


def judge(out, cases, results, st, batch_of=None):
    """P = M: an observation that differs from the specification's is a violation; the only exception is
    the listed known finding, recognised by its signature (not by the case merely being of that family)."""
    for idx, (c, r) in enumerate(zip(cases, results)):
        st["cases"] += 1
        st["steps"] += len(c["acts"])
        if r.get("panic"):
            d = 0
        else:
            d = rp.first_diff(c["acts"], r.get("obs", []), INPUT_KEYS, IGNORE_OBS)
            if d is None:
                st["conform"] += 1
                continue
        exp = c["acts"][d] if d < len(c["acts"]) else None
        got = r.get("obs", [])[d] if d < len(r.get("obs", [])) else None
        cfg = c["cfg"]
        if (cfg["naming"] == "slash_alias" and cfg["store"] == "rocks" and not r.get("panic") and alias_observed(c, r)
                and exp is not None and exp.get("a") in (1, 2) and exp.get("i") == 1 and kf_open(KF_ALIAS)):
            st["known"] += 1
            out.known_finding("rocks store: node '%s' item '%s' and node '%s' item '%s' get the same identifier "
                              "(lane key is node_uri + '/' + name) and share their data" % (
                                  ALIAS[0][0], ALIAS[1][0][0], ALIAS[0][1], ALIAS[1][1][0]))
            continue
        st["rejected"] += 1
        msg = "%s store, naming %s: case %s diverges from Store.tla at call %s: expected %s, real store gave %s%s" % (
            cfg["store"], cfg["naming"], c["id"], d, json.dumps(exp), json.dumps(got),
            (" PANIC " + str(r.get("panic"))) if r.get("panic") else "")
        if len(out.violations) >= MAX_REPLAYS:
            st["unrecorded"] = st.get("unrecorded", 0) + 1
            continue
        replay_cases = [c]
        if cfg["db"] == "shared" and batch_of is not None:
            # the database was shared with the earlier cases of the batch.  Try the case alone on a fresh
            # database first; only if that does not reproduce keep the batch prefix in the replay file.
            solo = dict(c, cfg=dict(cfg, db="fresh"))
            sr = harness([solo], core.workdir("C13_solo"), "solo")[0]
            if sr.get("panic") or rp.first_diff(solo["acts"], sr.get("obs", []), INPUT_KEYS, IGNORE_OBS) is not None:
                replay_cases = [solo]
            else:
                pre = [x for x in batch_of[:idx] if x["cfg"]["store"] == cfg["store"] and x["cfg"]["db"] == "shared"]
                replay_cases = pre[-300:] + [c]
        out.violation(msg, {"component": "Store", "cases": replay_cases, "observed": r})


def to_events(case, res):
    ev = [{"k": "reset"}]
    for a, o in zip(case["acts"], res.get("obs", [])):
        e = rp.inputs(a, INPUT_KEYS)
        e.update(o)
        ev.append(e)
    return ev


def make_cases(rng, paths, scope, tier, tag, rocks_every, counter):
    """each path on both stores; the RocksDB copy only for every `rocks_every`-th path when > 1 (the
    in-memory run covers every path regardless)"""
    cases = []
    for n, p in enumerate(paths):
        for store in ("mem", "rocks"):
            if store == "rocks" and rocks_every > 1 and n % rocks_every != 0:
                continue
            counter[0] += 1
            r = rng.random()
            db = "fresh" if r < (0.3 if store == "mem" else 0.08) else "shared"
            naming = None
            if scope[0] >= 2 and rng.random() < 0.06:
                naming = "slash_alias"
            cfg = concretise(rng, scope, store, db, counter[0], tier, naming)
            cases.append({"id": "%s.%d.%s" % (tag, n, store), "cfg": cfg, "acts": p})
    return cases


def run(tier, out):
    rng = random.Random(core.seed())
    wd = core.workdir("C13")
    core.build_harness("h_store", "store")
    quick = tier == "quick"
    tl = Tlc()

    # ---- B3: the specification against its laws
    b3(tl, wd, (2, 2, 1, 1), MODES3, 0, "iso_small")
    b3(tl, wd, (2, 1, 2, 2), MODES1, 2 if quick else 3, "hist_agents")
    b3(tl, wd, (1, 2, 2, 2), MODES1, 2 if quick else 3, "hist_items")
    if not quick:
        b3(tl, wd, (2, 2, 2, 1), MODES3, 0, "iso_keys")
        b3(tl, wd, (2, 2, 1, 2), MODES3, 0, "iso_vals")
        b3(tl, wd, (3, 1, 2, 1), MODES3, 0, "three_agents")
        b3(tl, wd, (2, 2, 1, 1), MODES1, 3, "hist_2x2")

    # ---- B3 (mechanism): every operation as its persistent writes, SIGKILL between any two of them
    steps_info = b3_steps(tl, wd, quick)

    # ---- B1: generate
    st = {"cases": 0, "steps": 0, "conform": 0, "rejected": 0, "known": 0}
    counter = [0]
    all_cases = []
    graphs = {}
    scopes = [((2, 1, 2, 2), "agents"), ((1, 2, 2, 2), "items"), ((2, 2, 1, 1), "iso")]
    if not quick:
        scopes += [((3, 1, 2, 1), "agents3"), ((1, 3, 1, 1), "items3")]
    edges_total = 0
    for scope, tag in scopes:
        g = dump_graph(tl, wd, scope, tag)
        graphs[tag] = g
        edges_total += g.n_edges
        paths = g.covering_paths(extend=3 if quick else 6, rng=rng)
        paths += g.random_walks(60 if quick else 1500, 16 if quick else 30, rng)
        # the in-memory store sees every transition; RocksDB (dominated by database opens) a sample in quick
        every = (5 if tag == "iso" else 2) if quick else 1
        all_cases += make_cases(rng, paths, scope, tier, tag, every, counter)
        if len(out.cov["samples"]) < 2:
            out.sample({"scope": dict(zip(("NA", "NI", "NK", "NV"), scope)),
                        "calls_with_expected_results": paths[len(paths) // 2][:10]})
    sims = [((2, 2, 3, 2), 30, 300, "s2232")] if quick else [((2, 2, 3, 2), 40, 3000, "s2232"), ((3, 3, 3, 3), 60, 800, "s3333")]
    for scope, length, want, tag in sims:
        paths = simulate(wd, scope, length, want, tag, core.seed())
        all_cases += make_cases(rng, paths, scope, tier, tag, 1, counter)

    # ---- B1: execute on both stores, compare.  RocksDB opens dominate (fsyncs): they are bounded by a budget
    # (cases beyond it are dropped at random, the in-memory store still runs everything) and spread over 4
    # harness processes, each with its own shared database.
    budget = 1000 if quick else 9000
    rocks = [c for c in all_cases if c["cfg"]["store"] == "rocks"]
    rng.shuffle(rocks)
    keep, dropped = set(), 0
    for c in rocks:
        cost = sum(1 for a in c["acts"] if a["k"] == "reopen") + (1 if c["cfg"]["db"] == "fresh" else 0)
        if cost <= budget:
            budget -= cost
            keep.add(c["id"])
        else:
            dropped += 1
    all_cases = [c for c in all_cases if c["cfg"]["store"] == "mem" or c["id"] in keep]
    groups = [[c for c in all_cases if c["cfg"]["store"] == "mem"]]
    rk = [c for c in all_cases if c["cfg"]["store"] == "rocks"]
    groups += [rk[n::4] for n in range(4)]
    groups = [g for g in groups if g]
    t0 = time.time()
    group_results = harness_parallel(groups, wd, "b1")
    all_cases, results = [], []
    for g, gr in zip(groups, group_results):
        judge(out, g, gr, st, batch_of=g)
        all_cases += g
        results += gr
    n_rocks = len(rk)
    by_action = {}
    for c in all_cases:
        for a in c["acts"]:
            key = "%s:%s" % (c["cfg"]["store"], a["k"] if a["k"] != "restart" else "restart/" + a["mode"])
            by_action[key] = by_action.get(key, 0) + 1
    core.log("[C13] B1: %d cases (%d RocksDB, %d in-memory; %d calls; %d RocksDB cases over the open budget dropped) in %.1fs: "
             "conform=%d rejected=%d known=%d" % (len(all_cases), n_rocks, len(all_cases) - n_rocks, st["steps"], dropped,
                                                  time.time() - t0, st["conform"], st["rejected"], st["known"]))
    some = next((c for c in all_cases if c["cfg"]["store"] == "rocks" and c["cfg"]["naming"] != "plain"), all_cases[0])
    out.sample({"case_cfg": {k: (v if k not in ("keys", "vals") else [x[:40] for x in v]) for k, v in some["cfg"].items()},
                "first_calls": some["acts"][:6]})

    # ---- B2: recorded executions (raw identifiers) against the trace specification
    tv_events = 0
    tv_cases = 0
    by_scope = {}
    for c, r in zip(all_cases, results):
        if r.get("panic") or rp.first_diff(c["acts"], r.get("obs", []), INPUT_KEYS, IGNORE_OBS) is not None:
            continue       # already judged above
        by_scope.setdefault(tuple(c["cfg"]["scope"]), []).append((c, r))
    for scope, lst in by_scope.items():
        cap = 150 if quick else 1200
        pick = lst if len(lst) <= cap else rng.sample(lst, cap)
        ev = []
        for c, r in pick:
            ev += to_events(c, r)
        res = core.trace_validate("Trace_Store", ev, os.path.join(wd, "tv_%s" % "_".join(map(str, scope))),
                                  constants=consts(scope, crash=True), timeout=900)
        tv_events += res["total"]
        tv_cases += len(pick)
        if not res["accepted"]:
            m = res["matched"]
            out.violation("Trace_Store (P, raw identifiers) rejects a recorded execution at event %s" % json.dumps(ev[m] if 0 <= m < len(ev) else None),
                          {"component": "Trace_Store", "scope": list(scope), "trace": ev[max(0, m - 40): m + 1]})
    core.log("[C13] B2: %d recorded executions (%d events) accepted by Trace_Store" % (tv_cases, tv_events))

    # ---- S: SIGKILL of a writer process
    ks = kill_runs(out, wd, rng, 8 if quick else 300, tier)
    ka = alloc_kill_runs(out, wd, rng, 320 if quick else 2000, tier)
    cc = concurrent_runs(out, wd, rng, tier)

    unvisited = sorted(a for a, (d, t) in tl.cov.items() if t == 0)
    out.add(states=tl.states, transitions=tl.transitions,
            traces_validated_against_impl=st["conform"] + ks["validated"] + ka["validated"] + cc["validated"],
            replayed_cases=st["cases"], replayed_calls=st["steps"], rocksdb_cases=n_rocks, rocksdb_cases_dropped_over_open_budget=dropped,
            in_memory_cases=len(all_cases) - n_rocks, state_graph_edges_all_replayed=edges_total,
            known_finding_cases=st["known"], p_trace_executions=tv_cases, p_trace_events=tv_events,
            kills=ks["kills"], kills_with_call_in_flight=ks["midrun"], kill_trace_events=ks["events"],
            allocation_kills=ka["kills"], allocation_kills_with_call_in_flight=ka["midrun"],
            allocation_kills_inside_first_call_on_a_name=ka["in_alloc"], new_names_registered_after_kills=ka["fresh"],
            allocation_kill_trace_events=ka["events"], kills_while_opening_the_database=ka["in_open"], steps_store=steps_info, concurrent_registration=cc,
            tlc_runs=tl.runs, replayed_calls_by_store_and_action=dict(sorted(by_action.items())),
            action_coverage={a: {"distinct": d, "taken": t} for a, (d, t) in sorted(tl.cov.items())},
            actions_never_taken=unvisited, exhaustive=True, model_drift=0,
            rule="every transition of the TLC state graphs of Store.tla (scopes listed in tlc_runs 'graph *') is executed on the "
                 "in-memory store%s, plus random walks and TLC-simulated behaviours of larger scopes on both; a case is one call "
                 "sequence with one concretisation of the abstract symbols" % (
                     " and on RocksDB" if not quick else "; RocksDB executes a fixed fraction of the cover in the quick tier"),
            checker_cmd="tlc Store (INVARIANTS %s; PROPERTIES %s) + tlc MC_Store (EDGE dump) + tlc Sim_Store -simulate + "
                        "h_store store (RocksDB, in-memory) + tlc Trace_Store" % (" ".join(INVS), " ".join(PROPS)))
    if not out.violations:
        shutil.rmtree(wd, ignore_errors=True)       # scratch (databases, TLC output, case files)
    out.assumptions += [
        "calls on the stores are made sequentially (one agent task owns its node store); concurrent id_for on one plane is not explored",
        "an item is used as a value or as a map, switching only while it is empty (what the two stores do when kinds are mixed differs and is not constrained by the property)",
        "SIGKILL of the process, not power loss: data handed to the OS by a completed write is assumed to survive",
        "identifiers are compared up to renaming per agent (first-appearance order); raw identifiers are checked for stability and per-agent injectivity by Trace_Store",
    ]


# ------------------------------------------------------------------------------------------ S variant

def dump_acts(scope):
    acts = []
    for rnd in range(2):
        for a in range(1, scope[0] + 1):
            for i in range(1, scope[1] + 1):
                acts += [{"k": "idfor", "a": a, "i": i}, {"k": "get", "a": a, "i": i}, {"k": "read", "a": a, "i": i}]
        if rnd == 0:
            acts.append({"k": "reopen"})
    return acts


def one_kill(wd, j, case, delay, open_delay=None):
    """returns (acked observations, done?)"""
    d = os.path.join(wd, "kill%s" % j)
    shutil.rmtree(d, ignore_errors=True)
    os.makedirs(d)
    db, ack, cf = os.path.join(d, "db"), os.path.join(d, "ack.ndjson"), os.path.join(d, "case.json")
    with open(cf, "w") as fh:
        json.dump({"cfg": case["cfg"], "acts": [rp.inputs(a, INPUT_KEYS) for a in case["acts"]]}, fh)
    go = bool(case["cfg"].get("go"))
    p = subprocess.Popen([core.harness_bin("store"), "child", db, ack, cf], stdin=subprocess.PIPE,
                         stdout=subprocess.PIPE, stderr=subprocess.PIPE)
    t_spawn = time.perf_counter()
    try:
        if open_delay is not None:
            # killed while it opens (creates) the database: nothing was acknowledged
            time.sleep(open_delay)
            os.kill(p.pid, signal.SIGKILL)
            return [], False, db, 0.0, d
        line = p.stdout.readline()
        one_kill.t_open = time.perf_counter() - t_spawn
        if line.strip() != b"READY":
            p.kill()
            raise core.ToolError("kill child did not start: %r %r" % (line, p.stderr.read()[-2000:]))
        if go:
            p.stdin.write(b"GO\n")
            p.stdin.flush()
        t0 = time.perf_counter()
        if delay is None:
            # calibration run: let it finish, measure
            while time.perf_counter() - t0 < 120:
                if os.path.exists(ack) and b'"done"' in open(ack, "rb").read()[-60:]:
                    break
                time.sleep(0.002)
        elif delay > 0.003:
            time.sleep(delay)
        else:
            while time.perf_counter() - t0 < delay:       # sub-millisecond delays: spin
                pass
        elapsed = time.perf_counter() - t0
        os.kill(p.pid, signal.SIGKILL)
    finally:
        try:
            p.kill()
        except OSError:
            pass
        p.wait()
        p.stdin.close()
        p.stdout.close()
        p.stderr.close()
    obs, done = [], False
    if os.path.exists(ack):
        for ln in open(ack, "rb").read().split(b"\n"):
            if not ln.strip():
                continue
            try:
                o = json.loads(ln)
            except ValueError:
                break                      # a torn last line is not an acknowledgement
            if o.get("done"):
                done = True
                if delay is None and "us" in o:
                    elapsed = o["us"] / 1e6           # the child's own measurement of the sequence
                break
            if o.get("n") != len(obs):
                raise core.ToolError("ack file out of order")
            obs.append(o["obs"])
    return obs, done, db, elapsed, d


def validate_kill_traces(out, wd, scope, metas, events, ks, tag, note=None):
    """TLC (Trace_Store) decides every  acknowledged calls ++ crash(call in flight) ++ calls after reopening"""
    if events:
        # chunks keep each TLC run small; a rejection is attributed to the run containing the failing event
        chunk, start = [], 0
        groups = []
        for m in metas:
            if m[1] - start > 60000 and chunk:
                groups.append(chunk)
                chunk, start = [], m[0]
            chunk.append(m)
        if chunk:
            groups.append(chunk)
        gi = 0
        rejected = 0
        while groups:
            grp = groups.pop(0)
            gi += 1
            lo, hi = grp[0][0], grp[-1][1]
            res = core.trace_validate("Trace_Store", events[lo:hi], os.path.join(wd, "%s%d" % (tag, gi)),
                                      constants=consts(scope, crash=True), timeout=1200)
            if res["accepted"]:
                ks["events"] += res["total"]
                ks["validated"] += len(grp)
                continue
            at = lo + res["matched"]
            bi = next((x for x, m in enumerate(grp) if m[0] <= at < m[1]), len(grp) - 1)
            ks["validated"] += bi
            ks["events"] += grp[bi][1] - lo
            s, e, case, acked, pend = grp[bi]
            out.violation("after SIGKILL with %d acknowledged calls (in flight: %s) the reopened RocksDB store is not the state "
                          "Store.tla allows: event %s rejected%s" % (acked, json.dumps(pend), json.dumps(events[at]),
                                                                     note(events[s:e]) if note else ""),
                          {"component": "Kill", "scope": list(scope), "trace": events[s:e], "rejected_at": at - s})
            rejected += 1
            ks["rejected"] = ks.get("rejected", 0) + 1
            # the histories behind the rejected one are still to be decided
            if grp[bi + 1:] and rejected < MAX_REPLAYS:
                groups.insert(0, grp[bi + 1:])


def kill_runs(out, wd, rng, n, tier):
    scope = (2, 2, 2, 2)
    length = 400
    paths = simulate(wd, scope, length, max(n, 20), "kill", core.seed() + 7)
    ks = {"kills": 0, "midrun": 0, "events": 0, "validated": 0}
    events, metas = [], []
    post_cases = []
    runs = []
    plan = []
    for j in range(n):
        p = paths[j % len(paths)]
        cfg = concretise(rng, scope, "rocks", "fresh", 0, tier, None)
        cfg.pop("prealloc", None)
        if rng.random() < 0.3:
            cfg["prealloc"] = 254
        plan.append(({"id": "kill%d" % j, "cfg": cfg, "acts": p}, rng.random()))
    # the first run is let to finish (calibrates the window in which the others are killed)
    first = one_kill(wd, 0, plan[0][0], None) if plan else None
    full = max(first[3], 0.02) if first else 0
    from concurrent.futures import ThreadPoolExecutor
    with ThreadPoolExecutor(4) as ex:
        futs = [ex.submit(one_kill, wd, j, plan[j][0], plan[j][1] * full * 1.05) for j in range(1, n)]
        outcomes = [first] + [f.result() for f in futs]
    for j, (obs, done, db, elapsed, d) in enumerate(outcomes if plan else []):
        case = plan[j][0]
        p = case["acts"]
        cfg = case["cfg"]
        ks["kills"] += 1
        pend = None
        if len(obs) < len(p):
            pend = rp.inputs(p[len(obs)], INPUT_KEYS)
            ks["midrun"] += 1
        pcfg = dict(cfg, db="at", path=db)
        pcfg.pop("prealloc", None)
        post_cases.append({"id": "post%d" % j, "cfg": pcfg, "acts": dump_acts(scope)})
        runs.append((case, obs, pend, d))
    pgroups = [g for g in (post_cases[x::4] for x in range(4)) if g]
    pres = harness_parallel(pgroups, wd, "post")
    post = [None] * len(post_cases)
    for x, (g, gr) in enumerate(zip(pgroups, pres)):
        post[x::4] = gr
    for (case, obs, pend, d), pc, pr in zip(runs, post_cases, post):
        ev = [{"k": "reset"}]
        for a, o in zip(case["acts"], obs):
            e = rp.inputs(a, INPUT_KEYS)
            e.update(o)
            ev.append(e)
        crash = {"k": "crash"}
        if pend is not None:
            crash["pend"] = pend
        ev.append(crash)
        if pr.get("panic"):
            out.violation("RocksDB store cannot be read back after SIGKILL: %s" % pr["panic"],
                          {"component": "Kill", "case": case, "acked": len(obs), "pend": pend})
            continue
        for a, o in zip(pc["acts"], pr["obs"]):
            e = dict(a)
            e.update({k: v for k, v in o.items() if k != "id"})    # canonical ids of another process: not comparable
            ev.append(e)
        metas.append((len(events), len(events) + len(ev), case, len(obs), pend))
        events += ev
        shutil.rmtree(d, ignore_errors=True)
    validate_kill_traces(out, wd, scope, metas, events, ks, "tv_kill")
    core.log("[C13] S: %d kills (%d with a call in flight), %d events validated by Trace_Store; full run %.3fs" % (
        ks["kills"], ks["midrun"], ks["events"], full or 0))
    if len(out.cov["samples"]) < 6 and runs:
        case, obs, pend, d = runs[-1]
        out.sample({"kill": {"acknowledged_calls": len(obs), "in_flight": pend, "last_acked": (case["acts"][len(obs) - 1] if obs else None)}})
    return ks


# ------------------------------------------------------------------------------------------ S, allocation kills

ALLOC_SCOPE = (4, 8, 1, 2)


def probe_acts(scope, prefix, pend, rng):
    """What the parent does with the database after the kill (the calls are chosen here, their results are
    decided by TLC): every name the writer used is resolved again (identifiers are stable), NEW names are
    registered - the first one right away, so that it is the first allocation after the reopen -, the new
    items are written, the item whose call was in flight is read, and after another reopen everything
    is read back."""
    touched = []
    for a in prefix + ([pend] if pend and "i" in pend else []):
        if "i" in a and (a["a"], a["i"]) not in touched:
            touched.append((a["a"], a["i"]))
    fresh = [(a, i) for a in range(1, scope[0] + 1) for i in range(1, scope[1] + 1) if (a, i) not in touched]
    rng.shuffle(fresh)
    if pend and "i" in pend and fresh:
        # the first new name: same agent as the interrupted call or another one, both matter
        same = [f for f in fresh if f[0] == pend["a"]]
        other = [f for f in fresh if f[0] != pend["a"]]
        first = (same if (rng.random() < 0.5 and same) or not other else other)[0]
        fresh.remove(first)
        fresh.insert(0, first)
    fresh = fresh[:4]
    acts = []
    pitem = (pend["a"], pend["i"]) if pend and "i" in pend else None
    if pitem:
        acts.append({"k": "idfor", "a": pitem[0], "i": pitem[1]})
    for (a, i) in fresh[:1]:
        acts.append({"k": "idfor", "a": a, "i": i})
    for (a, i) in touched:
        acts.append({"k": "idfor", "a": a, "i": i})
    for (a, i) in fresh[1:]:
        acts.append({"k": "idfor", "a": a, "i": i})
    v0 = 1
    if pend and pend.get("v") == 1:
        v0 = 2                                   # not the value of the call in flight: the two cannot be confused
    for n, (a, i) in enumerate(fresh):
        if n % 2 == 0:
            acts.append({"k": "put", "a": a, "i": i, "v": v0 if n == 0 else 1 + (n // 2) % scope[3]})
        else:
            acts.append({"k": "update", "a": a, "i": i, "key": 1, "v": 1 + (n // 2) % scope[3]})
    if pitem:
        acts += [{"k": "get", "a": pitem[0], "i": pitem[1]}, {"k": "read", "a": pitem[0], "i": pitem[1]}]
    acts.append({"k": "reopen"})
    for (a, i) in touched + fresh:
        acts += [{"k": "idfor", "a": a, "i": i}, {"k": "get", "a": a, "i": i}, {"k": "read", "a": a, "i": i}]
    return acts, len(fresh)


def shared_ids_note(ev):
    """diagnostic only: names that were handed the same raw identifier after the kill"""
    at = next((n for n, e in enumerate(ev) if e.get("k") == "crash"), 0)
    seen = {}
    for e in ev[at:]:
        if "rid" in e and "i" in e:
            seen.setdefault(e["rid"], set()).add((e["a"], e["i"]))
    dup = {r: sorted(x) for r, x in seen.items() if len(x) > 1}
    return (" [raw identifiers shared after the kill: %s]" % json.dumps(dup)) if dup else ""


def alloc_kill_runs(out, wd, rng, n, tier):
    """SIGKILL inside the allocation of an identifier.  The writer performs a TLC-generated sequence over
    many names (every call resolves the identifier first, so the early calls allocate), acknowledging each
    call with a plain write; it is started by the parent (GO) and killed after a random fraction of the
    time the sequence takes, so kills land between the persistent writes of id_for.  After the kill the
    parent registers new names and writes them (probe_acts)."""
    scope = ALLOC_SCOPE
    ntr = 8 if tier == "quick" else 40         # kills are cheap, behaviours are not: each behaviour is killed many times
    paths = simulate(wd, scope, 40, ntr, "alloc", core.seed() + 11)
    paths = [[a for a in p if a["k"] not in ("reopen", "restart")] for p in paths]   # these keep the state: the rest is still a behaviour
    ks = {"kills": 0, "midrun": 0, "events": 0, "validated": 0, "in_alloc": 0, "fresh": 0, "in_open": 0}
    plan = []
    for j in range(n):
        cfg = concretise(rng, scope, "rocks", "fresh", 0, tier, None)
        cfg.pop("prealloc", None)
        cfg["prealloc"] = rng.choice([0, 0, 3, 254])
        cfg["go"] = True
        cfg["ack_sync"] = False
        plan.append(({"id": "akill%d" % j, "cfg": cfg, "acts": paths[j % len(paths)]}, rng.random()))
    if not plan:
        return ks
    first = one_kill(wd, "a0", plan[0][0], None)
    full = min(max(first[3], 0.0005), 0.5)
    from concurrent.futures import ThreadPoolExecutor
    with ThreadPoolExecutor(4) as ex:
        # the allocations are dense at the beginning of a sequence: kill within its first 70 %
        t_open = getattr(one_kill, "t_open", 0.05)
        futs = []
        for j in range(1, n):
            if j % 12 == 5:
                ks["in_open"] += 1         # some are killed while the database is being opened / created
                futs.append(ex.submit(one_kill, wd, "a%d" % j, plan[j][0], 0, plan[j][1] * t_open * 1.1))
            else:
                futs.append(ex.submit(one_kill, wd, "a%d" % j, plan[j][0], plan[j][1] * full * 0.7))
        outcomes = [first] + [f.result() for f in futs]
    post_cases, runs = [], []
    for j, (obs, done, db, elapsed, d) in enumerate(outcomes):
        case = plan[j][0]
        p = case["acts"]
        ks["kills"] += 1
        pend = None
        if len(obs) < len(p) and elapsed > 0:
            pend = rp.inputs(p[len(obs)], INPUT_KEYS)
            ks["midrun"] += 1
            if "i" in pend and not any(a.get("a") == pend["a"] and a.get("i") == pend["i"] for a in p[:len(obs)]):
                ks["in_alloc"] += 1            # the call in flight was the first one on its name: it allocates
        acts, nfresh = probe_acts(scope, [rp.inputs(a, INPUT_KEYS) for a in p[:len(obs)]], pend, rng)
        ks["fresh"] += nfresh
        pcfg = dict(case["cfg"], db="at", path=db)
        for k in ("prealloc", "go", "ack_sync"):
            pcfg.pop(k, None)
        post_cases.append({"id": "apost%d" % j, "cfg": pcfg, "acts": acts})
        runs.append((case, obs, pend, d))
    pgroups = [g for g in (post_cases[x::4] for x in range(4)) if g]
    pres = harness_parallel(pgroups, wd, "apost")
    post = [None] * len(post_cases)
    for x, (g, gr) in enumerate(zip(pgroups, pres)):
        post[x::4] = gr
    events, metas = [], []
    for (case, obs, pend, d), pc, pr in zip(runs, post_cases, post):
        ev = [{"k": "reset"}]
        for a, o in zip(case["acts"], obs):
            e = rp.inputs(a, INPUT_KEYS)
            e.update(o)
            ev.append(e)
        crash = {"k": "crash"}
        if pend is not None:
            crash["pend"] = pend
        ev.append(crash)
        if pr.get("panic"):
            out.violation("RocksDB store cannot be used after SIGKILL: %s" % pr["panic"],
                          {"component": "Kill", "case": case, "acked": len(obs), "pend": pend})
            continue
        for a, o in zip(pc["acts"], pr["obs"]):
            e = dict(a)
            e.update({k: v for k, v in o.items() if k != "id"})
            ev.append(e)
        metas.append((len(events), len(events) + len(ev), case, len(obs), pend))
        events += ev
        shutil.rmtree(d, ignore_errors=True)
    validate_kill_traces(out, wd, scope, metas, events, ks, "tv_akill", note=shared_ids_note)
    core.log("[C13] S/alloc: %d kills (%d with a call in flight, %d of them the first call on a name = inside an allocation), "
             "%d while the database was being opened; %d new names registered after the kills, %d events validated by "
             "Trace_Store; sequence takes %.2f ms" % (
                 ks["kills"], ks["midrun"], ks["in_alloc"], ks["in_open"], ks["fresh"], ks["events"], full * 1000))
    if runs and len(out.cov["samples"]) < 7:
        case, obs, pend, d = runs[-1]
        out.sample({"allocation_kill": {"acknowledged_calls": len(obs), "in_flight": pend,
                                        "after_reopen": post_cases[-1]["acts"][:8]}})
    return ks


# ------------------------------------------------------------------------------------------ concurrent registration

def concurrent_runs(out, wd, rng, tier):
    """Several node stores of ONE plane register disjoint fresh names at the same time from different threads
    (harness: run_concurrent), the plane is closed and reopened after every round, a further agent registers
    NEW names and writes them, the round's names are read back.  The concurrent calls touch disjoint items, so
    their completion order is a history of Store.tla; TLC (Trace_Store.tla) decides the whole history:
    identifiers stable and distinct, the new items empty until written, nobody else's data touched."""
    quick = tier == "quick"
    ndb = 3 if quick else 12
    threads, rounds, per, fresh = 4, (8 if quick else 16), 8, 3
    scope = (threads + 1, max(rounds * per, rounds * fresh), 1, 2)
    cases = []
    for j in range(ndb):
        cfg = concretise(rng, (threads + 1, 1, 1, 2), "rocks", "fresh", 0, tier, None)
        cfg["names"], cfg["keys"] = [[] for _ in range(threads + 1)], []
        cfg["prealloc"] = rng.choice([0, 3, 254])
        cfg["concurrent"] = {"threads": threads, "rounds": rounds, "per_round": per, "fresh": fresh,
                             "name_prefixes": rng.sample(["i", "lane", "", "\u00fc", "x ", "counter", "a\u0000", "lane/".replace("/", "_")], threads + 1)}
        cases.append({"id": "conc%d" % j, "cfg": cfg, "acts": []})
    t0 = time.time()
    res = harness_parallel([[c] for c in cases], wd, "conc")
    cs = {"databases": ndb, "threads": threads, "rounds": rounds, "registrations": 0, "events": 0, "validated": 0}
    todo = []
    for c, (r,) in zip(cases, res):
        if r.get("panic"):
            out.violation("concurrent registration on the RocksDB store: %s" % r["panic"], {"component": "Concurrent", "case": c})
            continue
        ev = [{"k": "reset"}] + r["obs"]
        cs["registrations"] += sum(1 for e in ev if e.get("k") == "idfor")
        todo.append((c, ev))
    n = 0
    while todo:
        # one TLC run for all histories (reset events separate them); after a rejection the rest is still decided
        n += 1
        allev = [e for _, ev in todo for e in ev]
        v = core.trace_validate("Trace_Store", allev, os.path.join(wd, "tv_conc%d" % n), constants=consts(scope, crash=True), timeout=900)
        if v["accepted"]:
            cs["events"] += v["total"]
            cs["validated"] += len(todo)
            break
        m, off, bi = v["matched"], 0, 0
        for bi, (_, ev) in enumerate(todo):
            if off <= m < off + len(ev):
                break
            off += len(ev)
        c, ev = todo[bi]
        cs["validated"] += bi
        cs["events"] += m
        m -= off
        seen = {}
        for e in ev[:m + 1]:
            if "rid" in e and "i" in e:
                seen.setdefault(e["rid"], set()).add((e["a"], e["i"]))
        dup = {rid: sorted(x) for rid, x in seen.items() if len(x) > 1}
        out.violation("after %d threads registered names concurrently and the plane was reopened, the RocksDB store is not the "
                      "state Store.tla allows: event %s rejected%s" % (
                          threads, json.dumps(ev[m] if 0 <= m < len(ev) else None),
                          (" [raw identifiers handed to two names: %s]" % json.dumps(dup)) if dup else ""),
                      {"component": "Trace_Store", "scope": list(scope), "trace": ev[:m + 1], "cfg": c["cfg"]})
        todo = todo[bi + 1:]
    core.log("[C13] concurrent: %d databases x %d rounds x %d threads, %d registrations, %d events validated by Trace_Store, %.1fs" % (
        ndb, rounds, threads, cs["registrations"], cs["events"], time.time() - t0))
    if res and len(out.cov["samples"]) < 8 and "obs" in res[0][0]:
        out.sample({"concurrent_registration": res[0][0]["obs"][:6]})
    return cs


# ------------------------------------------------------------------------------------------ concurrent registration + SIGKILL

def concurrent_kill_runs(out, wd, rng, n, threads=32):
    """NOT part of the tiers.  Triage aid for the Steps_Store observation (two callers + kill): many threads register names of their
    own agents in a tight loop, the process is SIGKILLed, the parent reopens, re-resolves the newest names of
    every thread, registers new names with a further agent, writes them and reads the others.  The history
    restricted to those items is decided by Trace_Store."""
    import subprocess as sp
    scope = (threads + 1, 6, 1, 2)
    ck = {"kills": 0, "rejected": 0, "events": 0, "registrations": 0}
    todo = []
    for j in range(n):
        d = os.path.join(wd, "ckill%d" % j)
        shutil.rmtree(d, ignore_errors=True)
        os.makedirs(os.path.join(d, "ack"))
        cfg = concretise(rng, (threads + 1, 1, 1, 2), "rocks", "fresh", 0, "quick", "plain")
        cfg.update(threads=threads, prealloc=rng.choice([0, 254]), name_prefixes=["n%d_" % a for a in range(threads + 1)])
        cf = os.path.join(d, "case.json")
        json.dump({"cfg": cfg}, open(cf, "w"))
        p = sp.Popen([core.harness_bin("store"), "cchild", os.path.join(d, "db"), os.path.join(d, "ack"), cf],
                     stdin=sp.PIPE, stdout=sp.PIPE, stderr=sp.PIPE)
        try:
            if p.stdout.readline().strip() != b"READY":
                raise core.ToolError("cchild did not start: %r" % p.stderr.read()[-1500:])
            p.stdin.write(b"GO\n")
            p.stdin.flush()
            time.sleep(rng.uniform(0.002, 0.012))
            os.kill(p.pid, signal.SIGKILL)
        finally:
            try:
                p.kill()
            except OSError:
                pass
            p.wait()
            for f in (p.stdin, p.stdout, p.stderr):
                f.close()
        ck["kills"] += 1
        ev = [{"k": "reset"}]
        names = [[] for _ in range(threads + 1)]
        for a in range(1, threads + 1):
            lines = []
            fp = os.path.join(d, "ack", "t%d" % a)
            if os.path.exists(fp):
                raw = open(fp, "rb").read()
                for ln in raw.split(b"\n")[:-1]:            # the piece behind the last newline is torn or empty
                    x = ln.split()
                    if len(x) == 2:
                        lines.append((int(x[0]), int(x[1])))
            ck["registrations"] += len(lines)
            last = lines[-1][0] if lines else 0
            picked = [i for i in (last - 1, last, last + 1) if i >= 1]     # two newest acknowledged + the one in flight
            names[a - 1] = ["n%d_%d" % (a - 1, i) for i in picked]
            rid = dict(lines)
            for sym, i in enumerate(picked, 1):
                if i in rid:
                    ev.append({"k": "idfor", "a": a, "i": sym, "rid": rid[i], "r": "ok"})
        na = threads + 1
        names[na - 1] = ["n%d_%d" % (na - 1, i) for i in range(1, 7)]
        ev.append({"k": "crash"})
        acts = []
        for a in range(1, threads + 1):
            acts += [{"k": "idfor", "a": a, "i": sym} for sym in range(1, len(names[a - 1]) + 1)]
        for i in range(1, 7):
            acts += [{"k": "get", "a": na, "i": i}, {"k": "put", "a": na, "i": i, "v": 1 + i % 2}]
        for rnd in range(2):
            for a in range(1, threads + 1):
                acts += [{"k": "get", "a": a, "i": sym} for sym in range(1, len(names[a - 1]) + 1)]
            acts += [{"k": "get", "a": na, "i": i} for i in range(1, 7)]
            if rnd == 0:
                acts.append({"k": "reopen"})
        pcfg = {k: v for k, v in cfg.items() if k not in ("prealloc", "threads", "name_prefixes")}
        pcfg.update(db="at", path=os.path.join(d, "db"), names=names, keys=["00"])
        todo.append((d, ev, {"id": "cpost%d" % j, "cfg": pcfg, "acts": acts}))
    groups = [g for g in ([t[2] for t in todo][x::4] for x in range(4)) if g]
    res = harness_parallel(groups, wd, "cpost")
    post = [None] * len(todo)
    for x, gr in enumerate(res):
        post[x::4] = gr
    for (d, ev, pc), pr in zip(todo, post):
        if pr.get("panic"):
            ck["rejected"] += 1
            out.notes.append("concurrent kill: harness/store panic after the kill: %s" % pr["panic"])
            continue
        for a, o in zip(pc["acts"], pr["obs"]):
            e = dict(a)
            e.update({k: v for k, v in o.items() if k != "id"})
            ev.append(e)
        v = core.trace_validate("Trace_Store", ev, os.path.join(wd, "tv_ck"), constants=consts(scope, crash=True), timeout=600)
        if v["accepted"]:
            ck["events"] += v["total"]
        else:
            ck["rejected"] += 1
            ck.setdefault("examples", []).append({"rejected": ev[v["matched"]], "trace_tail": ev[max(0, v["matched"] - 3):v["matched"]]})
            ck.setdefault("traces", []).append(ev)
        shutil.rmtree(d, ignore_errors=True)
    return ck


# ------------------------------------------------------------------------------------------ replay

def replay(path, out):
    wd = core.workdir("C13_replay")
    obj = json.load(open(path))["replay"]
    comp = obj.get("component")
    if comp in ("Kill", "Trace_Store"):
        scope = tuple(obj["scope"]) if "scope" in obj else (2, 2, 2, 2)
        ev = obj["trace"]
        if ev and ev[0].get("k") != "reset":
            print("(partial trace window; shown, not re-validated)")
            print(json.dumps(ev, indent=1)[:6000])
            return 0
        res = core.trace_validate("Trace_Store", ev, os.path.join(wd, "tv"), constants=consts(scope, crash=True))
        print("Trace_Store verdict on the recorded trace:", json.dumps(res))
        if not res["accepted"]:
            print("rejected event:", json.dumps(ev[res["matched"]]))
            print("VIOLATION property=C13 replay=%s" % path)
            return 1
        return 0
    cases = obj["cases"]
    results = harness(cases, wd, "replay")
    st = {"cases": 0, "steps": 0, "conform": 0, "rejected": 0, "known": 0}
    judge(out, cases[-1:], results[-1:], st)
    c, r = cases[-1], results[-1]
    d = None if r.get("panic") is None and rp.first_diff(c["acts"], r.get("obs", []), INPUT_KEYS, IGNORE_OBS) is None else "x"
    print("case %s on %s: %s" % (c["id"], c["cfg"]["store"], "conforms to Store.tla" if d is None else "diverges"))
    for k in out.known:
        print("KNOWN-FINDING: property=C13 %s" % k)
    if out.violations:
        print("   " + out.violations[0][0][:1500])
        print("VIOLATION property=C13 replay=%s" % path)
        return 1
    return 0

"""K-level check of the server runtime's agent management (part of C18: which agent instance an envelope reaches).

Specifications: specs/ServerPlane.tla (mechanism M of server/swimos_server_app/src/server/runtime/mod.rs - accept,
FindRoute / Agents::resolve_agent / Routes::find_route / attach_agent / AgentStopped / remove_agent / shutdown - plus the
part of swimos_remote's incoming task that decides where an envelope goes, with P1-P5 as invariants and action
properties), specs/MC_ServerPlane.tla (route tables, settled exploration, graph dump), specs/Trace_ServerPlane.tla (P
only, over recorded executions).

B3  TLC checks P1 (one live instance per node URI), P2 (right instance: first matching route, unapply's parameters,
    nothing travels to another node), P3 (no route -> node-not-found once, nothing started), P4 (nothing lost but what was
    in flight to a stopping instance; a dead instance receives nothing; a remote is closed only by its peer / the
    shutdown), P5 (shutdown stops every instance and closes every remote) on every interleaving of the environment
    (connect, send, disconnect, inactivity, agent failure, held termination, shutdown) with the server's steps at small
    scopes, for route tables with / without overlap.  Negative controls: the "start if none is registered" check split
    from the registration must break P1; without the excuse for the open finding KS1 the model must break P4.
B1  the settled state graph of M (the environment moves when the system is quiet, or writes a burst of envelopes back to
    back) is dumped for focused scopes; a transition cover + seeded random walks become scripts that run on the REAL
    server task (harness/h_remote/src/bin/server.rs: SwimServer::run over in-memory duplex sockets, test agents that log
    which instance got what).  Every execution must be a behaviour of M: the set of model states compatible with what was
    observed so far is tracked through the graph (per group of environment moves the multiset of observable events must
    be producible by some interleaving of M's steps).
B2  executions that are not behaviours of M, and the directed scenarios (slow subscriber, agent initialisation failure,
    exact-instant sends), are judged by Trace_ServerPlane.tla (P only): accepted -> MODEL-DRIFT note, rejected -> VIOLATION
    unless the rejection has exactly the shape of an open finding of known_findings/KSERVER.json.
"""
import collections, concurrent.futures as cf, json, os, random, re, shutil, subprocess, time
from vlib import core

PROP = "C18"
ENV_KINDS = {"connect", "send", "disconnect", "timeout", "fail", "release", "shutdown"}
URI_TEXT = {"ax": "/a/x", "ay": "/a/y", "b": "/b", "c": "/c", "a": "/a", "axz": "/a/x/z"}
URI_NAME = {v: k for k, v in URI_TEXT.items()}
TABLES = {"T1": ["/a/:id", "/b"], "T2": ["/b", "/a/:id"], "T3": ["/:p/:q", "/b"]}
INVS = ["TypeOK", "P1_OneLive", "P2_RightInstance", "P4_DeadGetsNothing", "P3_Unrouted", "P4_NoLoss", "ClosedOnlyWhen", "P5_Shutdown"]
PROPS = ["P1_StartOnlyIfNone", "P3_NotFound", "P3_OnlyUnrouted"]
INACTIVE_MS = 60000


def tset(xs):
    return "{" + ", ".join(('"%s"' % x) if isinstance(x, str) else str(x) for x in xs) + "}"


def mc_cfg(table="T1", uris=("ax", "ay", "c"), remotes=(1, 2), ops=("link", "command"), maxinst=2, maxsend=3, maxburst=2,
           persist=True, hold=False, atomic=True, findings=("KS1",), invs=(), props=(), constraints=("Bound",), actcons=(),
           view=None, spec=None):
    b = lambda x: "TRUE" if x else "FALSE"
    t = ("SPECIFICATION %s\n" % spec) if spec else "INIT Init\nNEXT Next\n"
    t += "CONSTANTS\n  Remotes = %s\n  URIs = %s\n  Ops = %s\n  MaxInst = %d\n  MaxSend = %d\n  MaxBurst = %d\n" % (
        tset(remotes), tset(uris), tset(ops), maxinst, maxsend, maxburst)
    t += "  Persist = %s\n  Hold = %s\n  AtomicResolve = %s\n  Findings = %s\n  Table = \"%s\"\n" % (
        b(persist), b(hold), b(atomic), tset(findings), table)
    t += "  Routes <- MCRoutes\n  Segs <- MCSegs\n"
    for i in invs:
        t += "INVARIANT %s\n" % i
    for p in props:
        t += "PROPERTY %s\n" % p
    for c in constraints:
        t += "CONSTRAINT %s\n" % c
    for c in actcons:
        t += "ACTION_CONSTRAINT %s\n" % c
    if view:
        t += "VIEW %s\n" % view
    t += "CHECK_DEADLOCK FALSE\n"
    return t


# ----------------------------------------------------------------------------- plans

def b3_plan(tier, findings):
    f = tuple(findings)
    if tier == "quick":
        return [
            ("race-1node", dict(uris=("ax",), remotes=(1, 2), ops=("link", "command"), maxsend=2, findings=f)),
            ("route-1remote", dict(uris=("ax", "ay", "c"), remotes=(1,), ops=("sync", "command"), maxsend=2, findings=f)),
            ("hold-unrouted", dict(uris=("ax", "c"), remotes=(1, 2), ops=("link", "command"), maxsend=2, hold=True, persist=False, findings=f)),
            ("overlap", dict(table="OV1", uris=("ax", "ay"), remotes=(1,), ops=("command",), maxsend=2, findings=f)),
        ]
    return [
        ("race-1node", dict(uris=("ax",), remotes=(1, 2), ops=("link", "command"), maxsend=3, findings=f)),
        ("route-1remote", dict(uris=("ax", "ay", "c"), remotes=(1,), ops=("link", "command"), maxsend=3, findings=f)),
        ("two-remotes", dict(uris=("ax", "ay", "c"), remotes=(1, 2), ops=("link", "command"), maxsend=2, findings=f)),
        ("hold-allops", dict(uris=("ax", "c"), remotes=(1, 2), ops=("sync", "unlink", "command"), maxsend=2, hold=True, findings=f)),
        ("overlap-1", dict(table="OV1", uris=("ax", "ay"), remotes=(1, 2), ops=("command", "link"), maxsend=2, findings=f)),
        ("overlap-2", dict(table="OV2", uris=("ax", "ay"), remotes=(1, 2), ops=("command", "link"), maxsend=2, findings=f)),
        ("order-T2", dict(table="T2", uris=("ax", "b", "a"), remotes=(1,), ops=("command", "sync"), maxsend=3, findings=f)),
        ("params-T3", dict(table="T3", uris=("ax", "ay", "axz"), remotes=(1,), ops=("command", "sync"), maxsend=3, findings=f)),
        ("three-remotes", dict(uris=("ax",), remotes=(1, 2, 3), ops=("command",), maxsend=3, persist=False, findings=f)),
    ]


def control_plan():
    small = dict(uris=("ax",), remotes=(1, 2), ops=("command",), maxsend=2)
    return [
        ("nonatomic-resolve", dict(small, atomic=False, invs=["P1_OneLive"]), "P1_OneLive"),
        ("nonatomic-resolve-action", dict(small, atomic=False, props=["P1_StartOnlyIfNone"]), "P1_StartOnlyIfNone"),
        ("without-KS1-closed", dict(small, findings=(), invs=["ClosedOnlyWhen"]), "ClosedOnlyWhen"),
        ("without-KS1-loss", dict(small, findings=(), invs=["P4_NoLoss"]), "P4_NoLoss"),
    ]


def dump_plan(tier):
    """(name, cfg keywords, harness table, random walks, walk depth)"""
    if tier == "quick":
        return [
            ("g-race", dict(uris=("ax",), remotes=(1, 2), ops=("link", "command"), maxburst=2), 60, 30),
            ("g-race-hold", dict(uris=("ax",), remotes=(1, 2), ops=("sync", "command"), maxburst=2, hold=True, persist=False), 60, 30),
            ("g-route", dict(uris=("ax", "ay", "c"), remotes=(1,), ops=("command", "link"), maxburst=2, maxinst=1), 40, 30),
        ]
    return [
        ("g-race", dict(uris=("ax",), remotes=(1, 2), ops=("link", "command"), maxburst=2), 400, 40),
        ("g-race-hold", dict(uris=("ax",), remotes=(1, 2), ops=("link", "command"), maxburst=2, hold=True), 400, 40),
        ("g-race-sync", dict(uris=("ax",), remotes=(1, 2), ops=("sync", "unlink", "command"), maxburst=2, persist=False), 400, 40),
        ("g-route", dict(uris=("ax", "ay", "c"), remotes=(1,), ops=("command", "sync"), maxburst=2), 400, 40),
        ("g-two-unrouted", dict(uris=("ax", "c"), remotes=(1, 2), ops=("link", "unlink", "command", "sync"), maxburst=1), 300, 40),
        ("g-two-nodes-hold", dict(uris=("ax", "ay"), remotes=(1, 2), ops=("command",), maxburst=2, hold=True, maxinst=1), 400, 40),
        ("g-order-T2", dict(table="T2", uris=("ax", "b", "a"), remotes=(1,), ops=("command", "link"), maxburst=2, maxinst=1), 200, 30),
        ("g-params-T3", dict(table="T3", uris=("ax", "ay", "axz"), remotes=(1,), ops=("command", "link"), maxburst=2, maxinst=1), 200, 30),
    ]


# ----------------------------------------------------------------------------- the dumped graph

class SGraph:
    """Settled state graph of M: environment edges (keyed by the move) and system edges (with what they make observable)."""

    def __init__(self, edges, inits):
        self.ids = {}
        self.env = collections.defaultdict(dict)      # s -> {canon(env act): t}
        self.sys = collections.defaultdict(list)      # s -> [(edge id, outputs (tuple of canonical strings), kf, t)]
        self.can = {}                                 # state -> the system can still move there
        self.all = collections.defaultdict(list)      # s -> [(act, t)] for path generation
        self.n_edges = 0
        self.edge_kind = []
        seen = set()
        for e in edges:
            s, t, a = self.sid(e["s"]), self.sid(e["t"]), e["a"]
            self.can[t] = bool(e["c"])
            key = (s, core.canon(a), t)
            if key in seen:
                continue
            seen.add(key)
            eid = self.n_edges
            self.n_edges += 1
            self.edge_kind.append(a["k"])
            self.all[s].append((eid, a, t))
            if a["k"] in ENV_KINDS:
                self.env[s][core.canon(env_key(a))] = (eid, t)
            else:
                outs = tuple(sorted(core.canon(norm_model_out(o)) for o in a.get("o", []) if not o.get("opt")))
                opts = tuple(sorted(core.canon(norm_model_out(o)) for o in a.get("o", []) if o.get("opt")))
                self.sys[s].append((eid, outs, a.get("kf") or "", t, opts))
        self.inits = [self.sid(i["s"]) for i in inits]
        for i in self.inits:
            self.can.setdefault(i, False)

    def sid(self, text):
        i = self.ids.get(text)
        if i is None:
            i = len(self.ids)
            self.ids[text] = i
        return i

    def paths(self, rng, walks, depth):
        """transition cover (every edge on some path from the initial state) + seeded random walks; as lists of acts"""
        parent = {}
        dq = collections.deque()
        for i in self.inits:
            parent[i] = None
            dq.append(i)
        while dq:
            s = dq.popleft()
            for (eid, a, t) in self.all.get(s, ()):
                if t not in parent:
                    parent[t] = (s, a)
                    dq.append(t)

        def path_to(n):
            acts = []
            while parent[n] is not None:
                n, a = parent[n]
                acts.append(a)
            acts.reverse()
            return acts
        uncovered = {s: list(range(len(self.all[s]))) for s in self.all if s in parent}
        order = sorted(uncovered, key=lambda s: len(path_to(s)))
        out = []
        for start in order:
            while uncovered[start]:
                acts = path_to(start)
                cur = start
                steps = 0
                while uncovered.get(cur) and steps < 80:
                    i = uncovered[cur].pop()
                    eid, a, t = self.all[cur][i]
                    acts.append(a)
                    cur = t
                    steps += 1
                # look behind the last edge: a few seeded steps
                for _ in range(6):
                    nxt = self.all.get(cur)
                    if not nxt:
                        break
                    eid, a, cur = nxt[rng.randrange(len(nxt))]
                    acts.append(a)
                out.append(acts)
        for _ in range(walks):
            cur = self.inits[0]
            acts = []
            for _ in range(depth * 4):
                nxt = self.all.get(cur)
                if not nxt:
                    break
                eid, a, cur = nxt[rng.randrange(len(nxt))]
                acts.append(a)
                if sum(1 for x in acts if x["k"] in ENV_KINDS) >= depth:
                    break
            out.append(acts)
        return out


def env_key(a):
    return {k: a[k] for k in ("k", "r", "u", "op") if k in a}


def norm_model_out(o):
    o = dict(o)
    o.pop("opt", None)
    if o.get("k") == "agent_run" and isinstance(o.get("params"), list):
        o["params"] = {}
    return o


def groups_of(acts):
    """project a path of M onto the environment's moves; consecutive sends with no step of the system between them are a burst"""
    groups = []
    prev_env_send = False
    for a in acts:
        if a["k"] in ENV_KINDS:
            if a["k"] == "send" and prev_env_send:
                groups[-1].append(env_key(a))
            else:
                groups.append([env_key(a)])
            prev_env_send = a["k"] == "send"
        else:
            prev_env_send = False
    return groups


# ----------------------------------------------------------------------------- scripts for the harness

def harness_cfg(kw):
    return {"routes": TABLES[kw.get("table", "T1")], "persist": bool(kw.get("persist", True)), "hold": bool(kw.get("hold", False)),
            "inactive_ms": INACTIVE_MS, "attach_ms": 24 * 3600 * 1000, "table": kw.get("table", "T1")}


def concretise(groups):
    """model moves -> harness acts (node URIs as text, a unique body per command)"""
    out = []
    e = 0
    for g in groups:
        hg = []
        for a in g:
            h = dict(a)
            if "u" in h:
                h["u"] = URI_TEXT[h["u"]]
            if h["k"] == "send" and h["op"] == "command":
                e += 1
                h["e"] = e
            hg.append(h)
        out.append(hg)
    return out


_TAG = re.compile(r'^"(.*)#(\d+):.*"$')


def writer_of(body, uri_text):
    """the instance named in a lane state `"<uri>#<n>:<command body>"`; "0" for the initial state"""
    if body in (None, '""'):
        return "0"
    m = _TAG.match(body)
    if m and m.group(1) == uri_text:
        return m.group(2)
    return "?" + str(body)


def norm_real(ev):
    """one logged event of the harness in the vocabulary of M's outputs; None: not an observation M speaks about"""
    k = ev["k"]
    name = lambda u: URI_NAME.get(u, u)
    if k in ENV_KINDS or k in ("rt_open", "rt_end", "settle", "sent_at", "send_at", "advance", "pause", "resume", "hold", "finish", "start_agent"):
        return None
    if k == "agent_run":
        return {"k": k, "u": name(ev["u"]), "route": ev["route"], "params": ev["params"], "n": ev["n"]}
    if k == "started":
        w = writer_of(ev.get("restored"), ev["u"])
        return {"k": k, "u": name(ev["u"]), "n": ev["n"], "restored": int(w) if w.isdigit() else w}
    if k == "deliver":
        return {"k": k, "u": name(ev["u"]), "n": ev["n"], "op": ev["op"]}
    if k in ("stopping", "stopped", "failed"):
        return {"k": k, "u": name(ev["u"]), "n": ev["n"]}
    if k == "recv":
        m = ev["msg"]
        kind, body = m.get("kind"), m.get("body", "")
        if m.get("lane") != "lane":
            return dict(ev)
        if kind == "event":
            b = writer_of(body, m.get("node"))
        elif kind == "unlinked":
            b = {"@nodeNotFound": "nf", '"Link closed."': "closed", "": "stop"}.get(body, "?" + body)
        else:
            b = body
        return {"k": "recv", "r": ev["r"], "kind": kind, "u": name(m.get("node")), "b": b}
    if k == "closed":
        return {"k": k, "r": ev["r"], "code": ev["code"]}
    if k == "eof":
        return {"k": k, "r": ev["r"]}
    if k == "server_end":
        return {"k": k} if ev.get("ok") else dict(ev)
    return dict(ev)     # anything else (skip, peer_write_failed, lane_error, ...) is no behaviour of M


def observed_groups(res):
    return [[x for x in (norm_real(e) for e in g["ev"]) if x is not None] for g in res.get("obs", [])], \
           [x for x in (norm_real(e) for e in res.get("end", [])) if x is not None]


# ----------------------------------------------------------------------------- is the execution a behaviour of M?

def closure(G, starts, observed, final=False):
    """states of M, settled, reachable from `starts` by steps of the system that together make exactly `observed` observable.
    starts: {state: (kf set, edge set)}.  final: the end of the script - shutdown and releases are silent moves of the harness.
    Returns ({state: (kf, edges)}, beyond_bound)."""
    want = collections.Counter(core.canon(o) for o in observed)
    out = {}
    beyond = False
    seen = set()
    stack = [(s, tuple(sorted(want.items())), kf, ed) for s, (kf, ed) in starts.items()]
    while stack:
        s, rem_t, kf, ed = stack.pop()
        key = (s, rem_t, kf)
        if key in seen:
            continue
        seen.add(key)
        rem = dict(rem_t)
        moves = G.sys.get(s, [])
        if not moves:
            if G.can.get(s):
                beyond = True            # the model's bound (MaxInst) stops it here: nothing can be said beyond
                continue
            silent = []
            if final:
                for ck, (eid, t) in G.env.get(s, {}).items():
                    if json.loads(ck)["k"] in ("shutdown", "release"):
                        silent.append((eid, t))
            if silent:
                for eid, t in silent:
                    stack.append((t, rem_t, kf, ed | {eid}))
                continue
            if not rem:
                old = out.get(s)
                out[s] = (kf, ed) if old is None else (old[0] & kf, old[1] | ed)
            continue
        for eid, outs, k, t, opts in moves:
            r2 = dict(rem)
            ok = True
            for o in outs:
                c = r2.get(o, 0)
                if c <= 0:
                    ok = False
                    break
                if c == 1:
                    del r2[o]
                else:
                    r2[o] = c - 1
            if not ok:
                continue
            # optional observations (may or may not reach the peer): each is taken if it was observed
            for o in opts:
                c = r2.get(o, 0)
                if c == 1:
                    del r2[o]
                elif c > 1:
                    r2[o] = c - 1
            stack.append((t, tuple(sorted(r2.items())), kf | ({k} if k else frozenset()), ed | {eid}))
    return out, beyond


def include(G, groups, obs_groups, obs_end, script_done=True):
    """track the model states compatible with the observations.  Returns dict(status, at, kf, edges):
       status: "behaviour" | "diverges" (not a behaviour of M from group `at`) | "bound" (left the modelled scope at `at`)
               | "disabled" (a move of the script was not possible in the model state(s) reached: script artefact)"""
    S = {i: (frozenset(), frozenset()) for i in G.inits}
    for gi, g in enumerate(groups):
        S1 = {}
        for s, (kf, ed) in S.items():
            cur, ok, e2 = s, True, set(ed)
            for a in g:
                nxt = G.env.get(cur, {}).get(core.canon(a))
                if nxt is None:
                    ok = False
                    break
                e2.add(nxt[0])
                cur = nxt[1]
            if ok:
                S1[cur] = (kf, frozenset(e2))
        if not S1:
            return {"status": "disabled", "at": gi, "kf": merge_kf(S), "edges": merge_edges(S)}
        if gi >= len(obs_groups):
            return {"status": "diverges", "at": gi, "kf": merge_kf(S), "edges": merge_edges(S)}
        S2, beyond = closure(G, S1, obs_groups[gi])
        if not S2:
            return {"status": "bound" if beyond else "diverges", "at": gi, "kf": merge_kf(S), "edges": merge_edges(S)}
        S = S2
    if script_done:
        S2, beyond = closure(G, S, obs_end, final=True)
        if not S2:
            return {"status": "bound" if beyond else "diverges", "at": len(groups), "kf": merge_kf(S), "edges": merge_edges(S)}
        S = S2
    return {"status": "behaviour", "at": len(groups), "kf": merge_kf(S), "edges": merge_edges(S)}


def merge_kf(S):
    """findings hit for sure: on every compatible path"""
    sets = [kf for (kf, ed) in S.values()]
    return sorted(frozenset.intersection(*sets)) if sets else []


def merge_edges(S):
    out = set()
    for (kf, ed) in S.values():
        out |= ed
    return out


# ----------------------------------------------------------------------------- harness

HB = {"bin": None}


def build_server_harness(wd):
    """h_remote/server needs the optional dependency on swimos_server_app (feature of the same name, as h_core/route)."""
    core.ensure_lockfile()
    t0 = time.time()
    p = subprocess.run(["cargo", "build", "--offline", "-p", "h_remote", "--bin", "server", "--features", "swimos_server_app"],
                       cwd=core.HARNESS, env=core.cargo_env(), stdout=subprocess.PIPE, stderr=subprocess.STDOUT, text=True, timeout=3600)
    if p.returncode != 0:
        raise core.ToolError("cargo build -p h_remote --bin server --features swimos_server_app failed:\n%s" % "\n".join(p.stdout.splitlines()[-60:]))
    dst = os.path.join(wd, "server_bin")
    shutil.copy2(core.harness_bin("server"), dst)
    HB["bin"] = dst
    core.log("[build] h_remote server --features swimos_server_app ok in %.1fs" % (time.time() - t0))


def run_cases(cases, wd, tag, jobs=4):
    """run harness cases (in `jobs` parallel processes); results in case order"""
    if not cases:
        return []
    chunks = [cases[i::jobs] for i in range(jobs)]

    def one(ix):
        ch = chunks[ix]
        if not ch:
            return []
        inp, outp = os.path.join(wd, "%s.%d.in.ndjson" % (tag, ix)), os.path.join(wd, "%s.%d.out.ndjson" % (tag, ix))
        core.write_ndjson(inp, ch)
        with open(inp) as fin, open(outp, "w") as fout:
            p = subprocess.run([HB["bin"]], stdin=fin, stdout=fout, stderr=subprocess.PIPE, text=True, timeout=3000,
                               env=core.coverage_env(dict(os.environ, RUST_BACKTRACE="0"), "server"))
        if p.returncode != 0:
            raise core.ToolError("harness server exited %s:\n%s" % (p.returncode, p.stderr[-3000:]))
        res = core.read_ndjson(outp)
        if len(res) != len(ch):
            raise core.ToolError("harness server answered %d of %d cases" % (len(res), len(ch)))
        return res
    with cf.ThreadPoolExecutor(jobs) as ex:
        parts = list(ex.map(one, range(jobs)))
    out = [None] * len(cases)
    for ix, part in enumerate(parts):
        for j, r in enumerate(part):
            out[ix + j * jobs] = r
    return out
